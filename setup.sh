#!/bin/bash
# Builds the framework offline from files on disk: Gen tables, the Lean library + driver, vh, complgen.
set -e
cd "$(dirname "$0")"
export CARGO_NET_OFFLINE=true
mkdir -p .cache work evidence replays
python3 tools/translate.py || echo "setup: translator refused (a check will report it)"
(cd lean && lake build Complgen cgdriver) || echo "setup: lake build incomplete (a check will report it)"
V=$(pwd)
python3 -c "
import sys; sys.path.insert(0, '$V')
from vlib import core
ok, log = core.impl_build()
print('setup: cargo builds', 'ok' if ok else 'FAILED (a check will report it)'); print(log[-1500:])"
echo "setup: done"
