#!/bin/bash
# Builds the framework offline from files on disk: Gen tables, the Lean library + driver, vh, complgen.
set -e
cd "$(dirname "$0")"
export CARGO_NET_OFFLINE=true
mkdir -p .cache work evidence replays
python3 tools/translate.py || echo "setup: translator refused (a check will report it)"
(cd lean && lake build Complgen cgdriver) || echo "setup: lake build incomplete (a check will report it)"
cp /repo/Cargo.lock harness/Cargo.lock
(cd /repo && CARGO_TARGET_DIR=/verif/.cache/repo-target cargo build --offline --features verif)
(cd harness && CARGO_TARGET_DIR=/verif/.cache/vh-target cargo build --offline)
echo "setup: done"
