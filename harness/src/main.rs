// vh: runs the real complgen library in-process on each input line and dumps every stage in a
// canonical text form (see /verif/DESIGN.md, Appendix B).
//
// Input lines:   <id> <shell> <hex of grammar bytes> [flags]
//   flags: a comma separated subset of  tree,valid,rx,dfa,script,dot   (default: all but script,dot)
// Output: one JSON object per line.  Every string that originates in the grammar is hex-encoded.
use std::fmt::Write as _;
use std::io::{BufRead, Write};
use std::panic::{AssertUnwindSafe, catch_unwind};

use complgen::check::ValidGrammar;
use complgen::dfa::{DFA, Inp};
use complgen::parse::{Expr, ExprId, Grammar, HumanSpan, Shell, Statement};
use complgen::regex::{Regex, RegexInput, RegexInternPool, RegexNode};
use complgen::{Error, bash, fish, pwsh, zsh};

fn hex(s: &str) -> String {
    let mut out = String::with_capacity(s.len() * 2 + 1);
    if s.is_empty() {
        return "e".to_string();
    }
    for b in s.as_bytes() {
        write!(out, "{:02x}", b).unwrap();
    }
    out
}

fn unhex(s: &str) -> Vec<u8> {
    if s == "e" {
        return vec![];
    }
    (0..s.len() / 2)
        .map(|i| u8::from_str_radix(&s[2 * i..2 * i + 2], 16).unwrap())
        .collect()
}

fn sp(s: &HumanSpan) -> String {
    format!("{}:{}:{}", s.line, s.column_start, s.column_end)
}

fn expr_to_text(arena: &[Expr], id: ExprId, out: &mut String) {
    match &arena[id.0] {
        Expr::Terminal { term, descr, fallback, span } => {
            let d = match descr {
                Some(d) => hex(d),
                None => "-".to_string(),
            };
            write!(out, "T {} {} {} {} ", hex(term), d, fallback, sp(span)).unwrap();
        }
        Expr::NontermRef { nonterm, fallback, span } => {
            write!(out, "N {} {} {} ", hex(nonterm), fallback, sp(span)).unwrap();
        }
        Expr::Command { cmd, zsh_compadd, fallback, span } => {
            write!(out, "C {} {} {} {} ", hex(cmd), *zsh_compadd as u8, fallback, sp(span)).unwrap();
        }
        Expr::Sequence { children, span } => {
            write!(out, "S {} {} ", children.len(), sp(span)).unwrap();
            for c in children {
                expr_to_text(arena, *c, out);
            }
        }
        Expr::Alternative { children, span } => {
            write!(out, "A {} {} ", children.len(), sp(span)).unwrap();
            for c in children {
                expr_to_text(arena, *c, out);
            }
        }
        Expr::Fallback { children, span } => {
            write!(out, "F {} {} ", children.len(), sp(span)).unwrap();
            for c in children {
                expr_to_text(arena, *c, out);
            }
        }
        Expr::Optional { child, span } => {
            write!(out, "O {} ", sp(span)).unwrap();
            expr_to_text(arena, *child, out);
        }
        Expr::Many1 { child, span } => {
            write!(out, "M {} ", sp(span)).unwrap();
            expr_to_text(arena, *child, out);
        }
        Expr::DistributiveDescription { child, descr, span } => {
            write!(out, "D {} {} ", hex(descr), sp(span)).unwrap();
            expr_to_text(arena, *child, out);
        }
        Expr::Subword { root_id, fallback, span } => {
            write!(out, "W {} {} ", fallback, sp(span)).unwrap();
            expr_to_text(arena, *root_id, out);
        }
    }
}

fn grammar_to_text(g: &Grammar) -> String {
    let mut out = String::new();
    write!(out, "G {} ", g.statements.len()).unwrap();
    for st in &g.statements {
        match st {
            Statement::CallVariant { name, name_span, expr } => {
                write!(out, "V {} {} ", hex(name), sp(name_span)).unwrap();
                expr_to_text(&g.arena, *expr, &mut out);
            }
            Statement::NonterminalDefinition(defn) => {
                let (name, span, shell, rhs) = defn.verif_parts();
                match shell {
                    Some((sh, shspan)) => {
                        write!(out, "R {} {} {} {} ", hex(&name), sp(&span), hex(&sh), sp(&shspan)).unwrap()
                    }
                    None => write!(out, "R {} {} - - ", hex(&name), sp(&span)).unwrap(),
                }
                expr_to_text(&g.arena, rhs, &mut out);
            }
        }
    }
    out.trim_end().to_string()
}

fn spans(v: &[HumanSpan]) -> String {
    let items: Vec<String> = v.iter().map(|s| format!("\"{}\"", sp(s))).collect();
    format!("[{}]", items.join(","))
}

fn inp_to_text(inp: &Inp) -> String {
    match inp {
        Inp::Literal { literal, description, fallback_level } => {
            let d = match description {
                Some(d) => hex(d),
                None => "-".to_string(),
            };
            format!("L {} {} {}", hex(literal), d, fallback_level)
        }
        Inp::Subword { subdfa, fallback_level } => format!("W {} {}", subdfa.verif_index(), fallback_level),
        Inp::Command { cmd, fallback_level } => format!("C {} 0 {}", hex(cmd), fallback_level),
        Inp::Compadd { cmd, fallback_level } => format!("C {} 1 {}", hex(cmd), fallback_level),
        Inp::Star => "X".to_string(),
    }
}

fn error_to_json(e: &Error) -> String {
    match e {
        Error::ParseError(s) => format!("{{\"class\":\"ParseError\",\"spans\":{}}}", spans(&[*s])),
        Error::MissingCallVariants => "{\"class\":\"MissingCallVariants\",\"spans\":[]}".to_string(),
        Error::InvalidCommandName(s) => format!("{{\"class\":\"InvalidCommandName\",\"spans\":{}}}", spans(&[*s])),
        Error::VaryingCommandNames(v) => format!("{{\"class\":\"VaryingCommandNames\",\"spans\":{}}}", spans(v)),
        Error::NonterminalDefinitionsCycle(v) => {
            format!("{{\"class\":\"NonterminalDefinitionsCycle\",\"spans\":{}}}", spans(v))
        }
        Error::DuplicateNonterminalDefinition(a, b) => {
            format!("{{\"class\":\"DuplicateNonterminalDefinition\",\"spans\":{}}}", spans(&[*a, *b]))
        }
        Error::UnknownShell(s) => format!("{{\"class\":\"UnknownShell\",\"spans\":{}}}", spans(&[*s])),
        Error::NonCommandSpecialization(s) => {
            format!("{{\"class\":\"NonCommandSpecialization\",\"spans\":{}}}", spans(&[*s]))
        }
        Error::UnboundedMatchable(a, b) => format!("{{\"class\":\"UnboundedMatchable\",\"spans\":{}}}", spans(&[*a, *b])),
        Error::ConflictingDescriptions(path, lit, l, r) => {
            let p: Vec<String> = path.iter().map(|i| format!("\"{}\"", inp_to_text(i))).collect();
            format!(
                "{{\"class\":\"ConflictingDescriptions\",\"spans\":[],\"path\":[{}],\"literal\":\"{}\",\"left\":\"{}\",\"right\":\"{}\"}}",
                p.join(","),
                hex(lit),
                hex(l),
                hex(r)
            )
        }
        Error::SubwordSpaces(a, b, trace) => {
            let mut v = vec![*a, *b];
            v.extend(trace.iter().copied());
            format!("{{\"class\":\"SubwordSpaces\",\"spans\":{}}}", spans(&v))
        }
        Error::AmbiguousDFA(path, inps) => {
            let p: Vec<String> = path.iter().map(|i| format!("\"{}\"", inp_to_text(i))).collect();
            let q: Vec<String> = inps.iter().map(|i| format!("\"{}\"", inp_to_text(i))).collect();
            format!("{{\"class\":\"AmbiguousDFA\",\"spans\":[],\"path\":[{}],\"inputs\":[{}]}}", p.join(","), q.join(","))
        }
        Error::FromUtf8Error(_) => "{\"class\":\"FromUtf8Error\",\"spans\":[]}".to_string(),
        Error::FmtError(_) => "{\"class\":\"FmtError\",\"spans\":[]}".to_string(),
        Error::IoError(_) => "{\"class\":\"IoError\",\"spans\":[]}".to_string(),
    }
}

fn warn_map(m: &ustr::UstrMap<HumanSpan>) -> String {
    let mut items: Vec<(String, String)> = m.iter().map(|(k, v)| (hex(k), sp(v))).collect();
    items.sort();
    let items: Vec<String> = items.iter().map(|(k, v)| format!("[\"{}\",\"{}\"]", k, v)).collect();
    format!("[{}]", items.join(","))
}

fn rxinput_to_text(inp: &RegexInput) -> String {
    match inp {
        RegexInput::Literal { literal, description, fallback_level, span } => {
            let d = match description {
                Some(d) => hex(d),
                None => "-".to_string(),
            };
            format!("L {} {} {} {}", hex(literal), d, fallback_level, sp(span))
        }
        RegexInput::Nonterminal { nonterm, fallback_level, span } => {
            format!("N {} {} {}", hex(nonterm), fallback_level, sp(span))
        }
        RegexInput::Command { cmd, zsh_compadd, fallback_level, span } => {
            format!("C {} {} {} {}", hex(cmd), *zsh_compadd as u8, fallback_level, sp(span))
        }
        RegexInput::Subword { subword_regex_id, fallback_level, span } => {
            format!("W {} {} {}", subword_regex_id.verif_index(), fallback_level, sp(span))
        }
    }
}

fn node_to_text(r: &Regex, id: usize, out: &mut String) {
    match &r.arena[id] {
        RegexNode::Epsilon => out.push_str("E "),
        RegexNode::Terminal(p) | RegexNode::Nonterminal(p) | RegexNode::Command(p) | RegexNode::Subword(p) => {
            write!(out, "P {} ", p).unwrap()
        }
        RegexNode::EndMarker(p) => write!(out, "Z {} ", p).unwrap(),
        RegexNode::Cat(cs) => {
            write!(out, "K {} ", cs.len()).unwrap();
            for c in cs {
                node_to_text(r, c.verif_index(), out);
            }
        }
        RegexNode::Or(cs) => {
            write!(out, "U {} ", cs.len()).unwrap();
            for c in cs {
                node_to_text(r, c.verif_index(), out);
            }
        }
        RegexNode::Star(c) => {
            out.push_str("R ");
            node_to_text(r, c.verif_index(), out);
        }
        RegexNode::Plus(c) => {
            out.push_str("Q ");
            node_to_text(r, c.verif_index(), out);
        }
    }
}

fn nums<T: std::fmt::Display>(v: impl IntoIterator<Item = T>) -> String {
    let items: Vec<String> = v.into_iter().map(|x| x.to_string()).collect();
    format!("[{}]", items.join(","))
}

fn regex_to_json(r: &Regex) -> String {
    let inputs: Vec<String> = r.input_from_position.iter().map(|i| format!("\"{}\"", rxinput_to_text(i))).collect();
    let mut tree = String::new();
    node_to_text(r, r.root_id.verif_index(), &mut tree);
    let follow: Vec<String> = r.verif_followpos().into_iter().map(|(p, f)| format!("[{},{}]", p, nums(f))).collect();
    let (nullable, first, last) = r.verif_nullable_first_last(r.root_id.verif_index());
    format!(
        "{{\"inputs\":[{}],\"end\":{},\"tree\":\"{}\",\"nullable\":{},\"first\":{},\"last\":{},\"follow\":[{}]}}",
        inputs.join(","),
        r.endmarker_position,
        tree.trim_end(),
        nullable,
        nums(first),
        nums(last),
        follow.join(",")
    )
}

fn dfa_to_json(d: &DFA) -> String {
    let inputs: Vec<String> = d.verif_inputs().iter().map(|i| format!("\"{}\"", inp_to_text(i))).collect();
    let mut trans: Vec<String> = vec![];
    for (from, tos) in &d.transitions {
        for (inp, to) in tos {
            trans.push(format!("[{},{},{}]", from, inp.verif_index(), to));
        }
    }
    format!(
        "{{\"start\":{},\"acc\":{},\"inputs\":[{}],\"trans\":[{}]}}",
        d.starting_state,
        nums(d.accepting_states.iter()),
        inputs.join(","),
        trans.join(",")
    )
}

fn subdfas_to_json(d: &DFA) -> String {
    let n = d.subdfas.verif_len();
    let items: Vec<String> = (0..n).map(|i| dfa_to_json(d.subdfas.verif_lookup(i))).collect();
    format!("[{}]", items.join(","))
}

/// pairs of distinct entries of the within-word pool that compare equal with the library's own `==`:
/// whether such a pair is kept apart or merged depends on the hash values of the process
fn pool_eq_pairs(d: &DFA) -> String {
    let n = d.subdfas.verif_len();
    let mut pairs = Vec::new();
    for i in 0..n {
        for j in (i + 1)..n {
            if d.subdfas.verif_lookup(i) == d.subdfas.verif_lookup(j) {
                pairs.push(format!("[{},{}]", i, j));
            }
        }
    }
    format!("[{}]", pairs.join(","))
}

fn hexbytes(b: &[u8]) -> String {
    if b.is_empty() {
        return "e".to_string();
    }
    let mut out = String::with_capacity(b.len() * 2);
    for x in b {
        write!(out, "{:02x}", x).unwrap();
    }
    out
}

fn run_case(shell_name: &str, text: &str, flags: &str) -> String {
    let want = |f: &str| flags.split(',').any(|x| x == f);
    let shell = match shell_name {
        "bash" => Shell::Bash,
        "fish" => Shell::Fish,
        "zsh" => Shell::Zsh,
        "pwsh" => Shell::Pwsh,
        _ => return "\"stage\":\"args\"".to_string(),
    };
    let mut out = String::new();
    let grammar = match Grammar::parse(text) {
        Ok(g) => g,
        Err(e) => {
            write!(out, "\"stage\":\"parse\",\"err\":{}", error_to_json(&e)).unwrap();
            return out;
        }
    };
    if want("tree") {
        write!(out, "\"tree\":\"{}\",", grammar_to_text(&grammar)).unwrap();
    }
    let validated = match ValidGrammar::from_grammar(grammar, shell) {
        Ok(v) => v,
        Err(e) => {
            write!(out, "\"stage\":\"validate\",\"err\":{}", error_to_json(&e)).unwrap();
            return out;
        }
    };
    if want("valid") {
        let mut e = String::new();
        expr_to_text(&validated.arena, validated.expr, &mut e);
        write!(
            out,
            "\"command\":\"{}\",\"valid\":\"{}\",\"undefined\":{},\"unused\":{},\"unused_spec\":{},",
            hex(&validated.command),
            e.trim_end(),
            warn_map(&validated.undefined_nonterminals),
            warn_map(&validated.unused_nonterminals),
            warn_map(&validated.unused_specializations)
        )
        .unwrap();
    }
    let mut pool = RegexInternPool::default();
    let regex = match Regex::from_valid_grammar(&validated, &mut pool) {
        Ok(r) => r,
        Err(e) => {
            write!(out, "\"stage\":\"regex\",\"err\":{}", error_to_json(&e)).unwrap();
            return out;
        }
    };
    if want("rx") {
        let subs: Vec<String> = (0..pool.verif_len()).map(|i| regex_to_json(pool.verif_lookup(i))).collect();
        write!(out, "\"rx\":{},\"subrx\":[{}],", regex_to_json(&regex), subs.join(",")).unwrap();
    }
    if want("dfa") {
        // every within-word regex compiled on its own: raw and minimised automaton
        let mut items: Vec<String> = vec![];
        for i in 0..pool.verif_len() {
            match DFA::from_regex_raw(pool.verif_lookup(i).clone(), &pool) {
                Ok(raw) => {
                    let rawj = dfa_to_json(&raw);
                    let min = raw.minimize();
                    items.push(format!("{{\"raw\":{},\"min\":{}}}", rawj, dfa_to_json(&min)));
                }
                Err(e) => items.push(format!("{{\"err\":{}}}", error_to_json(&e))),
            }
        }
        write!(out, "\"subpairs\":[{}],", items.join(",")).unwrap();
    }
    let mut regex_dot: Vec<u8> = vec![];
    if want("dot") {
        let _ = regex.to_dot(&mut regex_dot, &pool);
    }
    let raw = match DFA::from_regex_raw(regex, &pool) {
        Ok(d) => d,
        Err(e) => {
            write!(out, "\"stage\":\"dfa\",\"err\":{}", error_to_json(&e)).unwrap();
            return out;
        }
    };
    if want("dfa") {
        write!(out, "\"raw\":{},\"subdfas\":{},\"pool_eq\":{},", dfa_to_json(&raw), subdfas_to_json(&raw), pool_eq_pairs(&raw)).unwrap();
    }
    let min = raw.minimize();
    if want("dfa") {
        write!(out, "\"min\":{},", dfa_to_json(&min)).unwrap();
    }
    if want("dot") {
        let array_start = match shell {
            Shell::Bash => bash::ARRAY_START,
            Shell::Fish => fish::ARRAY_START,
            Shell::Zsh => zsh::ARRAY_START,
            Shell::Pwsh => pwsh::ARRAY_START,
        };
        let mut dfa_dot: Vec<u8> = vec![];
        let _ = min.to_dot(&mut dfa_dot, array_start);
        write!(out, "\"regex_dot\":\"{}\",\"dfa_dot\":\"{}\",", hexbytes(&regex_dot), hexbytes(&dfa_dot)).unwrap();
    }
    if let Err(e) = min.check_ambiguity_best_effort() {
        write!(out, "\"stage\":\"ambiguity\",\"err\":{}", error_to_json(&e)).unwrap();
        return out;
    }
    if want("script") {
        let mut buf: Vec<u8> = vec![];
        let r = match shell {
            Shell::Bash => bash::write_completion_script(&mut buf, &validated.command, &min),
            Shell::Fish => fish::write_completion_script(&mut buf, &validated.command, &min),
            Shell::Zsh => zsh::write_completion_script(&mut buf, &validated.command, &min),
            Shell::Pwsh => pwsh::write_completion_script(&mut buf, &validated.command, &min),
        };
        if let Err(e) = r {
            write!(out, "\"stage\":\"emit\",\"err\":{}", error_to_json(&e)).unwrap();
            return out;
        }
        write!(out, "\"script\":\"{}\",", hexbytes(&buf)).unwrap();
    }
    out.push_str("\"stage\":\"ok\"");
    out
}

fn main() {
    std::panic::set_hook(Box::new(|_| {}));
    let stdin = std::io::stdin();
    let stdout = std::io::stdout();
    let mut w = std::io::BufWriter::new(stdout.lock());
    for line in stdin.lock().lines() {
        let line = line.unwrap();
        let parts: Vec<&str> = line.split_whitespace().collect();
        if parts.len() < 3 {
            continue;
        }
        let id = parts[0];
        let shell = parts[1];
        let bytes = unhex(parts[2]);
        let flags = if parts.len() > 3 { parts[3] } else { "tree,valid,rx,dfa" };
        // Announce the case before running it: if the process dies (stack overflow, abort) the
        // orchestrator knows which case killed it.
        writeln!(w, "{{\"begin\":\"{}\"}}", id).unwrap();
        w.flush().unwrap();
        let body = match String::from_utf8(bytes) {
            Err(_) => "\"stage\":\"utf8\"".to_string(),
            Ok(text) => match catch_unwind(AssertUnwindSafe(|| run_case(shell, &text, flags))) {
                Ok(s) => s,
                Err(p) => {
                    let msg = if let Some(s) = p.downcast_ref::<String>() {
                        s.clone()
                    } else if let Some(s) = p.downcast_ref::<&str>() {
                        s.to_string()
                    } else {
                        "?".to_string()
                    };
                    format!("\"stage\":\"panic\",\"msg\":\"{}\"", hex(&msg))
                }
            },
        };
        writeln!(w, "{{\"id\":\"{}\",\"shell\":\"{}\",{}}}", id, shell, body).unwrap();
        w.flush().unwrap();
    }
}
