"""Run an emitted bash script in a real, non-interactive bash (see tools/bashrun.bash)."""
import os
import subprocess
import tempfile

from .core import VERIF, WORK, hexs

RUNNER = os.path.join(VERIF, "tools", "bashrun.bash")


def bash_n(script_bytes, workdir):
    os.makedirs(workdir, exist_ok=True)
    path = os.path.join(workdir, "bashn.sh")
    with open(path, "wb") as f:
        f.write(script_bytes)
    r = subprocess.run(["bash", "-n", path], capture_output=True, text=True)
    return r.returncode == 0, r.stderr


def complete_batch(script_bytes, command, requests, workdir, probes=None, timeout=300):
    """requests: list of (wordbreaks or None for default, [words incl. command name, last = prefix]).
    Returns list of (rc, [candidates], [probe log lines]) or None on failure."""
    os.makedirs(workdir, exist_ok=True)
    fd, spath = tempfile.mkstemp(prefix="s", suffix=".bash", dir=workdir)
    with os.fdopen(fd, "wb") as f:
        f.write(script_bytes)
    ppath = ""
    lpath = ""
    try:
        if probes is not None:
            fd, ppath = tempfile.mkstemp(prefix="p", suffix=".tab", dir=workdir)
            with os.fdopen(fd, "w") as f:
                for k, out in probes.items():
                    f.write(f"{k}\t{hexs(out)}\n")
            fd, lpath = tempfile.mkstemp(prefix="l", suffix=".log", dir=workdir)
            os.close(fd)
        lines = []
        for wb, words in requests:
            lines.append(" ".join(["D" if wb is None else hexs(wb)] + [hexs(w) for w in words]))
        args = ["bash", "--norc", "--noprofile", RUNNER, spath, command]
        if probes is not None:
            args += [ppath, lpath]
        env = {"PATH": os.environ.get("PATH", "/usr/bin:/bin"), "LC_ALL": "C.UTF-8", "HOME": workdir}
        try:
            r = subprocess.run(args, input=("\n".join(lines) + "\n").encode(), capture_output=True, timeout=timeout, env=env)
        except subprocess.TimeoutExpired:
            return None
        out = r.stdout.split(b"\x01END\0")
        res = []
        for rec in out[:-1]:
            log = []
            if b"\x02LOG\0" in rec:
                rec, lg = rec.split(b"\x02LOG\0", 1)
                log = [x.decode("utf-8", "replace") for x in lg.split(b"\0")[:-1]]
            parts = rec.split(b"\0")[:-1]
            rc = int(parts[0][3:])
            res.append((rc, [p.decode("utf-8", "replace") for p in parts[1:]], log))
        if len(res) != len(requests):
            return None
        return res
    finally:
        for p in (spath, ppath, lpath):
            if p and os.path.exists(p):
                os.unlink(p)
