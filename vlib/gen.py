"""Grammar generators (DESIGN.md §2.4). Every random choice comes from the rng passed in."""
import itertools

from . import gram

LITS = ["a", "b", "ab", "abc", "c", "-x", "--opt", "foo", "bar", "x1"]
DESCRS = ["d", "e", "some words"]
PREC = {"fb": 0, "alt": 1, "seq": 2, "sub": 3}


def prec(e):
    return PREC.get(e[0], 4)


def render(e, need=0):
    k = e[0]
    if k == "lit":
        s = gram.lit(e[1])
        if e[2] is not None:
            s += " " + gram.descr(e[2])
    elif k == "nt":
        s = f"<{e[1]}>"
    elif k == "cmd":
        s = "{{{ " + e[1] + " }}}"
    elif k == "seq":
        s = " ".join(render(c, 3) for c in e[1])
    elif k == "alt":
        s = " | ".join(render(c, 2) for c in e[1])
    elif k == "fb":
        s = " || ".join(render(c, 1) for c in e[1])
    elif k == "opt":
        s = "[" + render(e[1], 0) + "]"
    elif k == "many":
        s = render(e[1], 4)
        if e[1][0] == "many":
            s = "(" + s + ")"
        s += "..."
    elif k == "sub":
        # the last literal of a word may carry its description without parentheses: `--size=(1|2)k "descr"`
        last = e[1][-1]
        if last[0] == "lit" and last[2] is not None:
            s = "".join(render(c, 4) for c in e[1][:-1]) + render(last, 0)
        else:
            s = "".join(render(c, 4) for c in e[1])
    elif k == "dd":
        s = "(" + render(e[1], 0) + ") " + gram.descr(e[2])
        return s if need <= 3 else "(" + s + ")"
    else:
        raise ValueError(k)
    if k == "lit" and e[2] is not None and need >= 4:
        return "(" + s + ")"
    if prec(e) < need:
        return "(" + s + ")"
    return s


def render_grammar(cmd, variants, defs):
    """variants: [expr]; defs: [(name, shell|None, expr)] in the order given."""
    out = []
    for v in variants:
        out.append(f"{cmd} {render(v)};")
    for name, shell, e in defs:
        lhs = f"<{name}@{shell}>" if shell else f"<{name}>"
        out.append(f"{lhs} = {render(e)};")
    return "\n".join(out) + "\n"


class Gen:
    """Type-directed random generator of mostly-accepted grammars."""

    def __init__(self, rng, lits=None, max_depth=4, p_descr=0.25, p_sub=0.15, p_nt=0.2, p_cmd=0.1, p_fb=0.12,
                 defined=(), undefined=("U", "_"), cmd_texts=None, descrs=None):
        self.rng = rng
        self.lits = lits or LITS
        self.descrs = descrs or DESCRS
        self.max_depth = max_depth
        self.p_descr = p_descr
        self.p_sub = p_sub
        self.p_nt = p_nt
        self.p_cmd = p_cmd
        self.p_fb = p_fb
        self.defined = list(defined)
        self.undefined = list(undefined)
        self.descr_of = {}
        self.cmd_texts = cmd_texts or ["echo c1", "echo c2; echo c3", "printf 'k1\\nk2\\n'"]

    def lit(self, allow_descr=True):
        d = None
        t = self.rng.choice(self.lits)
        if allow_descr:
            # mostly one description per literal text (two different ones at one point are a C08 mistake)
            if t not in self.descr_of:
                self.descr_of[t] = self.rng.choice(self.descrs) if self.rng.random() < self.p_descr else None
            d = self.descr_of[t]
            if self.rng.random() < 0.03:
                d = self.rng.choice(self.descrs + [None])
        return ("lit", t, d)

    def leaf(self, in_sub=False):
        r = self.rng.random()
        if r < self.p_nt and (self.defined or self.undefined):
            pool = self.defined + (self.undefined if not in_sub else [])
            if pool:
                return ("nt", self.rng.choice(pool))
        if r < self.p_nt + self.p_cmd:
            return ("cmd", self.rng.choice(self.cmd_texts))
        return self.lit(allow_descr=not in_sub)

    def subword(self, depth):
        """literal head + (alternatives | command | placeholder at the tail)"""
        head = ("lit", self.rng.choice(["--k=", "pre", "-o", "x:"]), None)
        r = self.rng.random()
        if r < 0.6:
            n = self.rng.randint(2, 3)
            alts = self.rng.sample(["v", "w", "vw", "u1", "zz", "q"], n)
            op = "fb" if self.rng.random() < self.p_fb else "alt"
            tail = (op, [("lit", a, None) for a in alts])
        elif r < 0.8:
            tail = ("cmd", self.rng.choice(self.cmd_texts))
        else:
            tail = ("nt", self.rng.choice(self.undefined or ["U"]))
        if tail[0] in ("alt", "fb") and self.rng.random() < 0.3:
            # repetition / option inside the word: `pre(a | b)...`, `--k=[v | w]`, possibly followed by more of the word
            tail = (self.rng.choice(["many", "opt"]), tail)
            if self.rng.random() < 0.4:
                return ("sub", [head, tail, ("lit", self.rng.choice([",end", ";", ":z"]), None)])
            return ("sub", [head, tail])
        if tail[0] == "alt" and self.rng.random() < 0.25:
            # a unit suffix that carries the description of the whole option
            return ("sub", [head, tail, ("lit", self.rng.choice(["k", "ms", "%"]), self.rng.choice(self.descrs))])
        return ("sub", [head, tail])

    def expr(self, depth=0):
        rng = self.rng
        if depth >= self.max_depth or rng.random() < 0.25:
            if rng.random() < self.p_sub:
                return self.subword(depth)
            return self.leaf()
        r = rng.random()
        if r < 0.3:
            return ("seq", [self.expr(depth + 1) for _ in range(rng.randint(2, 3))])
        if r < 0.5:
            return ("alt", [self.expr(depth + 1) for _ in range(rng.randint(2, 3))])
        if r < 0.5 + self.p_fb:
            return ("fb", [self.expr(depth + 1) for _ in range(rng.randint(2, 3))])
        if r < 0.75:
            return ("opt", self.expr(depth + 1))
        if r < 0.87:
            return ("many", self.expr(depth + 1))
        if r < 0.93:
            return ("dd", self.expr(depth + 1), rng.choice(DESCRS))
        return self.subword(depth)

    def grammar(self, n_defs=None, n_variants=None, shells=("bash", "fish", "zsh", "pwsh")):
        rng = self.rng
        n_defs = rng.randint(0, 4) if n_defs is None else n_defs
        n_variants = rng.choice([1, 1, 1, 2, 3]) if n_variants is None else n_variants
        names = [f"N{i}" for i in range(n_defs)]
        defs = []
        # definition i may only refer to definitions j > i: acyclic by construction
        for i, name in enumerate(names):
            self.defined = names[i + 1:]
            if rng.random() < 0.2:
                # a command definition, possibly specialised for some shells
                defs.append((name, None, ("cmd", f"echo plain{i}")))
                for sh in shells:
                    if rng.random() < 0.3:
                        defs.append((name, sh, ("cmd", f"echo {sh}{i}")))
            else:
                save = self.max_depth
                self.max_depth = max(1, save - 2)
                defs.append((name, None, self.expr(1)))
                self.max_depth = save
        self.defined = names
        variants = [self.expr(0) for _ in range(n_variants)]
        rng.shuffle(defs)
        self.last_parts = (variants, defs)
        return render_grammar("cmd", variants, defs)

    def grammar_parts(self, **kw):
        """like grammar(), but returns the trees: (variants, defs)"""
        self.grammar(**kw)
        return self.last_parts


def map_tree(f, e):
    """bottom-up rewrite of an expression tree"""
    k = e[0]
    if k in ("seq", "alt", "fb", "sub"):
        e = (k, [map_tree(f, c) for c in e[1]])
    elif k in ("opt", "many"):
        e = (k, map_tree(f, e[1]))
    elif k == "dd":
        e = (k, map_tree(f, e[1]), e[2])
    return f(e)


def fb_to_alt(e):
    """the `|` variant: every `||` replaced by `|`"""
    return map_tree(lambda x: ("alt", x[1]) if x[0] == "fb" else x, e)


def small_exprs(n, lits=("a", "b"), with_descr=True, with_nt=True):
    """Every expression tree with at most n nodes over a small vocabulary (exhaustive-small)."""
    leaves = [("lit", l, None) for l in lits]
    if with_descr:
        leaves.append(("lit", lits[0], "d"))
    if with_nt:
        leaves += [("nt", "U"), ("cmd", "echo c")]
    memo = {}

    def trees(k):
        if k in memo:
            return memo[k]
        out = []
        if k == 1:
            out = list(leaves)
        else:
            for t in trees(k - 1):
                out.append(("opt", t))
                out.append(("many", t))
            for op in ("seq", "alt", "fb"):
                for i in range(1, k - 1):
                    for l in trees(i):
                        for r in trees(k - 1 - i):
                            out.append((op, [l, r]))
            if k >= 3:
                # subword: literal head + one group
                for t in trees(k - 2):
                    if t[0] in ("alt", "fb") and all(c[0] == "lit" and c[2] is None for c in t[1]):
                        out.append(("sub", [("lit", "p=", None), t]))
        memo[k] = out
        return out

    for k in range(1, n + 1):
        for t in trees(k):
            yield t
