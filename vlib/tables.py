"""Extraction of the automaton embedded in an emitted script (C04): the data lines of the four emitters are
tokenised into *facts* about the automaton, with the shell's index base removed (Gen.arrayStart, regenerated from
the source) and string constants still raw (they are decoded by the Lean reader of each shell's double-quote rules).

facts (per scope: "main" or a within-word function id):
  ("lit", id, raw_text, raw_descr|None)            literal table
  ("mL", from, lit_id, to)   ("mC", from, cmd_id, to)   ("mK", from, cmd_id, to)  ("mX", from, to)   ("mW", from, sub_id, to)
  ("cL", level, from, lit_id) ("cC", level, from, cmd_id) ("cK", level, from, cmd_id) ("cW", level, from, sub_id)
  ("max", level)
plus: cmds {id: body}, start state of the main automaton, the registered command name.
Trusted (≈ 250 lines); exercised on every run; a table line that does not fit raises ValueError."""
import re

from . import extract

ESC = extract.ESC


def _ints(s):
    return [int(x) for x in s.split()]


def _assoc(body):
    """`[1]=2 [3]=4` -> [(1, 2), (3, 4)]"""
    out = []
    for m in re.finditer(r"\[(\d+)\]=(\d+)", body):
        out.append((int(m.group(1)), int(m.group(2))))
    if re.sub(r"\[(\d+)\]=(\d+)", "", body).strip():
        raise ValueError(f"unexpected text in associative initialiser: {body!r}")
    return out


def _assoc_lists(body):
    """`[1]="1 3" [4]="2"` -> [(1, [1, 3]), (4, [2])]"""
    out = []
    for m in re.finditer(r'\[(\d+)\]="([\d ]*)"', body):
        out.append((int(m.group(1)), _ints(m.group(2))))
    if re.sub(r'\[(\d+)\]="([\d ]*)"', "", body).strip():
        raise ValueError(f"unexpected text in list initialiser: {body!r}")
    return out


def _string_list(text, shell):
    """`"a" "b"` (or `"a", "b"` for pwsh) -> raw constants"""
    items = []
    i = 0
    text = text.strip()
    while i < len(text):
        if text[i] != '"':
            raise ValueError(f"string list: unexpected {text[i:i + 10]!r}")
        r = extract.scan_dq(text, i, ESC[shell])
        if r is None:
            raise ValueError("string list: unterminated constant")
        items.append(r[0])
        i = r[1]
        while i < len(text) and text[i] in " ,":
            i += 1
    return items


def functions(script, shell):
    """{name: body text} for the functions of the script that carry tables"""
    out = {}
    if shell in ("bash", "zsh"):
        pat = re.compile(r"^(_[^\s()]+) \(\) \{\n(.*?)^\}\n", re.M | re.S)
    elif shell == "fish":
        pat = re.compile(r"^function (\S+)\n(.*?)^end\n", re.M | re.S)
    else:
        pat = re.compile(r"^function (\S+) \{\n(.*?)^\}\n", re.M | re.S)
    for m in pat.finditer(script):
        out[m.group(1)] = m.group(2)
    if shell == "pwsh":
        m = re.search(r"^Register-ArgumentCompleter -Native -CommandName '([^']*)' -ScriptBlock \{\n(.*)^\}\n", script, re.M | re.S)
        if m:
            out["<main>"] = m.group(2)
            out["<registered>"] = m.group(1)
    return out


# ---------------------------------------------------------------------------------------------- bash / zsh

def parse_bashlike(body, shell, sub):
    """tables of one function body (bash, zsh). `sub`: the body is a within-word function (zsh prefixes names)"""
    pre = "subword_" if (shell == "zsh" and sub) else ""
    decl = "local" if shell == "bash" else "declare"
    facts = []
    m = re.search(r"^    %s -a %sliterals=\((.*)\)\n" % (decl, pre), body, re.M)
    lits = _string_list(m.group(1), shell) if m else None
    descr = {}
    if shell == "zsh":
        dtexts = {}
        for m2 in re.finditer(r'^    %sdescriptions\[(\d+)\]=' % pre, body, re.M):
            r = extract.scan_dq(body, m2.end(), ESC[shell])
            if r is None:
                raise ValueError("description constant not terminated")
            dtexts[int(m2.group(1))] = r[0]
        m2 = re.search(r"^    declare -A %sdescr_id_from_literal_id=\((.*)\)\n" % pre, body, re.M)
        if m2:
            for lid, did in _assoc(m2.group(1)):
                if did not in dtexts:
                    raise ValueError(f"literal {lid} refers to description {did} which is not defined")
                descr[lid] = dtexts[did]
    if lits is not None:
        for i, t in enumerate(lits):
            facts.append(("lit", i, t, descr.get(i + (1 if shell == "zsh" else 0))))
    for kind, name in (("mL", "literal_transitions"), ("mC", "command_transitions"), ("mK", "compadd_transitions"), ("mW", "subword_transitions")):
        if kind == "mW" and sub:
            continue
        nm = (pre + name) if kind != "mW" else name
        for m2 in re.finditer(r'^    %s\[(\d+)\]="\((.*)\)"\n' % re.escape(nm), body, re.M):
            for a, b in _assoc(m2.group(2)):
                facts.append((kind, int(m2.group(1)), a, b))
    m2 = re.search(r"^    %s -A %sstar_transitions=\((.*)\)\n" % (decl, pre), body, re.M)
    if m2:
        for a, b in _assoc(m2.group(1)):
            facts.append(("mX", a, b))
    for kind, name in (("cL", "literal_transitions_level_"), ("cC", "commands_level_"), ("cK", "compadd_commands_level_"), ("cW", "subword_transitions_level_")):
        nm = (pre + name) if kind != "cW" else name
        for m2 in re.finditer(r"^    %s -A %s(\d+)=\((.*)\)\n" % (decl, re.escape(nm)), body, re.M):
            for st, ids in _assoc_lists(m2.group(2)):
                for i in ids:
                    facts.append((kind, int(m2.group(1)), st, i))
    m2 = re.search(r"^    %s %smax_fallback_level=(\d+)\n" % (decl, pre), body, re.M)
    if m2:
        facts.append(("max", int(m2.group(1))))
    m2 = re.search(r'^    _\S+_subword_shape_(\d+) ', body, re.M)
    shape = int(m2.group(1)) if m2 else None
    m2 = re.search(r"^    (?:local|declare) state=(\d+)\n", body, re.M)
    start = int(m2.group(1)) if m2 else None
    return facts, shape, start


# ---------------------------------------------------------------------------------------------- pwsh

def _pw_map(body):
    """`0=1;2=1` -> [(0, 1), (2, 1)]"""
    out = []
    for part in body.split(";"):
        part = part.strip()
        if not part:
            continue
        m = re.fullmatch(r"(\d+)=(\d+)", part)
        if not m:
            raise ValueError(f"pwsh map entry {part!r}")
        out.append((int(m.group(1)), int(m.group(2))))
    return out


def _pw_map_lists(body):
    """`0=@(0,2); 1=@(2)` -> [(0, [0, 2]), (1, [2])]"""
    out = []
    for m in re.finditer(r"(\d+)=@\(([\d,]*)\)", body):
        out.append((int(m.group(1)), [int(x) for x in m.group(2).split(",") if x]))
    if re.sub(r"(\d+)=@\(([\d,]*)\)", "", body).replace(";", "").strip():
        raise ValueError(f"pwsh list map {body!r}")
    return out


def parse_pwsh(body, sub):
    facts = []
    m = re.search(r"^    \$literals = @\((.*)\)\n", body, re.M)
    lits = _string_list(m.group(1), "pwsh") if m else None
    descr = {}
    m = re.search(r"^    \$descriptions = @\{(.*?)\}\n", body, re.M | re.S)
    if m:
        inner = m.group(1)
        for m2 in re.finditer(r"^        (\d+) = ", inner, re.M):
            r = extract.scan_dq(inner, m2.end(), "`")
            if r is None:
                raise ValueError("pwsh description not terminated")
            descr[int(m2.group(1))] = r[0]
    if lits is not None:
        for i, t in enumerate(lits):
            facts.append(("lit", i, t, descr.get(i)))
    for kind, name in (("mL", "literal_transitions"), ("mC", "command_transitions"), ("mW", "subword_transitions")):
        for m2 in re.finditer(r"^    \$%s\[(\d+)\] = @\{(.*)\}\n" % name, body, re.M):
            for a, b in _pw_map(m2.group(2)):
                facts.append((kind, int(m2.group(1)), a, b))
    m2 = re.search(r"^    \$star_transitions = @\{(.*)\}\n", body, re.M)
    if m2:
        for a, b in _pw_map(m2.group(1)):
            facts.append(("mX", a, b))
    for kind, name in (("cL", "literal_transitions_level_"), ("cC", "commands_level_"), ("cW", "subword_transitions_level_")):
        for m2 in re.finditer(r"^    \$%s(\d+) = @\{(.*)\}\n" % name, body, re.M):
            for st, ids in _pw_map_lists(m2.group(2)):
                for i in ids:
                    facts.append((kind, int(m2.group(1)), st, i))
    m2 = re.search(r"^    \$max_fallback_level = (\d+)\n", body, re.M)
    if m2:
        facts.append(("max", int(m2.group(1))))
    m2 = re.search(r"^    _\S+_subword_shape_(\d+) ", body, re.M)
    shape = int(m2.group(1)) if m2 else None
    m2 = re.search(r"^    \$state = (\d+)\n", body, re.M)
    start = int(m2.group(1)) if m2 else None
    return facts, shape, start


# ---------------------------------------------------------------------------------------------- fish

def _fish_list(text):
    """fish `set` arguments: quoted strings or bare numbers -> list of strings (raw)"""
    items = []
    i = 0
    text = text.rstrip("\n")
    while i < len(text):
        if text[i] == " ":
            i += 1
            continue
        if text[i] == '"':
            r = extract.scan_dq(text, i, "\\")
            if r is None:
                raise ValueError("fish: unterminated constant")
            items.append(r[0])
            i = r[1]
        else:
            j = i
            while j < len(text) and text[j] != " ":
                j += 1
            items.append(text[i:j])
            i = j
    return items


def parse_fish(body, sub):
    pre = "--global subword_" if sub else ""
    facts = []

    def get(name, indexed=False):
        """all `set NAME ...` lines (the last non-empty assignment wins, as in fish)"""
        res = None
        for m in re.finditer(r"^    set %s%s((?: .*)?)\n" % (re.escape(pre), re.escape(name)), body, re.M):
            res = _fish_list(m.group(1))
        return res

    lits = get("literals")
    descr = {}
    if not sub:
        dtexts = {}
        for m in re.finditer(r"^    set descrs\[(\d+)\] ", body, re.M):
            r = extract.scan_dq(body, m.end(), "\\")
            if r is None:
                raise ValueError("fish description not terminated")
            dtexts[int(m.group(1))] = r[0]
        lids = [int(x) for x in (get("descr_literal_ids") or [])]
        dids = [int(x) for x in (get("descr_ids") or [])]
        if len(lids) != len(dids):
            raise ValueError("fish: descr_literal_ids and descr_ids differ in length")
        for l, d in zip(lids, dids):
            descr[l] = dtexts[d]
    else:
        dtexts = {}
        for m in re.finditer(r"^    set --global subword_descrs\[(\d+)\] ", body, re.M):
            r = extract.scan_dq(body, m.end(), "\\")
            dtexts[int(m.group(1))] = r[0]
        lids = [int(x) for x in (get("descr_literal_ids") or [])]
        dids = [int(x) for x in (get("descr_ids") or [])]
        for l, d in zip(lids, dids):
            descr[l] = dtexts.get(d)
    if lits is not None:
        for i, t in enumerate(lits):
            facts.append(("lit", i, t, descr.get(i + 1)))
    ins, tos = get("literal_transitions_inputs") or [], get("literal_transitions_tos") or []
    if len(ins) != len(tos):
        raise ValueError("fish: literal_transitions_inputs / _tos do not pair up")
    for st, (a, b) in enumerate(zip(ins or [], tos or []), 1):
        la, lb = _ints(a), _ints(b)
        if len(la) != len(lb):
            raise ValueError("fish: inputs / tos of a state differ in length")
        for x, y in zip(la, lb):
            facts.append(("mL", st, x, y))
    for m in re.finditer(r'^    set %scommand_transitions\[(\d+)\] "([\d, ]*)"\n' % re.escape(pre), body, re.M):
        for pair in m.group(2).split():
            c, t = pair.split(",")
            facts.append(("mC", int(m.group(1)), int(c), int(t)))
    sf, st_ = get("star_transitions_from"), get("star_transitions_to")
    for a, b in zip(sf or [], st_ or []):
        facts.append(("mX", int(a), int(b)))
    if len(sf or []) != len(st_ or []):
        raise ValueError("fish: star_transitions_from / _to do not pair up")
    if not sub:
        ids, tos2 = {}, {}
        for m in re.finditer(r'^    set subword_transitions_ids\[(\d+)\] "([\d ]*)"\n', body, re.M):
            ids[int(m.group(1))] = _ints(m.group(2))
        for m in re.finditer(r'^    set subword_transitions_tos\[(\d+)\] "([\d ]*)"\n', body, re.M):
            tos2[int(m.group(1))] = _ints(m.group(2))
        if set(ids) != set(tos2):
            raise ValueError("fish: subword_transitions_ids / _tos do not pair up")
        for s in ids:
            if len(ids[s]) != len(tos2[s]):
                raise ValueError("fish: subword ids / tos differ in length")
            for a, b in zip(ids[s], tos2[s]):
                facts.append(("mW", s, a, b))
    level = 0
    while True:
        fr = get(f"literal_froms_level_{level}")
        inp = get(f"literal_inputs_level_{level}")
        if fr is None and inp is None:
            break
        if len(fr or []) != len(inp or []):
            raise ValueError("fish: literal_froms / literal_inputs differ in length")
        for s, l in zip(fr or [], inp or []):
            for i in _ints(l):
                facts.append(("cL", level, int(s), i))
        fr = get(f"command_froms_level_{level}")
        inp = get(f"commands_level_{level}")
        for s, l in zip(fr or [], inp or []):
            for i in _ints(l):
                facts.append(("cC", level, int(s), i))
        if len(fr or []) != len(inp or []):
            raise ValueError("fish: command_froms / commands differ in length")
        if not sub:
            fr = get(f"subword_froms_level_{level}")
            inp = get(f"subwords_level_{level}")
            for s, l in zip(fr or [], inp or []):
                for i in _ints(l):
                    facts.append(("cW", level, int(s), i))
            if len(fr or []) != len(inp or []):
                raise ValueError("fish: subword_froms / subwords differ in length")
        level += 1
    mx = None
    for m in re.finditer(r"^    set %smax_fallback_level (\d+)\n" % re.escape(pre), body, re.M):
        mx = int(m.group(1))
    if mx is None and not sub:
        mx = level - 1 if level else None
    if mx is not None:
        facts.append(("max", mx))
    m = re.search(r"^    _\S+_subword_shape_(\d+) ", body, re.M)
    shape = int(m.group(1)) if m else None
    m = re.search(r"^    set state (\d+)\n", body, re.M)
    start = int(m.group(1)) if m else None
    return facts, shape, start


# ---------------------------------------------------------------------------------------------- whole script

def extract_tables(script, shell, command="cmd"):
    """-> dict(main=facts, subs={id: facts}, cmds={id: body}, start=int, registered=name)"""
    fns = functions(script, shell)
    parse = {"bash": lambda b, s: parse_bashlike(b, "bash", s), "zsh": lambda b, s: parse_bashlike(b, "zsh", s),
             "fish": parse_fish, "pwsh": parse_pwsh}[shell]
    main_name = "<main>" if shell == "pwsh" else f"_{command}"
    if main_name not in fns:
        raise ValueError("main completion function not found")
    main, _, start = parse(fns[main_name], False)
    shapes = {}
    for name, body in fns.items():
        m = re.fullmatch(r"_%s_subword_shape_(\d+)" % re.escape(command), name)
        if m:
            shapes[int(m.group(1))] = parse(body, True)[0]
    subs = {}
    for name, body in fns.items():
        m = re.fullmatch(r"_%s_subword_(\d+)" % re.escape(command), name)
        if m:
            facts, shape, _ = parse(body, True)
            if shape is not None:
                if shape not in shapes:
                    raise ValueError(f"{name} calls shape {shape} which does not exist")
                facts = facts + shapes[shape]
            subs[int(m.group(1))] = facts
    cmds = {}
    body_re = re.compile(r"^(?:function )?_%s_cmd_(\d+)(?: \(\))?(?: \{)?\n    (.*?)\n(?:\}|end)\n" % re.escape(command), re.M | re.S)
    for m in body_re.finditer(script):
        cmds[int(m.group(1))] = m.group(2)
    if shell == "bash":
        m = re.search(r"^complete -o nospace -F _(\S+) (\S+)\n", script, re.M)
        registered = m.group(2) if m and m.group(1) == m.group(2) else None
    elif shell == "fish":
        m = re.search(r'^complete --command (\S+) --no-files --arguments "\(_(\S+)\)"\n', script, re.M)
        registered = m.group(1) if m and m.group(1) == m.group(2) else None
    elif shell == "zsh":
        m = re.search(r"^#compdef (\S+)\n", script, re.M)
        registered = m.group(1) if m else None
    else:
        registered = fns.get("<registered>")
    return {"main": main, "subs": subs, "cmds": cmds, "start": start, "registered": registered}
