"""Tokenisers for the *data lines* of the four emitters (the only script text the checks parse).
Trusted; exercised on every run.  Strings are returned raw (still escaped): decoding is done by
the Lean model of each shell's double-quote rules."""
import re

ESC = {"bash": "\\", "zsh": "\\", "fish": "\\", "pwsh": "`"}


def scan_dq(text, i, esc):
    """text[i] must be '"'. Returns (raw inside, index after closing quote) or None."""
    assert text[i] == '"'
    j = i + 1
    n = len(text)
    while j < n:
        c = text[j]
        if c == esc:
            j += 2
            continue
        if c == '"':
            return text[i + 1 : j], j + 1
        j += 1
    return None


def scan_list(text, i, esc, sep_re, end_re):
    """Scan `"a" sep "b" sep ... end` starting at i. Returns (list of raw strings, index) or None."""
    items = []
    sep = re.compile(sep_re)
    end = re.compile(end_re)
    while True:
        m = end.match(text, i)
        if m:
            return items, m.end()
        if i < len(text) and text[i] == '"':
            r = scan_dq(text, i, esc)
            if r is None:
                return None
            items.append(r[0])
            i = r[1]
            m = end.match(text, i)
            if m:
                return items, m.end()
            m = sep.match(text, i)
            if not m:
                return None
            i = m.end()
        else:
            return None


def literal_lists(shell, script):
    """All literal lists of the script: [(owner, [raw constants])] or raises ValueError when the
    script text around a list cannot be tokenised (an escaping failure shows up here)."""
    esc = ESC[shell]
    out = []
    if shell == "bash":
        pat, sep, end = r"^    local -a literals=\(", r" ", r"\)\n"
    elif shell == "zsh":
        pat, sep, end = r"^    declare -a (?:subword_)?literals=\(", r" ", r"\)\n"
    elif shell == "fish":
        pat, sep, end = r"^    set (?:--global subword_)?literals ?", r" ", r"\n"
    else:
        pat, sep, end = r"^    \$literals = @\(", r", ", r"\)\n"
    for m in re.finditer(pat, script, re.M):
        r = scan_list(script, m.end(), esc, sep, end)
        if r is None:
            raise ValueError(f"literal list at offset {m.start()} cannot be tokenised")
        out.append((m.start(), r[0]))
    return out


def description_constants(shell, script):
    """Raw description constants [(offset, raw)]."""
    esc = ESC[shell]
    out = []
    if shell == "bash":
        return out
    if shell == "zsh":
        pat = r"^    (?:subword_)?descriptions\[\d+\]="
    elif shell == "fish":
        pat = r"^    set (?:--global subword_)?descrs\[\d+\] "
    else:
        pat = r"^        \d+ = "
    for m in re.finditer(pat, script, re.M):
        i = m.end()
        if i >= len(script) or script[i] != '"':
            raise ValueError(f"description at offset {m.start()} does not start with a quote")
        r = scan_dq(script, i, esc)
        if r is None:
            raise ValueError(f"description at offset {m.start()} is not terminated")
        tail = script[r[1] : r[1] + 2]
        if shell == "pwsh":
            ok = tail.startswith(";")
        else:
            ok = tail.startswith("\n")
        if not ok:
            raise ValueError(f"description at offset {m.start()} is followed by {tail!r}")
        out.append((m.start(), r[0]))
    return out
