"""Shared exploration for the automaton properties (C02, C03, C09): corpus, exhaustive-small,
random-large grammars through stages.analyse."""
import glob
import os

from . import core, gen, stages


def corpus_cases(prop):
    out = []
    for path in sorted(glob.glob(os.path.join(core.VERIF, "corpus", prop, "*.usage"))):
        with open(path, encoding="utf-8") as f:
            text = f.read()
        for sh in core.SHELLS:
            out.append((f"corpus:{os.path.basename(path)}:{sh}", sh, text))
    return out


def small_cases(n, start=0):
    out = []
    for i, t in enumerate(gen.small_exprs(n)):
        sh = core.SHELLS[i % 4]
        out.append((f"small{n}:{i}", sh, f"cmd {gen.render(t)};\n"))
    return out


def random_cases(rng, count, tag="rnd", **kw):
    out = []
    for i in range(count):
        g = gen.Gen(rng, max_depth=rng.choice([2, 3, 4, 4, 5, 6]), **kw)
        out.append((f"{tag}:{i}", rng.choice(core.SHELLS), g.grammar()))
    return out


def word_loop_cases(rng, count):
    """within-word expressions whose automaton loops back into its start state (the word begins with an optional
    repetition) next to states that differ from the start only in that — the shapes on which a second minimisation,
    or a confusion of the start state with the dead state, changes the language"""
    out = []
    for i in range(count):
        vals = rng.sample(["a", "b", "c", "d", "ro", "rw", "none", "x1"], 4)
        sep = rng.choice([",", ":", "+", "/"])
        k = i % 4
        if k == 0:
            w = f"[(({vals[0]}|{vals[1]})({sep}))...]({vals[0]}|{vals[2]}){vals[3]}"
        elif k == 1:
            w = f"[({vals[0]})...]([{vals[1]}])..."
        elif k == 2:
            w = f"[(({vals[0]}|{vals[1]})({sep}))...]({vals[1]}|{vals[2]})(=)(yes|no)"
        else:
            w = f"[({vals[0]}{sep})...]({vals[0]}|{vals[1]}{vals[2]})[{sep}{vals[3]}]"
        out.append((f"wordloop:{i}", rng.choice(core.SHELLS), f"cmd {w} next;\n"))
    return out


def run_batches(ctx, cases, on_case, batch=1500):
    """analyse in batches; calls on_case(a) for each analysis"""
    for i in range(0, len(cases), batch):
        res = stages.analyse(cases[i:i + batch])
        for cid, a in res.items():
            ctx.evaluations += 1
            ctx.count("stage:" + str(a.stage))
            if getattr(a, "skipped", None):
                ctx.count("skipped:" + a.skipped)
            sc = getattr(a, "spec_scope", None)
            if sc is not None:
                ctx.count("oracle-in-theorem-scope" if sc.get("fin") == "1" and sc.get("nea") == "1" else "oracle-outside-theorem-scope")
            if a.nstates >= 3:
                ctx.nontriv(a.text + a.shell)
            for kind, detail in a.issues:
                ctx.correspondence_breaks.append((kind, {"grammar": a.text, "shell": a.shell, "detail": detail}))
            on_case(a)


def standard_cases(ctx, prop):
    rng = ctx.rng
    cases = corpus_cases(prop)
    ctx.count("corpus", len(cases))
    n = 5 if ctx.thorough() else 4
    sm = small_cases(n)
    ctx.count("exhaustive-small", len(sm))
    cases += sm
    rnd = random_cases(rng, 20000 if ctx.thorough() else 2000)
    ctx.count("random", len(rnd))
    cases += rnd
    wl = word_loop_cases(rng, 400 if ctx.thorough() else 60)
    ctx.count("word-loops", len(wl))
    cases += wl
    ctx.extra["exhaustive_small_nodes"] = n
    return cases
