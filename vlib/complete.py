"""Shared machinery of the bash-execution checks (C01, C12, C17): grammars whose external commands are probes,
exploration of command lines in the real bash, the Lean spec (Spec.Complete) on the same command lines."""
import subprocess

from . import bashrt, core, gen

_default_wb = None


def default_wordbreaks():
    global _default_wb
    if _default_wb is None:
        r = subprocess.run(["bash", "--norc", "--noprofile", "-c", 'printf %s "$COMP_WORDBREAKS"'], capture_output=True)
        _default_wb = r.stdout.decode("utf-8", "replace")
    return _default_wb


PROBE_OUTPUTS = [
    "alpha\nbeta\n",
    "k1\nk2\tdescription of k2\n",
    "one\n",
    "",
    "v1\tfirst\nv2\tsecond\nzz\n",
    "c-x\nc-y\n",
    "two words\nplain\n",
    "tab\there\nsp ace\tdescr\n",
    "-n\n-e\n",
]


class ProbeGrammar:
    """a grammar (trees as in gen.py) whose `{{{ }}}` commands are `__probe K "$1" "$2"`"""

    def __init__(self, rng, variants, defs, outputs):
        self.variants, self.defs, self.outputs = variants, defs, outputs   # outputs: K -> text

    def cmd_text(self, k):
        return f'__probe {k} "$1" "$2"'

    def text(self):
        return gen.render_grammar("cmd", self.variants, self.defs)

    def out_table(self):
        """for the Lean spec: command text -> lines"""
        rows = []
        for k, out in self.outputs.items():
            lines = [l for l in out.split("\n")]
            if lines and lines[-1] == "":
                lines.pop()
            rows.append(core.hexs(self.cmd_text(k)) + "=" + ",".join(core.hexs(l) for l in lines))
        return ";".join(rows) if rows else "-"


def probe_gen(rng, max_depth=3, spaces_in_output=True, **kw):
    """random in-class-leaning grammar with probe commands"""
    n_cmds = rng.randint(1, 4)
    pool = PROBE_OUTPUTS if spaces_in_output else [o for o in PROBE_OUTPUTS if " " not in o]
    outputs = {k: rng.choice(pool) for k in range(n_cmds)}
    texts = [f'__probe {k} "$1" "$2"' for k in range(n_cmds)]
    g = gen.Gen(rng, max_depth=max_depth, cmd_texts=texts, p_cmd=kw.pop("p_cmd", 0.2), p_sub=kw.pop("p_sub", 0.2),
                p_fb=kw.pop("p_fb", 0.15), lits=kw.pop("lits", ["a", "b", "ab", "c", "--opt", "foo", "bar", "x1", "-x"]), **kw)
    variants, defs = g.grammar_parts(shells=("bash",))
    # definitions that are commands in gen.Gen carry `echo ...`: turn them into probes too
    def fix(e):
        if e[0] == "cmd" and not e[1].startswith("__probe"):
            k = len(outputs)
            outputs[k] = rng.choice(pool)
            return ("cmd", f'__probe {k} "$1" "$2"')
        return e
    variants = [gen.map_tree(fix, v) for v in variants]
    defs = [(n, s, gen.map_tree(fix, e)) for n, s, e in defs]
    return ProbeGrammar(rng, variants, defs, outputs)


def twin_gen(rng):
    """several within-word expressions of the same shape (same transitions, literal ids by decreasing length) that differ
    in how their values are spread over `||` levels, or in a command at the tail: candidates for sharing one table set"""
    vals = ["aaa", "bb", "c", "dddd", "ee", "fff", "always", "never", "auto", "plain", "fancy"]
    heads = ["--color=", "--style=", "--foo=", "--bar=", "--when=", "--mode="]
    rng.shuffle(heads)
    outputs = {}
    variants = []
    n = rng.randint(2, 4)
    k = rng.randint(2, 3)
    for i in range(n):
        vs = rng.sample(vals, k)
        op = rng.choice(["fb", "alt", "fb", "mixed"])
        lits = [("lit", v, None) for v in vs]
        if op == "mixed" and k >= 3:
            tail = ("fb", [("alt", lits[:2]), lits[2]])
        elif op == "mixed":
            tail = ("fb", lits)
        else:
            tail = (op, lits)
        if rng.random() < 0.25:
            kk = len(outputs)
            outputs[kk] = rng.choice(["alpha\nbeta\n", "k1\nk2\tdescr\n"])
            tail = ("fb", [tail, ("cmd", f'__probe {kk} "$1" "$2"')]) if rng.random() < 0.5 else ("alt", [tail, ("cmd", f'__probe {kk} "$1" "$2"')])
        word = ("sub", [("lit", heads[i], None), tail])
        follow = rng.choice([None, ("lit", "next", None), ("lit", f"n{i}", None)])
        variants.append(word if follow is None else ("seq", [word, follow]))
    if rng.random() < 0.5:
        variants = [("alt", variants)]
    return ProbeGrammar(rng, variants, [], outputs)


def shared_gen(rng):
    """a definition that contains a command, referenced from several places at different `||` levels / inside and
    outside words"""
    outputs = {0: rng.choice(["alpha\nbeta\n", "k1\nk2\tdescr\n", "lima\n"]), 1: "one\n"}
    body = rng.choice([("cmd", '__probe 0 "$1" "$2"'), ("alt", [("lit", "fixed", None), ("cmd", '__probe 0 "$1" "$2"')]),
                       ("seq", [("cmd", '__probe 0 "$1" "$2"'), ("lit", "then", None)])])
    defs = [("X", None, body)]
    ref = ("nt", "X")
    shapes = [
        [("seq", [("lit", "first", None), ref]), ("seq", [("lit", "second", None), ("fb", [("lit", "lit", None), ref])])],
        [("fb", [("seq", [("lit", "a", None), ref]), ("seq", [("lit", "b", None), ("fb", [("lit", "c", None), ("lit", "d", None), ref])])])],
        [("seq", [("lit", "one", None), ("fb", [("lit", "x", None), ref])]), ("seq", [("lit", "two", None), ("fb", [("lit", "y", None), ("lit", "z", None), ref])]),
         ("seq", [("lit", "three", None), ref])],
        [("seq", [("opt", ref), ("lit", "mid", None), ("fb", [("cmd", '__probe 1 "$1" "$2"'), ref])])],
    ]
    variants = rng.choice(shapes)
    if rng.random() < 0.5:
        variants = list(reversed(variants))
    return ProbeGrammar(rng, variants, defs, outputs)


def head_overlap_gen(rng):
    """within-word expressions whose literals at *different* places overlap: the head is a prefix of a value, a value
    is a prefix of the text that follows the group, ... (the one-pass matcher looks at all literals of the word)"""
    head = rng.choice(["v", "ab", "-", "x"])
    others = ["x", "zz", "k9", "on", "q"]
    vals = [head + rng.choice(["w", "1", "zz"]), rng.choice([o for o in others if not o.startswith(head) and not head.startswith(o)])]
    if rng.random() < 0.5:
        vals.append(head + head)
    rng.shuffle(vals)
    tail = ("alt", [("lit", v, None) for v in vals])
    parts = [("lit", head, None), tail]
    if rng.random() < 0.4:
        parts.append(("lit", rng.choice([",", ":" + head, "%"]), None))
    word = ("sub", parts)
    variants = [("seq", [word, ("lit", "next", None)])]
    if rng.random() < 0.4:
        variants.append(("seq", [("lit", "other", None), ("sub", [("lit", "p" + head, None), ("alt", [("lit", head, None), ("lit", "y", None)])])]))
    return ProbeGrammar(rng, variants, [], {})


def wordbreak_gen(rng):
    """words in which the same COMP_WORDBREAKS character occurs twice or more (`--color=fg=red`, `http://alpha:80/`):
    bash has already put everything up to the *last* such character on the command line, so that is what must be
    stripped from the candidates"""
    br = rng.choice(["=", ":", "=", ":", "@"])
    keys = rng.sample(["fg", "bg", "k", "host", "a"], 2)
    vals = rng.sample(["red", "green", "r2", "80", "81", "x"], 3)
    shape = rng.randrange(4)
    outputs = {}
    if shape == 0:      # plain literals
        lits = [f"--color{br}{keys[0]}{br}{vals[0]}", f"--color{br}{keys[0]}{br}{vals[1]}", f"--color{br}{keys[1]}{br}{vals[2]}"]
        first = ("alt", [("lit", l, None) for l in lits])
    elif shape == 1:    # within-word alternatives after two break characters
        first = ("sub", [("lit", f"--color{br}", None),
                         ("alt", [("sub", [("lit", f"{keys[0]}{br}", None), ("alt", [("lit", v, None) for v in vals[:2]])]),
                                  ("lit", f"{keys[1]}{br}{vals[2]}", None)])])
    elif shape == 2:    # url-like: two different and one repeated break character
        first = ("sub", [("lit", "http://", None), ("alt", [("lit", "alpha", None), ("lit", "beta", None)]), ("lit", ":", None),
                         ("alt", [("lit", "80/", None), ("lit", "81/", None)])])
    else:               # a command after the second break character
        outputs[0] = rng.choice(["alpha\nbeta\n", "k1\nk2\tdescr\n"])
        first = ("sub", [("lit", f"--set{br}{keys[0]}{br}", None), ("alt", [("lit", vals[0], None), ("cmd", '__probe 0 "$1" "$2"')])])
    lead = rng.choice(["paint", "fetch"])
    variants = [("seq", [("lit", lead, None), first, ("lit", "next", None)])]
    if shape == 0:
        fulls = lits
    elif shape == 1:
        fulls = [f"--color{br}{keys[0]}{br}{v}" for v in vals[:2]] + [f"--color{br}{keys[1]}{br}{vals[2]}"]
    elif shape == 2:
        fulls = [f"http://{h}:{p_}" for h in ("alpha", "beta") for p_ in ("80/", "81/")]
    else:
        fulls = [f"--set{br}{keys[0]}{br}{v}" for v in [vals[0]] + [l.split("\t")[0] for l in outputs[0].split("\n") if l]]
    extra = [([lead], w) for w in fulls]
    if rng.random() < 0.4:
        w = f"{keys[0]}{br}{keys[1]}{br}{vals[0]}"
        variants.append(("seq", [("lit", "other", None), ("lit", w, None)]))
        extra.append((["other"], w))
    pg = ProbeGrammar(rng, variants, [], outputs)
    pg.extra_words = extra
    return pg


def long_candidate_gen(rng):
    """a command inside a word, followed by more of the word, whose candidates include one of ten or more characters
    and a shorter one that is its prefix (the template tries a command's candidates longest first; lengths 9 and 19
    compare differently as numbers and as text)"""
    longs = [("alexander", "alexander-the-great"), ("host", "host-with-a-long-name"), ("ab", "ab-0123456789"), ("x" * 9, "x" * 19)]
    a, b = rng.choice(longs)
    outputs = {0: f"{a}\n{b}\nbob\n", 1: "h1\nh2\n"}
    sep = rng.choice(["/", ":", ",", "@"])
    shape = rng.randrange(3)
    if shape == 0:
        word = ("sub", [("cmd", '__probe 0 "$1" "$2"'), ("lit", sep, None), ("cmd", '__probe 1 "$1" "$2"')])
        tails = ["h1", "h"]
    elif shape == 1:
        word = ("sub", [("lit", "u=", None), ("cmd", '__probe 0 "$1" "$2"'), ("lit", sep, None), ("alt", [("lit", "on", None), ("lit", "off", None)])])
        tails = ["on", "o"]
    else:
        word = ("sub", [("cmd", '__probe 0 "$1" "$2"'), ("lit", sep + "end", None)])
        tails = ["end"[:2], ""]
    pre = "u=" if shape == 1 else ""
    variants = [("seq", [word, ("lit", "done", None)])]
    pg = ProbeGrammar(rng, variants, [], outputs)
    pg.extra_words = [([], pre + c + (sep if shape != 2 else sep + "e")[: len(sep) if shape != 2 else 2] + t) for c in (a, b, "bob") for t in tails]
    pg.extra_words += [([pre + c + sep + ("h1" if shape == 0 else "on" if shape == 1 else "end")], "d") for c in (a, b)]
    return pg


def fallback_gen(rng):
    """`||` with a within-word expression in a branch that is not the last one: the typed prefix is extended by nothing of
    that branch, and the wanted candidate is in the next one"""
    vals = rng.sample(["always", "never", "auto", "x", "y1"], 2)
    head = rng.choice(["--color=", "--re=", "k:"])
    word = ("sub", [("lit", head, None), ("alt", [("lit", v, None) for v in vals])])
    nxt = rng.sample(["plain", "-e", "zed", "+e", "last"], 3)
    shape = rng.randrange(4)
    if shape == 0:
        first = ("fb", [word, ("lit", nxt[0], None)])
    elif shape == 1:
        first = ("fb", [word, ("seq", [("lit", nxt[0], None), ("lit", "arg", None)]), ("lit", nxt[1], None)])
    elif shape == 2:
        word2 = ("sub", [("lit", "--b=", None), ("alt", [("lit", v, None) for v in vals])])
        first = ("fb", [("alt", [word, word2]), ("lit", nxt[0], None), ("lit", nxt[1], None)])
    else:
        first = ("fb", [("lit", nxt[2], None), word, ("lit", nxt[0], None)])
    lead = rng.choice([None, "sub"])
    variants = [("seq", ([("lit", lead, None)] if lead else []) + [first, ("lit", "end", None)])]
    pg = ProbeGrammar(rng, variants, [], {})
    ws = [lead] if lead else []
    pg.extra_words = [(ws, w) for w in nxt[:2]] + [(ws, head + vals[0])]
    return pg


def chain_gen(rng):
    """`||` chains of three and four alternatives — at top level, in a group, inside a word, behind a definition — whose
    candidates share their first letters, so that a typed prefix is extended by candidates of several levels"""
    stems = rng.choice([["fast", "fair", "fine", "far"], ["alpha", "all", "also", "ax"], ["m1", "m2", "m3", "m4"]])
    n = rng.choice([3, 3, 4])
    alts = [("lit", x, None) for x in stems[:n]]
    outputs = {}
    if rng.random() < 0.3:
        outputs[0] = stems[0][0] + "cmd1\n" + stems[0][0] + "cmd2\n"
        alts[rng.randrange(n)] = ("cmd", '__probe 0 "$1" "$2"')
    if rng.random() < 0.3:
        i = rng.randrange(n)
        alts[i] = ("alt", [alts[i], ("lit", stems[0][0] + "zz", None)])
    chain = ("fb", alts)
    shape = rng.randrange(4)
    defs = []
    if shape == 0:
        variants = [("seq", [("lit", "mode", None), chain, ("lit", "end", None)])]
        ws, pre = ["mode"], ""
    elif shape == 1:
        variants = [("seq", [chain, ("lit", "end", None)])]
        ws, pre = [], ""
    elif shape == 2:
        variants = [("seq", [("sub", [("lit", "--speed=", None), chain]), ("lit", "end", None)])]
        ws, pre = [], "--speed="
    else:
        defs = [("LEVEL", None, chain)]
        variants = [("seq", [("lit", "pick", None), ("nt", "LEVEL"), ("lit", "done", None)])]
        ws, pre = ["pick"], ""
    pg = ProbeGrammar(rng, variants, defs, outputs)
    pg.extra_words = [(ws, pre + x) for x in stems[:n]] + [(ws, pre + stems[0][0])]
    return pg


def shape_clash_gen(rng):
    """two *different* within-word expressions whose tables contain the same numbers in the same order once section and
    level boundaries are forgotten: a literal-only word next to a command word (the command's number equal to the
    literal's), the same command under `||` in swapped order — candidates for wrongly sharing one table-reading function"""
    outputs = {0: "k0\n", 1: rng.choice(["k1\n", "kc\nkd\n"])}
    c0, c1 = '__probe 0 "$1" "$2"', '__probe 1 "$1" "$2"'
    x, y = rng.sample(["x", "y", "v1", "w"], 2)
    shape = rng.randrange(4)
    if shape == 0:
        variants = [("seq", [("cmd", c0), ("alt", [("sub", [("lit", "p=", None), ("opt", ("lit", x, None))]),
                                                  ("sub", [("lit", "q=", None), ("opt", ("cmd", c1))])])])]
        extra = [(["k0"], "p="), (["k0"], "q="), (["k0"], "p=" + x), (["k0", "p=k1"], "")]
    elif shape == 1:
        variants = [("alt", [("sub", [("lit", "p=", None), ("fb", [("lit", x, None), ("cmd", c1)])]),
                             ("sub", [("lit", "q=", None), ("fb", [("cmd", c1), ("lit", y, None)])])])]
        extra = [([], "p="), ([], "q="), ([], "p=k"), ([], "q=k")]
    elif shape == 2:
        variants = [("seq", [("cmd", c0), ("alt", [("sub", [("lit", "p=", None), ("alt", [("lit", x, None), ("lit", y, None)])]),
                                                  ("sub", [("lit", "q=", None), ("alt", [("lit", x, None), ("cmd", c1)])])])])]
        extra = [(["k0"], "p="), (["k0"], "q="), (["k0"], "q=k")]
    else:
        variants = [("alt", [("seq", [("lit", "one", None), ("sub", [("lit", "p=", None), ("fb", [("lit", x, None), ("lit", y, None), ("cmd", c1)])])]),
                             ("seq", [("lit", "two", None), ("sub", [("lit", "q=", None), ("fb", [("lit", x, None), ("cmd", c1), ("lit", y, None)])])])])]
        extra = [(["one"], "p="), (["two"], "q="), (["one"], "p=k"), (["two"], "q=k")]
    if shape not in (0, 2):
        outputs = {1: outputs[1]}
        # probe numbers must be dense from 0 for the probe table: renumber
        outputs = {0: outputs[1]}
        ren = lambda e: ("cmd", c0) if e[0] == "cmd" else e
        variants = [gen.map_tree(ren, v) for v in variants]
    pg = ProbeGrammar(rng, variants, [], outputs)
    pg.extra_words = extra
    return pg


def vocabulary(pg):
    """literal texts, command candidates, and a few foreign / glob-looking words"""
    lits = []

    def walk(e):
        k = e[0]
        if k == "lit":
            lits.append(e[1])
        elif k in ("seq", "alt", "fb", "sub"):
            for c in e[1]:
                walk(c)
        elif k in ("opt", "many", "dd"):
            walk(e[1])
    for v in pg.variants:
        walk(v)
    for _, _, e in pg.defs:
        walk(e)
    cands = []
    for out in pg.outputs.values():
        for l in out.split("\n"):
            if l:
                cands.append(l.split("\t")[0])
    return sorted(set(lits)), sorted(set(cands)), ["zzz", "*", "a*", "?", "[ab]", "-"]


def explore(rng, pg, script, workdir, max_seqs=14, max_len=3, wordbreaks=(None, ""), max_prefixes=10):
    """command lines for one grammar: guided by what the real bash offers (so that most of them are matched), plus
    foreign words. Returns list of (wb, words, prefix)."""
    lits, cands, foreign = vocabulary(pg)
    seqs = [[]]
    frontier = [[]]
    for depth in range(max_len):
        reqs = [(None, ["cmd"] + s + [""]) for s in frontier]
        res = bashrt.complete_batch(script, "cmd", reqs, workdir, probes=pg.outputs)
        if res is None:
            break
        nxt = []
        for s, (rc, reply, _log) in zip(frontier, res):
            offered = [c.rstrip(" ") for c in reply if c.strip()]
            rng.shuffle(offered)
            picks = offered[:3]
            if rng.random() < 0.5:
                picks.append(rng.choice(foreign + lits + cands if (lits or cands) else foreign))
            for w in picks:
                if len(seqs) < max_seqs and s + [w] not in seqs:
                    seqs.append(s + [w])
                    nxt.append(s + [w])
        frontier = nxt
        if not frontier:
            break
    lines = []
    for s in seqs:
        prefixes = {""}
        for w in rng.sample(lits + cands, min(4, len(lits + cands))) if (lits or cands) else []:
            for cut in {1, len(w) // 2, len(w) - 1, len(w)}:
                if 0 < cut <= len(w):
                    prefixes.add(w[:cut])
        # within-word prefixes: a head literal followed by the beginning of a value
        for a in rng.sample(lits, min(3, len(lits))):
            for b in rng.sample(lits + cands, min(2, len(lits + cands))):
                prefixes.add(a + b[: rng.randint(0, len(b))])
        prefixes.add(rng.choice(foreign))
        prefixes = sorted(prefixes)
        if len(prefixes) > max_prefixes:
            prefixes = [""] + rng.sample(prefixes[1:], max_prefixes - 1)
        dwb = default_wordbreaks()
        for p in prefixes:
            for wb in wordbreaks:
                # COMP_WORDBREAKS only matters when the typed prefix contains one of its characters
                if wb is not None and not any(c in dwb for c in p) and rng.random() > 0.1:
                    continue
                lines.append((wb, s, p))
    # words the generator knows to be accepted at a known place (repeated word-break characters): every cut that
    # ends at, just after, or shortly after a word-break character, under the default and the empty COMP_WORDBREAKS
    dwb = default_wordbreaks()
    for ws, w in getattr(pg, "extra_words", []):
        cuts = {len(w), len(w) - 1, 1}
        for i, c in enumerate(w):
            if c in dwb:
                cuts |= {i, i + 1, i + 2}
        for cut in sorted(c for c in cuts if 0 < c <= len(w)):
            for wb in wordbreaks:
                lines.append((wb, ws, w[:cut]))
    return lines


_key_order = None


def bash_key_order():
    """the order in which this bash iterates over the keys 0..399 of an associative array (`"${!a[@]}"`): a property
    of bash's hash table, obtained from bash itself; the model of the template takes it as a parameter"""
    global _key_order
    if _key_order is None:
        r = subprocess.run(["bash", "--norc", "--noprofile", "-c", 'declare -A a; for i in $(seq 0 399); do a[$i]=x; done; echo "${!a[@]}"'],
                           capture_output=True, text=True)
        _key_order = {int(k): i for i, k in enumerate(r.stdout.split())}
    return _key_order


def _rows(pairs, assoc_order=False):
    by = {}
    for q, a, b in pairs:
        by.setdefault(q, []).append((a, b))
    if assoc_order:
        ko = bash_key_order()
        for q in by:
            by[q].sort(key=lambda ab: ko.get(ab[0], 10**6))
    return "/".join(f"{q}:{','.join(f'{a}>{b}' for a, b in v)}" for q, v in by.items())


def _levels(triples, nlevels):
    out = []
    for lvl in range(nlevels):
        by = {}
        for l, q, i in triples:
            if l == lvl:
                by.setdefault(q, []).append(str(i))
        out.append("/".join(f"{q}:{'.'.join(v)}" for q, v in by.items()))
    return "|".join(out)


def tables_wire(facts, decoded, assoc=True):
    """facts of vlib/tables.py (bash: base 0) -> the wire form of BashRt.Tables; assoc=True lists the entries of
    command / within-word rows in the order bash iterates over the keys, assoc=False in the order of the script line"""
    lits = sorted((f for f in facts if f[0] == "lit"), key=lambda f: f[1])
    mx = max([f[1] for f in facts if f[0] == "max"] + [0])
    nl = mx + 1
    parts = ["lits=" + ",".join(core.hexs(decoded[f[2]]) for f in lits),
             "lt=" + _rows([(f[1], f[2], f[3]) for f in facts if f[0] == "mL"]),
             "ct=" + _rows([(f[1], f[2], f[3]) for f in facts if f[0] == "mC"], assoc_order=assoc),
             "st=" + ",".join(f"{f[1]}>{f[2]}" for f in facts if f[0] == "mX"),
             "wt=" + _rows([(f[1], f[2], f[3]) for f in facts if f[0] == "mW"], assoc_order=assoc),
             "ll=" + _levels([(f[1], f[2], f[3]) for f in facts if f[0] == "cL"], nl),
             "cl=" + _levels([(f[1], f[2], f[3]) for f in facts if f[0] == "cC"], nl),
             "wl=" + _levels([(f[1], f[2], f[3]) for f in facts if f[0] == "cW"], nl),
             f"max={mx}"]
    return ";".join(parts)


def parse_bashrt_part(part):
    """one answer of the `bashrt` driver command: (candidates or None, [(command function id, arg1, arg2)] in call order)"""
    cands, _, calls = part.partition("#")
    cl = []
    if calls and calls != "E":
        for c in calls.split(","):
            f = c.split("/")
            cl.append((int(f[0]), core.unhexs(f[1]), core.unhexs(f[2])))
    cs = None if cands == "N" else ([] if cands == "E" else sorted(set(core.unhexs(h) for h in cands.split(","))))
    return cs, cl


def bashrt_request(pg, script, lines, cmap=None):
    """the model of the bash template on the tables of this very script. Returns the request line or None;
    cmap (a dict) receives command function id -> probe number"""
    import re
    from . import tables
    try:
        t = tables.extract_tables(script.decode("utf-8", "replace"), "bash")
    except ValueError:
        return None
    raws = sorted({f[2] for facts in [t["main"]] + list(t["subs"].values()) for f in facts if f[0] == "lit"})
    ans = core.driver_batch([f"decode bash {core.hexs(r)}" for r in raws]) if raws else []
    decoded = {}
    for r, a in zip(raws, ans):
        if not a.startswith("ok "):
            return None
        decoded[r] = core.unhexs(a[3:])
    outs = []
    for cid, body in t["cmds"].items():
        m = re.match(r'__probe (\d+) ', body)
        if not m:
            return None
        out = pg.outputs.get(int(m.group(1)), "")
        if cmap is not None:
            cmap[cid] = int(m.group(1))
        ls = out.split("\n")
        if ls and ls[-1] == "":
            ls.pop()
        outs.append(f"{cid}=" + ",".join(core.hexs(l) for l in ls))
    dwb = default_wordbreaks()
    cls = ";".join(",".join([core.hexs(dwb if wb is None else wb)] + [core.hexs(w) for w in ws] + [core.hexs(p)]) for wb, ws, p in lines)
    subs = "&".join(f"{sid}@{tables_wire(f, decoded)}" for sid, f in t["subs"].items()) or "-"
    return f"bashrt {t['start']} {';'.join(outs) or '-'} {tables_wire(t['main'], decoded)} {subs} {cls}"


def run_both(pg, script, tree, lines, workdir):
    """the real bash and the Lean spec on the same command lines. Returns [(line, bash(rc, reply, log), spec dict)]"""
    reqs = [(wb, ["cmd"] + ws + [p]) for wb, ws, p in lines]
    bres = bashrt.complete_batch(script, "cmd", reqs, workdir, probes=pg.outputs)
    if bres is None:
        return None
    dwb = default_wordbreaks()
    cls = ";".join(",".join([core.hexs(dwb if wb is None else wb)] + [core.hexs(w) for w in ws] + [core.hexs(p)]) for wb, ws, p in lines)
    reqs = [f"complete bash {pg.out_table()} {cls} {tree}"]
    cmap = {}
    br = bashrt_request(pg, script, lines, cmap)
    if br is not None:
        reqs.append(br)
    answers = core.driver_batch(reqs, timeout=900)
    ans = answers[0]
    if not ans.startswith("ok "):
        return None
    model = None
    if br is not None and answers[1].startswith("ok "):
        model = [parse_bashrt_part(part) for part in answers[1][3:].split(" ; ")]
        if len(model) != len(lines):
            model = None
    specs = []
    for part in ans[3:].split(" ; "):
        f = part.split("|")
        if len(f) != 6:
            specs.append(None)
            continue

        def lst(x):
            if x == "N":
                return None
            if x == "E":
                return []
            return sorted(core.unhexs(h) for h in x.split(","))

        def calls(x):
            if x == "E":
                return set()
            return {tuple(core.unhexs(h) for h in c.split("/")) for c in x.split(",")}
        specs.append({"strict": lst(f[0]), "ambiguous": f[1] == "1", "lenient_ambiguous": f[1] == "2",
                      "lenient_word": None if f[2] == "-" else ("N" if f[2] == "N" else lst(f[2])),
                      "lenient_last": None if f[3] == "-" else ("N" if f[3] == "N" else lst(f[3])),
                      "required": calls(f[4]), "allowed": calls(f[5])})
    if len(specs) != len(lines):
        return None
    for k, sp in enumerate(specs):
        if sp is not None:
            sp["model"] = model[k][0] if model is not None else "absent"
            # the calls the model of the template makes, as (probe number, arg1, arg2) in order
            sp["model_calls"] = [(cmap.get(c, -1), a1, a2) for c, a1, a2 in model[k][1]] if model is not None else "absent"
    return list(zip(lines, bres, specs))


def bash_answer(rc, reply):
    """None when the command line is not matched (rc 1), else the sorted set of candidates"""
    if rc != 0:
        return None
    return sorted(set(reply))


def probe_calls(pg, log):
    out = set()
    for l in log:
        p = l.split("\t")
        if len(p) >= 4 and p[0] == "PROBE":
            out.add((pg.cmd_text(int(p[1])), p[2], p[3]))
    return out
