"""Shared machinery of the checks: builds, subprocess wrappers, evidence, findings."""
import fcntl
import hashlib
import json
import os
import random
import re
import shutil
import subprocess
import sys
import time

VERIF = os.path.dirname(os.path.dirname(os.path.abspath(__file__)))
REPO = os.environ.get("VERIF_REPO", "/repo")
CACHE = os.path.join(VERIF, ".cache")
LEAN = os.path.join(VERIF, "lean")
WORK = os.path.join(VERIF, "work")
# one cargo target directory per source tree: cargo does not re-link `target/debug/<bin>` for a package it
# considers fresh, so a directory shared between /repo and an alternative tree (seeded-change runs) would
# leave the other tree's binary in place
_ALT = "" if REPO == "/repo" else "-alt"
VH = os.path.join(CACHE, "vh-target" + _ALT, "debug", "vh")
COMPLGEN = os.path.join(CACHE, "repo-target" + _ALT, "debug", "complgen")
DRIVER = os.path.join(LEAN, ".lake", "build", "bin", "cgdriver")
SHELLS = ["bash", "fish", "zsh", "pwsh"]
ALLOWED_AXIOMS = {"propext", "Classical.choice", "Quot.sound"}
ENV = dict(os.environ, CARGO_NET_OFFLINE="true")

TRUSTED_BASE = [
    "Lean 4.33 kernel (lake build; leanchecker in the thorough tier)",
    "axioms allowed: propext, Classical.choice, Quot.sound (audited with #print axioms on every run)",
    "tools/translate.py (regex extraction of tables from Rust text; refuses when a pattern no longer matches)",
    "harness/vh (dump code over the real library) and vlib (orchestration, generators)",
    "Lean compiler for the native driver cgdriver (runs the same definitions the theorems are about)",
]


def hexs(s):
    b = s.encode("utf-8") if isinstance(s, str) else s
    return b.hex() if b else "e"


def unhex(h):
    if h == "e":
        return b""
    return bytes.fromhex(h)


def unhexs(h):
    return unhex(h).decode("utf-8")


class Lock:
    def __init__(self, name):
        os.makedirs(CACHE, exist_ok=True)
        self.path = os.path.join(CACHE, name + ".lock")

    def __enter__(self):
        self.f = open(self.path, "w")
        fcntl.flock(self.f, fcntl.LOCK_EX)
        return self

    def __exit__(self, *a):
        fcntl.flock(self.f, fcntl.LOCK_UN)
        self.f.close()


def run(cmd, **kw):
    kw.setdefault("env", ENV)
    kw.setdefault("capture_output", True)
    return subprocess.run(cmd, **kw)


# ---------------------------------------------------------------------------- proof side

def translate():
    """Regenerate Gen/*.lean from /repo. Returns (ok, message)."""
    r = run([sys.executable, os.path.join(VERIF, "tools", "translate.py")], text=True)
    return r.returncode == 0, (r.stderr or "").strip()


def theorem_names(path):
    """(name, line) of every theorem in a Lean file, namespace-qualified."""
    names = []
    ns = []
    with open(path, encoding="utf-8") as f:
        for i, line in enumerate(f, 1):
            m = re.match(r"namespace\s+(\S+)", line)
            if m:
                ns.append(m.group(1))
            m = re.match(r"end\s+(\S+)", line)
            if m and ns and ns[-1] == m.group(1):
                ns.pop()
            m = re.match(r"(?:private\s+|protected\s+)?theorem\s+(\S+)", line)
            if m:
                names.append((".".join(ns + [m.group(1)]), i))
    return names


FORBIDDEN = re.compile(r"\b(sorry|admit|native_decide|bv_decide|implemented_by|unsafe)\b|^axiom\s|maxHeartbeats\s+0")


def strip_comments(text):
    text = re.sub(r"/-.*?-/", "", text, flags=re.S)
    text = re.sub(r"--[^\n]*", "", text)
    return text


def forbidden_hits():
    hits = []
    for root, _, files in os.walk(os.path.join(LEAN, "Complgen")):
        for fn in files:
            if fn.endswith(".lean"):
                p = os.path.join(root, fn)
                with open(p, encoding="utf-8") as f:
                    body = strip_comments(f.read())
                for ln in body.splitlines():
                    if FORBIDDEN.search(ln):
                        hits.append(f"{os.path.relpath(p, LEAN)}: {ln.strip()}")
    return hits


def lake_build(targets):
    with Lock("lake"):
        r = run(["lake", "build"] + targets, cwd=LEAN, text=True)
    return r.returncode == 0, r.stdout + r.stderr


def proof_side(prop):
    """translate, build Props.<prop>, audit axioms.
    Returns dict(ok, obligations, discharged, failed=[theorem names], log, theorems=[...])."""
    t0 = time.time()
    res = {"ok": False, "obligations": 0, "discharged": 0, "failed": [], "log": "", "theorems": [],
           "translate_ok": True}
    ok, msg = translate()
    if not ok:
        res["translate_ok"] = False
        res["log"] = msg
        res["failed"] = ["translator: " + msg]
        return res
    path = os.path.join(LEAN, "Complgen", "Props", prop + ".lean")
    thms = theorem_names(path)
    res["theorems"] = [n for n, _ in thms]
    res["obligations"] = len(thms)
    ok, log = lake_build([f"Complgen.Props.{prop}", "cgdriver"])
    res["log"] = log
    hits = forbidden_hits()
    if hits:
        res["failed"] = ["forbidden construct: " + h for h in hits]
        return res
    if not ok:
        # which theorems of the property file failed? map error lines to theorem ranges
        bad = set()
        other = False
        for m in re.finditer(r"error: (\S+?\.lean):(\d+):\d+", log):
            f, ln = m.group(1), int(m.group(2))
            if f.endswith(f"Props/{prop}.lean"):
                cur = None
                for n, l in thms:
                    if l <= ln:
                        cur = n
                if cur:
                    bad.add(cur)
                else:
                    other = True
            else:
                other = True
                bad.add(f"{f}:{ln}")
        if not bad:
            bad.add("lake build failed (see log)")
        res["failed"] = sorted(bad)
        res["discharged"] = 0 if other else len(thms) - len([b for b in bad if not b.endswith(".lean")])
        return res
    # axiom audit
    audit = os.path.join(WORK, prop, "Audit.lean")
    os.makedirs(os.path.dirname(audit), exist_ok=True)
    with open(audit, "w") as f:
        f.write(f"import Complgen.Props.{prop}\n")
        for n, _ in thms:
            f.write(f"#print axioms {n}\n")
    with Lock("lake"):
        r = run(["lake", "env", "lean", audit], cwd=LEAN, text=True)
    out = r.stdout + r.stderr
    bad = []
    axioms_seen = set()
    for m in re.finditer(r"'([^']+)' depends on axioms: \[([^\]]*)\]", out):
        axs = {a.strip() for a in m.group(2).split(",") if a.strip()}
        axioms_seen |= axs
        if not axs <= ALLOWED_AXIOMS:
            bad.append(f"{m.group(1)} uses axioms {sorted(axs - ALLOWED_AXIOMS)}")
    if r.returncode != 0:
        bad.append("axiom audit failed to run: " + out[-500:])
    res["axioms"] = sorted(axioms_seen)
    res["failed"] = bad
    res["discharged"] = len(thms) - len(bad)
    res["ok"] = not bad
    res["wall_s"] = time.time() - t0
    return res


# ---------------------------------------------------------------------------- implementation side

def impl_build():
    """Build the complgen binary and vh from /repo's working tree (hooks on). Returns (ok, log)."""
    with Lock("cargo"):
        lock_src = os.path.join(REPO, "Cargo.lock")
        lock_dst = os.path.join(VERIF, "harness", "Cargo.lock")
        try:
            if open(lock_src).read() != (open(lock_dst).read() if os.path.exists(lock_dst) else ""):
                shutil.copy(lock_src, lock_dst)
        except OSError:
            pass
        env = dict(ENV, CARGO_TARGET_DIR=os.path.join(CACHE, "repo-target" + _ALT))
        r1 = run(["cargo", "build", "--offline", "--features", "verif"], cwd=REPO, env=env, text=True)
        if r1.returncode != 0:
            return False, r1.stderr
        env = dict(ENV, CARGO_TARGET_DIR=os.path.join(CACHE, "vh-target" + _ALT))
        hdir = os.path.join(VERIF, "harness")
        if REPO != "/repo":
            # an alternative source tree (seeded-change runs): the harness depends on it by path
            hdir = os.path.join(CACHE, "harness-alt")
            shutil.rmtree(hdir, ignore_errors=True)
            shutil.copytree(os.path.join(VERIF, "harness"), hdir, ignore=shutil.ignore_patterns("target"))
            ct = os.path.join(hdir, "Cargo.toml")
            with open(ct) as f:
                txt = f.read().replace('path = "/repo"', f'path = "{REPO}"')
            with open(ct, "w") as f:
                f.write(txt)
        r2 = run(["cargo", "build", "--offline"], cwd=hdir, env=env, text=True)
        if r2.returncode != 0:
            return False, r2.stderr
    return True, ""


def run_vh(cases, flags="tree,valid,rx,dfa", timeout=120):
    """cases: list of (id, shell, text-bytes-or-str). Returns dict id -> record.
    A case that kills the process (stack overflow, abort) gets {"stage": "crash", "rc": ...}."""
    results = {}
    pending = list(cases)
    while pending:
        inp = "".join(f"{cid} {sh} {hexs(txt)} {flags}\n" for cid, sh, txt in pending)
        try:
            r = run([VH], input=inp.encode(), timeout=timeout * max(1, len(pending) // 200 + 1))
            out, rc = r.stdout.decode("utf-8", "replace"), r.returncode
        except subprocess.TimeoutExpired as e:
            out, rc = (e.stdout or b"").decode("utf-8", "replace"), "timeout"
        begun = None
        for line in out.splitlines():
            try:
                j = json.loads(line)
            except json.JSONDecodeError:
                continue
            if "begin" in j:
                begun = j["begin"]
            elif "id" in j:
                results[j["id"]] = j
                begun = None
        if begun is not None:
            results[begun] = {"id": begun, "stage": "crash", "rc": rc}
        done = set(results)
        newpending = [c for c in pending if str(c[0]) not in done]
        if len(newpending) == len(pending):
            # no progress: mark everything as crashed to avoid looping
            for c in newpending:
                results[str(c[0])] = {"id": str(c[0]), "stage": "crash", "rc": rc}
            break
        pending = newpending
    return results


# `prlimit` keeps subprocess on its fast path (a preexec_fn forces a full fork of this process per run)
CPU_LIMIT = ["prlimit", "--cpu=20", "--"] if shutil.which("prlimit") else []


def _cpu_limit():
    import resource
    resource.setrlimit(resource.RLIMIT_CPU, (20, 21))


def run_complgen(shell, text, extra=None, out="-", timeout=600, env=None, cwd=None, path_arg="-"):
    """Run the real binary. Returns (rc, stdout bytes, stderr str). The time limit is 20 s of CPU time (a loaded
    machine must not fake a hang); the wall-clock limit only guards against a sleeping process."""
    cmd = CPU_LIMIT + [COMPLGEN, f"--{shell}", out] + (extra or []) + [path_arg]
    data = text if isinstance(text, bytes) else text.encode("utf-8")
    try:
        r = subprocess.run(cmd, input=data if path_arg == "-" else None, capture_output=True, timeout=timeout,
                           env=env or ENV, cwd=cwd, preexec_fn=None if CPU_LIMIT else _cpu_limit)
        if r.returncode in (-24, -9):
            return "timeout", b"", ""
        return r.returncode, r.stdout, r.stderr.decode("utf-8", "replace")
    except subprocess.TimeoutExpired:
        return "timeout", b"", ""


class Driver:
    """Line protocol to the Lean model driver (one request per line, one answer per line)."""

    def __init__(self):
        self.p = subprocess.Popen([DRIVER], stdin=subprocess.PIPE, stdout=subprocess.PIPE, text=True, bufsize=1)

    def ask(self, line):
        self.p.stdin.write(line + "\n")
        self.p.stdin.flush()
        ans = self.p.stdout.readline()
        if not ans:
            raise RuntimeError("driver died on: " + line[:200])
        return ans.rstrip("\n")

    def ask_many(self, lines):
        return driver_batch(lines)

    def close(self):
        try:
            self.p.stdin.close()
            self.p.wait(timeout=10)
        except Exception:
            self.p.kill()


def driver_batch(lines, timeout=600):
    """Run a batch of requests through a fresh driver process; returns the answer lines."""
    if not lines:
        return []
    try:
        r = subprocess.run([DRIVER], input="\n".join(lines) + "\n", capture_output=True, text=True, timeout=timeout)
    except subprocess.TimeoutExpired:
        # a loaded machine: the time limit only exists to stop a hung process; try once more with four times the time
        r = subprocess.run([DRIVER], input="\n".join(lines) + "\n", capture_output=True, text=True, timeout=4 * timeout)
    out = r.stdout.split("\n")
    if out and out[-1] == "":
        out.pop()
    if len(out) != len(lines):
        raise RuntimeError(f"driver answered {len(out)} lines for {len(lines)} requests (rc={r.returncode}): {r.stderr[-400:]}")
    return out


def driver_parallel(lines, jobs=12, timeout=1200):
    """Split a big batch over several driver processes."""
    import concurrent.futures
    if len(lines) < 64:
        return driver_batch(lines, timeout)
    n = min(jobs, max(1, len(lines) // 32))
    chunks = [lines[i::n] for i in range(n)]
    with concurrent.futures.ThreadPoolExecutor(n) as ex:
        outs = list(ex.map(lambda c: driver_batch(c, timeout), chunks))
    res = [None] * len(lines)
    for k, out in enumerate(outs):
        for j, a in enumerate(out):
            res[k + j * n] = a
    return res


# ---------------------------------------------------------------------------- findings, evidence

def load_findings(prop):
    path = os.path.join(VERIF, "known_findings.jsonl")
    out = []
    if os.path.exists(path):
        with open(path, encoding="utf-8") as f:
            for line in f:
                line = line.strip()
                if not line or line.startswith("#") or line.startswith("fixed:"):
                    continue
                j = json.loads(line)
                if j.get("property") == prop:
                    out.append(j)
    return out


class Ctx:
    def __init__(self, prop, tier, seed, level):
        self.prop = prop
        self.tier = tier
        self.seed = seed
        self.level = level
        self.rng = random.Random(seed)
        self.t0 = time.time()
        self.workdir = os.path.join(WORK, prop)
        os.makedirs(self.workdir, exist_ok=True)
        self.evaluations = 0
        self.nontrivial = set()
        self.samples = []
        self.violations = []  # (kind, replay dict)
        self.known_hits = {}  # finding kind -> example
        self.dist = {}
        self.findings = load_findings(prop)
        self.correspondence_breaks = []  # (stage, detail dict)
        self.assumptions = []
        self.extra = {}

    def count(self, key, n=1):
        self.dist[key] = self.dist.get(key, 0) + n

    def sample(self, s, limit=12):
        if len(self.samples) < limit:
            self.samples.append(s)

    def nontriv(self, key):
        self.nontrivial.add(hashlib.sha1(repr(key).encode()).hexdigest()[:16])

    def thorough(self):
        return self.tier == "thorough"

    def violation(self, kind, replay):
        """An oracle failure on the implementation. Classified against known findings by kind."""
        for f in self.findings:
            if f.get("kind") == kind:
                if kind not in self.known_hits:
                    self.known_hits[kind] = (f, replay)
                self.count("known-finding:" + kind)
                return
        self.violations.append((kind, replay))

    def write_replay(self, name, replay):
        d = os.path.join(VERIF, "replays")
        os.makedirs(d, exist_ok=True)
        path = os.path.join(d, f"{self.prop}-{name}.json")
        with open(path, "w", encoding="utf-8") as f:
            json.dump(replay, f, indent=1, ensure_ascii=False)
        return path

    def finish(self, proof):
        """Write evidence, print the protocol lines, return the exit code."""
        lines = []
        rc = 0
        for kind, (f, replay) in sorted(self.known_hits.items()):
            lines.append(f"KNOWN-FINDING: property={self.prop} {f.get('what', kind)}")
        seen_kinds = set()
        for kind, replay in self.violations:
            if kind in seen_kinds:
                continue
            seen_kinds.add(kind)
            replay = dict(replay, property=self.prop, kind=kind, seed=self.seed)
            path = self.write_replay(re.sub(r"[^A-Za-z0-9_.-]", "_", kind)[:60], replay)
            lines.append(f"VIOLATION property={self.prop} replay={path}")
            rc = 1
        broken = []
        if proof is not None and not proof["ok"]:
            broken += [f"theorem/obligation: {x}" for x in proof["failed"]]
        broken += [f"correspondence: {stage}" for stage, _ in self.correspondence_breaks[:5]]
        if broken and rc == 0:
            # proof or correspondence no longer checks and no failing input was found
            replay = {"property": self.prop, "no_longer_checks": broken,
                      "correspondence_details": [d for _, d in self.correspondence_breaks[:5]],
                      "log_tail": (proof or {}).get("log", "")[-3000:], "seed": self.seed}
            path = self.write_replay("unproved", replay)
            lines.append(f"VIOLATION property={self.prop} replay={path} no-failing-input-found")
            rc = 1
        cov = {
            "evaluations": self.evaluations,
            "distinct_nontrivial": len(self.nontrivial),
            "rule": self.extra.pop("rule", ""),
            "samples": self.samples or ["(none)"],
            "distribution": self.dist,
            "trusted_base": TRUSTED_BASE + self.extra.pop("trusted_extra", []),
            "checker_cmd": f"cd /verif/lean && lake build Complgen.Props.{self.prop} && lake env lean work/{self.prop}/Audit.lean (#print axioms)",
        }
        if proof is not None:
            cov["obligations"] = max(1, proof["obligations"])
            cov["discharged"] = proof["discharged"] if proof["ok"] else min(proof["discharged"], proof["obligations"] - 1 if proof["obligations"] else 0)
            cov["theorems"] = proof["theorems"]
            cov["axioms_used"] = proof.get("axioms", [])
            cov["unproved_or_failed"] = proof["failed"]
        cov["programs"] = max(1, self.extra.pop("programs", self.evaluations))
        cov["disagreements_checked"] = self.extra.pop("disagreements_checked", self.evaluations)
        cov["explanation"] = self.extra.pop("explanation", "")
        cov.update(self.extra)
        ev = {
            "property_id": self.prop,
            "tier": self.tier,
            "seed": self.seed,
            "level": self.level,
            "coverage": cov,
            "assumptions": self.assumptions,
            "wall_s": round(time.time() - self.t0, 2),
            "violations": len(seen_kinds) + (1 if (broken and not seen_kinds) else 0),
            "known_findings_hit": sorted(self.known_hits),
        }
        os.makedirs(os.path.join(VERIF, "evidence"), exist_ok=True)
        with open(os.path.join(VERIF, "evidence", self.prop + ".json"), "w", encoding="utf-8") as f:
            json.dump(ev, f, indent=1, ensure_ascii=False)
        for ln in lines:
            print(ln)
        return rc
