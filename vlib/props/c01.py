"""C01 — bash completions produced by the emitted script equal the grammar's meaning."""
import concurrent.futures
import json
import os

from .. import bashrt, complete, core

LEVEL = "translation_validation"
CLAIM = ("The emitted bash script of every generated grammar is sourced in a real, non-interactive bash (3-line _get_comp_words_by_ref stub, "
         "probe functions for the {{{ }}} commands) and driven over command lines found by walking what bash itself offers (plus foreign "
         "and glob-looking words, prefixes of every vocabulary item, within-word prefixes, COMP_WORDBREAKS default / empty). For each "
         "command line (rc, COMPREPLY) is compared with Spec.Complete (Lean, executable): the candidates the grammar's *meaning* "
         "(Spec.meaning: choice of definitions, expansion, descriptions, || levels; partial-derivative automaton) prescribes — literals "
         "with their trailing space, within-word continuations after the longest readable part, command candidates (text before the first "
         "tab) that extend the typed prefix, from the first level that has any, nothing when the words cannot be matched, minus bash's "
         "stripping up to the last word-break character. Out-of-class command lines (two readings of a word, non-prefix-free word "
         "expressions) are recognised by the spec and skipped. Two recorded defects of the template are recognised from the spec's "
         "lenient answers; anything else is a violation.")
NOTE = ("Translation validation per command line. Proved over the model of the bash template (Model/BashRt.lean, compared with the real "
        "bash on every explored command line): template_offers_extend (every collected candidate extends the typed text, for all tables / "
        "states / command outputs) and template_unmatched_silent; template_interprets_literals (Proofs/TemplateDfa.lean, over the template model running on the model of the emitted tables, Model/Tables.lean, which is compared with the real script's tables on every C04 run): for an automaton whose literal-reachable states carry only literals and never two literals with one text and different targets, the completion function returns code 1 exactly when the earlier words spell no path of literal transitions from the start, and otherwise COMPREPLY is, as a set, the stripped `text + blank` of the literal transitions out of the state reached that extend the typed prefix at the least || level that has any; template_reads_literal (a typed literal moves to its target at any state); template_needs_word_determinism; template_interprets_automaton (Proofs/TemplateDfaAll.lean) — the same at arbitrary states and for every kind of item: an earlier word is read by the priority literal > within-word automaton whose function matches > command that prints the word > any word, the walk is the run of that step relation (with the last-word heuristic), and with one reading per word at the reachable states the return code and the candidate set per || level (literals, completions inside a word, command output lines) are those of the automaton; template_walk_is_a_run (no determinism needed); template_overwritten_array_harmless (bash's readarray overwriting the accumulated candidates never changes what is offered). within_word_matcher_follows_automaton (Proofs/SubwordDfa.lean): for within-word automata of non-empty literals that are prefix-free at every state, the function `_<cmd>_subword_N matches` accepts exactly the concatenations of literal paths from the start state, and in complete mode offers matched + literal for the literals expected after the longest readable part, at the least level that has any; within_word_needs_prefix_free. The remaining step to C01_model — the automaton's priority runs = Spec.Complete on in-class grammars (and commands inside words) — "
        "is open. Trusted: the bash runner stub (bash-completion's _get_comp_words_by_ref is not installed), probe functions, "
        "Spec.Complete itself (the executable statement of the property, DESIGN.md Appendix D).")
TECHNIQUE = "real bash execution of the emitted script against the executable Lean spec of completion (Spec.Complete) over the grammar's meaning"
DESIGN_REF = "§3 C01, Appendix D"


def run_grammar(args):
    """worker: one grammar through the real bash and the spec. Returns (pg, text, status, results)"""
    seed, idx, workroot, thorough, kw = args
    import random
    rng = random.Random(seed * 1000003 + idx)
    if kw.get("twins") and idx % 4 == 3:
        pg = complete.twin_gen(rng)
    elif kw.get("twins") and idx % 8 == 2:
        pg = complete.head_overlap_gen(rng)
    elif kw.get("gen"):
        pg = getattr(complete, kw["gen"])(rng)
    elif idx % 16 in (9, 13):
        pg = complete.shape_clash_gen(rng)
    elif idx % 8 == 6:
        pg = complete.wordbreak_gen(rng)
    elif idx % 8 == 5:
        pg = complete.long_candidate_gen(rng)
    elif idx % 16 == 4:
        pg = complete.fallback_gen(rng)
    elif idx % 8 == 7 or idx % 16 == 12:
        pg = complete.chain_gen(rng)
    elif kw.get("shared") and idx % 4 == 1:
        pg = complete.shared_gen(rng)
    else:
        pg = complete.probe_gen(rng, max_depth=rng.choice([2, 3, 3, 4]), **{k: v for k, v in kw.items() if k not in ("twins", "shared", "gen")})
    text = pg.text()
    rc, out, err = core.run_complgen("bash", text)
    if rc != 0:
        return pg, text, "grammar-rejected", None
    recs = core.run_vh([(f"g{idx}", "bash", text)], flags="tree")
    tree = recs.get(f"g{idx}", {}).get("tree")
    if tree is None:
        return pg, text, "no-tree", None
    # the oracle works on the tree the *generator* built, not on what the parser under test made of the text: a parser
    # that reads `a || b || c` differently would otherwise move the specification along with the script
    from . import c05
    try:
        tree = c05.spanned_grammar_wire(pg.variants, pg.defs)
    except (ValueError, KeyError):
        pass
    workdir = os.path.join(workroot, f"bash{idx % 64}")
    lines = complete.explore(rng, pg, out, workdir, max_seqs=16 if thorough else 8, max_prefixes=14 if thorough else 8)
    res = complete.run_both(pg, out, tree, lines, workdir)
    if res is None:
        return pg, text, "run-failed", None
    return pg, text, "ok", res


def check_grammars(ctx, n, own="C01", **kw):
    jobs = [(ctx.seed, i, ctx.workdir, ctx.thorough(), kw) for i in range(n)]
    with concurrent.futures.ThreadPoolExecutor(16) as ex:
        results = list(ex.map(run_grammar, jobs))
    # a batch that did not finish (bash or the spec driver hit its time limit on a loaded machine) says
    # nothing about the property: run it again on its own, after the pool, before reporting anything
    for k, (pg, text, status, res) in enumerate(results):
        if status == "run-failed":
            ctx.count("run-retried")
            results[k] = run_grammar(jobs[k])
    if True:
        for pg, text, status, res in results:
            if status != "ok":
                ctx.count(status)
                if status == "run-failed":
                    ctx.correspondence_breaks.append(("bash-or-spec-run-failed", {"grammar": text}))
                continue
            for (wb, ws, p), (brc, reply, log), spec in res:
                if spec is None:
                    ctx.correspondence_breaks.append(("spec-answer-malformed", {"grammar": text}))
                    continue
                ctx.evaluations += 1
                got = complete.bash_answer(brc, reply)
                want = spec["strict"]
                # (S) the Lean model of the bash template on the tables of this very script vs the real bash
                if spec.get("model", "absent") != "absent":
                    ctx.count("template-model-compared")
                    if spec["model"] != got:
                        ctx.count("template-model-differs")
                        if len([b for b in ctx.correspondence_breaks if b[0] == "bash-template-model"]) < 5:
                            ctx.correspondence_breaks.append(("bash-template-model", {
                                "grammar": text, "words": ws, "prefix": p, "wordbreaks": "default" if wb is None else wb,
                                "bash": got, "model": spec["model"]}))
                # (S) ... and the calls of the external commands the model makes vs the probe log of the real bash, in order
                mc = spec.get("model_calls", "absent")
                if mc != "absent":
                    real = []
                    for l in log:
                        f = l.split("\t")
                        if len(f) >= 4 and f[0] == "PROBE":
                            real.append((int(f[1]), f[2], f[3]))
                    ctx.count("template-model-calls-compared")
                    if mc != real:
                        ctx.count("template-model-calls-differ" if sorted(mc) != sorted(real) else "template-model-calls-order-differs")
                        if len([b for b in ctx.correspondence_breaks if b[0] == "bash-template-model-calls"]) < 5:
                            ctx.correspondence_breaks.append(("bash-template-model-calls", {
                                "grammar": text, "words": ws, "prefix": p, "bash": real[:12], "model": mc[:12]}))
                if spec["ambiguous"]:
                    # outside the class the property is stated for (two readings of a word, non-prefix-free word
                    # expressions or command outputs): the template model above is still compared with the real bash
                    ctx.count("out-of-class")
                    continue
                rp = {"grammar": text, "grammar_hex": core.hexs(text), "probe_outputs": pg.outputs, "words": ws, "prefix": p,
                      "wordbreaks": "default" if wb is None else wb, "bash": {"rc": brc, "COMPREPLY": reply}, "spec": want}
                if own == "C01":
                    judge_candidates(ctx, rp, got, want, spec)
                elif own == "C09":
                    judge_fallback(ctx, rp, got, want, spec)
                else:
                    judge_calls(ctx, rp, pg, log, got, want, spec)


def judge_candidates(ctx, rp, got, want, spec):
    ctx.count("matched" if want is not None else "unmatched")
    if want:
        ctx.nontriv((rp["grammar"], tuple(rp["words"]), rp["prefix"], rp["wordbreaks"]))
    if got == want:
        if ctx.evaluations % 499 == 0:
            ctx.sample({"grammar": rp["grammar"], "words": rp["words"], "prefix": rp["prefix"], "candidates": want}, limit=6)
        return
    norm = lambda x: None if x == "N" else x
    if (spec["lenient_word"] is not None and got == norm(spec["lenient_word"])) or spec["lenient_ambiguous"]:
        ctx.violation("unfinished-word-accepted", dict(rp, what="a word that stops in the middle of a within-word expression is read as complete"))
        return
    if spec["lenient_last"] is not None and got == norm(spec["lenient_last"]):
        ctx.violation("unmatched-last-word-ignored-at-command-point", dict(rp, what="the last complete word matches no candidate of the expected command and is ignored"))
        return
    kind = "offers-for-unmatched-line" if want is None else ("nothing-for-matched-line" if got is None else
            ("missing-candidates" if set(want) - set(got or []) else "extra-candidates"))
    ctx.violation(kind, dict(rp, what=f"bash offers {got}, the grammar prescribes {want}"))


def judge_fallback(ctx, rp, got, want, spec):
    """C09, by execution: what bash offers for a `||` grammar is what the grammar prescribes (the candidates of the first
    branch that has any extending the typed prefix); C01's recorded findings about unfinished words are not judged here"""
    ctx.count("bash:matched" if want is not None else "bash:unmatched")
    if got == want:
        if want:
            ctx.nontriv((rp["grammar"], tuple(rp["words"]), rp["prefix"], rp["wordbreaks"]))
        return
    norm = lambda x: None if x == "N" else x
    if (spec["lenient_word"] is not None and got == norm(spec["lenient_word"])) or spec["lenient_ambiguous"] or \
            (spec["lenient_last"] is not None and got == norm(spec["lenient_last"])):
        ctx.count("bash:not-judged(C01 finding)")
        return
    ctx.violation("fallback-candidates-differ-in-bash", dict(rp, what=f"bash offers {got}, the `||` grammar prescribes {want}"))


def judge_calls(ctx, rp, pg, log, got, want, spec):
    """C17: which commands ran, with which arguments; command candidates = text before the first tab"""
    calls = complete.probe_calls(pg, log)
    rp = dict(rp, calls=sorted(calls), allowed=sorted(spec["allowed"]), required=sorted(spec["required"]))
    if calls:
        ctx.nontriv((rp["grammar"], tuple(rp["words"]), rp["prefix"]))
    ctx.count(f"calls:{min(len(calls), 4)}")
    extra = calls - spec["allowed"]
    if extra and spec["lenient_ambiguous"]:
        # C01's recorded finding makes the reading of an unfinished word depend on table order: the point bash
        # continues from, and hence the calls due, are not determined by the grammar
        ctx.count("calls-not-judged:unfinished-word-read-several-ways")
        return
    if extra:
        c = sorted(extra)[0]
        known_cmd = any(c[0] == a[0] for a in spec["allowed"])
        kind = "wrong-arguments" if known_cmd else "command-run-where-not-expected"
        ctx.violation(kind, dict(rp, what=f"the script ran {c[0]!r} with arguments ({c[1]!r}, {c[2]!r}); the grammar allows {sorted(spec['allowed'])}"))
        return
    if got == want and want is not None and (spec["lenient_word"] is not None or spec["lenient_ambiguous"]):
        # C01's recorded finding (a word stopping inside a within-word expression is read as complete) sends bash to
        # another point that happens to offer the same candidates: which calls are due there is not decided here
        ctx.count("required-calls-not-judged:unfinished-word-path")
    elif got == want and want is not None:
        missing = spec["required"] - calls
        if missing:
            c = sorted(missing)[0]
            ctx.violation("expected-command-not-run", dict(rp, what=f"{c[0]!r} should have been run with ({c[1]!r}, {c[2]!r})"))
            return
    if got != want:
        norm = lambda x: None if x == "N" else x
        if (spec["lenient_word"] is not None and got == norm(spec["lenient_word"])) or spec["lenient_ambiguous"]:
            return   # C01's recorded finding (unfinished word), not about commands
        if spec["lenient_last"] is not None and got == norm(spec["lenient_last"]):
            ctx.violation("unmatched-last-word-ignored-at-command-point", dict(rp, what="the last complete word equals no candidate of the expected command, yet the line is not rejected"))
            return
        fields = {l.split("\t")[0] for out in pg.outputs.values() for l in out.split("\n") if l}
        diff = set(got or []) ^ set(want or [])
        if got is None or want is None or any(any(d.endswith(f) for f in fields) for d in diff):
            ctx.violation("command-candidates-differ", dict(rp, what=f"bash offers {got}, the grammar prescribes {want}"))
    elif ctx.evaluations % 307 == 0:
        ctx.sample({"grammar": rp["grammar"], "words": rp["words"], "prefix": rp["prefix"], "calls": sorted(calls)}, limit=6)


def run(ctx, proof):
    ctx.extra["rule"] = ("random grammars with probe commands (sequence, |, ||, [], ..., within-word expressions incl. repetition and same-shaped ones differing in `||` levels, definitions in "
                         "any order, descriptions); command lines: walks of depth <= 3 through what bash offers + foreign / glob-looking words, "
                         "x prefixes (empty, cuts of vocabulary items, within-word prefixes, foreign) x COMP_WORDBREAKS {default, empty}; "
                         "non-trivial = distinct matched command line with at least one prescribed candidate")
    n = 400 if ctx.thorough() else 48
    check_grammars(ctx, n, twins=True)
    ctx.extra["programs"] = n
    ctx.extra["disagreements_checked"] = ctx.evaluations


def replay(ctx, proof, path):
    with open(path) as f:
        rp = json.load(f)
    text = rp["grammar"]
    rc, out, err = core.run_complgen("bash", text)
    if rc != 0:
        print("replay: the grammar is no longer accepted")
        return 0
    tree = core.run_vh([("r", "bash", text)], flags="tree")["r"]["tree"]

    class PG:
        outputs = {int(k): v for k, v in rp["probe_outputs"].items()}

        def cmd_text(self, k):
            return f'__probe {k} "$1" "$2"'

        def out_table(self):
            return complete.ProbeGrammar.out_table(self)

        def text(self):
            return text
    pg = PG()
    wb = None if rp["wordbreaks"] == "default" else rp["wordbreaks"]
    res = complete.run_both(pg, out, tree, [(wb, rp["words"], rp["prefix"])], os.path.join(ctx.workdir, "bash"))
    (_, (brc, reply, log), spec) = res[0]
    got = complete.bash_answer(brc, reply)
    norm = lambda x: None if x == "N" else x
    known = (spec["ambiguous"] or spec["lenient_ambiguous"] or
             (spec["lenient_word"] is not None and got == norm(spec["lenient_word"])) or
             (spec["lenient_last"] is not None and got == norm(spec["lenient_last"])))
    if got != spec["strict"] and not known:
        print(f"VIOLATION property={ctx.prop} replay={path}")
        print("bash:", brc, reply, "spec:", spec["strict"])
        return 1
    print("replay: property holds on this case now" + (" (out of class or a recorded finding)" if got != spec["strict"] else ""))
    return 0
