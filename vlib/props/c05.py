"""C05 — grammar text parses to the tree its syntax prescribes (print/parse round trip)."""
import json
import re

from .. import core, gen, gram, mutate
from . import c14

LEVEL = "translation_validation"
CLAIM = ("The Lean model of parse.rs (Model/Parse.lean: terminal lexer incl. escapes and the three-dots rule, descriptions, nonterminals, "
         "commands, the ladder unary → juxtaposition → description → sequence → | → ||, statements, Grammar::parse incl. the location of "
         "the first unparsable statement) is compared with the real parser on every case of the run, exactly: tree, every span, or the "
         "error location — on printed trees and on mutated text. The round trip itself is decided on the real parser: every expression "
         "tree with <= N nodes and random deeper ones, literals over the whole admitted character set incl. every backslash escape and "
         "dot runs (printed with the fewest escapes), descriptions with escaped quotes and backslashes, printed with the minimum of "
         "parentheses and under 3 random layouts (whitespace, newlines, form feeds, comments between tokens, ::=, no final `;`), must "
         "parse back to the same tree. Proved over the parser model, for every text (Props/C05.lean, Proofs/Lexer.lean): terminal_is_decoder "
         "(the three-phase literal lexer = a character-by-character reference decoder, on every input), terminal_roundtrip / "
         "terminal_roundtrip_escape_all (every literal over the permitted characters, printed with the fewest escapes or with every "
         "special character escaped, reads back exactly), description_roundtrip (every description with quotes and backslashes escaped "
         "reads back exactly), and the facts about blanks and comments. ladder_roundtrip (Proofs/Ladder.lean): every normal-form tree over literals of regular characters, nonterminals and commands built with sequence, |, ||, [ ] and postfix ..., printed with the minimum of parentheses (Parse.pp), is read back by the parser model as the same tree up to spans — and the text this Lean printer produces for every such tree with <= N nodes is fed to the real parser on every run. ladder_roundtrip_layout (Proofs/LadderLayout.lean): the same under every admissible layout — any stretch of blanks, form feeds and closed # comments chosen independently at every position of the tree (between the items of a sequence, on either side of | and ||, inside brackets and parentheses, before a postfix ...), with at least one character between two words and no # directly after a word; Parse.pp is the instance with one blank at the operators. ladder_roundtrip_full (Proofs/LadderFull.lean): the ladder with literals over every admitted character printed with the fewest escapes, literals with descriptions, descriptions distributed over groups and words built by juxtaposition (--opt=<V>), for a printer that adds the parentheses the three-dots and description rules require; full_restrictions_needed: kernel-evaluated counterexamples for each side condition. grammar_roundtrip / grammar_roundtrip_layout (Proofs/Statements.lean): whole files — lists of statements `cmd expr;`, `<NAME> ::= expr;`, `<NAME@shell> ::= expr;` over the operator ladder under every admissible layout (leading / trailing comments, after names, around ::= or =, before ;, between statements, last ; optional) are read back by the model of Grammar::parse as the same grammar up to spans, with the fuel Grammar::parse itself provides. The Lean printers of these theorems are exercised on every run: the text of Full.pp' for trees with escapes / descriptions / juxtaposition (the driver also reports whether the parser model reads it back, i.e. whether the tree is in the fragment) and the text of ppGrammar / ppGrammarL for grammars of 1-3 statements under layouts drawn from a seed (menu checked admissible by the driver) are fed to the real parser, which must return the tree they were printed from. ladder_roundtrip_full_layout / grammar_roundtrip_full_layout (Proofs/LadderFullLayout.lean, StatementsFull.lean): both extensions together — whole files over the larger fragment under every admissible layout (additionally a possibly empty stretch before a description, not starting with #; none inside a word: layout_positions_needed). Open: blanks inside {{{ }}}, redundant parentheses.")
NOTE = ("Proved: the two lexer round trips and the operator ladder on its fragment; open: blanks inside {{{ }}} and redundant parentheses. Trusted: the Python printer (minimum parentheses, fewest "
        "escapes) — it is the specification of the surface syntax here — and vh's tree dump.")
TECHNIQUE = "exact correspondence of the Lean parser model with the real parser (trees, spans, error locations) + Lean round-trip theorems for the literal and description lexers + print/parse round trip on the real parser"
DESIGN_REF = "§3 C05"

SPAN_RE = re.compile(r"\b\d+:\d+:\d+ ")


def hexopt(d):
    return "-" if d is None else core.hexs(d)


def flatten_sub(e):
    """children of a word never contain words (flatten_expr)"""
    k = e[0]
    if k == "sub":
        return ("seq", [flatten_sub(c) for c in e[1]])
    if k in ("seq", "alt", "fb"):
        return (k, [flatten_sub(c) for c in e[1]])
    if k in ("opt", "many"):
        return (k, flatten_sub(e[1]))
    if k == "dd":
        return (k, flatten_sub(e[1]), e[2])
    return e


def tree_text(e):
    """the canonical tree text of vh / the Lean model, without spans"""
    k = e[0]
    if k == "lit":
        return f"T {core.hexs(e[1])} {hexopt(e[2])} 0 "
    if k == "nt":
        return f"N {core.hexs(e[1])} 0 "
    if k == "cmd":
        return f"C {core.hexs(e[1].strip())} 0 0 "
    if k in ("seq", "alt", "fb"):
        return f"{ {'seq': 'S', 'alt': 'A', 'fb': 'F'}[k]} {len(e[1])} " + "".join(tree_text(c) for c in e[1])
    if k == "opt":
        return "O " + tree_text(e[1])
    if k == "many":
        return "M " + tree_text(e[1])
    if k == "dd":
        return f"D {core.hexs(e[2])} " + tree_text(e[1])
    if k == "sub":
        cs = [flatten_sub(c) for c in e[1]]
        return f"W 0 S {len(cs)} " + "".join(tree_text(c) for c in cs)
    raise ValueError(k)


def _spanned():
    """writer of the wire text of a tree with dummy source positions"""
    sp = "1:1:1 "

    def w(e):
        k = e[0]
        if k == "lit":
            return f"T {core.hexs(e[1])} {hexopt(e[2])} 0 " + sp
        if k == "nt":
            return f"N {core.hexs(e[1])} 0 " + sp
        if k == "cmd":
            return f"C {core.hexs(e[1].strip())} 0 0 " + sp
        if k in ("seq", "alt", "fb"):
            return f"{ {'seq': 'S', 'alt': 'A', 'fb': 'F'}[k]} {len(e[1])} " + sp + "".join(w(c) for c in e[1])
        if k in ("opt", "many"):
            return {"opt": "O ", "many": "M "}[k] + sp + w(e[1])
        if k == "dd":
            return f"D {core.hexs(e[2])} " + sp + w(e[1])
        if k == "sub":
            cs = [flatten_sub(c) for c in e[1]]
            return "W 0 " + sp + f"S {len(cs)} " + sp + "".join(w(c) for c in cs)
        raise ValueError(k)
    return w


def spanned_wire(t):
    return (f"G 1 V {core.hexs('cmd')} 1:1:1 " + _spanned()(t)).strip()


def spanned_grammar_wire(variants, defs):
    """wire text with dummy positions of a whole grammar: call variants of `cmd`, definitions (name, shell or None, tree)"""
    w = _spanned()
    out = [f"G {len(variants) + len(defs)} "]
    for v in variants:
        out.append(f"V {core.hexs('cmd')} 1:1:1 " + w(v))
    for n, sh, e in defs:
        out.append(f"R {core.hexs(n)} 1:1:1 " + (f"{core.hexs(sh)} 1:1:1 " if sh else "- - ") + w(e))
    return "".join(out).strip()


def grammar_text(variants, defs):
    out = [f"G {len(variants) + len(defs)} "]
    for v in variants:
        out.append(f"V {core.hexs('cmd')} " + tree_text(v))
    for n, sh, e in defs:
        out.append(f"R {core.hexs(n)} " + (f"{core.hexs(sh)} " if sh else "- - ") + tree_text(e))
    return "".join(out).strip()


def strip_spans(t):
    return SPAN_RE.sub("", t + " ").strip()


def normal_form(e, in_sub=False):
    """trees the printer can print so that they parse back: operators have >= 2 children, a word has >= 2 factors and its
    factors are not words, no literal is empty"""
    k = e[0]
    if k in ("seq", "alt", "fb"):
        return len(e[1]) >= 2 and all(normal_form(c, in_sub) for c in e[1])
    if k == "sub":
        return not in_sub and len(e[1]) >= 2 and all(normal_form(c, True) and c[0] != "dd" for c in e[1])
    if k in ("opt", "many"):
        return normal_form(e[1], in_sub)
    if k == "dd":
        return not in_sub and normal_form(e[1], in_sub)
    if k == "lit":
        return bool(e[1]) and not e[1].startswith("#") and (e[2] is None or True)
    return True


LIT_ALPHABET = gram.REGULAR + gram.ESCAPABLE


def rich_lit(rng):
    n = rng.choice([1, 1, 2, 3, 5, 8])
    s = "".join(rng.choice(rng.choice([LIT_ALPHABET, gram.ESCAPABLE, "..ab", "\\.()"])) for _ in range(n))
    return s if s and not s.startswith("#") else "x" + s


def rich_descr(rng):
    n = rng.choice([0, 1, 3, 8])
    return "".join(rng.choice(rng.choice(["ab c", "\\\"", " !#$%&'()*+,-./:;<=>?@[]^_`{|}~", "éß→"])) for _ in range(n))


def enrich(rng, e):
    """replace literal texts / descriptions by ones over the whole admitted alphabet"""
    def f(x):
        if x[0] == "lit" and rng.random() < 0.5:
            return ("lit", rich_lit(rng), x[2] if rng.random() < 0.5 else (rich_descr(rng) if rng.random() < 0.6 else None))
        if x[0] == "dd" and rng.random() < 0.5:
            return ("dd", x[1], rich_descr(rng))
        return x
    return gen.map_tree(f, e)


def in_ladder_fragment(e, top=True):
    """the fragment of Proofs/Ladder.lean: undescribed literals of regular characters (not starting with `#`),
    nonterminals, commands; sequence, |, ||, [ ], ... with >= 2 operands; no juxtaposition, no group descriptions"""
    k = e[0]
    if k in ("seq", "alt", "fb"):
        return len(e[1]) >= 2 and all(in_ladder_fragment(c, False) for c in e[1])
    if k in ("opt", "many"):
        return in_ladder_fragment(e[1], False)
    if k == "lit":
        return e[2] is None and e[1] != "" and all(c in gram.REGULAR for c in e[1]) and not e[1].startswith("#")
    if k == "nt":
        return e[1] != "" and ">" not in e[1]
    if k == "cmd":
        return e[1] == e[1].strip() and "}}}" not in e[1]
    return False


def render_min(variants, defs):
    old = gram.lit
    gram.lit = gram.lit_min
    try:
        return gen.render_grammar("cmd", variants, defs)
    finally:
        gram.lit = old


def run_batch(ctx, cases):
    """cases: [(id, text, expected tree text without spans or None)]"""
    vc = [(cid, "bash", text) for cid, text, _ in cases]
    recs = core.run_vh(vc, flags="tree")
    ans = core.driver_parallel([f"parse {core.hexs(t)}" for _, t, _ in cases])
    for (cid, text, want), a in zip(cases, ans):
        ctx.evaluations += 1
        r = recs.get(cid, {})
        if "tree" in r:
            impl = "ok " + r["tree"]
        elif r.get("stage") == "parse":
            impl = "err " + " ".join(r["err"]["spans"])
        else:
            ctx.count("impl-crash")
            continue
        ctx.count("impl:" + impl[:3].strip())
        if a != impl:
            ctx.correspondence_breaks.append(("parse", {"text": text, "impl": impl[:500], "model": a[:500]}))
        if want is not None:
            ctx.count("roundtrip")
            got = strip_spans(r["tree"]) if "tree" in r else impl
            if got != want:
                ctx.violation("roundtrip:" + cid.split(":")[0], {
                    "text": text, "text_hex": core.hexs(text), "expected_tree": want, "parsed_tree": got,
                    "what": "the printed tree does not parse back to the same tree"})
            else:
                ctx.nontriv(want + text)


def run(ctx, proof):
    ctx.extra["rule"] = ("every expression tree with <= N nodes (N=4 quick, 5 thorough) + random deeper grammars (with definitions and "
                         "specialisations), literals/descriptions enriched over the whole admitted alphabet; each printed plainly and under "
                         "3 random layouts; + mutated texts (model/implementation correspondence only). non-trivial = distinct (tree, text) "
                         "that round-trips")
    rng = ctx.rng
    cases = []
    n = 5 if ctx.thorough() else 4
    for i, t in enumerate(gen.small_exprs(n)):
        if not normal_form(t):
            continue
        want = grammar_text([t], [])
        text = render_min([t], [])
        cases.append((f"small:{i}", text, want))
        if i % 7 == 0:
            cases.append((f"small-layout:{i}", c14.relayout(rng, text), want))
    ctx.count("exhaustive-small", len(cases))
    # the printer of Proofs/Ladder.lean (the one `ladder_roundtrip` is about) on the trees of its fragment: the text it
    # prints must be read by the real parser as the tree it was printed from
    frag = [t for t in gen.small_exprs(n) if in_ladder_fragment(t)]
    reqs = ["pp " + spanned_wire(t) for t in frag]
    for i, (t, a) in enumerate(zip(frag, core.driver_parallel(reqs))):
        if a.startswith("ok "):
            cases.append((f"ladder-pp:{i}", core.unhexs(a[3:]) + "\n", grammar_text([t], [])))
        else:
            ctx.correspondence_breaks.append(("ladder-pp", {"tree": grammar_text([t], []), "answer": a}))
    ctx.count("ladder-printer", len(frag))
    # the printer of Proofs/LadderFull.lean (escapes, descriptions, juxtaposition): the driver also says whether the
    # parser model reads the text back (true on the whole fragment by ladder_roundtrip_full); those texts must then be
    # read by the real parser as the tree they were printed from
    full = [t for t in gen.small_exprs(n) if normal_form(t) and not in_ladder_fragment(t)]
    for i in range(4000 if ctx.thorough() else 400):
        g = gen.Gen(rng, max_depth=rng.choice([2, 3, 4]), p_descr=0.4, p_sub=0.35)
        vs, _ = g.grammar_parts()
        full += [t for t in (enrich(rng, v) for v in vs[:1]) if normal_form(t)]
    reqs = ["ppfull " + spanned_wire(t) for t in full]
    for i, (t, a) in enumerate(zip(full, core.driver_parallel(reqs))):
        f = a.split(" ")
        if f[0] == "ok" and len(f) == 3:
            ctx.count("full-printer:in-fragment" if f[2] == "1" else "full-printer:outside-fragment")
            cases.append((f"full-pp:{i}", core.unhexs(f[1]) + "\n", grammar_text([t], []) if f[2] == "1" else None))
        else:
            ctx.correspondence_breaks.append(("full-pp", {"tree": grammar_text([t], []), "answer": a[:200]}))
    # the printer of Proofs/Statements.lean: whole grammars over the ladder fragment, plainly (seed 0) and under layouts
    # drawn from a seed (admissible in the sense of grammar_roundtrip_layout: the driver checks the menu)
    pool = frag if len(frag) < 4000 else rng.sample(frag, 4000)
    greqs, gwant = [], []
    for i in range(3000 if ctx.thorough() else 300):
        k = rng.choice([1, 1, 2, 3])
        vs = [rng.choice(pool) for _ in range(rng.choice([1, 1, 2]))]
        ds = [(f"N{j}", rng.choice([None, None, "bash", "zsh"]), rng.choice(pool)) for j in range(k - 1)]
        sd = 0 if i % 5 == 0 else rng.randrange(1, 10 ** 6)
        greqs.append(f"ppgram {sd} " + spanned_grammar_wire(vs, ds))
        gwant.append(grammar_text(vs, ds))
    for i, (want, a) in enumerate(zip(gwant, core.driver_parallel(greqs))):
        if a.startswith("ok "):
            cases.append((f"gram-pp:{i}", core.unhexs(a[3:]), want))
        else:
            ctx.correspondence_breaks.append(("gram-pp", {"tree": want[:300], "answer": a[:200]}))
    ctx.count("grammar-printer", len(greqs))
    nr = 20000 if ctx.thorough() else 1200
    for i in range(nr):
        g = gen.Gen(rng, max_depth=rng.choice([2, 3, 4, 5]), p_descr=0.4, p_sub=0.25)
        variants, defs = g.grammar_parts()
        variants = [enrich(rng, v) for v in variants]
        defs = [(nm, sh, e if sh else enrich(rng, e)) for nm, sh, e in defs]
        if not all(normal_form(v) for v in variants) or not all(normal_form(e) for _, _, e in defs):
            ctx.count("not-normal-form")
            continue
        want = grammar_text(variants, defs)
        text = render_min(variants, defs)
        cases.append((f"rnd:{i}", text, want))
        for j in range(2):
            cases.append((f"rnd-layout:{i}.{j}", c14.relayout(rng, text), want))
        if i % 199 == 0:
            ctx.sample({"text": text, "tree": want[:300]}, limit=5)
    nm = 20000 if ctx.thorough() else 1500
    for i in range(nm):
        base = gen.Gen(rng, max_depth=rng.choice([2, 3]), p_descr=0.4).grammar()
        k, data = mutate.mutate(rng, base)
        try:
            cases.append((f"mut:{i}", data.decode("utf-8"), None))
        except UnicodeDecodeError:
            pass
    for i in range(0, len(cases), 3000):
        run_batch(ctx, cases[i:i + 3000])
    ctx.extra["exhaustive_small_nodes"] = n
    ctx.extra["programs"] = ctx.evaluations


def replay(ctx, proof, path):
    with open(path) as f:
        rp = json.load(f)
    before = len(ctx.violations)
    run_batch(ctx, [("replay:0", rp["text"], rp.get("expected_tree"))])
    if len(ctx.violations) > before:
        print(f"VIOLATION property={ctx.prop} replay={path}")
        return 1
    print("replay: property holds on this case now")
    return 0
