"""C13 — diagnostics point at the construct they complain about."""
import concurrent.futures
import json
import os
import re
import tempfile

from .. import core, gram

LEVEL = "translation_validation"
CLAIM = ("Grammars are assembled around one planted located mistake or warning (undefined / unused nonterminal, unused specialisation, "
         "duplicate definition, unknown shell, varying command name, spaces inside a word behind a definition, unparsable statement) whose "
         "byte offset the generator records, surrounded by random material: backslash-escaped literals before it on the same line, "
         "comments, blank lines, form feeds, multi-line expressions, non-ASCII descriptions on earlier lines. For the four shells the "
         "`<path>:<line>:<col>:` prefix, the source line shown and the start of the underline on stderr of the real binary must be the "
         "line / byte column / text computed from the recorded offset. Every span of the parse tree and every parse-error location is "
         "compared exactly with the Lean parser model (Model/Parse.lean: positions as nom_locate tracks them) on every case. Proved over the position bookkeeping of the parser model (Props/C13.lean, Proofs/Position.lean): adv_position / "
         "init_position — after consuming any text the location is (line + line feeds consumed, 1 + bytes after the last line feed) — "
         "plus additivity, monotonicity and fromRange_start. span_sound_ladder (Proofs/LadderSpans.lean): span soundness itself on the operator ladder — when the printed form of any expression tree over literals, nonterminals, commands, juxtaposition by blanks, |, ||, [ ], postfix ... and parentheses stands anywhere in a file, the parser model returns that tree and every node of it, in preorder, carries the span starting at line 1 + (line feeds before) and byte column 1 + (bytes since the last line feed) of the offset of the first character of that node's own text, the characters between the node's two offsets being the printed form of that node (parentheses forced by the context excluded, as parenthesized_expr returns the inner node). span_sound_full / span_sound_file (Proofs/SpansFull.lean, SpansFile.lean): the same for the larger fragment (escaped literals, descriptions — the span of a described literal covers literal, layout and description; `( … ) \"d\"` starts at the parenthesis — and words by juxtaposition), under every admissible layout, and for whole files through the model of Grammar::parse: the spans of command names, definition heads, shell names and of every expression node start at the line / byte column of the first character of their own text. Outside these fragments span soundness is decided per grammar by the exact comparison of all spans.")
NOTE = ("Columns are byte columns (nom_locate's get_column), as DESIGN.md §3 C13 states; non-ASCII text is only placed on lines before the "
        "planted token. Trusted: the generator's offset bookkeeping, the regex reading diagnostics. Open: span_sound outside the proved fragment (commands containing `}`, redundant parentheses); diag_points_at (which span each diagnostic picks) is decided by the planted-offset oracle.")
TECHNIQUE = "planted offsets against the real binary's diagnostics + exact span correspondence with the Lean parser model"
DESIGN_REF = "§3 C13"

DIAG_RE = re.compile(r"^(?P<path>[^\n]*?):(?P<line>\d+):(?P<col>\d+):(?P<sev>error|warning)(?:: (?P<title>[^\n]*))?\n(?:[ ]*\|\n)?[ ]*(?P<ln>\d+) \| (?P<src>[^\n]*)\n[ ]*\| (?P<ul>[ ]*)(?P<marks>[\^\-]+)", re.M)

ESC_LITS = ["\\[x\\]", "a\\.\\.\\.", "\\(", "b\\|c", "\\<t\\>", "q\\\\", "say\\\"hi", "\;", "x\\{y\\}", "..", "a.b"]
PLAIN = ["foo", "--bar", "-x", "k=v", "a/b", "x,y"]
DESCRS = ['"plain"', '"with \\"quotes\\""', '"back\\\\slash"', '"zażółć gęślą jaźń"', '"日本語 →"', '"tab\\\there"']


def filler_items(rng, n, ascii_only=False):
    out = []
    for _ in range(n):
        r = rng.random()
        if r < 0.35:
            out.append(rng.choice(ESC_LITS))
        elif r < 0.6:
            out.append(rng.choice(PLAIN))
        elif r < 0.75:
            d = rng.choice(DESCRS[:3] if ascii_only else DESCRS)
            out.append(rng.choice(PLAIN) + " " + d)
        elif r < 0.85:
            out.append("[" + rng.choice(PLAIN) + "]")
        elif r < 0.95:
            out.append("(" + rng.choice(PLAIN) + " | " + rng.choice(ESC_LITS) + ")")
        else:
            out.append("{{{ echo " + rng.choice(["a", "'}'", "\"x\""]) + " }}}")
    return out


def sep(rng, multiline=True):
    r = rng.random()
    if not multiline or r < 0.6:
        return " " * rng.randint(1, 3)
    if r < 0.8:
        return "\n" + " " * rng.randint(0, 6)
    if r < 0.9:
        return " # note\n" + " " * rng.randint(0, 4)
    return "\n\x0c\n  "


def between(rng):
    return rng.choice(["\n", "\n\n", "\n# a comment line\n", "\n\x0c\n", "  # trailing comment\n", "\n   \n", " "])


def gen_case(rng, kind):
    """returns (text, [(severity, title or None, marker)], shells for which it applies)"""
    stmts = []
    for i in range(rng.randint(0, 3)):
        items = filler_items(rng, rng.randint(1, 4))
        body = items[0]
        for it in items[1:]:
            body += sep(rng) + it
        stmts.append(f"cmd{sep(rng, False)}{body};")
    pre = filler_items(rng, rng.randint(0, 3), ascii_only=True)
    post = filler_items(rng, rng.randint(0, 2), ascii_only=True)

    def around(tok):
        s = "cmd "
        for it in pre:
            s += it + sep(rng, rng.random() < 0.3)
        s += tok
        for it in post:
            s += sep(rng) + it
        return s + ";"
    shells = core.SHELLS
    expect = []
    if kind == "undefined":
        stmts.insert(rng.randrange(len(stmts) + 1), around("<PLANTED>"))
        expect = [("warning", "Undefined", "<PLANTED>")]
    elif kind == "undefined-in-word":
        stmts.insert(rng.randrange(len(stmts) + 1), around("--opt=<PLANTED>"))
        expect = [("warning", "Undefined", "<PLANTED>")]
    elif kind == "unused":
        stmts.append("cmd z;")
        stmts.insert(rng.randrange(1, len(stmts) + 1), " " * rng.randint(0, 5) + "<PLANTED> = foo bar;")
        expect = [("warning", "Unused", "<PLANTED>")]
    elif kind == "unused-spec":
        stmts.append("cmd z;")
        sh = rng.choice(core.SHELLS)
        stmts.insert(rng.randrange(1, len(stmts) + 1), " " * rng.randint(0, 5) + f"<PLANTED@{sh}> = {{{{{{ echo x }}}}}};")
        expect = [("warning", "Unused specialization", "<PLANTED@")]
        shells = [sh]
    elif kind == "duplicate":
        stmts.append("cmd <PLANTED>;")
        stmts.append(" " * rng.randint(0, 4) + "<PLANTED> = one;")
        stmts.append(" " * rng.randint(0, 4) + "<PLANTED>  =  two;")
        expect = [("error", "Previous definition", ("<PLANTED>", 2)), ("error", "Duplicate nonterminal definition", ("<PLANTED>", 3))]
    elif kind == "unknown-shell":
        stmts.append("cmd z;")
        stmts.insert(rng.randrange(1, len(stmts) + 1), " " * rng.randint(0, 5) + "<X@PLANTEDSH> = {{{ echo x }}};")
        expect = [("error", "Unknown shell", "PLANTEDSH")]
    elif kind == "varying-name":
        stmts.append("cmd z;")
        stmts.insert(rng.randrange(1, len(stmts) + 1), " " * rng.randint(0, 5) + "PLANTEDCMD y;")
        expect = [("error", "Varying command names:", "PLANTEDCMD")]
    elif kind == "subword-spaces":
        stmts.insert(rng.randrange(len(stmts) + 1), around("pre<W>"))
        stmts.append(" " * rng.randint(0, 4) + "<W> = " + " ".join(filler_items(rng, rng.randint(0, 2), True) and ["x |"] or []) + " plantedone" + sep(rng, False) + "plantedtwo;")
        expect = [("error", "Adjacent literals in expression used in a subword context", "plantedone"), ("error", None, "plantedtwo")]
    elif kind == "subword-spaces-trace":
        # the mistake sits behind a chain of definitions; other nonterminals defined as a single command or literal are
        # referred to earlier (same and earlier call variants).  Every located error must be about the mistake: the two
        # literals and each reference on the way to them — nothing else.
        easy = [("FMT", "{{{ cmd --list-formats }}}"), ("LVL", "quiet"), ("TGT", "{{{ echo t1; echo t2 }}}")]
        rng.shuffle(easy)
        used = easy[:rng.randint(1, 3)]
        for nm, _ in used[1:]:
            stmts.append(f"cmd{sep(rng, False)}{rng.choice(PLAIN)}{sep(rng, False)}<{nm}>;")
        depth = rng.randint(1, 3)
        names = [f"PLANTEDW{j}" for j in range(depth)]
        stmts.append(f"cmd{sep(rng, False)}--format{sep(rng, False)}<{used[0][0]}>{sep(rng, False)}--color=<{names[0]}>;")
        for nm, body in used:
            stmts.append(" " * rng.randint(0, 3) + f"<{nm}> ::= {body};")
        for j in range(depth - 1):
            stmts.append(" " * rng.randint(0, 3) + f"<{names[j]}> = <{names[j + 1]}> | other{j};")
        if rng.random() < 0.5:
            stmts.append(" " * rng.randint(0, 3) + f"<{names[-1]}> ::= plantedone{sep(rng, False)}plantedtwo | auto;")
        else:
            # the left neighbour is a group (or, through a definition, an expanded sequence) that *ends* in the offending
            # literal but starts elsewhere, possibly on an earlier line: the location is that of the literal, not of the group
            lead = rng.choice(["lead", "{{{ echo q }}}", "l1 {{{ echo q }}}"])
            stmts.append(" " * rng.randint(0, 3) + f"<{names[-1]}> ::= ({lead}{sep(rng)}{rng.choice(['{{{ echo r }}}', '<FREE>'])}{sep(rng)}plantedone)"
                         f"{sep(rng, False)}plantedtwo | auto;")
        expect = [("error", "Adjacent literals in expression used in a subword context", "plantedone"), ("error", None, "plantedtwo")]
        # (definitions are expanded before this check runs, so only the reference in the call variant is on the way)
        expect.append(("error", "Referenced in a subword context at", "<" + names[0] + ">"))
        expect.append(("exact", "error", None))
    elif kind == "parse-error":
        stmts.append("cmd z;")
        bad = rng.choice(["plantedstmt ) oops;", "plantedstmt ( a | ;", "plantedstmt a \\q;", "plantedstmt [ x ;",
                          "<plantedstmt> = a ||| b;", "<plantedstmt> ::= fast\n         | slow \"desc\" extra) ;", "<plantedstmt@bash> = {{{ ls }} ;",
                          "<plantedstmt> = [ x ;", "<plantedstmt> a;"])
        k = rng.randrange(1, len(stmts) + 1)
        if "{{{" in bad:
            # an unterminated `{{{` is closed by the `}}}` of any later statement, and the file then parses: it goes last
            k = len(stmts)
        stmts.insert(k, " " * rng.randint(0, 5) + bad)
        expect = [("error", "Parse error", "<plantedstmt" if bad.startswith("<") else "plantedstmt")]
    # the file may begin with blank lines, comments or indentation
    text = rng.choice(["", "", "\n", "\n\n", "   ", "# header comment\n", "\n  \n \x0c\n"])
    for s in stmts:
        text += s + between(rng)
    if not text.endswith("\n"):
        text += "\n"
    return text, expect, shells


KINDS = ["undefined", "undefined-in-word", "unused", "unused-spec", "duplicate", "unknown-shell", "varying-name", "subword-spaces", "parse-error",
         "subword-spaces-trace"]


def locate(text, marker):
    if isinstance(marker, tuple):
        m, nth = marker
        off = -1
        for _ in range(nth):
            off = text.index(m, off + 1)
    else:
        off = text.index(marker)
    before = text[:off]
    line = before.count("\n") + 1
    col = len(before[before.rfind("\n") + 1:].encode("utf-8")) + 1
    src = text.split("\n")[line - 1]
    return line, col, src


def run_bin(args):
    sh, text, path = args
    with open(path, "w", encoding="utf-8") as f:
        f.write(text)
    rc, out, err = core.run_complgen(sh, text, path_arg=path)
    os.unlink(path)
    return rc, err


def run_batch(ctx, cases, workdir):
    jobs, meta = [], []
    for i, (cid, kind, text, expect, shells) in enumerate(cases):
        for sh in shells:
            jobs.append((sh, text, os.path.join(workdir, f"{i}-{sh}.usage")))
            meta.append((cid, kind, text, expect, sh))
    with concurrent.futures.ThreadPoolExecutor(16) as ex:
        outs = list(ex.map(run_bin, jobs, chunksize=8))
    # (S) spans of the whole tree / parse-error location: model parser vs real parser
    vc = [(cid, "bash", text) for cid, kind, text, expect, shells in cases]
    recs = core.run_vh(vc, flags="tree")
    ans = core.driver_parallel([f"parse {core.hexs(t)}" for _, _, t, _, _ in cases])
    for (cid, kind, text, expect, shells), a in zip(cases, ans):
        r = recs.get(cid, {})
        impl = "ok " + r["tree"] if "tree" in r else ("err " + " ".join(r["err"]["spans"]) if r.get("stage") == "parse" else None)
        if impl is not None and a != impl:
            ctx.correspondence_breaks.append(("parse-spans", {"text": text, "impl": impl[:400], "model": a[:400]}))
    for (cid, kind, text, expect, sh), (rc, err) in zip(meta, outs):
        ctx.evaluations += 1
        ctx.count("kind:" + kind)
        diags = [m.groupdict() for m in DIAG_RE.finditer(err)]
        exact = [e[1] for e in expect if e[0] == "exact"]
        expect = [e for e in expect if e[0] != "exact"]
        for want_sev in exact:
            allowed = set()
            for sev, title, marker in expect:
                line, col, _ = locate(text, marker)
                allowed.add((sev, title, line, col))
            for d in diags:
                if d["sev"] == want_sev and (d["sev"], d["title"] or None, int(d["line"]), int(d["col"])) not in allowed:
                    ctx.violation(f"unexpected-located-diagnostic:{kind}", {
                        "grammar": text, "grammar_hex": core.hexs(text), "shell": sh, "kind": kind,
                        "diagnostic": f"{d['sev']}: {d['title']}", "expected": "none", "unexpected": f"{d['line']}:{d['col']}",
                        "stderr": err[:1500], "exit": rc,
                        "what": f"`{d['title']}` is reported at {d['line']}:{d['col']}, a construct the mistake has nothing to do with"})
                    break
        for sev, title, marker in expect:
            line, col, src = locate(text, marker)
            if not src.encode("utf-8")[:col - 1].isascii():
                # byte and character columns differ here; which one "the column" is, is not for this check to decide
                ctx.count("skipped:non-ascii-before-token-on-its-line")
                continue
            if col > 1:
                ctx.nontriv((text, sh, str(marker)))
            hit = [d for d in diags if d["sev"] == sev and (d["title"] or None) == title]
            rp = {"grammar": text, "grammar_hex": core.hexs(text), "shell": sh, "kind": kind, "diagnostic": f"{sev}: {title}",
                  "expected": f"{line}:{col}", "stderr": err[:1500], "exit": rc}
            if not hit:
                ctx.violation(f"diagnostic-missing:{kind}", dict(rp, what=f"no `{sev}: {title}` diagnostic was printed"))
                continue
            ok = [d for d in hit if int(d["line"]) == line and int(d["col"]) == col]
            if not ok:
                got = ", ".join(f"{d['line']}:{d['col']}" for d in hit)
                ctx.violation(f"wrong-location:{kind}", dict(rp, what=f"`{title}` is reported at {got}; the construct starts at {line}:{col}"))
                continue
            d = ok[0]
            if d["src"] != src or int(d["ln"]) != line:
                ctx.violation(f"wrong-source-line:{kind}", dict(rp, what=f"the snippet shows {d['src']!r}, line {line} is {src!r}"))
                continue
        if ctx.evaluations % 401 == 0:
            ctx.sample({"kind": kind, "shell": sh, "grammar": text, "stderr_head": err[:300]}, limit=5)


def run(ctx, proof):
    ctx.extra["rule"] = ("9 kinds of planted located diagnostics x random placement (statement position, indentation, escaped literals / "
                         "descriptions / multi-line items before it) x 4 shells (1 for an unused specialisation); non-trivial = distinct "
                         "(grammar, shell, marker) whose construct does not start in column 1")
    n = 9000 if ctx.thorough() else 900
    workdir = tempfile.mkdtemp(prefix="c13-", dir=ctx.workdir)
    cases = []
    for i in range(n):
        kind = KINDS[i % len(KINDS)]
        text, expect, shells = gen_case(ctx.rng, kind)
        cases.append((f"{kind}:{i}", kind, text, expect, shells))
    for i in range(0, len(cases), 450):
        run_batch(ctx, cases[i:i + 450], workdir)
    try:
        os.rmdir(workdir)
    except OSError:
        pass
    ctx.extra["programs"] = ctx.evaluations


def replay(ctx, proof, path):
    with open(path) as f:
        rp = json.load(f)
    workdir = tempfile.mkdtemp(prefix="c13r-", dir=ctx.workdir)
    rc, err = run_bin((rp["shell"], rp["grammar"], os.path.join(workdir, "r.usage")))
    os.rmdir(workdir)
    if rp.get("expected") == "none":
        line, col = rp["unexpected"].split(":")
        sev, title = rp["diagnostic"].split(": ", 1)
        bad = [d for d in (m.groupdict() for m in DIAG_RE.finditer(err)) if d["sev"] == sev and (d["title"] or "None") == title and d["line"] == line and d["col"] == col]
        if bad:
            print(f"VIOLATION property={ctx.prop} replay={path}")
            return 1
        print("replay: property holds on this case now")
        return 0
    line, col = rp["expected"].split(":")
    sev, title = rp["diagnostic"].split(": ", 1)
    title = None if title == "None" else title
    ok = [d for d in (m.groupdict() for m in DIAG_RE.finditer(err)) if d["sev"] == sev and (d["title"] or None) == title and d["line"] == line and d["col"] == col]
    if not ok:
        print(f"VIOLATION property={ctx.prop} replay={path}")
        return 1
    print("replay: property holds on this case now")
    return 0
