"""C11 — the definition chosen for a nonterminal is the one for the target shell."""
import itertools
import json
import re

from .. import core, stages

LEVEL = "proof"
CLAIM = ("The property's whole quantifier is enumerated: every subset of {plain, @bash, @fish, @zsh, @pwsh} command definitions (pairwise "
         "distinct command texts) x names {X, PATH, DIRECTORY} x reference position {top level, inside a word, through another definition, "
         "referenced twice} x 4 target shells. For each case the command symbols of the real library's automaton (vh) and the bodies of the "
         "_<cmd>_cmd_N functions of the four real scripts are compared with Spec.pick (Lean: the statement written outright: spec@S, else "
         "plain, else built-in PATH/DIRECTORY from the translator-regenerated table, else any word); deleting the definitions for other "
         "shells must leave the script byte-identical; the model's validate (Check.validate) is compared with the library's on the same "
         "cases (expression, warnings). Proved (Props/C11.lean, all grammars / shells / reference positions): choice_spec — the model of "
         "specialize_nonterminals + get_specializations replaces every nonterminal reference of an expression by exactly what Spec.pick "
         "prescribes (command of the @S definition with zsh's compadd flag, else left for expansion when a plain definition exists, else "
         "the built-in command, else left as any word), whatever bookkeeping state it is in; other_shells_irrelevant, spec_wins, "
         "plain_overrides_builtin, undefined_is_builtin_or_any over Spec.pick itself.")
NOTE = ("The theorem is about the model's specialisation pass; the later passes (expansion of plain definitions, emission of the command "
        "functions) are covered by the exhaustive table and by C02 / C04. Trusted: vh dump, the regex that extracts _<cmd>_cmd_N bodies "
        "from the four scripts, translate.py for the built-in table.")
TECHNIQUE = "Lean 4 theorem (model of the specialisation pass = Spec.pick at every reference) + exhaustive definition-subset table against Spec.pick on the real library and scripts + model correspondence"
DESIGN_REF = "§3 C11"

KINDS = ["plain", "bash", "fish", "zsh", "pwsh"]
BODY_RE = re.compile(r"^(?:function )?_cmd_cmd_(\d+)(?: \(\))?(?: \{)?\n    (.*?)\n(?:\}|end)\n", re.M | re.S)


def table_cases():
    out = []
    for name in ("X", "PATH", "DIRECTORY"):
        for mask in range(32):
            kinds = [k for i, k in enumerate(KINDS) if mask >> i & 1]
            for pos in ("top", "word", "via", "twice"):
                defs = []
                for k in kinds:
                    lhs = f"<{name}>" if k == "plain" else f"<{name}@{k}>"
                    defs.append(f"{lhs} = {{{{{{ echo {name.lower()}-{k} }}}}}};")
                if pos == "top":
                    head = f"cmd <{name}>;"
                elif pos == "word":
                    head = f"cmd --k=<{name}>;"
                elif pos == "via":
                    head = f"cmd <Y>;\n<Y> = a <{name}> | b;"
                else:
                    head = f"cmd copy <{name}> <{name}>;"
                # definitions in rotating order so that the source order varies over the table
                r = mask % max(1, len(defs))
                defs = defs[r:] + defs[:r]
                out.append((f"{name}:{mask}:{pos}", name, kinds, "\n".join([head] + defs) + "\n"))
    return out


def random_cases(rng, count):
    out = []
    for i in range(count):
        names = rng.sample(["X", "PATH", "DIRECTORY", "N1", "N2", "FILE"], rng.randint(1, 4))
        lines, used = [], []
        refs = []
        for n in names:
            kinds = [k for k in KINDS if rng.random() < 0.4]
            for k in kinds:
                lhs = f"<{n}>" if k == "plain" else f"<{n}@{k}>"
                lines.append(f"{lhs} = {{{{{{ echo {n.lower()}-{k}-{i} }}}}}};")
            refs.append(rng.choice([f"<{n}>", f"--{n.lower()}=<{n}>", f"[<{n}>]", f"(x | <{n}>)"]))
        rng.shuffle(lines)
        head = "cmd " + " ".join(refs) + ";"
        out.append((f"rnd:{i}", names[0], None, "\n".join([head] + lines) + "\n"))
    return out


def expected(ctx, batch):
    """Spec.pick for every (case, shell, name)"""
    recs = core.run_vh([(cid, "bash", text) for cid, _, _, text in batch], flags="tree")
    reqs, plan = [], []
    for cid, name, kinds, text in batch:
        tree = recs.get(cid, {}).get("tree")
        if tree is None:
            continue
        for sh in core.SHELLS:
            reqs.append(f"pick {sh} {core.hexs(name)} {tree}")
            plan.append((cid, sh))
    ans = core.driver_parallel(reqs)
    return dict(zip(plan, ans))


def cmd_items(rec):
    items = set()
    star = False
    for d in [rec.get("min")] + rec.get("subdfas", []):
        if not d:
            continue
        used = {i for _, i, _ in d["trans"]}
        for k, t in enumerate(d["inputs"]):
            if k not in used:
                continue
            p = t.split()
            if p[0] == "C":
                items.add((core.unhexs(p[1]), p[2]))
            elif p[0] == "X":
                star = True
    return items, star


def run_batch(ctx, batch, table):
    exp = expected(ctx, batch)
    cases = [(f"{cid}|{sh}", sh, text) for cid, _, _, text in batch for sh in core.SHELLS]
    res = stages.analyse(cases)
    for cid, name, kinds, text in batch:
        for sh in core.SHELLS:
            a = res[f"{cid}|{sh}"]
            ctx.evaluations += 1
            for kind, detail in a.issues:
                ctx.correspondence_breaks.append((kind, {"grammar": text, "shell": sh, "detail": detail}))
            e = exp.get((cid, sh))
            if a.stage != "ok" or e is None:
                ctx.count("not-accepted:" + str(a.stage))
                ctx.violation("table-grammar-rejected", {"grammar": text, "shell": sh, "stage": str(a.stage), "err": a.rec.get("err"),
                                                         "what": "a grammar of the definition table is not accepted"})
                continue
            items, star = cmd_items(a.rec)
            ctx.count("pick:" + e.split()[0])
            if e.startswith("command"):
                _, h, flag = e.split()
                want = {(core.unhexs(h), flag)}
            elif e.startswith("expr"):
                # a plain definition of the table is an external command: `C hex compadd lvl span`
                p = e.split()
                want = {(core.unhexs(p[2]), "0")} if p[1] == "C" else None
            else:
                want = set()
            if table and want is not None:
                ctx.nontriv((cid, sh))
                if items != want or (e == "anyword" and not star):
                    ctx.violation("wrong-definition-chosen", {
                        "grammar": text, "grammar_hex": core.hexs(text), "shell": sh, "name": name, "spec": e,
                        "automaton_commands": sorted(items), "expected_commands": sorted(want),
                        "what": f"<{name}> for --{sh}: the automaton runs {sorted(items)}, the rule prescribes {sorted(want)}"})
                    continue
            # the emitted script runs exactly the chosen command texts
            rc, out, err = core.run_complgen(sh, text)
            if rc != 0:
                ctx.violation("binary-rejects", {"grammar": text, "shell": sh, "exit": rc, "stderr": err[-300:], "what": "library accepts, binary does not"})
                continue
            script = out.decode("utf-8", "replace")
            bodies = {m.group(2) for m in BODY_RE.finditer(script)}
            ctx.count("scripts")
            if bodies != {t for t, _ in items}:
                ctx.violation("script-runs-other-command", {
                    "grammar": text, "grammar_hex": core.hexs(text), "shell": sh, "script_bodies": sorted(bodies),
                    "automaton_commands": sorted(items),
                    "what": f"the {sh} script's command functions {sorted(bodies)} differ from the automaton's commands {sorted(t for t, _ in items)}"})
                continue
            if ctx.evaluations % 97 == 0:
                ctx.sample({"grammar": text, "shell": sh, "chosen": e})
            # definitions for other shells never influence the result
            if kinds is not None and any(k not in ("plain", sh) for k in kinds):
                kept = "\n".join(l for l in text.split("\n") if not re.match(r"<\w+@(?!%s>)" % sh, l))
                rc2, out2, _ = core.run_complgen(sh, kept)
                ctx.count("other-shell-deletion")
                if rc2 != 0 or out2 != out:
                    ctx.violation("other-shell-definition-influences", {
                        "grammar": text, "without_other_shells": kept, "shell": sh,
                        "what": "deleting the definitions for other shells changes the script"})


def run(ctx, proof):
    ctx.extra["rule"] = ("the full table 3 names x 32 definition subsets x 4 reference positions x 4 target shells (exhaustive for the property's "
                         "quantifier), plus random grammars with several names; non-trivial = a table case (each is distinct)")
    table = table_cases()
    ctx.count("table-cases", len(table))
    for i in range(0, len(table), 128):
        run_batch(ctx, table[i:i + 128], True)
    rnd = random_cases(ctx.rng, 600 if ctx.thorough() else 60)
    for i in range(0, len(rnd), 128):
        run_batch(ctx, rnd[i:i + 128], False)
    ctx.extra["exhaustive"] = True
    ctx.extra["programs"] = ctx.evaluations


def replay(ctx, proof, path):
    with open(path) as f:
        rp = json.load(f)
    before = len(ctx.violations)
    run_batch(ctx, [("replay", rp.get("name", "X"), None, rp["grammar"])], True)
    if len(ctx.violations) > before:
        print(f"VIOLATION property={ctx.prop} replay={path}")
        print(ctx.violations[-1][0])
        return 1
    print("replay: property holds on this case now")
    return 0
