"""C12 — inside a word, overlapping alternatives are told apart correctly."""
import concurrent.futures
import json
import os

from .. import bashrt, complete, core, gram

LEVEL = "proof"
CLAIM = ("Grammars `cmd <head>(v1 | ... | vk) next...;` whose value sets contain arbitrary prefix chains over {a,b,c} (plus unrelated "
         "values), heads with and without `=`, under | and ||, are compiled and run in a real bash: every allowed value typed in full "
         "and followed by a new word must lead to `next`; every proper prefix of every value (and every full value that is a prefix of "
         "another) must offer exactly the allowed values extending it; the longest value must not be cut short by a shorter one (the "
         "word after it is offered). Expected sets are the statement written outright over the value list (values extending the typed text; Props/C12.lean states it as `extending` and proves its properties). "
         "The literal order the one-pass matcher relies on (decreasing length) is checked on the emitted table of every case. Proved over "
         "the Lean model of the bash template (Model/BashRt.lean, which is compared with the real bash on every request of the run): "
         "overlap_match — for every literal table listed by decreasing length, the matcher reads head ++ value as exactly that value "
         "whatever prefix chains the other values form (false of the template before repair 4d96d3e); overlap_complete_stop — a proper "
         "prefix of a value stops the matcher at the point where the values are expected, no shorter value consuming part of it first.")
NOTE = ("Execution in bash only: fish, zsh and pwsh carry the same one-pass loop as text that cannot be run here (their tables are "
        "covered by C04). A fully typed value that is not a prefix of another value is a don't-care for the offered set (the property "
        "speaks of partially typed values). Open: the theorem that the set offered after the stop is exactly the values extending the typed "
        "text (overlap_complete: the level loop and the prefix filter of the model), decided per case by the run.")
TECHNIQUE = "Lean 4 theorems over the model of the bash template's one-pass matcher + correspondence of that model with the real bash + real bash on exhaustive prefixes of generated prefix-chain value sets"
DESIGN_REF = "§3 C12"


def value_set(rng):
    """a set with prefix chains"""
    vals = set()
    for _ in range(rng.randint(1, 3)):
        n = rng.randint(2, 5)
        w = "".join(rng.choice("abc") for _ in range(n))
        cuts = sorted(rng.sample(range(1, n + 1), rng.randint(1, min(3, n))))
        for c in cuts:
            vals.add(w[:c])
    for _ in range(rng.randint(0, 2)):
        vals.add(rng.choice(["x", "zz", "k9", "on", "off"]))
    vals = sorted(vals)
    rng.shuffle(vals)
    return vals


def gen_case(rng):
    head = rng.choice(["--opt=", "--k=", "-o", "pre", "x:", "v"])
    vals = value_set(rng)
    op = " || " if rng.random() < 0.25 else " | "
    group = "(" + op.join(gram.lit(v) for v in vals) + ")"
    tail = rng.choice(["next", "(next | other)", "[next] end"])
    shape = rng.random()
    if shape < 0.6:
        text = f"cmd {gram.lit(head)}{group} {tail};\n"
        suffix = ""
    elif shape < 0.8:
        suffix = rng.choice([",end", ":z", "%"])
        text = f"cmd {gram.lit(head)}{group}{gram.lit(suffix)} {tail};\n"
    else:
        text = f"cmd {gram.lit(head)}<V> {tail};\n<V> = {op.join(gram.lit(v) for v in vals)};\n"
        suffix = ""
    fb = "||" in op
    return text, head, vals, suffix, tail, fb


def run_case(args):
    idx, text, head, vals, suffix, tail, fb, workroot = args
    rc, out, err = core.run_complgen("bash", text)
    if rc != 0:
        return args, "rejected", None
    reqs, meta = [], []
    nexts = {"next": ["next "], "(next | other)": ["next ", "other "], "[next] end": ["end ", "next "]}[tail]
    for v in vals:
        reqs.append((None, ["cmd", head + v + suffix, ""]))
        meta.append(("full", v))
    prefixes = sorted({v[:i] for v in vals for i in range(0, len(v) + 1)})
    for p in prefixes:
        for wb in (None, ""):
            reqs.append((wb, ["cmd", head + p]))
            meta.append(("prefix", p, wb))
    res = bashrt.complete_batch(out, "cmd", reqs, os.path.join(workroot, f"b{idx % 64}"))
    if res is None:
        return args, "bash-failed", None
    # (S) the Lean model of the template (Model/BashRt.lean) on the tables of this very script
    class NoProbes:
        outputs = {}
    lines = [(wb, ws[1:-1], ws[-1]) for wb, ws in reqs]
    model = None
    br = complete.bashrt_request(NoProbes, out, lines)
    if br is not None:
        a = core.driver_batch([br], timeout=600)[0]
        if a.startswith("ok "):
            model = [complete.parse_bashrt_part(part)[0] for part in a[3:].split(" ; ")]
    return args, "ok", (meta, res, nexts, out, model)


def run(ctx, proof):
    ctx.extra["rule"] = ("value sets built from 1-3 prefix chains over {a,b,c} (length <= 5) plus unrelated values, in random order; heads with / "
                         "without `=`; optionally a literal suffix after the group, the group behind a definition, `||` instead of `|`; every "
                         "value in full + new word, every prefix of every value as the typed word x COMP_WORDBREAKS {default, empty}; "
                         "non-trivial = distinct (grammar, request) involving a value that is a proper prefix of another")
    n = 1600 if ctx.thorough() else 160
    dwb = complete.default_wordbreaks()
    jobs = []
    for i in range(n):
        text, head, vals, suffix, tail, fb = gen_case(ctx.rng)
        jobs.append((i, text, head, vals, suffix, tail, fb, ctx.workdir))
    with concurrent.futures.ThreadPoolExecutor(16) as ex:
        results = list(ex.map(run_case, jobs))
    for (idx, text, head, vals, suffix, tail, fb, _), status, payload in results:
        if status != "ok":
            ctx.count(status)
            if status == "bash-failed":
                ctx.correspondence_breaks.append(("bash-run-failed", {"grammar": text}))
            continue
        meta, res, nexts, script, model = payload
        if model is not None and len(model) == len(res):
            for (brc, reply, _l), mm, m in zip(res, model, meta):
                ctx.count("template-model-compared")
                got_b = None if brc != 0 else sorted(set(reply))
                if got_b != mm:
                    ctx.count("template-model-differs")
                    if len(ctx.correspondence_breaks) < 5:
                        ctx.correspondence_breaks.append(("bash-template-model", {"grammar": text, "request": list(m), "bash": got_b, "model": mm}))
        else:
            ctx.correspondence_breaks.append(("bash-template-model-unavailable", {"grammar": text}))
        # the order the one-pass matcher relies on
        import re
        for m in re.finditer(r'local -a literals=\(((?:"(?:\\.|[^"\\])*" ?)*)\)', script.decode("utf-8", "replace")):
            lits = re.findall(r'"((?:\\.|[^"\\])*)"', m.group(1))
            lens = [len(l.encode().decode("unicode_escape")) if "\\" in l else len(l) for l in lits]
            if lens != sorted(lens, reverse=True):
                ctx.violation("literals-not-by-decreasing-length", {"grammar": text, "literals": lits,
                                                                    "what": "the emitted literal list is not ordered by decreasing length"})
        chain = lambda v: any(o != v and o.startswith(v) for o in vals)
        for m, (brc, reply, _log) in zip(meta, res):
            ctx.evaluations += 1
            got = sorted(set(reply))
            if m[0] == "full":
                v = m[1]
                want = sorted(nexts)
                if chain(v):
                    ctx.nontriv((text, "full", v))
                ctx.count("full-value")
                if brc != 0 or got != want:
                    ctx.violation("full-value-not-recognised" if chain(v) else "full-value-not-recognised-no-overlap", {
                        "grammar": text, "grammar_hex": core.hexs(text), "words": [head + v + suffix], "prefix": "", "values": vals,
                        "bash": {"rc": brc, "COMPREPLY": reply}, "expected": want,
                        "what": f"after the complete word {head + v + suffix!r} bash offers {got} (rc {brc}); the grammar prescribes {want}"})
            else:
                _, p, wb = m
                if suffix:
                    continue    # with a suffix after the group the candidates are the values only when none is complete: covered by C01's spec
                ext = sorted(v for v in vals if v.startswith(p))
                if fb:
                    # under `||` only the first level with a candidate is offered
                    first = next((v for v in vals if v.startswith(p)), None)
                    ext = [first] if first is not None else []
                full = head + p
                pre = ""
                wbs = dwb if wb is None else wb
                cut = max((i for i, c in enumerate(full) if c in wbs), default=-1)
                pre = full[:cut + 1]
                want = sorted({(head + v)[len(pre):] for v in ext})
                is_full_leaf = p in vals and not chain(p)
                if chain(p) or any(chain(v) for v in ext):
                    ctx.nontriv((text, "prefix", p, wb))
                ctx.count("prefix")
                if brc != 0:
                    ctx.violation("prefix-line-unmatched", {"grammar": text, "grammar_hex": core.hexs(text), "words": [], "prefix": full, "values": vals,
                                                            "bash": {"rc": brc, "COMPREPLY": reply}, "expected": want,
                                                            "what": f"typed {full!r}: rc {brc}"})
                elif got != want and not (is_full_leaf and got == []):
                    kind = "value-cut-short-or-missing" if set(want) - set(got) else "value-not-allowed-offered"
                    ctx.violation(kind, {"grammar": text, "grammar_hex": core.hexs(text), "words": [], "prefix": full, "values": vals,
                                         "wordbreaks": "default" if wb is None else wb,
                                         "bash": {"rc": brc, "COMPREPLY": reply}, "expected": want,
                                         "what": f"typed {full!r}: bash offers {got}, the allowed values extending it give {want}"})
        if idx % 41 == 0:
            ctx.sample({"grammar": text, "values": vals}, limit=5)
    ctx.extra["programs"] = n
    ctx.extra["disagreements_checked"] = ctx.evaluations


def replay(ctx, proof, path):
    with open(path) as f:
        rp = json.load(f)
    rc, out, err = core.run_complgen("bash", rp["grammar"])
    if rc != 0:
        print("replay: grammar no longer accepted")
        return 0
    wb = None if rp.get("wordbreaks", "default") == "default" else rp["wordbreaks"]
    res = bashrt.complete_batch(out, "cmd", [(wb, ["cmd"] + rp["words"] + [rp["prefix"]])], os.path.join(ctx.workdir, "r"))
    brc, reply, _ = res[0]
    if brc != 0 or sorted(set(reply)) != rp["expected"]:
        print(f"VIOLATION property={ctx.prop} replay={path}")
        print(brc, reply, rp["expected"])
        return 1
    print("replay: property holds on this case now")
    return 0
