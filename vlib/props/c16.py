"""C16 — the --dfa and --regex Graphviz dumps are well-formed and show the real automaton."""
import concurrent.futures
import json
import os
import tempfile

from .. import core, tables, gen, gram

LEVEL = "translation_validation"
CLAIM = ("For every accepted generated grammar (literals, descriptions and commands with quotes, backslashes, braces and DOT escape "
         "look-alikes such as \\\\N; several within-word automata; four shells for the numbering base) the files written by --dfa and "
         "--regex are lexed and parsed by the Lean transcription of the DOT language (Model/Dot.lean: graphviz's scan.l rules for quoted "
         "strings, comments, statements) — well-formedness — and the parsed graph is compared with the real library's minimised automaton "
         "and regex positions dumped by vh — faithfulness: one node per state numbered state + base, start / accepting shapes, one "
         "labelled edge per transition with the label of its item as displayed by graphviz (escString), one cluster per within-word "
         "automaton with its own nodes and edges and dashed entry / exit edges at its start / accepting states; in the --regex file every "
         "position of the main and of every within-word regex appears as a node with its item's text. Theorem dot_label_roundtrip: the "
         "label escaping chains regenerated from the source are read back by the DOT string reader as the original text, for every string. "
         "Over a Lean model of the emitter DFA::to_dot itself (Model/DotEmit.lean, compared byte for byte with the real --dfa file on every case of the run, for the automaton the real library dumps): dfa_dump_shows_the_automaton — for every automaton, pool of within-word automata and numbering base, whatever characters literals / descriptions / commands contain, the text the emitter writes is read by the DOT reader as exactly the expected graph (one node per state with its shape, one labelled edge per transition, one cluster per within-word automaton with dashed entry / exit edges); dfa_dump_well_formed; dfa_label_displayed. The --regex emitter is not modelled.")
NOTE = ("graphviz is not installed: Model/Dot.lean (transcribed from the DOT grammar and scan.l) is the judge of well-formedness — trusted "
        "base. Descriptions in generated grammars are printable text so that Rust's {:?} rendering is predictable. The theorem "
        "render_dfa_parses over a Lean renderer model is open.")
TECHNIQUE = "Lean DOT lexer/parser applied to the real dump files + graph comparison with the library's automaton; Lean theorems: label escaping chains, and parse(emit) = expected graph over a model of the --dfa emitter tied byte-exactly to the real file"
DESIGN_REF = "§3 C16"

BASE = {"bash": 0, "fish": 1, "zsh": 1, "pwsh": 0}
NASTY_LITS = ['a\\"b', 'q\\\\', '\\\\N', 'x\\{y\\}', '\\[z\\]', 'p\\|q', "it's", '\\\\"', 'e\\\\n']
NASTY_DESCRS = ['say "hi"', 'back\\slash', 'ends with \\', '\\N \\G', "it's {x}", 'a "q" \\" b', 'é → ü', 'tab\\there']
NASTY_CMDS = ['echo "say \\"hi\\""', "echo a\\\\", 'printf "%s\\n" x', "echo '{}'", 'echo \\N']


def debug_str(d):
    return '"' + d.replace("\\", "\\\\").replace('"', '\\"').replace("\n", "\\n").replace("\t", "\\t").replace("\r", "\\r") + '"'


def item_label(text):
    p = text.split()
    if p[0] == "L":
        t = core.unhexs(p[1])
        if p[2] == "-":
            return f"{t} ({p[3]})"
        return f"{t} {debug_str(core.unhexs(p[2]))} ({p[3]})"
    if p[0] == "X":
        return "*"
    if p[0] == "C":
        return "{{{ " + core.unhexs(p[1]) + " }}}" + ("compadd" if p[2] == "1" else "")
    return None


def rx_label(pos, text):
    p = text.split()
    if p[0] == "L":
        s = f'{pos}: "{core.unhexs(p[1])}"'
        if p[2] != "-":
            s += f'\n"{core.unhexs(p[2])}"'
        return s
    if p[0] == "N":
        return f"{pos}: <{core.unhexs(p[1])}>"
    if p[0] == "C":
        return f"{pos}: {core.unhexs(p[1])}"
    if p[0] == "W":
        return None   # `pos: Subword <id>`: the id is checked through the cluster
    return None


LOOP_WORDS = ["a", "b", "and", "or", "x1", "--opt", "k"]


def loop_grammar(rng):
    """automata that loop back into their start state (which the minimiser numbers like its dead state, 0): separator-style
    repetitions at top level and inside a word"""
    a, b, c = rng.sample(LOOP_WORDS, 3)
    shapes = [f"cmd {a} [{b} {a}]...;\n",
              f"cmd <KV> [{c} <KV>]...;\n<KV> = {a} | {b};\n",
              f"cmd {a} [--o=<V>[,<V>]... {a}]...;\n<V> = {b} | {c};\n",
              f"cmd [{a} | {b} {c}]...;\n",
              f"cmd ({a} {b})... {c};\n",
              f"cmd {a} [p=<V>[:<V>]... {a}]... {c};\n<V> = {b} | {{{{{{ echo x }}}}}};\n",
              f"cmd --level=({a}[+]... | {b}[+]...) {c};\n"]
    return rng.choice(shapes)


def gen_grammar(rng):
    if rng.random() < 0.2:
        return loop_grammar(rng)
    g = gen.Gen(rng, max_depth=rng.choice([2, 3, 4]), p_sub=0.3, p_descr=0.35, p_cmd=0.15,
                cmd_texts=["echo c1", "echo c2; echo c3"] + rng.sample(NASTY_CMDS, 2))
    variants, defs = g.grammar_parts()

    def nasty(e):
        if e[0] == "lit" and rng.random() < 0.25:
            return ("lit", "\0" + rng.choice(NASTY_LITS), rng.choice(NASTY_DESCRS) if (e[2] is not None and rng.random() < 0.7) else e[2])
        if e[0] == "lit" and e[2] is not None and rng.random() < 0.5:
            return ("lit", e[1], rng.choice(NASTY_DESCRS))
        return e
    variants = [gen.map_tree(nasty, v) for v in variants]
    defs = [(n, s, e if s else gen.map_tree(nasty, e)) for n, s, e in defs]
    old = gram.lit
    gram.lit = lambda s: s[1:] if s.startswith("\0") else old(s)   # NASTY_LITS are already in grammar syntax
    try:
        return gen.render_grammar("cmd", variants, defs)
    finally:
        gram.lit = old


def run_bin(args):
    sh, text, workdir, tag = args
    dfa = os.path.join(workdir, tag + ".dfa")
    rx = os.path.join(workdir, tag + ".rx")
    if sum(map(ord, tag)) % 3 == 0:
        # the dump files already exist and are longer than the new dump (an earlier, larger grammar dumped to the same path)
        for p in (dfa, rx):
            with open(p, "w") as f:
                f.write("digraph old {\n" + "\t_9 -> _9 [label=\"stale\"];\n" * 40000 + "}\n")
    rc, out, err = core.run_complgen(sh, text, extra=["--dfa", dfa, "--regex", rx], out="-")
    res = []
    for p in (dfa, rx):
        try:
            with open(p, "rb") as f:
                res.append(f.read())
            os.unlink(p)
        except OSError:
            res.append(None)
    return rc, res[0], res[1], (out.decode("utf-8", "replace") if isinstance(out, bytes) else "")


def parse_dump(ans):
    """driver answer -> (nodes {id: (label, shape, path)}, edges [(from, to, label, style, path)], subs [name])"""
    if not ans.startswith("ok "):
        return None
    nodes, edges, subs = {}, [], []
    for item in ans.split(" | ")[1:]:
        p = item.split()
        if not p:
            continue
        if p[0] == "N":
            nid = core.unhexs(p[1])
            if nid not in nodes:   # a node keeps the attributes of its first declaration
                nodes[nid] = (None if p[2] == "-" else core.unhexs(p[2]), p[3], p[4])
        elif p[0] == "E":
            edges.append((core.unhexs(p[1]), core.unhexs(p[2]), None if p[3] == "-" else core.unhexs(p[3]),
                          None if p[4] == "-" else core.unhexs(p[4]), p[5]))
        elif p[0] == "S":
            subs.append(core.unhexs(p[1]))
    return nodes, edges, subs


def expected_auto(d, base, prefix):
    """nodes and edges of one automaton as do_to_dot draws it (within-word transitions excluded)"""
    states = {d["start"]} | {x for f, _, t in d["trans"] for x in (f, t)}
    nodes = {}
    for s in states:
        if s == d["start"]:
            shape = "doubleoctagon" if s in d["acc"] else "octagon"
        else:
            shape = "doublecircle" if s in d["acc"] else "circle"
        nodes[f"_{prefix}{s + base}"] = (f"{prefix}{s + base}", shape)
    edges = set()
    for f, i, t in d["trans"]:
        lab = item_label(d["inputs"][i])
        if lab is not None:
            edges.add((f"_{prefix}{f + base}", f"_{prefix}{t + base}", lab, None))
    return nodes, edges


def auto_wire(a):
    """an automaton of the vh dump on the wire of the driver's `dotemit`"""
    return ";".join([str(a["start"]), ",".join(map(str, a["acc"])) or "-",
                     "~".join(f"{f}.{i}.{t}" for f, i, t in a["trans"]) or "-",
                     "|".join(x.replace(" ", "_") for x in a["inputs"]) or "-"])


def check_dfa(ctx, rp, rec, base, parsed):
    nodes, edges, subs = parsed
    d = rec["min"]
    want_nodes, want_edges = expected_auto(d, base, "")
    top_nodes = {k: (v[0], v[1]) for k, v in nodes.items() if v[2] == "/"}
    if top_nodes != want_nodes:
        miss = sorted(set(want_nodes.items()) ^ set(top_nodes.items()))[:4]
        ctx.violation("dfa-nodes-differ", dict(rp, what=f"the nodes of the --dfa file are not the automaton's states (start/accepting shapes, numbering base {base}): {miss}"))
        return
    top_edges = {(a, b, l, s) for a, b, l, s, path in edges if path == "/" and s is None}
    if top_edges != want_edges:
        miss = sorted((x for x in want_edges ^ top_edges), key=str)[:4]
        ctx.violation("dfa-edges-differ", dict(rp, what=f"labelled edges of the --dfa file differ from the automaton's transitions: {miss}"))
        return
    # within-word automata: one cluster each, entered at its start state, left at its accepting states
    used = sorted({int(d["inputs"][i].split()[1]) for _, i, _ in d["trans"] if d["inputs"][i].startswith("W ")})
    clusters = {}
    for name in subs:
        cid = name[len("cluster_"):]
        cn = {k: (v[0], v[1]) for k, v in nodes.items() if v[2] == "/" + name}
        ce = {(a, b, l, s) for a, b, l, s, path in edges if path == "/" + name}
        clusters[cid] = (cn, ce)
    if len(clusters) != len(used):
        ctx.violation("dfa-clusters-differ", dict(rp, what=f"{len(clusters)} clusters for {len(used)} within-word automata"))
        return
    dashed = {(a, b) for a, b, l, s, path in edges if s == "dashed"}
    want_dashed = set()
    for k in used:
        sub = rec["subdfas"][k]
        match = None
        for cid, (cn, ce) in clusters.items():
            wn, we = expected_auto(sub, base, cid + "_")
            if cn == wn and ce == we:
                # the cluster must also be the one the transitions of this automaton point to
                ok = all((f"_{f + base}", f"_{cid}_{sub['start'] + base}") in dashed
                         for f, i, t in d["trans"] if d["inputs"][i].split()[:2] == ["W", str(k)])
                if ok:
                    match = cid
                    break
        if match is None:
            ctx.violation("dfa-cluster-differs", dict(rp, what=f"no cluster shows within-word automaton {k} (states, shapes, labelled edges, entry edge)"))
            return
        for f, i, t in d["trans"]:
            if d["inputs"][i].split()[:2] == ["W", str(k)]:
                want_dashed.add((f"_{f + base}", f"_{match}_{sub['start'] + base}"))
                for a in sub["acc"]:
                    want_dashed.add((f"_{match}_{a + base}", f"_{t + base}"))
    if dashed != want_dashed:
        miss = sorted(dashed ^ want_dashed)[:4]
        ctx.violation("dfa-entry-exit-edges-differ", dict(rp, what=f"dashed entry/exit edges differ from (from -> start of the word automaton, its accepting states -> to): {miss}"))
        return
    # the clusters are numbered as the within-word functions of the emitted script: where the script goes from state f
    # into `_cmd_subword_N`, the dump enters cluster N from node f
    script = rec.get("script")
    if script and used:
        try:
            t = tables.extract_tables(script, rp.get("shell", "bash"))
        except ValueError:
            return   # the tables are C04's business
        entries = {(f[1], f[2]) for f in t["main"] if f[0] == "mW"}
        for f_, n_ in sorted(entries):
            if not any(a == f"_{f_}" and b.startswith(f"_{n_}_") for a, b in dashed):
                ctx.violation("dfa-cluster-numbering-differs-from-script", dict(rp, what=(
                    f"the script enters within-word function {n_} from state {f_}; the --dfa file has no entry edge from node {f_} "
                    f"into cluster {n_} (entry edges: {sorted(dashed)[:6]})")))
                return


def check_rx(ctx, rp, rec, parsed):
    nodes, edges, subs = parsed
    labels_top = [v[0] for v in nodes.values() if v[2] == "/"]
    for pos, text in enumerate(rec["rx"]["inputs"]):
        want = rx_label(pos, text)
        if want is not None and want not in labels_top:
            ctx.violation("regex-item-missing", dict(rp, what=f"position {pos} ({want!r}) is not a node of the --regex file; labels there: {labels_top[:6]}"))
            return
    for k, sub in enumerate(rec.get("subrx", [])):
        found = False
        for name in subs:
            labs = [v[0] for v in nodes.values() if v[2].endswith("/" + name)]
            if all((rx_label(p, t) is None or rx_label(p, t) in labs) for p, t in enumerate(sub["inputs"])):
                found = True
                break
        if not found and any(t.startswith("W ") and int(t.split()[1]) == k for t in rec["rx"]["inputs"]):
            ctx.violation("regex-subword-missing", dict(rp, what=f"no cluster of the --regex file shows the items of within-word regex {k}"))
            return


def run(ctx, proof):
    ctx.extra["rule"] = ("random accepted grammars with quotes / backslashes / braces / DOT escape look-alikes in literals, descriptions and "
                         "commands and several within-word automata, x 4 shells; both dump files parsed by the Lean DOT model and compared "
                         "with the library's automaton and regex. non-trivial = accepted case with >= 3 states")
    rng = ctx.rng
    n = 6000 if ctx.thorough() else 220
    workdir = tempfile.mkdtemp(prefix="c16-", dir=ctx.workdir)
    cases = []
    for i in range(n):
        text = gen_grammar(rng)
        for sh in (core.SHELLS if i % 3 == 0 else [rng.choice(core.SHELLS)]):
            cases.append((f"g{i}|{sh}", sh, text))
    recs = core.run_vh(cases, flags="rx,dfa")
    jobs = [(sh, text, workdir, cid.replace("|", "-")) for cid, sh, text in cases]
    with concurrent.futures.ThreadPoolExecutor(16) as ex:
        outs = list(ex.map(run_bin, jobs, chunksize=4))
    reqs, plan = [], []
    for (cid, sh, text), (rc, dfa, rx, script) in zip(cases, outs):
        rec = recs.get(cid, {})
        ctx.evaluations += 1
        ctx.count("stage:" + str(rec.get("stage")))
        if rec.get("stage") != "ok":
            continue
        rp = {"grammar": text, "grammar_hex": core.hexs(text), "shell": sh}
        rec = dict(rec, script=script)
        if rc != 0 or dfa is None or rx is None:
            ctx.violation("dump-not-written", dict(rp, exit=rc, what="accepted grammar but --dfa / --regex file missing"))
            continue
        for which, data in (("dfa", dfa), ("rx", rx)):
            if b"stale" in data:
                # the file existed before (run_bin wrote a longer one there): nothing of it may survive
                ctx.violation(f"stale-content-left-in-dump:{which}", dict(rp, file_tail=data[-300:].decode("utf-8", "replace"),
                              what=f"the --{'dfa' if which == 'dfa' else 'regex'} file still contains text of the file that was there before"))
                continue
            reqs.append("dot " + core.hexs(data))
            plan.append((which, rp, rec, sh, data))
    # the Lean model of DFA::to_dot (Model/DotEmit.lean; theorem dot_dump_parses: what it writes always parses to
    # the graph of the automaton) on the automaton of the real library: byte for byte the real --dfa file
    ereqs, eplan = [], []
    for (which, rp, rec, sh, data) in plan:
        if which == "dfa" and "min" in rec:
            ereqs.append(f"dotemit {BASE[sh]} {auto_wire(rec['min'])} " + ("&".join(auto_wire(x) for x in rec["subdfas"]) or "-"))
            eplan.append((rp, sh, data))
    for (rp, sh, data), a in zip(eplan, core.driver_parallel(ereqs)):
        f = a.split(" ")
        if f[0] != "ok" or len(f) != 3:
            ctx.correspondence_breaks.append(("dot-emitter-model", {"grammar": rp["grammar"], "shell": sh, "answer": a[:200]}))
            continue
        if f[2] != "1" or not all(c.isascii() or c.isprintable() for c in rp["grammar"]):
            ctx.count("dot-emitter-model:description-outside-scope")
            continue
        ctx.count("dot-emitter-model:compared")
        if bytes.fromhex(f[1]) != data:
            ctx.correspondence_breaks.append(("dot-emitter-model", {
                "grammar": rp["grammar"], "shell": sh, "model": bytes.fromhex(f[1]).decode("utf-8", "replace")[:1500],
                "file": data.decode("utf-8", "replace")[:1500]}))
    ans = core.driver_parallel(reqs)
    for (which, rp, rec, sh, data), a in zip(plan, ans):
        parsed = parse_dump(a)
        if parsed is None:
            ctx.violation(f"invalid-dot:{which}", dict(rp, file=data.decode("utf-8", "replace")[:3000],
                                                      what=f"the --{'dfa' if which == 'dfa' else 'regex'} file is not a well-formed DOT digraph"))
            continue
        if which == "dfa":
            if len(parsed[0]) >= 3:
                ctx.nontriv((rp["grammar"], sh))
            check_dfa(ctx, rp, rec, BASE[sh], parsed)
        else:
            check_rx(ctx, rp, rec, parsed)
        if ctx.evaluations % 97 == 0 and which == "dfa":
            ctx.sample({"grammar": rp["grammar"], "shell": sh, "nodes": len(parsed[0]), "edges": len(parsed[1])}, limit=5)
    try:
        os.rmdir(workdir)
    except OSError:
        pass
    ctx.extra["programs"] = ctx.evaluations


def replay(ctx, proof, path):
    with open(path) as f:
        rp = json.load(f)
    workdir = tempfile.mkdtemp(prefix="c16r-", dir=ctx.workdir)
    sh, text = rp["shell"], rp["grammar"]
    rec = core.run_vh([("r", sh, text)], flags="rx,dfa").get("r", {})
    rc, dfa, rx, script = run_bin((sh, text, workdir, "r"))
    rec = dict(rec, script=script)
    os.rmdir(workdir)
    if rec.get("stage") != "ok":
        print("replay: grammar no longer accepted")
        return 0
    before = len(ctx.violations)
    for which, data in (("dfa", dfa), ("rx", rx)):
        parsed = parse_dump(core.driver_batch(["dot " + core.hexs(data)])[0])
        if parsed is None:
            ctx.violation("invalid-dot", {})
        elif which == "dfa":
            check_dfa(ctx, {}, rec, BASE[sh], parsed)
        else:
            check_rx(ctx, {}, rec, parsed)
    if len(ctx.violations) > before:
        print(f"VIOLATION property={ctx.prop} replay={path}")
        return 1
    print("replay: property holds on this case now")
    return 0
