"""C14 — layout and statement order do not change the output."""
import concurrent.futures
import glob
import json
import os
import re

from .. import core, gen, mutate

LEVEL = "exploration"
CLAIM = ("Metamorphic check on the real binary: every accepted grammar (bundled examples, random grammars with definitions, within-word "
         "expressions, descriptions, specialisations) and 5 meaning-preserving re-layouts of it — random whitespace / line breaks / "
         "`# comments` / form feeds at every token boundary where layout may stand (around | || = ; after ( [ before ) ] before ..., "
         "between a literal and its description), `::=` for `=`, final `;` dropped, redundant parentheses around space-separated items "
         "outside words, a random permutation of the definitions — must compile to byte-identical scripts for the four shells, with the "
         "same warnings up to location. Proved (Props/C14.lean): the statement-order half — meaning_order_irrelevant (Spec.meaning is invariant "
         "under every permutation of the statements that keeps the call variants in order, when no name is defined twice) and "
         "defn_order_irrelevant (hence, through C02's validation_is_meaning, the model of check.rs returns the same validated expression for "
         "two such grammars whenever it accepts both), and span_irrelevant_meaning. The layout half is proved on the operator ladder: layout_irrelevant (Proofs/LadderLayout.lean) — two texts of one "
         "expression tree (literals, nonterminals, commands, juxtaposition by blanks, |, ||, [ ], postfix ..., parentheses) that differ only in the blanks, line breaks, form feeds and closed # comments standing at each position between the tokens are parsed by the model of fallback_expr into trees that differ in spans only — with span_irrelevant_meaning, into the same meaning; grammar_layout_irrelevant (Proofs/Statements.lean) — the same for whole files: two texts of one list of statements over the operator ladder that differ in the layout at the beginning of the file, after statement names, around ::= / = (and in the choice of sign), inside expressions, before ;, between statements and in the presence of the final ; parse to grammars equal up to spans; the texts this Lean printer produces for generated grammars, plainly and under 3 admissible layouts drawn from a seed, are compiled by the real binary on every run and must give byte-identical scripts. grammar_layout_irrelevant_full (Proofs/StatementsFull.lean) extends it to expressions with escaped literals, descriptions (layout before the description), descriptions over groups and words by juxtaposition. What remains explored only: redundant parentheses, blanks inside {{{ }}}, and the step from equal trees to byte-identical scripts (the emitters are not modelled), so the level "
         "claimed for the property as a whole stays exploration.")
NOTE = ("The order half is a theorem over the model of check.rs (tied to the library on every C02/C08/C15 run); the layout half is a theorem on whole files over the operator ladder and exploration elsewhere. Trusted: the tokeniser that decides where layout may be inserted (inserting "
        "layout where the syntax forbids it would change the meaning and raise a false alarm; it is restricted to the places listed).")
TECHNIQUE = "metamorphic byte comparison of the real binary's output under meaning-preserving re-layouts + Lean theorems for the statement-order half"
DESIGN_REF = "§3 C14"

LAYOUTS = [" ", "  ", "\t", "\n", "\n\n", " \n  ", " # a comment\n", "\n# c1\n# c2 | ; (\n", " \x0c ", "\n\x0c\n", " #\n", "\r\n"]


# what a comment may contain: anything but a line feed — a lone carriage return, tabs, form feeds, operators,
# quotes, backslashes, `{{{`, non-ASCII text included
COMMENT_CHARS = ["a", "b", " ", " ", "\t", "\r", "\x0c", "#", ";", "|", "(", ")", "[", "<", ">", '"', "\\", "{{{", "}}}", "...", "=",
                 "::=", "é", "→", "'", "$", "`"]


def random_comment(rng):
    return " #" + "".join(rng.choice(COMMENT_CHARS) for _ in range(rng.randint(0, 8))) + rng.choice(["\n", "\r\n"])


def lay(rng, must=True):
    if not must and rng.random() < 0.5:
        return ""
    s = rng.choice(LAYOUTS) if rng.random() < 0.8 else random_comment(rng)
    if rng.random() < 0.3:
        s += rng.choice(LAYOUTS) if rng.random() < 0.8 else random_comment(rng)
    return s


TOKEN_RE = re.compile(r'(?:(?<=\s)|^)#[^\n]*|\{\{\{.*?\}\}\}|"(?:\\.|[^"\\])*"|<[^>\n]*>|\|\||::=|\.\.\.|[()\[\]|;=]|\s+|(?:\\.|[^\s()\[\]|;="<>{}\\])+|.', re.S | re.M)


def relayout(rng, text):
    """re-layout of a grammar text: layout is only inserted where the syntax admits blanks"""
    toks = TOKEN_RE.findall(text)
    out = []
    n = len(toks)
    stmt_pos = 0   # number of non-blank tokens seen in the current statement
    head = False   # the statement started with a `<...>` token (a definition head)
    for i, t in enumerate(toks):
        prev = toks[i - 1] if i else ""
        blank = t.isspace() or (t.startswith("#") and (prev == "" or prev.isspace()))
        if not blank:
            stmt_pos += 1
            if stmt_pos == 1:
                head = t.startswith("<")
        if t.startswith("#") and (prev == "" or prev.isspace()):
            out.append(t)          # an existing comment stays as it is
        elif t.isspace() and head and stmt_pos == 2 and prev in ("=", "::="):
            out.append(lay(rng, False))   # blanks after the definition sign are optional (`<V>==low` is `<V> = =low`)
        elif t.isspace():
            out.append(lay(rng) if not (prev.startswith("#") and "\n" in t) else "\n" + lay(rng, False))
        elif t in ("=", "::=") and head and stmt_pos == 2:
            out.append(lay(rng, False) + rng.choice(["=", "::="]) + lay(rng, False))   # the definition sign
        elif t in ("|", "||", ";"):
            out.append(lay(rng, False) + t + lay(rng, False))
            if t == ";":
                stmt_pos = 0
        elif t in ("(", "["):
            out.append(t + lay(rng, False))
        elif t in (")", "]"):
            out.append(lay(rng, False) + t)
        elif t == "...":
            out.append(lay(rng, False) + t)
        else:
            out.append(t)
    s = "".join(out)
    if rng.random() < 0.5:
        # the final `;` is optional
        j = s.rstrip().rfind(";")
        if j >= 0 and not s[j + 1:].strip():
            s = s[:j] + lay(rng, False)
    return s


def add_parens(rng, e, in_word=False):
    k = e[0]
    if k == "sub":
        return e
    if k in ("seq", "alt", "fb"):
        cs = [add_parens(rng, c) for c in e[1]]
        if k == "seq":
            cs = [("paren", c) if rng.random() < 0.25 and c[0] != "paren" else c for c in cs]
        return (k, cs)
    if k in ("opt",):
        return (k, add_parens(rng, e[1]))
    if k == "many":
        return (k, add_parens(rng, e[1]))
    if k == "dd":
        return (k, add_parens(rng, e[1]), e[2])
    return e


_render = gen.render


def variants_of(rng, parts):
    """the original text and 5 re-layouts"""
    variants, defs = parts
    base = gen.render_grammar("cmd", variants, defs)
    outs = [("original", base)]
    for i in range(5):
        ops = []
        v2, d2 = variants, list(defs)
        if rng.random() < 0.6:
            rng.shuffle(d2)
            ops.append("permute-definitions")
        if rng.random() < 0.5:
            v2 = [add_parens(rng, v) for v in v2]
            d2 = [(n, s, e if s else add_parens(rng, e)) for n, s, e in d2]
            text = render_with_parens("cmd", v2, d2)
            ops.append("parentheses")
        else:
            text = gen.render_grammar("cmd", v2, d2)
        text = relayout(rng, text)
        ops.append("layout")
        outs.append(("+".join(ops), text))
    return outs


def render_with_parens(cmd, variants, defs):
    out = []
    for v in variants:
        out.append(f"{cmd} {render_tree(v)};")
    for name, shell, e in defs:
        lhs = f"<{name}@{shell}>" if shell else f"<{name}>"
        out.append(f"{lhs} = {render_tree(e)};")
    return "\n".join(out) + "\n"


def render_tree(e, need=0):
    """gen.render extended with ("paren", e)"""
    k = e[0]
    if k == "paren":
        return "(" + render_tree(e[1], 0) + ")"
    if k == "seq":
        s = " ".join(render_tree(c, 3) for c in e[1])
    elif k == "alt":
        s = " | ".join(render_tree(c, 2) for c in e[1])
    elif k == "fb":
        s = " || ".join(render_tree(c, 1) for c in e[1])
    elif k == "opt":
        return "[" + render_tree(e[1], 0) + "]"
    elif k == "many":
        s = render_tree(e[1], 4)
        if e[1][0] == "many":
            s = "(" + s + ")"
        return s + "..."
    elif k == "dd":
        s = "(" + render_tree(e[1], 0) + ") " + gen.gram.descr(e[2])
        return s if need <= 3 else "(" + s + ")"
    else:
        return _render(e, need)
    if gen.prec(e) < need:
        return "(" + s + ")"
    return s


def run_bin(args):
    sh, text = args
    rc, out, err = core.run_complgen(sh, text)
    warns = sorted(re.findall(r"warning: [A-Za-z ]+", err))
    return rc, out, warns


def run(ctx, proof):
    ctx.extra["rule"] = ("bundled examples (layout only) + random grammars; each with 5 re-layouts x 4 shells; scripts must be byte-identical and "
                         "the warnings the same up to location. non-trivial = accepted grammar (exit 0) with at least 3 statements or a "
                         "within-word expression")
    rng = ctx.rng
    n = 1400 if ctx.thorough() else 140
    groups = []
    for p in sorted(glob.glob(os.path.join(core.REPO, "examples", "*.usage"))):
        with open(p) as f:
            text = f.read()
        groups.append((os.path.basename(p), [("original", text)] + [("layout", relayout(rng, text)) for _ in range(3)]))
    for i in range(n):
        g = gen.Gen(rng, max_depth=rng.choice([2, 3, 4]), p_sub=0.2, p_descr=0.3,
                    lits=gen.LITS + (["=low", "=", "==x", ":y", "=high"] if i % 3 == 0 else []))
        parts = g.grammar_parts()
        groups.append((f"rnd{i}", variants_of(rng, parts)))
    # chains of definitions (each refers to the next, plus references back into the middle of the chain) under several
    # orders of the definitions: whatever the code computes by sweeping over the definitions must not depend on
    # where a definition stands relative to its users
    for i in range(200 if ctx.thorough() else 30):
        d = rng.randint(3, 6)
        defs_ = [f"<N{j}> = --o{j} <N{j + 1}>;" for j in range(d)] + [f"<N{d}> = low | high;"]
        for e in range(rng.randint(1, 2)):
            defs_.append(f"<E{e}> = --again{e} <N{rng.randint(1, d)}>;")
        head = "cmd (" + " | ".join(["<N0>"] + [f"<E{e}>" for e in range(len(defs_) - d - 1)]) + ");"
        vs = [("original", "\n".join([head] + defs_) + "\n")]
        for _ in range(5):
            perm = defs_[:]
            rng.shuffle(perm)
            vs.append(("permute-definitions", "\n".join([head] + perm) + "\n"))
        groups.append((f"chain{i}", vs))
    # the layouts of the theorem (grammar_layout_irrelevant): grammars over the operator ladder printed by the Lean
    # printer of Proofs/Statements.lean plainly and under 3 admissible layouts drawn from a seed
    from . import c05
    frag = [t for t in gen.small_exprs(4) if c05.in_ladder_fragment(t)]
    reqs, owner = [], []
    for i in range(300 if ctx.thorough() else 40):
        vs = [rng.choice(frag) for _ in range(rng.choice([1, 1, 2]))]
        ds = [(f"N{j}", None, rng.choice(frag)) for j in range(rng.choice([0, 1, 2]))]
        wire = c05.spanned_grammar_wire(vs, ds)
        for sd in [0] + [rng.randrange(1, 10 ** 6) for _ in range(3)]:
            reqs.append(f"ppgram {sd} {wire}")
            owner.append(i)
    texts = {}
    for i, a in zip(owner, core.driver_parallel(reqs)):
        if a.startswith("ok "):
            texts.setdefault(i, []).append(core.unhexs(a[3:]))
        else:
            ctx.correspondence_breaks.append(("lean-layout-printer", {"answer": a[:200]}))
    for i, ts in sorted(texts.items()):
        groups.append((f"lean{i}", [("original", ts[0])] + [("lean-layout", t) for t in ts[1:]]))
    jobs, meta = [], []
    for gi, (name, vs) in enumerate(groups):
        for vi, (ops, text) in enumerate(vs):
            for sh in core.SHELLS:
                jobs.append((sh, text))
                meta.append((gi, vi, sh))
    with concurrent.futures.ThreadPoolExecutor(16) as ex:
        results = list(ex.map(run_bin, jobs, chunksize=8))
    res = dict(zip(meta, results))
    for gi, (name, vs) in enumerate(groups):
        for sh in core.SHELLS:
            rc0, out0, w0 = res[(gi, 0, sh)]
            ctx.count(f"original-exit:{rc0}")
            if rc0 == 0 and (vs[0][1].count(";") >= 3 or "=(" in vs[0][1]):
                ctx.nontriv((name, sh))
            for vi in range(1, len(vs)):
                ctx.evaluations += 1
                rc, out, w = res[(gi, vi, sh)]
                ops = vs[vi][0]
                for o in ops.split("+"):
                    ctx.count("op:" + o)
                if rc == rc0 and (rc != 0 or (out == out0 and w == w0)):
                    continue
                what = ("exit status changes" if rc != rc0 else "script bytes change" if out != out0 else "warnings change")
                ctx.violation(f"relayout-changes-output:{ops}", {
                    "grammar": vs[0][1], "grammar_hex": core.hexs(vs[0][1]), "relayout": vs[vi][1], "relayout_hex": core.hexs(vs[vi][1]),
                    "shell": sh, "operations": ops, "exit": [rc0, rc], "warnings": [w0, w],
                    "what": f"{what} under {ops}"})
        if gi % 37 == 5:
            ctx.sample({"original": vs[0][1], "relayout": vs[1][1], "operations": vs[1][0]}, limit=4)
    ctx.extra["programs"] = ctx.evaluations


def replay(ctx, proof, path):
    with open(path) as f:
        rp = json.load(f)
    a = run_bin((rp["shell"], rp["grammar"]))
    b = run_bin((rp["shell"], rp["relayout"]))
    if a[0] != b[0] or (a[0] == 0 and (a[1] != b[1] or a[2] != b[2])):
        print(f"VIOLATION property={ctx.prop} replay={path}")
        return 1
    print("replay: property holds on this case now")
    return 0
