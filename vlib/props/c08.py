"""C08 — grammar mistakes are rejected with the right diagnostic; clean grammars pass."""
import concurrent.futures
import json

from .. import core, plant, stages

LEVEL = "translation_validation"
CLAIM = ("Grammars are built as a clean-by-construction base plus at most one planted mistake of a known class (cycle, duplicate plain / "
         "target-shell definition, varying command names, no call variant, `/` in the name, unknown shell, non-command specialisation, "
         "spaces inside a word, non-tail placeholder, conflicting descriptions) at a random place, behind a random chain of definitions "
         "and operators. The planted class is the oracle, independent of model and code: for each of the 4 target shells the library's "
         "Error variant (vh), the binary's exit status and the first diagnostic line (label table regenerated from lib.rs/main.rs by the "
         "translator; Lean theorem labels_distinct: the labels of the diagnosed classes are pairwise distinct, so the line identifies the "
         "class) must match it; clean bases must exit 0 for all four shells. The Lean model's verdict (Check.validate + later passes) is "
         "compared with the library's on every case. Proved for the model, for every grammar and shell (Props/C08.lean): "
         "rejects_no_variant, rejects_varying_names, rejects_slash_name, rejects_duplicate_plain, rejects_unknown_shell, "
         "rejects_non_command_spec, rejects_duplicate_target_spec, rejects_cycle with its converse cycle_verdict_real (a grammar with this mistake and none of the earlier-checked ones "
         "gets this class) and error_is_final (a validation error is the verdict of the whole pipeline, for every schedule). Complete characterisation of the verdict of validation (Proofs/Verdict.lean): no_false_diagnostics — each of the eight verdicts is only given when the mistake it names is present; verdict_classes — there are no others; clean_grammars_pass with its converse accepted_is_clean — a grammar is accepted exactly when it has none of the mistakes (incl. one the proof uncovered: a plain definition of a name that is also defined for the target shell must itself be an external command — shadowed_plain_must_be_command, confirmed on the real binary); verdict_decision_list / verdict_exhaustive — the outcome as a decision list in the order the code runs its checks, covering every grammar.")
NOTE = ("Open: a syntactic characterisation of 'spaces inside a word' (the theorems use the model's own check as the predicate) and the classes decided after validation (non-tail placeholder, "
        "conflicting descriptions, ambiguity); for these the level is translation validation over generated cases. Trusted: the planted-mistake generator (the class it plants is the oracle), vh, translate.py label extraction.")
TECHNIQUE = "planted-mistake oracle on the real library and binary + correspondence with the Lean model's verdict + Lean-checked label table"
DESIGN_REF = "§3 C08"


def labels():
    ans = core.driver_batch(["labels"])[0]
    out = {}
    for item in ans.split()[1:]:
        k, v = item.split(":")
        out[core.unhexs(k)] = core.unhexs(v)
    return out


def run_bin(args):
    sh, text = args
    return core.run_complgen(sh, text)


def run_cases(ctx, cases, lab):
    """cases: [(id, class, text, {shell: expected})]"""
    vcases = [(f"{cid}|{sh}", sh, text) for cid, cls, text, exp in cases for sh in core.SHELLS]
    res = stages.analyse(vcases)
    jobs = [(sh, text) for cid, cls, text, exp in cases for sh in core.SHELLS]
    with concurrent.futures.ThreadPoolExecutor(16) as ex:
        bins = list(ex.map(run_bin, jobs))
    k = 0
    for cid, cls, text, exp in cases:
        for sh in core.SHELLS:
            a = res[f"{cid}|{sh}"]
            rc, out, err = bins[k]
            k += 1
            ctx.evaluations += 1
            ctx.count("planted:" + cls)
            want = exp[sh]
            got = None if a.stage == "ok" else (a.rec.get("err") or {}).get("class", str(a.stage))
            for kind, detail in a.issues:
                ctx.correspondence_breaks.append((kind, {"grammar": text, "shell": sh, "detail": detail}))
            rp = {"grammar": text, "grammar_hex": core.hexs(text), "shell": sh, "planted": cls, "expected": want, "library": got,
                  "exit": rc, "stderr_head": err[:300]}
            if got != want:
                kind = ("mistake-accepted:" + cls) if got is None else ("clean-rejected:" + str(got) if want is None else f"wrong-class:{cls}:{got}")
                ctx.violation(kind, dict(rp, what=f"planted {cls}: the library reports {got}, expected {want}"))
                continue
            ctx.nontriv((cls, text, sh))
            if want is None:
                if rc != 0:
                    ctx.violation("clean-rejected-by-binary", dict(rp, what=f"the binary exits {rc} on a grammar the library accepts"))
            else:
                if rc != 1:
                    ctx.violation(f"wrong-exit:{cls}", dict(rp, what=f"planted {cls}: exit status {rc}, expected 1"))
                elif lab.get(want, "\0") not in err:
                    ctx.violation(f"wrong-diagnostic:{cls}", dict(rp, what=f"planted {cls}: the diagnostic does not contain {lab.get(want)!r}"))
            if ctx.evaluations % 211 == 0:
                ctx.sample({"planted": cls, "shell": sh, "grammar": text, "verdict": got})


def gen_cases(ctx, n):
    rng = ctx.rng
    out = []
    for i in range(n):
        cls = plant.CLASSES[i % len(plant.CLASSES)]
        base = plant.Base(rng, max_depth=rng.choice([1, 2, 3]))
        exp = plant.plant(rng, base, cls)
        out.append((f"{cls}:{i}", cls, base.text(), exp))
    return out


def run(ctx, proof):
    ctx.extra["rule"] = ("clean-by-construction base (random, acyclic definitions, consistent descriptions, placeholders only at the end of a "
                         "word) + one planted mistake of one of 11 classes (or none) behind 0-3 definitions and random operators, x 4 target "
                         "shells; non-trivial = distinct (class, grammar, shell) whose verdict matched the planted class")
    lab = labels()
    n = 4800 if ctx.thorough() else 480
    cases = gen_cases(ctx, n)
    for i in range(0, len(cases), 240):
        run_cases(ctx, cases[i:i + 240], lab)
    ctx.extra["programs"] = ctx.evaluations


def replay(ctx, proof, path):
    with open(path) as f:
        rp = json.load(f)
    lab = labels()
    before = len(ctx.violations)
    run_cases(ctx, [("replay", rp["planted"], rp["grammar"], {sh: (rp["expected"] if sh == rp["shell"] else rp["expected"]) for sh in core.SHELLS})], lab)
    bad = [v for v in ctx.violations[before:] if v[1]["shell"] == rp["shell"]]
    if bad:
        print(f"VIOLATION property={ctx.prop} replay={path}")
        print(bad[0][0])
        return 1
    print("replay: property holds on this case now")
    return 0
