"""C07 — text taken from the grammar reaches the shell verbatim and inert."""
import itertools
import json

from .. import bashrt, core, extract, gram

LEVEL = "proof"
CLAIM = "Theorems bash/fish/zsh/pwsh_roundtrip: for every string, the shell's double-quote reader (Quote.Dialect) applied to the emitted constant (the replace-chain regenerated from the Rust source on every run) returns the original text and meets no unescaped special character. The chain well-formedness is decided by the kernel (decide) on the current chain and lifted to all strings by chain_roundtrip. Run-time side: constants of real scripts for 4 shells are tokenised, decoded by the same Lean reader and compared with the grammar's strings; bash additionally executes the script (bash -n, candidates, exact matching incl. glob-looking words)."
NOTE = 'Trusted: translate.py chain extraction; the fish/zsh/pwsh dialect models are transcriptions of documentation (no such shell installed); bash dialect validated by execution; extract.py tokeniser. The unquoted-pattern half (literal matched only by the identical word) is observed in real bash, not yet a theorem over the BashRt model.'
TECHNIQUE = 'Lean 4 theorem over translator-regenerated escape chains + decode of real script constants + bash execution'
DESIGN_REF = '§3 C07'

DANGEROUS = ['\\', '"', '$', '`', '!', '*', '?', '[', ']', '~', '#', '&', '(', ')', '{', '}', "'", ';', '|', '<', '>', '.', '=', '%', '^', ':', ',', '@', '+', '-', '/', '_']
DESCR_EXTRA = [' ', '\t', '\n', 'é', '“', '”', '„', '’', '\r', '\x1b']


FILLER = "Qz9Qz9Qz"


def gen_literals(ctx):
    lits = []
    # all strings of length 1 over the whole literal alphabet's specials, plus a letter
    for c in DANGEROUS + ['a', 'Z', '0']:
        lits.append(c)
    core_set = ['\\', '"', '$', '`', '*', '?', '[', 'a']
    pair_set = core_set if not ctx.thorough() else DANGEROUS[:16] + ['a']
    for a, b in itertools.product(pair_set, repeat=2):
        lits.append(a + b)
    if ctx.thorough():
        for t in itertools.product(core_set, repeat=3):
            lits.append("".join(t))
    # shell-looking payloads
    lits += ['$HOME', '$(id)', '`id`', '${x}', 'a\\', 'a\\\\', '\\$HOME', 'a\\"b', '\\\\$x', '"$x"', '$\'a\'', '~root', '!!', '!$', 'a*b', '[ab]c', 'a?', '{a,b}', '$((1+1))', 'a\\b', '\\n', '*', '?', '$', '\\']
    n_rand = 150 if not ctx.thorough() else 3000
    for _ in range(n_rand):
        k = ctx.rng.randint(1, 8)
        lits.append("".join(ctx.rng.choice(DANGEROUS + ['a', 'b', '1']) for _ in range(k)))
    seen = set()
    out = []
    for l in lits:
        # a token that starts with `#` is a comment, `...` is the repetition operator
        if l and l not in seen and not l.startswith('...') and not l.startswith('#') and not FILLER.startswith(l):
            seen.add(l)
            out.append(l)
    return out


def gen_descrs(ctx):
    ds = []
    alphabet = DANGEROUS + DESCR_EXTRA + ['a']
    for c in alphabet:
        ds.append(c)
        ds.append('x' + c + 'y')
    core_set = ['\\', '"', '$', '`', '\n', 'a', '”']
    for a, b in itertools.product(core_set, repeat=2):
        ds.append(a + b)
    ds += ['$HOME', '$(id)', '`id`', 'trailing\\', 'two\\\\', 'say "hi"', 'say “hi”', 'line1\nline2', '$env:PATH', '`n', 'a`', '``']
    n_rand = 100 if not ctx.thorough() else 2000
    for _ in range(n_rand):
        k = ctx.rng.randint(1, 10)
        ds.append("".join(ctx.rng.choice(alphabet) for _ in range(k)))
    seen = set()
    out = []
    for d in ds:
        if d and d not in seen:
            seen.add(d)
            out.append(d)
    return out


def literal_grammar(lits, sub):
    alts = " | ".join(gram.lit(l) for l in lits)
    if sub == 2:
        # two within-word expressions of the same shape (they share one table-reading function in the scripts)
        h = (len(lits) + 1) // 2
        a, b = lits[:h], lits[h:]
        b = b + [f"pad{i}" for i in range(len(a) - len(b))]
        return (f"cmd (pre({' | '.join(gram.lit(l) for l in a)} | {FILLER}) | qre({' | '.join(gram.lit(l) for l in b)} | {FILLER})) next;\n")
    if sub:
        return f"cmd pre({alts} | {FILLER}) next;\n"
    return f"cmd ({alts}) next;\n"


def descr_grammar(descrs):
    alts = " | ".join(f"w{i} {gram.descr(d)}" for i, d in enumerate(descrs))
    return f"cmd ({alts});\n"


def check_constants(ctx, drv_requests, shell, kind, expected, script, sub):
    """(O)+(S) for one script: expected = list of original strings that must appear as constants.
    Returns None if fine, else (what, detail)."""
    try:
        if kind == "lit":
            lists = extract.literal_lists(shell, script)
            raws = [r for _, l in lists for r in l]
        else:
            raws = [r for _, r in extract.description_constants(shell, script)]
    except ValueError as e:
        return ("tokenise", str(e))
    reqs = [f"decode {shell} {core.hexs(r)}" for r in raws] + [f"quote {shell} {core.hexs(x)}" for x in expected]
    ans = core.driver_batch(reqs)
    decoded = []
    for a in ans[: len(raws)]:
        if a == "none":
            return ("not-inert", "a constant contains an unescaped special character or a dangling escape")
        decoded.append(core.unhexs(a.split()[1]))
    helpers = (["pre", "next", FILLER] if sub else ["next"]) if kind == "lit" else []
    if kind == "lit" and sub == 2:
        h = (len(expected) + 1) // 2
        helpers = ["pre", "qre", "next", FILLER, FILLER] + [f"pad{i}" for i in range(h - (len(expected) - h))]
    want = sorted(expected + helpers)
    if kind == "descr":
        got = sorted(decoded)
    else:
        got = sorted(decoded)
    if got != want:
        return ("decode-mismatch", {"decoded": got, "expected": want})
    # (S) the model's quoting equals the emitted constant
    model = sorted(core.unhexs(a.split()[1]) for a in ans[len(raws):])
    emitted = sorted(r for r in raws if r not in ("pre", "next")) if kind == "lit" else sorted(raws)
    if kind == "lit":
        # remove helper literals by decoded value
        emitted = sorted(r for r, d in zip(raws, decoded) if d not in helpers)
    if model != emitted:
        ctx.correspondence_breaks.append((f"quote-model-{shell}", {"model": model[:5], "emitted": emitted[:5]}))
    return None


def mutate(ctx, l):
    """Words different from l that a pattern-reading of l would match."""
    out = []
    if '*' in l:
        out.append(l.replace('*', 'zz', 1))
        out.append(l.replace('*', '', 1))
    if '?' in l:
        out.append(l.replace('?', 'z', 1))
    if '[' in l and ']' in l and l.index('[') + 1 < l.rindex(']'):
        i, j = l.index('['), l.rindex(']')
        out.append(l[:i] + l[i + 1] + l[j + 1:])
    if '\\' in l:
        out.append(l.replace('\\', '', 1))
    out.append(l + 'z')
    return [w for w in out if w and w != l]


def bash_exec(ctx, lits, script, sub):
    """Real bash: candidates are character-for-character the literals; a literal is matched only by
    the identical word. Returns None or (what, detail)."""
    ok, err = bashrt.bash_n(script, ctx.workdir)
    if not ok:
        return ("bash-n", err[:300])
    pre = "pre" if sub else ""
    reqs = [("", ["cmd", pre])]
    for l in lits:
        reqs.append(("", ["cmd", pre + l, ""]))
    muts = []
    for l in lits:
        for w in mutate(ctx, l):
            if w not in lits:
                muts.append((l, w))
                reqs.append(("", ["cmd", pre + w, ""]))
    res = bashrt.complete_batch(script, "cmd", reqs, ctx.workdir)
    if res is None:
        return ("bash-run", "runner failed")
    rc, cands, _ = res[0]
    want = sorted((pre + l) if sub else (l + " ") for l in (lits + ([FILLER] if sub else [])))
    if rc != 0 or sorted(cands) != want:
        return ("bash-candidates", {"rc": rc, "got": sorted(cands)[:10], "want": want[:10]})
    for l, (rc, cands, _) in zip(lits, res[1: 1 + len(lits)]):
        if rc != 0 or cands != ["next "]:
            return ("bash-match-missed", {"literal": l, "rc": rc, "got": cands})
    for (l, w), (rc, cands, _) in zip(muts, res[1 + len(lits):]):
        if rc == 0 and cands:
            return ("bash-match-foreign", {"literal": l, "word": w, "got": cands})
    return None


def run_group(ctx, items, kind, sub, shells):
    """Check a group of strings in one grammar per shell; on failure isolate a single culprit."""
    text = literal_grammar(items, sub) if kind == "lit" else descr_grammar(items)
    cases = [(f"{sh}", sh, text) for sh in shells]
    recs = core.run_vh(cases, flags="script")
    failures = []
    for sh in shells:
        rec = recs.get(sh)
        ctx.evaluations += 1
        if rec is None or rec.get("stage") != "ok":
            # the property quantifies over accepted grammars; crashes belong to C06
            ctx.count("skipped-not-accepted:" + (rec.get("stage") if rec else "missing"))
            continue
        script = core.unhex(rec["script"])
        r = check_constants(ctx, None, sh, kind, list(items), script.decode("utf-8", "replace"), sub)
        if r is None and sh == "bash" and kind == "lit" and sub != 2:
            r = bash_exec(ctx, list(items), script, sub)
        if r is not None:
            failures.append((sh, r[0], r[1]))
    return text, failures


def run(ctx, proof):
    ctx.extra["rule"] = ("grammars `cmd (L1|..|Ln) next;`, `cmd pre(L) next;`, `cmd (w0 \"D0\"|..);` with literals / descriptions over the "
                         "whole admitted character set (all singles, pairs over the dangerous set, payloads, random); per shell the emitted "
                         "constants are tokenised, decoded by the Lean dialect model and compared with the original; bash also executes. "
                         "non-trivial = the string contains at least one character special to some shell")
    lits = gen_literals(ctx)
    descrs = gen_descrs(ctx)
    special = set(DANGEROUS + DESCR_EXTRA) - set("=%^:,@+-/_.")
    for s in lits + descrs:
        if any(c in special for c in s):
            ctx.nontriv(s)
    ctx.count("literals", len(lits))
    ctx.count("descriptions", len(descrs))
    for s in lits[:3] + descrs[-3:]:
        ctx.sample({"string": s})

    def explore(items, kind, sub, shells, group):
        for i in range(0, len(items), group):
            chunk = items[i:i + group]
            text, failures = run_group(ctx, chunk, kind, sub, shells)
            for sh, what, detail in failures:
                # isolate one culprit string
                culprit = chunk
                if len(chunk) > 1:
                    for x in chunk:
                        t2, f2 = run_group(ctx, [x], kind, sub, [sh])
                        if f2:
                            culprit, text2, what, detail = [x], t2, f2[0][1], f2[0][2]
                            break
                    else:
                        text2 = text
                else:
                    text2 = text
                kindname = f"{sh}:{'literal' if kind == 'lit' else 'description'}{':twin-subwords' if sub == 2 else (':subword' if sub else '')}:{what}"
                ctx.violation(kindname, {"grammar_hex": core.hexs(text2), "grammar": text2, "shell": sh,
                                         "strings": culprit, "what": what, "detail": detail})

    explore(lits, "lit", False, core.SHELLS, 40)
    # inside a word: one literal per grammar for bash execution (prefix chains belong to C12)
    sub_lits = lits if ctx.thorough() else lits[:120]
    explore(sub_lits, "lit", True, ["bash"], 1)
    explore(sub_lits, "lit", True, ["fish", "zsh", "pwsh"], 40)
    # two same-shaped within-word expressions: the literal tables behind a shared table-reading function
    explore(sub_lits, "lit", 2, core.SHELLS, 20)
    explore(descrs, "descr", False, ["fish", "zsh", "pwsh"], 30)
    ctx.extra["programs"] = ctx.evaluations
    ctx.extra["trusted_extra"] = [
        "vlib/extract.py tokeniser of the emitters' data lines",
        "Quote.Dialect instances for fish/zsh/pwsh/DOT are transcriptions of the shells' documentation (cannot be executed here); the bash dialect is validated against bash 5.2 on every run",
    ]


def replay(ctx, proof, path):
    with open(path) as f:
        rp = json.load(f)
    items = rp["strings"]
    kind = "lit" if ":literal" in rp["kind"] else "descr"
    sub = 2 if ":twin-subwords" in rp["kind"] else (":subword" in rp["kind"])
    text, failures = run_group(ctx, items, kind, sub, [rp["shell"]])
    if failures:
        print(f"VIOLATION property={ctx.prop} replay={path}")
        print(json.dumps(failures, ensure_ascii=False)[:1000])
        return 1
    print("replay: property holds on this case now")
    return 0
