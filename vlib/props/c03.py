"""C03 — minimisation preserves the language and yields the trim minimal automaton."""
import json

from .. import core, explore, stages

LEVEL = "proof"


def on_case(ctx):
    def f(a):
        if "raw" in a.rec:
            ctx.sample({"grammar": a.text, "shell": a.shell, "states_raw": a.nstates}, limit=6)
        for kind, detail in a.oracle:
            if kind.endswith("raw~min") or kind.endswith("minimal"):
                which, what = kind.split(":")
                ctx.violation(f"{'sub' if which.startswith('sub') else 'main'}:{what}:{detail.split()[0]}", {
                    "grammar": a.text, "grammar_hex": core.hexs(a.text), "shell": a.shell, "automaton": which,
                    "check": what, "detail": detail,
                    "what": {"raw~min": "minimisation changed the language (word accepted by exactly one of raw / minimised)",
                             "minimal": "the minimised automaton is not trim-minimal"}[what]})
    return f


def run(ctx, proof):
    ctx.extra["rule"] = ("corpus + exhaustive-small + random grammars; for the main automaton and every within-word automaton the pair "
                         "(raw, DFA::minimize(raw)) of the real library is certified: a bisimulation (language preserved), access words and "
                         "accepting continuations for every state (trim), a distinguishing word for every pair of states (reduced) — all "
                         "found by search and checked by the verified checkers of Cert. non-trivial = raw automaton has >= 3 states")
    cases = explore.standard_cases(ctx, "C03")
    explore.run_batches(ctx, cases, on_case(ctx))
    # correspondence breaks of the front stages belong to C02; C03 only owns the minimiser stage
    ctx.correspondence_breaks = [b for b in ctx.correspondence_breaks if b[0] == "model:min"]
    ctx.extra["programs"] = ctx.evaluations


def replay(ctx, proof, path):
    with open(path) as f:
        rp = json.load(f)
    res = stages.analyse([(0, rp["shell"], rp["grammar"])])
    a = res[0]
    bad = [(k, d) for k, d in a.oracle if k.endswith("raw~min") or k.endswith("minimal")]
    if bad:
        print(f"VIOLATION property={ctx.prop} replay={path}")
        print(bad)
        return 1
    print("replay: property holds on this case now")
    return 0
