"""C03 — minimisation preserves the language and yields the trim minimal automaton."""
import json

from .. import core, explore, stages

LEVEL = "proof"
CLAIM = 'Theorems: soundness of the certificate checkers (language_preserved, trim, reduced, minimal_size): any (raw, minimised) pair that passes bisimCheck/accessCheck/coaccessCheck/distinctCheck has equal languages and the minimised automaton is trim, reduced and of minimal size among all automata of that language. On every run the real DFA::minimize output for the main automaton and every within-word automaton of every explored grammar is certified this way (certificates found by search, checked by the verified checkers), so each explored automaton is decided exactly. Also proved over the model of do_minimize itself (Model/Min.lean: Hopcroft refinement with the dead state 0 for every iteration order of its hash containers, quotient, the two clean-up passes, renumbering): hopcroft_preserves_language (every well-formed input automaton), built_automaton_wf (what the subset construction builds is well-formed) and hence minimize_built_automaton — minimising the automaton the compiler builds preserves its language for all schedules of both loops; hopcroft_partition_stable (the final partition is a congruence that never mixes accepting and non-accepting states). Minimality over the model is not proved; it is decided per automaton by the certificates.'
NOTE = 'The theorem about the model of do_minimize for every partition-refinement order (hopcroft_correct) is open; until it closes, the all-inputs claim rests on per-automaton certification (complete per automaton, not a proof over all automata). Trusted: vh dump, search code is untrusted (only its certificates are checked).'
TECHNIQUE = 'Lean 4 verified certificate checkers (bisimulation, access/co-access, pairwise distinguishing words) applied to every automaton the real minimiser outputs'
DESIGN_REF = '§3 C03'


def on_case(ctx):
    def f(a):
        if "raw" in a.rec:
            ctx.sample({"grammar": a.text, "shell": a.shell, "states_raw": a.nstates}, limit=6)
        for kind, detail in a.oracle:
            if kind.endswith("raw~min") or kind.endswith("minimal"):
                which, what = kind.split(":")
                ctx.violation(f"{'sub' if which.startswith('sub') else 'main'}:{what}:{detail.split()[0]}", {
                    "grammar": a.text, "grammar_hex": core.hexs(a.text), "shell": a.shell, "automaton": which,
                    "check": what, "detail": detail,
                    "what": {"raw~min": "minimisation changed the language (word accepted by exactly one of raw / minimised)",
                             "minimal": "the minimised automaton is not trim-minimal"}[what]})
            elif kind == "sub:pool":
                ctx.violation("sub:pool-not-the-minimised-automata", {
                    "grammar": a.text, "grammar_hex": core.hexs(a.text), "shell": a.shell, "detail": detail,
                    "what": "the within-word automata the scripts are written from are not the (once) minimised automata of the "
                            "within-word expressions: " + detail})
    return f


def run(ctx, proof):
    ctx.extra["rule"] = ("corpus + exhaustive-small + random grammars; for the main automaton and every within-word automaton the pair "
                         "(raw, DFA::minimize(raw)) of the real library is certified: a bisimulation (language preserved), access words and "
                         "accepting continuations for every state (trim), a distinguishing word for every pair of states (reduced) — all "
                         "found by search and checked by the verified checkers of Cert; the pool of within-word automata the scripts are written "
                         "from must consist of exactly those minimised automata (shapes whose automaton loops back into its start state "
                         "included). non-trivial = raw automaton has >= 3 states")
    cases = explore.standard_cases(ctx, "C03")
    explore.run_batches(ctx, cases, on_case(ctx))
    # correspondence breaks of the front stages belong to C02; C03 only owns the minimiser stage
    ctx.correspondence_breaks = [b for b in ctx.correspondence_breaks if b[0] == "model:min"]
    ctx.extra["programs"] = ctx.evaluations


def replay(ctx, proof, path):
    with open(path) as f:
        rp = json.load(f)
    res = stages.analyse([(0, rp["shell"], rp["grammar"])])
    a = res[0]
    bad = [(k, d) for k, d in a.oracle if k.endswith("raw~min") or k.endswith("minimal") or k == "sub:pool"]
    if bad:
        print(f"VIOLATION property={ctx.prop} replay={path}")
        print(bad)
        return 1
    print("replay: property holds on this case now")
    return 0
