"""C03 — minimisation preserves the language and yields the trim minimal automaton."""
import json

from .. import core, explore, stages

LEVEL = "proof"
CLAIM = 'Theorems: soundness of the certificate checkers (language_preserved, trim, reduced, minimal_size): any (raw, minimised) pair that passes bisimCheck/accessCheck/coaccessCheck/distinctCheck has equal languages and the minimised automaton is trim, reduced and of minimal size among all automata of that language. On every run the real DFA::minimize output for the main automaton and every within-word automaton of every explored grammar is certified this way (certificates found by search, checked by the verified checkers), so each explored automaton is decided exactly. Also proved over the model of do_minimize itself (Model/Min.lean: Hopcroft refinement with the dead state 0 for every iteration order of its hash containers, quotient, the two clean-up passes, renumbering): hopcroft_preserves_language (every well-formed input automaton), built_automaton_wf (what the subset construction builds is well-formed) and hence minimize_built_automaton — minimising the automaton the compiler builds preserves its language for all schedules of both loops; hopcroft_partition_stable (the final partition is a congruence that never mixes accepting and non-accepting states); minimiser_terminates (on every well-formed automaton the refinement loop ends within its fuel, so the result always exists); minimised_is_reduced (when every state of the input can reach acceptance no two states of the result accept the same words: Hopcroft\'s work-list invariant for every schedule), minimised_is_accessible, built_automaton_trim (what the subset construction builds from an expression without empty alternation is reachable and co-reachable) and hence minimised_built_is_minimal — the minimised automaton of every compiled expression is reduced and accessible, i.e. the minimal automaton of its language, for all schedules; minimised_is_trim; and the cardinality form (Proofs/HopcroftCard.lean, Myhill-Nerode for partial automata) minimised_is_smallest / minimised_built_is_smallest — no automaton whatever that accepts the same words has fewer states than the minimiser\'s result. compiled_is_minimal / compiled_is_smallest (Proofs/EndToEnd.lean) state it from source text with no hypothesis left: for every text the parser model accepts and every shell and schedule for which the pipeline model (validate, regex, ambiguity checks, symbols, subset construction, minimisation) returns, the minimised main automaton accepts the words of the raw one, is reduced, trim and no automaton of that language is smaller — the parser never builds an empty alternation and validation never creates one (Proofs/NoEmptyAlt.lean; empty_alternation_only_from_outside shows validation does pass one through), and every position has a symbol (Proofs/PipelineMin.lean). within_word_automata_minimised: the same facts for every within-word automaton of the result (reducedness under the two side conditions named there). coacc_needed / access_needed: both hypotheses are necessary (the real code keeps the dead state in a block of its own), with kernel-checked counterexamples that the compiler never produces.'
NOTE = 'Language preservation, termination and minimality (reduced + accessible) are theorems over the model of do_minimize for every iteration order; the model is tied to the real minimiser on every run (minimised automata equal state for state in the stage comparison of C02/C03, and the real output certified independently by the verified checkers). The hypothesis of the expression-level minimality theorem (no empty alternation in the validated expression) is discharged for parsed text by compiled_is_minimal. Trusted: vh dump; the certificate search is untrusted (only its certificates are checked).'
TECHNIQUE = 'Lean 4 verified certificate checkers (bisimulation, access/co-access, pairwise distinguishing words) applied to every automaton the real minimiser outputs'
DESIGN_REF = '§3 C03'


def on_case(ctx):
    def f(a):
        if "raw" in a.rec:
            ctx.sample({"grammar": a.text, "shell": a.shell, "states_raw": a.nstates}, limit=6)
        for kind, detail in a.oracle:
            if kind.endswith("raw~min") or kind.endswith("minimal"):
                which, what = kind.split(":")
                ctx.violation(f"{'sub' if which.startswith('sub') else 'main'}:{what}:{detail.split()[0]}", {
                    "grammar": a.text, "grammar_hex": core.hexs(a.text), "shell": a.shell, "automaton": which,
                    "check": what, "detail": detail,
                    "what": {"raw~min": "minimisation changed the language (word accepted by exactly one of raw / minimised)",
                             "minimal": "the minimised automaton is not trim-minimal"}[what]})
            elif kind == "sub:pool":
                ctx.violation("sub:pool-not-the-minimised-automata", {
                    "grammar": a.text, "grammar_hex": core.hexs(a.text), "shell": a.shell, "detail": detail,
                    "what": "the within-word automata the scripts are written from are not the (once) minimised automata of the "
                            "within-word expressions: " + detail})
    return f


def run(ctx, proof):
    ctx.extra["rule"] = ("corpus + exhaustive-small + random grammars; for the main automaton and every within-word automaton the pair "
                         "(raw, DFA::minimize(raw)) of the real library is certified: a bisimulation (language preserved), access words and "
                         "accepting continuations for every state (trim), a distinguishing word for every pair of states (reduced) — all "
                         "found by search and checked by the verified checkers of Cert; the pool of within-word automata the scripts are written "
                         "from must consist of exactly those minimised automata (shapes whose automaton loops back into its start state "
                         "included). non-trivial = raw automaton has >= 3 states")
    cases = explore.standard_cases(ctx, "C03")
    explore.run_batches(ctx, cases, on_case(ctx))
    # correspondence breaks of the front stages belong to C02; C03 only owns the minimiser stage
    ctx.correspondence_breaks = [b for b in ctx.correspondence_breaks if b[0] == "model:min"]
    ctx.extra["programs"] = ctx.evaluations


def replay(ctx, proof, path):
    with open(path) as f:
        rp = json.load(f)
    res = stages.analyse([(0, rp["shell"], rp["grammar"])])
    a = res[0]
    bad = [(k, d) for k, d in a.oracle if k.endswith("raw~min") or k.endswith("minimal") or k == "sub:pool"]
    if bad:
        print(f"VIOLATION property={ctx.prop} replay={path}")
        print(bad)
        return 1
    print("replay: property holds on this case now")
    return 0
