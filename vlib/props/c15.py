"""C15 — warnings are complete, precise and harmless."""
import concurrent.futures
import json
import os
import re
import tempfile

from .. import core, gen, stages

LEVEL = "proof"
CLAIM = ("Spec/Warn.lean states the three warning sets over the reference graph of the grammar (undefined = names still standing for "
         "'any word' in the grammar's meaning for the target shell, except `_`; unused = plain definitions whose name occurs in no "
         "statement; unused specialisation = definitions for the target shell whose name occurs in no statement); Props/C15.lean proves "
         "their characterisations (unused_iff, unused_spec_iff, underscore_never_reported, reported_once) for every grammar, and "
         "warn_undefined_eq / warn_unused_eq / warn_unused_spec_eq: for every grammar and shell the model of check.rs accepts, the names in its `undefined` (minus `_`), `unused` and `unusedSpecs` maps are exactly the three spec sets "
         "(proved through the model's distribute / specialise / resolution-order / resolve passes: Proofs/Warn.lean, and Proofs/Topo+Expand+Meaning.lean for the dependency-ordered expansion, C02 validation_is_meaning). On every run, "
         "for generated reference structures (names used directly, inside words, only through used / only through unused definitions, "
         "specialised for the target / other shells / both, PATH, DIRECTORY, `_`) x 4 shells: the `warning:` lines of the real binary, read "
         "back at their printed location in the source, must be exactly the spec sets, once each; exit status 0; the script must be "
         "byte-identical to the one compiled with every warned-about definition blanked out; and the model's three maps "
         "(Check.validate) must equal the library's (names and spans).")
NOTE = ("All three warn_*_eq theorems are proved over the model of check.rs, which is compared exactly with the library on every case. Also proved: warnings_harmless (deleting the definitions of a name no statement mentions leaves the validated expression, hence automaton and scripts, unchanged — whenever both grammars are accepted). Not a theorem: the printing of the warnings by main.rs (incl. dropping `_`) — checked per grammar against the real binary, as is the byte identity of the scripts. Trusted: vh, "
        "the regex reading `path:line:col:warning: kind` lines, the generator.")
TECHNIQUE = "Lean 4 theorems (model of check.rs computes exactly the spec warning sets, for all grammars) + exact model/library correspondence + warning lines of the real binary against the spec sets"
DESIGN_REF = "§3 C15"

WARN_RE = re.compile(r"^(.*?):(\d+):(\d+):warning: (Undefined|Unused specialization|Unused)\s*$", re.M)


def gen_case(rng):
    """one statement per line; returns text"""
    pool = ["A", "B", "C", "D", "E", "PATH", "DIRECTORY", "_", "F"]
    names = rng.sample(pool, rng.randint(2, 7))
    plain = {}     # name -> body text
    wordsafe = {}  # name -> can be referenced inside a word
    specs = []     # (name, shell)
    order = names[:]
    rng.shuffle(order)
    lines = []
    defined_later = []
    for i, n in enumerate(order):
        if n == "_":
            continue
        r = rng.random()
        later = order[i + 1:]
        if r < 0.25:
            continue  # no plain definition
        if r < 0.45:
            plain[n] = "{{{ echo %s }}}" % n.lower()
            wordsafe[n] = True
        elif r < 0.7 or not later:
            vals = rng.sample(["v1", "v2", "v3", "w"], rng.randint(1, 3))
            plain[n] = " | ".join(vals)
            wordsafe[n] = True
        else:
            # refers to later names (acyclic): directly, in an option, inside a word
            m = rng.choice(later)
            k = rng.random()
            if k < 0.4:
                plain[n] = f"x{n.lower()} <{m}>"
                wordsafe[n] = False
            elif k < 0.55:
                plain[n] = f"y{n.lower()} | <{m}>"
                wordsafe[n] = False
            elif k < 0.7:
                plain[n] = rng.choice([f"y{n.lower()} || <{m}>", f"y{n.lower()} || u || <{m}>"])
                wordsafe[n] = False
            else:
                plain[n] = f"--{n.lower()}=<{m}>"
                wordsafe[n] = False
                defined_later.append((n, m))
    for n in names:
        if n == "_":
            continue
        for sh in core.SHELLS:
            if rng.random() < 0.15 and (n not in plain or plain[n].startswith("{{{")):
                specs.append((n, sh))
    # in-word references need a word-safe or undefined target
    for n, m in defined_later:
        if m in plain and not wordsafe.get(m, False):
            plain[n] = f"z{n.lower()} <{m}>"
    used = rng.sample(names, rng.randint(1, max(1, len(names) - 1)))
    parts = []
    for n in used:
        k = rng.random()
        if k < 0.5 or (n in plain and not wordsafe.get(n, False)):
            parts.append(rng.choice([f"<{n}>", f"[<{n}>]", f"(a | <{n}>)", f"<{n}>...",
                                     f"(q || <{n}>)", f"(q || r{n.lower()} || <{n}>)", f"(<{n}> || q)", f"(q || s <{n}> || t)"]))
        else:
            parts.append(f"--{n.lower()}=<{n}>")
    rng.shuffle(parts)
    lines.append("cmd " + " ".join(parts) + ";")
    if rng.random() < 0.3:
        lines.append("cmd other " + rng.choice([f"<{rng.choice(names)}>", "x"]) + ";")
    dl = [f"<{n}> = {b};" for n, b in plain.items()] + [f"<{n}@{sh}> = {{{{{{ echo {n.lower()}-{sh} }}}}}};" for n, sh in specs]
    rng.shuffle(dl)
    return "\n".join(lines + dl) + "\n"


def run_bin(args):
    sh, text, workdir, idx = args
    path = os.path.join(workdir, f"g{idx}.usage")
    with open(path, "w") as f:
        f.write(text)
    rc, out, err = core.run_complgen(sh, text, path_arg=path)
    os.unlink(path)
    return rc, out, err


def name_at(text, line, col):
    lines = text.split("\n")
    if not (1 <= line <= len(lines)):
        return None
    m = re.match(r"<([^>@\n]*)(?:@(\w+))?>", lines[line - 1][col - 1:])
    return (m.group(1), m.group(2)) if m else None


def run_batch(ctx, cases):
    vcases = [(f"{cid}|{sh}", sh, text) for cid, text in cases for sh in core.SHELLS]
    res = stages.analyse(vcases)
    reqs, plan = [], []
    for cid, text in cases:
        for sh in core.SHELLS:
            a = res[f"{cid}|{sh}"]
            if "tree" in a.rec:
                reqs.append(f"warnspec {sh} {a.rec['tree']}")
                plan.append((cid, sh))
    spec = dict(zip(plan, core.driver_parallel(reqs)))
    workdir = tempfile.mkdtemp(prefix="c15-", dir=ctx.workdir)
    jobs = [(sh, text, workdir, f"{i}-{sh}") for i, (cid, text) in enumerate(cases) for sh in core.SHELLS]
    with concurrent.futures.ThreadPoolExecutor(16) as ex:
        bins = list(ex.map(run_bin, jobs))
    k = 0
    blank_jobs = []
    for cid, text in cases:
        for sh in core.SHELLS:
            a = res[f"{cid}|{sh}"]
            rc, out, err = bins[k]
            k += 1
            ctx.evaluations += 1
            for kind, detail in a.issues:
                ctx.correspondence_breaks.append((kind, {"grammar": text, "shell": sh, "detail": detail}))
            if a.stage != "ok":
                ctx.count("rejected:" + str((a.rec.get("err") or {}).get("class", a.stage)))
                continue
            sp = spec.get((cid, sh), "")
            if not sp.startswith("ok "):
                ctx.correspondence_breaks.append(("warnspec", {"grammar": text, "answer": sp}))
                continue
            want = [sorted(core.unhexs(h) for h in part.split()) for part in sp[3:].split("|")]
            while len(want) < 3:
                want.append([])
            got = {"Undefined": [], "Unused": [], "Unused specialization": []}
            bad_loc = None
            for m in WARN_RE.finditer(err):
                nm = name_at(text, int(m.group(2)), int(m.group(3)))
                if nm is None:
                    bad_loc = m.group(0)
                    continue
                if m.group(4) == "Unused specialization" and nm[1] != sh:
                    bad_loc = m.group(0) + f" (points at a definition for {nm[1]})"
                got[m.group(4)].append(nm[0])
            rp = {"grammar": text, "grammar_hex": core.hexs(text), "shell": sh, "stderr": err[:1500],
                  "spec": {"undefined": want[0], "unused": want[1], "unused_specialization": want[2]},
                  "binary": {k2: sorted(v) for k2, v in got.items()}}
            ctx.count(f"warnings:{len(want[0])}/{len(want[1])}/{len(want[2])}")
            if any(want):
                ctx.nontriv((text, sh))
            if rc != 0:
                ctx.violation("warning-changes-exit-status", dict(rp, exit=rc, what=f"accepted by the library, binary exits {rc}"))
                continue
            if bad_loc:
                ctx.violation("warning-not-at-the-name", dict(rp, what=f"a warning does not point at an occurrence of a name: {bad_loc}"))
                continue
            for key, w in (("Undefined", want[0]), ("Unused", want[1]), ("Unused specialization", want[2])):
                g = sorted(got[key])
                if g != w:
                    missing = sorted(set(w) - set(g))
                    extra = sorted(set(g) - set(w))
                    kind = ("missing-" if missing else "spurious-" if extra else "repeated-") + key.lower().replace(" ", "-")
                    ctx.violation(kind, dict(rp, what=f"{key}: binary warns about {g}, the grammar prescribes {w}"))
                    break
            else:
                if ctx.evaluations % 173 == 0:
                    ctx.sample({"grammar": text, "shell": sh, "warnings": rp["binary"]})
                # harmless: blanking every warned-about definition leaves the script unchanged
                if want[1] or want[2]:
                    lines = text.split("\n")
                    for i, ln in enumerate(lines):
                        m = re.match(r"<([^>@]*)(?:@(\w+))?> =", ln)
                        if m and ((m.group(2) is None and m.group(1) in want[1]) or (m.group(2) == sh and m.group(1) in want[2])):
                            lines[i] = ""
                    blank_jobs.append((sh, "\n".join(lines), workdir, f"b{len(blank_jobs)}", out, text))
    with concurrent.futures.ThreadPoolExecutor(16) as ex:
        outs = list(ex.map(lambda j: run_bin(j[:4]), blank_jobs))
    for j, (rc, out, err) in zip(blank_jobs, outs):
        ctx.count("blanked-compared")
        if rc != 0 or out != j[4]:
            ctx.violation("warned-definition-changes-script", {"grammar": j[5], "blanked": j[1], "shell": j[0],
                                                                "what": "blanking the definitions warned about changes the emitted script"})
    try:
        os.rmdir(workdir)
    except OSError:
        pass


def run(ctx, proof):
    ctx.extra["rule"] = ("random reference structures over names {A..F, PATH, DIRECTORY, _}: plain definitions (command, alternatives, or "
                         "referring to later names directly / in an option / inside a word), specialisations for random shells, call variants "
                         "using a random subset directly or inside words; non-trivial = accepted grammar with at least one prescribed warning")
    n = 5000 if ctx.thorough() else 500
    cases = [(f"w{i}", gen_case(ctx.rng)) for i in range(n)]
    for i in range(0, len(cases), 250):
        run_batch(ctx, cases[i:i + 250])
    ctx.extra["programs"] = ctx.evaluations


def replay(ctx, proof, path):
    with open(path) as f:
        rp = json.load(f)
    before = len(ctx.violations)
    run_batch(ctx, [("replay", rp["grammar"])])
    bad = [v for v in ctx.violations[before:] if v[1].get("shell") == rp["shell"]]
    if bad:
        print(f"VIOLATION property={ctx.prop} replay={path}")
        print(bad[0][0], bad[0][1].get("what"))
        return 1
    print("replay: property holds on this case now")
    return 0
