"""C09 — a typed word never has two readings; `||` is transparent to matching."""
import json

from .. import core, gen, stages

LEVEL = "proof"
CLAIM = ("Theorem word_det_sound (Lean): an automaton that passes the word-determinism checker has, at every state, at most one "
         "continuation per typed word among literals (whatever description / `||` level they carry) and among within-word automata "
         "(whatever pool entry they are; language identity = verified canonical minimal form); word_conflict_real: the witness the "
         "checker returns on failure is a real pair of transitions. On every run the checker is applied to every automaton the real "
         "library produces and scripts are written from (main + within-word, minimised: there a difference of target states is a difference of continuations, by C03; a conflict of the raw automaton with inequivalent targets survives the quotient) for grammars biased as the quantifier asks, so each explored automaton "
         "is decided exactly; the `||` grammar and its `|` variant are decided language-equal with labels erased by the verified "
         "bisimulation checker; fallback_transparent (Lean, all grammars): whenever the model of check.rs accepts a grammar and its `|` "
         "variant, the two validated expressions agree once descriptions, levels and positions are erased and `||` is read as `|` (through "
         "C02's validation_is_meaning). The full statement is false of the pinned design: two kinds of violation are recorded as known findings "
         "and recognised from the witness (both items literals with equal text and description; both items within-word automata); any "
         "other witness is a violation.")
NOTE = ("Not covered by a theorem: that the compiler's construction yields a word-deterministic automaton for the in-class grammars "
        "(deterministic_partial, open) and the bash-execution half of the metamorphic statement (candidate inclusion), which is "
        "exercised under C01's runner once claimed. Trusted: vh dump, 64-bit hash of the verified canonical form as language identifier, "
        "commands are compared by text (two different commands printing a common word are not an ambiguity the compiler can see).")
TECHNIQUE = "Lean 4 verified word-determinism checker + verified bisimulation on every implementation automaton; metamorphic || vs |"
DESIGN_REF = "§3 C09"


def special_cases(rng, count):
    """the shapes the quantifier names: same literal in two `||` branches / call variants, within-word expressions
    repeated with permuted alternatives or through different definitions"""
    out = []
    lits = ["a", "ab", "b", "--opt", "foo"]
    for i in range(count):
        l = rng.choice(lits)
        x, y = rng.sample(["x", "y", "z", "w"], 2)
        vals = rng.sample(["v", "w", "vw", "u1", "q"], rng.randint(2, 3))
        perm = vals[:]
        while perm == vals:
            rng.shuffle(perm)
        head = rng.choice(["p", "--k=", "x:"])
        k = rng.randrange(11)
        if k == 0:
            variants, defs = [("fb", [("seq", [("lit", l, None), ("lit", x, None)]), ("seq", [("lit", l, None), ("lit", y, None)])])], []
        elif k == 1:
            variants, defs = [("seq", [("lit", l, None), ("lit", x, None)]), ("seq", [("lit", l, None), ("lit", y, None)])], []
        elif k == 2:
            variants, defs = [("alt", [("seq", [("sub", [("lit", head, None), ("alt", [("lit", v, None) for v in vals])]), ("lit", x, None)]),
                                       ("seq", [("sub", [("lit", head, None), ("alt", [("lit", v, None) for v in perm])]), ("lit", y, None)])])], []
        elif k == 3:
            variants = [("alt", [("seq", [("sub", [("lit", head, None), ("nt", "N1")]), ("lit", x, None)]),
                                 ("seq", [("sub", [("lit", head, None), ("nt", "N2")]), ("lit", y, None)])])]
            defs = [("N1", None, ("alt", [("lit", v, None) for v in vals])), ("N2", None, ("alt", [("lit", v, None) for v in perm]))]
        elif k == 4:
            # the same literal at the same level in two places: must merge
            variants, defs = [("alt", [("seq", [("lit", l, None), ("lit", x, None)]), ("seq", [("lit", l, None), ("lit", y, None)])])], []
        elif k == 5:
            # nested `||` through a definition (levels restart inside)
            variants = [("fb", [("lit", "build", None), ("nt", "R")]), ("fb", [("lit", "test", None), ("seq", [("lit", l, None), ("lit", x, None)])])]
            defs = [("R", None, ("fb", [("lit", "clean", None), ("seq", [("lit", l, None), ("lit", y, None)])]))]
        elif k == 6:
            # identical within-word expressions in two places: interned once
            w = ("sub", [("lit", head, None), ("alt", [("lit", v, None) for v in vals])])
            variants, defs = [("seq", [w, ("lit", x, None)]), ("seq", [w, ("lit", y, None)])], []
        elif k == 7:
            variants, defs = [("seq", [("lit", "sub", None), ("alt", [("seq", [("lit", l, "d"), ("lit", x, None)]), ("seq", [("lit", l, "d"), ("lit", y, None)])])])], []
        elif k == 9:
            # one within-word language spelled in two ways that keep the order of the values: through a definition / flat
            vs = vals if len(vals) == 3 else vals + ["zz"]
            variants = [("seq", [("sub", [("lit", head, None), ("alt", [("lit", v, None) for v in vs])]), ("lit", x, None)]),
                        ("seq", [("sub", [("lit", head, None), ("alt", [("lit", vs[0], None), ("nt", "N1")])]), ("lit", y, None)])]
            defs = [("N1", None, ("alt", [("lit", v, None) for v in vs[1:]]))]
        elif k == 10:
            # ... with extra grouping / a repeated value
            vs = vals if len(vals) == 3 else vals + ["zz"]
            second = rng.choice([("alt", [("lit", vs[0], None), ("alt", [("lit", v, None) for v in vs[1:]])]),
                                 ("alt", [("lit", v, None) for v in vs] + [("lit", vs[0], None)])])
            variants = [("seq", [("sub", [("lit", head, None), ("alt", [("lit", v, None) for v in vs])]), ("lit", x, None)]),
                        ("seq", [("sub", [("lit", head, None), second]), ("lit", y, None)])]
            defs = []
        else:
            variants, defs = [("fb", [("seq", [("opt", ("lit", x, None)), ("lit", l, None)]), ("seq", [("lit", l, None), ("lit", y, None)]), ("lit", l, None)])], []
        out.append((f"special{k}:{i}", variants, defs))
    return out


def random_parts(rng, count):
    out = []
    for i in range(count):
        g = gen.Gen(rng, max_depth=rng.choice([2, 3, 4, 5]), p_fb=0.3, p_sub=0.25, lits=["a", "b", "ab", "c", "--opt"])
        variants, defs = g.grammar_parts()
        out.append((f"rnd:{i}", variants, defs))
    return out


def classify(ans, spec):
    """kind of a word-determinism conflict, computed from the witness and from the grammar's meaning (spec):
    the two recorded design-level findings are recognised only where the *grammar* puts the same literal on two
    `||` levels at one point, resp. spells one within-word language in structurally different ways; the same
    symptom anywhere else is a new violation"""
    p = ans.split()
    k1, k2 = p[2], p[3]
    a, b = k1.split(":"), k2.split(":")
    if a[0] == "L" and b[0] == "L" and a[1] == b[1] and a[2] == b[2] and a[3] != b[3]:
        if spec is not None and ((k1, k2) in spec["pairs"] or (k2, k1) in spec["pairs"]):
            return "same-literal-two-levels"
        return "same-literal-two-levels-not-in-grammar"
    if a[0] == "W" and b[0] == "W":
        h = a[1].split(".")[0]
        # the pinned code interns within-word automata by the structure of the minimised automaton (state numbers,
        # order of the interned items): two pool entries with the same structure are a new defect, whatever the grammar
        if spec is not None and h in spec.get("same_structure", ()):
            return "identical-subwords-interned-apart"
        if spec is not None and spec["impl_count"].get(h, 0) <= spec["spellings"].get(h, 0):
            return "equal-language-subwords-interned-apart"
        return "identical-subwords-interned-apart"
    return "two-readings:" + a[0] + b[0]


def spec_info(trees, sub_hashes, sub_dumps=None):
    """per case: the conflicting key pairs of the automaton of the grammar's meaning, and per within-word language
    the number of structurally different spellings in the grammar"""
    reqs = [f"spec {sh} {tree}" for sh, tree in trees]
    ans = core.driver_parallel(reqs)
    reqs2 = []
    for a in ans:
        reqs2.append("conflicts " + a[3:].split(" ## ")[0] if a.startswith("ok ") else "conflicts x")
    ans2 = core.driver_parallel(reqs2)
    out = []
    sub_dumps = sub_dumps or [[] for _ in sub_hashes]
    for a, c, hs, dumps in zip(ans, ans2, sub_hashes, sub_dumps):
        if not a.startswith("ok ") or not c.startswith("ok"):
            out.append(None)
            continue
        seen, same = {}, set()
        for h, d in zip(hs, dumps):
            if d in seen.setdefault(h, set()):
                same.add(h)
            seen[h].add(d)
        parts = a[3:].split(" ## ")
        keys = parts[2].split() if len(parts) > 2 else []
        structs = parts[3].split() if len(parts) > 3 else []
        spellings = {}
        for k, st in set(zip(keys, structs)):
            spellings[k] = spellings.get(k, 0) + 1
        impl_count = {}
        for h in hs:
            impl_count[h] = impl_count.get(h, 0) + 1
        pairs = {tuple(x.split(",")) for x in c[3:].split()}
        out.append({"pairs": pairs, "spellings": spellings, "impl_count": impl_count, "same_structure": same})
    return out


def analyse(ctx, parts):
    """parts: [(id, variants, defs)] -> runs the implementation on the `||` grammar and on its `|` variant"""
    cases = []
    texts = {}
    for cid, variants, defs in parts:
        sh = ctx.rng.choice(core.SHELLS)
        g1 = gen.render_grammar("cmd", variants, defs)
        g2 = gen.render_grammar("cmd", [gen.fb_to_alt(v) for v in variants], [(n, s, gen.fb_to_alt(e)) for n, s, e in defs])
        texts[cid] = (sh, g1, g2)
        cases.append((cid + "/fb", sh, g1))
        if g2 != g1:
            cases.append((cid + "/alt", sh, g2))
    recs = core.run_vh(cases, flags="tree,dfa")
    # language identifiers of the within-word automata, with and without levels
    reqs, plan = [], []
    for cid, sh, text in cases:
        rec = recs.get(str(cid), {})
        if rec.get("stage") != "ok":
            continue
        for k, sub in enumerate(rec["subdfas"]):
            w = stages.wire(sub)
            reqs.append("canon " + w); plan.append((cid, "k", k))
            reqs.append("canon " + stages.erase_levels(w)); plan.append((cid, "k0", k))
    ans = core.driver_parallel(reqs)
    keys = {}
    for (cid, what, k), a in zip(plan, ans):
        keys.setdefault((cid, what), {})[k] = a.split()[1] if a.startswith("ok ") else "?"
    reqs, plan = [], []
    wires = {}
    subhs = {}
    for cid, sh, text in cases:
        rec = recs.get(str(cid), {})
        ctx.count("stage:" + str(rec.get("stage")))
        if rec.get("stage") != "ok":
            continue   # the property speaks about accepted grammars
        n = len(rec["subdfas"])
        hs = [keys.get((cid, "k"), {}).get(k, "?") for k in range(n)]
        sk = [f"{h}.{hs[:k].count(h)}" for k, h in enumerate(hs)]
        subhs[cid] = hs
        hs0 = [keys.get((cid, "k0"), {}).get(k, "?") for k in range(n)]
        sk0 = [f"{h}.0" for h in hs0]
        for which in ("raw", "min"):
            if which in rec:
                w = stages.wire(rec[which], sk)
                reqs.append("worddet " + w); plan.append((cid, which, text, sh))
                wires[(cid, which)] = stages.erase_levels(stages.wire(rec[which], sk0))
        for k, sub in enumerate(rec["subdfas"]):
            reqs.append("worddet " + stages.wire(sub)); plan.append((cid, f"sub{k}", text, sh))
    ans = core.driver_parallel(reqs)
    conflict = set()
    bad_ids = sorted({cid for (cid, _, _, _), a in zip(plan, ans) if a.startswith("conflict")})
    specs = dict(zip(bad_ids, spec_info([(recs[c]["shell"] if "shell" in recs[c] else texts[c.rsplit("/", 1)[0]][0], recs[c]["tree"]) for c in bad_ids],
                                        [subhs.get(c, []) for c in bad_ids],
                                        [[json.dumps(sub, sort_keys=True) for sub in recs[c].get("subdfas", [])] for c in bad_ids])))
    for (cid, which, text, sh), a in zip(plan, ans):
        ctx.evaluations += 1
        if a == "det":
            ctx.count("word-deterministic")
            continue
        if not a.startswith("conflict"):
            ctx.correspondence_breaks.append(("worddet", {"grammar": text, "answer": a}))
            continue
        if which == "raw":
            # two items of a raw state that lead to *different raw states* need not lead to different continuations:
            # the raw automaton is not reduced (e.g. `(<N> || <N>)` where <N> has `||` levels of its own: the two copies
            # of what follows differ in positions only).  The minimised automaton of the same grammar is checked next;
            # a conflict with inequivalent targets survives the quotient and is reported there.
            ctx.count("raw-conflict(decided-on-minimised)")
            continue
        conflict.add(cid)
        kind = classify(a, specs.get(cid))
        ctx.count("conflict:" + kind)
        ctx.violation(kind, {"grammar": text, "grammar_hex": core.hexs(text), "shell": sh, "automaton": which, "witness": a,
                             "what": f"state {a.split()[1]} has two items that match a common word and lead to different states: {a}"})
    # metamorphic: `||` -> `|` leaves the matched command lines unchanged
    reqs, plan = [], []
    for cid, (sh, g1, g2) in texts.items():
        a, b = cid + "/fb", cid + "/alt"
        ra, rb = recs.get(a, {}), recs.get(b, {})
        if g1 == g2:
            continue
        oka, okb = ra.get("stage") == "ok", rb.get("stage") == "ok"
        if oka != okb:
            # accepted in one form only: allowed only when the rejection is about descriptions (levels keep
            # conflicting descriptions apart); anything else means `||` changed what is matched
            cls = (ra.get("err") or rb.get("err") or {}).get("class", "?")
            ctx.count("metamorphic-one-rejected:" + cls)
            if cls not in ("ConflictingDescriptions", "AmbiguousDFA"):
                ctx.violation("fallback-changes-acceptance", {"grammar": g1, "variant": g2, "shell": sh, "class": cls,
                                                              "what": f"the grammar and its `|` variant differ in acceptance: {cls}"})
            continue
        if not oka or a in conflict or b in conflict:
            continue
        for which in ("raw", "min"):
            if (a, which) in wires and (b, which) in wires:
                reqs.append(f"equiv {wires[(a, which)]} {wires[(b, which)]}"); plan.append((cid, which, sh, g1, g2))
    ans = core.driver_parallel(reqs)
    for (cid, which, sh, g1, g2), a in zip(plan, ans):
        ctx.evaluations += 1
        ctx.count("metamorphic-compared")
        ctx.nontriv(g1)
        ctx.sample({"grammar": g1, "variant": g2, "shell": sh}, limit=6)
        if a.startswith("nondet"):
            # descriptions differ between the two forms (a description is spent differently under `||`): compare without them
            ctx.count("metamorphic-nondet-after-erasure")
            continue
        if not a.startswith("equiv"):
            ctx.violation("fallback-not-transparent", {"grammar": g1, "variant": g2, "shell": sh, "automaton": which, "detail": a,
                                                       "what": "replacing `||` by `|` changes which command lines are matched: " + a})


def run(ctx, proof):
    ctx.extra["rule"] = ("special shapes (same literal in two `||` branches / call variants / behind definitions, within-word expressions repeated "
                         "with permuted alternatives or through different definitions) + random grammars rich in `||` and within-word "
                         "expressions; every minimised automaton of the real library (main and within-word) goes through the verified "
                         "word-determinism checker; the grammar and its `|` variant are decided equivalent with levels erased. "
                         "non-trivial = grammar contains `||` and both forms are accepted")
    n = 6000 if ctx.thorough() else 700
    parts = special_cases(ctx.rng, n // 2) + random_parts(ctx.rng, n)
    for i in range(0, len(parts), 600):
        analyse(ctx, parts[i:i + 600])
    # by execution in bash (the last clause of the property: every candidate the `|` grammar offers is also offered by
    # the `||` grammar whenever no candidate of an earlier branch extends the typed prefix): `||` with a within-word
    # expression in a branch that is not the last one, prefixes of the later branches' candidates; the candidates bash
    # offers must be those Spec.Complete prescribes
    from . import c01
    c01.check_grammars(ctx, 120 if ctx.thorough() else 24, own="C09", gen="fallback_gen")
    # ... and several within-word expressions of one shape whose values sit on different `||` levels (candidates for
    # sharing one table-reading function in the script)
    c01.check_grammars(ctx, 80 if ctx.thorough() else 16, own="C09", gen="twin_gen")
    # ... and `||` chains of three and four alternatives whose candidates share their first letters
    c01.check_grammars(ctx, 80 if ctx.thorough() else 16, own="C09", gen="chain_gen")
    ctx.extra["programs"] = ctx.evaluations


def replay(ctx, proof, path):
    with open(path) as f:
        rp = json.load(f)
    if rp.get("kind") == "fallback-candidates-differ-in-bash":
        from . import c01
        return c01.replay(ctx, proof, path)
    recs = core.run_vh([("r", rp["shell"], rp["grammar"])], flags="dfa")
    rec = recs.get("r", {})
    if "raw" not in rec:
        print("replay: the grammar is no longer accepted:", rec.get("stage"))
        return 0
    n = len(rec["subdfas"])
    ans = core.driver_batch(["canon " + stages.wire(s) for s in rec["subdfas"]])
    hs = [a.split()[1] if a.startswith("ok ") else "?" for a in ans]
    sk = [f"{h}.{hs[:k].count(h)}" for k, h in enumerate(hs)]
    reqs = ["worddet " + stages.wire(rec[w], sk) for w in ("min",) if w in rec] + ["worddet " + stages.wire(s) for s in rec["subdfas"]]
    bad = [a for a in core.driver_batch(reqs) if a != "det"]
    if bad:
        print(f"VIOLATION property={ctx.prop} replay={path}")
        print(bad)
        return 1
    print("replay: property holds on this case now")
    return 0
