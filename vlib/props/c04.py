"""C04 — every emitted script (bash/fish/zsh/pwsh) embeds exactly the compiled automaton."""
import concurrent.futures
import json
import re

from .. import complete, core, gen, tables

LEVEL = "translation_validation"
CLAIM = ("For every generated accepted grammar and each of the four shells the data lines of the real script are tokenised "
         "(vlib/tables.py), string constants are decoded by the Lean reader of that shell's double-quote rules (Quote.Dialect, the one "
         "C07's theorems are about), indices are shifted back by the shell's base (Gen.arrayStart, regenerated from the source) and the "
         "result is compared — exactly, state ids included — with the minimised automaton of the real library dumped by vh: the literal "
         "list with the description attached to each literal, the next state for every (state, literal / command / within-word / "
         "any-word) pair, the candidates per state and `||` level, the start state, the body of every _<cmd>_cmd_N function, for the "
         "main automaton and for every within-word automaton — resolved through shared shape functions when several within-word automata "
         "share one table set — and the registration line names the grammar's command. For bash and zsh every table the shared "
         "within-word interpreter reads must be declared by each within-word function (locals are dynamically scoped). Grammars are "
         "biased towards several same-shaped and differently-shaped within-word expressions, descriptions, commands, `||` levels. "
         "Proved over a Lean model of the shared table construction (Model/Tables.lean: tables.rs and the table getters of dfa.rs as the bash emitter uses them — literal list and ids, literal / command / within-word / any-word rows, per-level candidate tables, command and within-word function numbering; compared table by table with the tables of the real bash script on every bash case of the run, on the automaton the real library dumps): tables_embed_main / tables_embed_subwords — the labelled transitions that can be read back from the tables (with the level recovered from the level tables) are exactly the transitions of the automaton, when no state has two items with one table id and different targets (C09's recorded finding is exactly a violation of that side condition: tables_need_determinism); tables_star. The text the four emitters put around the tables is not modelled.")
NOTE = ("Translation validation per script, plus the embedding theorem over the model of the table construction (tied to the real bash tables up to the order of literal entries with equal text: the real code orders them with an unstable sort); a model of the four emitters' text is open. Trusted: vlib/tables.py "
        "(regex tokenisers of the data lines of four emitters), vh dump, the Lean string readers for fish / zsh / pwsh (transcribed from "
        "documentation). Cases in which the same literal (text and description) leaves one state at two `||` levels are C09's recorded "
        "finding and are skipped here.")
TECHNIQUE = "extraction of the embedded tables from the four real scripts, decoded with the Lean string readers and index bases, compared exactly with the library's automaton"
DESIGN_REF = "§3 C04"

BASE = {"bash": 0, "fish": 1, "zsh": 1, "pwsh": 0}


def expected_facts(d, shell):
    """facts the tables must state for one automaton of the vh dump"""
    out = set()
    maxlvl = None
    for f, i, t in d["trans"]:
        p = d["inputs"][i].split()
        if p[0] == "L":
            key = (core.unhexs(p[1]), None if (p[2] == "-" or shell == "bash") else core.unhexs(p[2]))
            out.add(("mL", f, key, t))
            out.add(("cL", int(p[3]), f, key))
            maxlvl = max(maxlvl or 0, int(p[3]))
        elif p[0] == "C":
            k = "K" if p[2] == "1" else "C"
            out.add(("m" + k, f, core.unhexs(p[1]), t))
            out.add(("c" + k, int(p[3]), f, core.unhexs(p[1])))
            maxlvl = max(maxlvl or 0, int(p[3]))
        elif p[0] == "X":
            out.add(("mX", f, t))
        elif p[0] == "W":
            out.add(("mW", f, int(p[1]), t))
            out.add(("cW", int(p[2]), f, int(p[1])))
            maxlvl = max(maxlvl or 0, int(p[2]))
    return out, maxlvl


def resolve(facts, shell, cmds, decoded):
    """script facts -> the same vocabulary as expected_facts (sub ids still the script's, minus base)"""
    b = BASE[shell]
    lits = {}
    for f in facts:
        if f[0] == "lit":
            t = decoded[f[2]]
            d = None if (f[3] is None or shell == "bash") else decoded[f[3]]
            lits[f[1]] = (t, d)
    out = set()
    mx = None
    for f in facts:
        k = f[0]
        if k == "mL":
            out.add(("mL", f[1] - b, lits.get(f[2] - b, ("?missing-literal", f[2])), f[3] - b))
        elif k in ("mC", "mK"):
            out.add((k, f[1] - b, cmds.get(f[2], f"?missing-command-{f[2]}"), f[3] - b))
        elif k == "mX":
            out.add(("mX", f[1] - b, f[2] - b))
        elif k == "mW":
            out.add(("mW", f[1] - b, f[2] - b, f[3] - b))
        elif k == "cL":
            out.add(("cL", f[1], f[2] - b, lits.get(f[3] - b, ("?missing-literal", f[3]))))
        elif k in ("cC", "cK"):
            out.add((k, f[1], f[2] - b, cmds.get(f[3], f"?missing-command-{f[3]}")))
        elif k == "cW":
            out.add(("cW", f[1], f[2] - b, f[3] - b))
        elif k == "max":
            mx = f[1]
    return out, mx, lits


def run_bin(args):
    sh, text = args
    return core.run_complgen(sh, text)


def declared_tables(script, shell):
    """bash/zsh: tables the within-word interpreter reads vs tables each within-word function declares"""
    fns = tables.functions(script, shell)
    interp = fns.get("_cmd_subword")
    if interp is None:
        return []
    pre = "subword_" if shell == "zsh" else ""
    used = set(re.findall(r"\b(%s(?:literal|command|compadd|star)_transitions)\[" % pre, interp))
    used |= {pre + x for x in re.findall(r"\b(?:subword_)?(commands_level_|literal_transitions_level_|compadd_commands_level_)\$", interp)}
    problems = []
    shapes = {n: b for n, b in fns.items() if re.fullmatch(r"_cmd_subword_shape_\d+", n)}
    for name, body in fns.items():
        if not re.fullmatch(r"_cmd_subword_\d+", name):
            continue
        m = re.search(r"^    (_cmd_subword_shape_\d+) ", body, re.M)
        full = body + (shapes.get(m.group(1), "") if m else "")
        for u in used:
            if u.endswith("_level_"):
                ok = re.search(r"^    (?:local|declare) -A %s0=" % re.escape(u), full, re.M)
            else:
                ok = re.search(r"^    (?:local|declare) -A %s=" % re.escape(u), full, re.M)
            if not ok:
                problems.append((name, u))
    return problems


def check_case(ctx, text, sh, rec, script):
    rp = {"grammar": text, "grammar_hex": core.hexs(text), "shell": sh}
    try:
        t = tables.extract_tables(script, sh)
    except ValueError as e:
        ctx.violation("tables-unreadable", dict(rp, what=f"the data lines of the {sh} script do not fit their format: {e}"))
        return
    raws = set()
    for facts in [t["main"]] + list(t["subs"].values()):
        for f in facts:
            if f[0] == "lit":
                raws.add(f[2])
                if f[3] is not None:
                    raws.add(f[3])
    raws = sorted(raws)
    ans = core.driver_batch([f"decode {sh} {core.hexs(r)}" for r in raws]) if raws else []
    decoded = {}
    for r, a in zip(raws, ans):
        if not a.startswith("ok "):
            ctx.violation("constant-unreadable", dict(rp, constant=r, what=f"the {sh} string reader rejects the constant {r!r}"))
            return
        decoded[r] = core.unhexs(a[3:])
    d = rec["min"]
    b = BASE[sh]
    want, wmax = expected_facts(d, sh)
    # C09's recorded finding: one literal (text, description) leaving a state at two levels with two targets
    seen = {}
    for dd in [d] + rec["subdfas"]:
        w_, _ = expected_facts(dd, sh)
        seen = {}
        for f in w_:
            if f[0] in ("mL", "mC", "mK"):
                if seen.setdefault((f[0], f[1], f[2]), f[3]) != f[3]:
                    ctx.count("skipped:same-item-at-two-levels-with-two-targets (C09's finding)")
                    return
    got, gmax, lits = resolve(t["main"], sh, t["cmds"], decoded)
    if t["registered"] != "cmd":
        ctx.violation("not-registered-for-command", dict(rp, what=f"the script registers its completion for {t['registered']!r}, the grammar's command is 'cmd'"))
        return
    if t["start"] is None or t["start"] - b != d["start"]:
        ctx.violation("start-state-differs", dict(rp, what=f"start state in the script {t['start']} (base {b}), automaton {d['start']}"))
        return
    # command functions: one per distinct command text, body verbatim
    texts = {core.unhexs(x.split()[1]) for dd in [d] + rec["subdfas"] for x in dd["inputs"] if x.startswith("C ")}
    texts_used = set()
    for dd in [d] + rec["subdfas"]:
        for f_, i, t_ in dd["trans"]:
            if dd["inputs"][i].startswith("C "):
                texts_used.add(core.unhexs(dd["inputs"][i].split()[1]))
    bodies = set(t["cmds"].values())
    norm = lambda c: (c.strip() or ":") if sh == "bash" else c
    if {norm(c) for c in texts_used} != bodies:
        ctx.violation("command-bodies-differ", dict(rp, what=f"command functions {sorted(bodies)} vs commands of the automaton {sorted(texts_used)}"))
        return
    cmdnorm = {norm(c): c for c in texts_used}
    fix = lambda s: {tuple(cmdnorm.get(x, x) if isinstance(x, str) and i > 0 and f[0] in ("mC", "mK", "cC", "cK") else x for i, x in enumerate(f)) for f in s}
    got = fix(got)
    # map the script's within-word ids to pool indices
    want_w = {(f[1], f[2], f[3]) for f in want if f[0] == "mW"}
    got_w = {(f[1], f[2], f[3]) for f in got if f[0] == "mW"}
    sig_k, sig_s = {}, {}
    for f_, k, t_ in want_w:
        sig_k.setdefault(k, set()).add((f_, t_))
    for f_, s, t_ in got_w:
        sig_s.setdefault(s, set()).add((f_, t_))
    sub_expected = {k: expected_facts(rec["subdfas"][k], sh) for k in sig_k}
    sub_got = {}
    for s in sig_s:
        if s + b not in t["subs"]:
            ctx.violation("within-word-function-missing", dict(rp, what=f"transition to within-word function {s + b} which the script does not define"))
            return
        sub_got[s] = resolve(t["subs"][s + b], sh, t["cmds"], decoded)
        sub_got[s] = (fix(sub_got[s][0]), sub_got[s][1], sub_got[s][2])
    mapping = {}
    for s, sg in sig_s.items():
        cands = [k for k, kg in sig_k.items() if kg == sg and k not in mapping.values() and sub_expected[k][0] == sub_got[s][0]]
        if not cands:
            cands = [k for k, kg in sig_k.items() if kg == sg and k not in mapping.values()]
            if not cands:
                ctx.violation("within-word-transitions-differ", dict(rp, what=f"within-word function {s + b} is entered / left at {sorted(sg)}, no within-word automaton is"))
                return
            k = cands[0]
            diff = sorted(map(str, sub_expected[k][0] ^ sub_got[s][0]))[:6]
            ctx.violation("within-word-tables-differ", dict(rp, function=s + b, what=f"the tables of within-word function {s + b} do not describe its automaton: {diff}"))
            return
        mapping[s] = cands[0]
    if len(mapping) != len(sig_k):
        ctx.violation("within-word-function-missing", dict(rp, what=f"{len(sig_k)} within-word automata, {len(mapping)} within-word functions reached"))
        return
    got = {(f[0], f[1], mapping[f[2]], f[3]) if f[0] == "mW" else ((f[0], f[1], f[2], mapping[f[3]]) if f[0] == "cW" else f) for f in got}
    if got != want:
        diff = sorted(map(str, got ^ want))[:6]
        ctx.violation("main-tables-differ", dict(rp, what=f"the tables of the main automaton do not describe it: {diff}"))
        return
    if wmax is not None and gmax is not None and gmax < wmax:
        ctx.violation("max-level-too-small", dict(rp, what=f"max_fallback_level {gmax} < highest level {wmax}"))
        return
    if sh == "bash":
        # the Lean model of the table construction (Model/Tables.lean; tables_embed_main: the tables determine exactly
        # the automaton) on the automaton of the real library vs the tables of this script, table by table
        from .c16 import auto_wire
        req = " ".join(["tablescmp", auto_wire(d), "&".join(auto_wire(x) for x in rec["subdfas"]) or "-",
                        complete.tables_wire(t["main"], decoded, assoc=False),
                        "&".join(f"{j}@{complete.tables_wire(f, decoded, assoc=False)}" for j, f in sorted(t["subs"].items())) or "-"])
        a = core.driver_batch([req])[0]
        if not a.startswith("ok "):
            ctx.correspondence_breaks.append(("tables-model", {"grammar": text, "answer": a[:300]}))
        else:
            verdict, _, cmds = a[3:].partition(" ## ")
            model_cmds = [norm(core.unhexs(h)) for h in cmds.split(",") if h]
            real_cmds = [t["cmds"][k] for k in sorted(t["cmds"])]
            ctx.count("tables-model:compared")
            if verdict != "same" or model_cmds != real_cmds:
                ctx.correspondence_breaks.append(("tables-model", {"grammar": text, "verdict": verdict[:1500],
                                                                  "commands_model": model_cmds, "commands_script": real_cmds}))
    if sh in ("bash", "zsh"):
        prob = declared_tables(script, sh)
        if prob:
            ctx.violation("table-not-declared-in-within-word-function", dict(rp, what=f"{prob[0][0]} does not declare {prob[0][1]}, which the shared within-word interpreter reads (it would see the caller's table)"))
            return
    ctx.nontriv((text, sh))


def gen_grammar(rng, i):
    if i % 4 == 3:
        pg = complete.twin_gen(rng)
        return pg.text()
    if i % 4 == 2:
        # texts with the characters the shells' quoting rules are about
        g = gen.Gen(rng, max_depth=rng.choice([2, 3]), p_sub=0.25, p_descr=0.5, p_cmd=0.15, p_fb=0.2,
                    lits=["a`b", "$x", "it's", 'q"q', "b\\s", "!h", "a*b", "--opt", "foo", "${y}", "`", "x$(z)"],
                    descrs=["same as `cmd`", "costs $5", 'say "hi"', "back\\slash", "it's", "d"])
        return g.grammar()
    g = gen.Gen(rng, max_depth=rng.choice([2, 3, 4]), p_sub=0.3, p_descr=0.4, p_cmd=0.2, p_fb=0.2)
    return g.grammar()


def run(ctx, proof):
    ctx.extra["rule"] = ("random grammars (within-word expressions incl. same-shaped ones differing in `||` levels, descriptions, commands at top "
                         "level and inside words, specialisations, several levels) x 4 shells; exact comparison of the decoded tables with "
                         "the library's minimised automaton. non-trivial = accepted case whose tables matched (each is distinct)")
    rng = ctx.rng
    n = 8000 if ctx.thorough() else 300
    cases = []
    for i in range(n):
        text = gen_grammar(rng, i)
        for sh in core.SHELLS:
            cases.append((f"g{i}|{sh}", sh, text))
    recs = core.run_vh(cases, flags="dfa")
    with concurrent.futures.ThreadPoolExecutor(16) as ex:
        outs = list(ex.map(run_bin, [(sh, text) for _, sh, text in cases], chunksize=8))
    for (cid, sh, text), (rc, out, err) in zip(cases, outs):
        rec = recs.get(cid, {})
        ctx.evaluations += 1
        ctx.count("stage:" + str(rec.get("stage")))
        if rec.get("stage") != "ok" or rc != 0:
            continue
        check_case(ctx, text, sh, rec, out.decode("utf-8", "replace"))
        if ctx.evaluations % 251 == 0:
            ctx.sample({"grammar": text, "shell": sh}, limit=5)
    ctx.extra["programs"] = ctx.evaluations


def replay(ctx, proof, path):
    with open(path) as f:
        rp = json.load(f)
    sh, text = rp["shell"], rp["grammar"]
    rec = core.run_vh([("r", sh, text)], flags="dfa").get("r", {})
    rc, out, err = core.run_complgen(sh, text)
    if rec.get("stage") != "ok" or rc != 0:
        print("replay: grammar no longer accepted")
        return 0
    before = len(ctx.violations)
    check_case(ctx, text, sh, rec, out.decode("utf-8", "replace"))
    if len(ctx.violations) > before:
        print(f"VIOLATION property={ctx.prop} replay={path}")
        print(ctx.violations[-1][1].get("what"))
        return 1
    print("replay: property holds on this case now")
    return 0
