"""C17 — external commands run only when expected, with the documented arguments/output."""
from . import c01
from .. import complete

LEVEL = "translation_validation"
CLAIM = ("Every {{{ }}} command of the generated grammars is a probe that logs its identity and its two arguments and prints fixed lines "
         "(candidates with spaces, with tab-separated descriptions, with a common prefix, looking like echo options, empty output). The "
         "emitted script runs in a real bash over command lines found by walking what bash offers; per command line the probe log is "
         "compared with Spec.Complete (Lean): every call must be one the grammar allows at a point the walk visits — at top level with "
         "(\"\", \"\") while reading an earlier word, with (typed prefix, \"\") when collecting candidates; inside a word with (rest of the "
         "word, part already matched) — the calls needed to collect the candidates of the final point must all be there, and the offered "
         "candidates (text before the first tab, extending the typed text) and the acceptance of earlier words must be those the spec "
         "prescribes. Commands sit at top level, inside words after a literal head, under [], ..., | and ||, behind definitions and "
         "bash-specific definitions.")
NOTE = ("Translation validation per command line. Proved over the model of the bash template with call recording (Model/BashRtCalls.lean; its call sequence is compared with the probe log of the real bash, in order, on every explored command line): calls_have_template_form (every call passes (\"\", \"\"), (typed text, \"\") or (rest of a word, part already read), for all tables and command outputs) and recording_transparent; the theorem calls_spec (the calls are exactly those the grammar allows) is open. The probes' output does not depend "
        "on their arguments (assumed behaviour of the external command). Trusted: runner stub, probe functions, Spec.Complete.")
TECHNIQUE = "probe commands in real bash (invocation log + COMPREPLY) against the executable Lean spec of calls and candidates"
DESIGN_REF = "§3 C17, Appendix D"


def run(ctx, proof):
    ctx.extra["rule"] = ("random grammars rich in probe commands (top level, inside words, under [], ..., |, ||, behind definitions and @bash "
                         "definitions), outputs incl. spaces / tabs / option-looking candidates; command lines as in C01; non-trivial = "
                         "distinct command line on which at least one command ran")
    n = 400 if ctx.thorough() else 48
    c01.check_grammars(ctx, n, own="C17", p_cmd=0.4, p_sub=0.3, spaces_in_output=True, shared=True, twins=True)
    ctx.extra["programs"] = n
    ctx.extra["disagreements_checked"] = ctx.evaluations


def replay(ctx, proof, path):
    return c01.replay(ctx, proof, path)
