"""C02 — the compiled automaton recognises exactly the grammar's language, labels included."""
import json

from .. import core, explore, stages

LEVEL = "proof"
CLAIM = "Theorems (Lean, all schedules, all expressions): Glushkov — a word of positions is in the language of the position-numbered regex iff it is a first/follow/last path (glushkov_local, glushkov_nil); the model of dfa_from_regex accepts exactly the label sequences of such paths for every work-list order (subset_construction_correct); composition with the regex-of-expression lemma (C02_raw_model) gives L(raw automaton) = language of the validated expression; validation_is_meaning — for every grammar and shell the model of check.rs accepts, the validated expression is Spec.meaningAt: call variants joined, descriptions distributed (descriptions_as_specified), the definition Spec.pick chooses at every reference (choice_as_specified), definitions expanded to the end in the dependency order found by the depth-first traversal (resolution_order_topological: every definition once, after everything it refers to; expansion_as_specified: the result is the specification's fixpoint expansion and the specification's fuel always suffices), words (words_as_specified), || levels (levels_as_specified). oracle_has_theorem_semantics — the partial-derivative automaton of the grammar's meaning (the per-grammar oracle below) accepts exactly the key sequences of the denPos words of Spec.meaning, when its construction finishes and no empty alternative occurs (both evaluated by the driver per grammar and counted in the evidence). C02_end_to_end composes them: for every accepted grammar, shell and work-list order the raw automaton of the model accepts exactly the label sequences of the words (denPos) of Spec.meaningAt g. The model is tied to /repo stage by stage on every run (validated expression, positions, firstpos/followpos exact; raw and minimised automata by a verified bisimulation checker). Independently the implementation's raw/minimised automata are decided equivalent to the automaton of the grammar's documented meaning (Spec.Den: choice of definitions, expansion, description rule, || levels; partial derivatives) — a complete per-grammar decision with a distinguishing item sequence as replay."
NOTE = 'pipeline_recognises_meaning (Proofs/EndToEnd.lean) composes C02_end_to_end with the pipeline model: whenever Pipeline.compile returns, both the raw and the minimised main automaton accept exactly the label sequences of the words of Spec.meaningAt, the side conditions on the position symbols discharged from symbolsOf. Open (not claimed as proved): the correspondence between the input symbols of the model (symOf) and the keys of the oracle, which is what the per-grammar bisimulation check (verified checker) decides together with the automaton of the implementation. Trusted: vh dump code, 64-bit hash of canonical sub-automata as language identifier.'
TECHNIQUE = 'Lean 4 theorems (Glushkov + subset construction for all schedules) + stage-wise differential correspondence + verified bisimulation against the spec automaton'
DESIGN_REF = '§3 C02'


def on_case(ctx):
    def f(a):
        if a.stage == "ok" or "raw" in a.rec:
            ctx.sample({"grammar": a.text, "shell": a.shell, "states_raw": a.nstates}, limit=6)
        for kind, detail in a.oracle:
            if kind.startswith("spec:"):
                word = detail.split()[1:] if detail.startswith("differ") else []
                ctx.violation(f"{kind}:{detail.split()[0]}", {
                    "grammar": a.text, "grammar_hex": core.hexs(a.text), "shell": a.shell, "stage": kind,
                    "word_keys": word, "detail": detail,
                    "what": "the automaton and the grammar's meaning disagree on this sequence of items"})
    return f


def run(ctx, proof):
    ctx.extra["rule"] = ("corpus + every expression tree with <= N nodes (exhaustive-small) + random grammars (depth <= 6, <= 4 definitions in "
                         "shuffled order, specialisations, within-word expressions); per grammar and shell: the implementation's raw and minimised "
                         "automaton are decided equivalent (verified bisimulation checker) to the automaton of the grammar's meaning (Spec.Den, "
                         "partial derivatives) and to the model's automata; validated expression, positions, firstpos/followpos compared exactly "
                         "with the model. non-trivial = raw automaton has >= 3 states")
    cases = explore.standard_cases(ctx, "C02")
    explore.run_batches(ctx, cases, on_case(ctx))
    if ctx.correspondence_breaks and not ctx.violations:
        # correspondence broken, no failing input yet: widen the search
        ctx.count("widened-search")
        explore.run_batches(ctx, explore.random_cases(ctx.rng, 6000, tag="wide"), on_case(ctx))
    ctx.extra["programs"] = ctx.evaluations
    ctx.extra["disagreements_checked"] = ctx.evaluations


def replay(ctx, proof, path):
    with open(path) as f:
        rp = json.load(f)
    res = stages.analyse([(0, rp["shell"], rp["grammar"])])
    a = res[0]
    bad = [(k, d) for k, d in a.oracle if k.startswith("spec:")]
    if bad:
        print(f"VIOLATION property={ctx.prop} replay={path}")
        print(bad)
        return 1
    print("replay: property holds on this case now")
    return 0
