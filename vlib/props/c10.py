"""C10 — output is a pure function of the input: byte-identical across runs and processes."""
import concurrent.futures
import glob
import hashlib
import importlib.util
import json
import os
import shutil
import subprocess
import tempfile

from .. import core, gen

LEVEL = "other"
CLAIM = ("Partial by nature (DESIGN.md §3 C10, §9): byte identity across processes is a fact about hashers and the OS that the model "
         "cannot exhibit. Proved (Lean): schedule_irrelevant — any two work-list orders of the subset construction give automata with the "
         "same language, so the meaning of the output never depends on container order; nondet_sources_ok — the inventory regenerated "
         "from src/*.rs, Cargo.toml and Cargo.lock on every run has no randomly seeded hash container, no run-time read of the "
         "environment / clock / thread or process id / pointer value / RNG, and the direct hashbrown requirement is the fixed-key 0.13 "
         "line; hash_impls_paired — every type with a hand-written Hash impl also has a hand-written PartialEq (a hand-written Hash next to a "
         "derived order-insensitive equality on the key of a randomly seeded IndexSet is the defect repaired in 131db37), eq_impls_paired — and conversely no type compares by hand while its Hash is derived (all decided by the "
         "kernel on the current inventory); minimised_size_schedule_irrelevant — two iteration orders of the minimiser give automata of the same size and language (both are smallest automata of that language, C03). Observed: the real binary is run in fresh processes (quick 6, thorough "
         "24) with differing environments (env -i + differing HOME/LANG/RUST_BACKTRACE, hundreds of junk variables that move the stack, "
         "every environment-variable name the source mentions set to junk in half of the runs, ASLR on) for the bundled examples and "
         "random large grammars (many states, several commands that occur only inside words in different within-word automata, "
         "same-shaped within-word automata, within-word expressions over the same items in permuted order), script + --dfa + --regex, four "
         "shells; all bytes must agree. Deterministic half of the observation: in the real library's automaton of every explored grammar no "
         "two entries of the within-word intern pool compare equal with the library's own `==` (otherwise keeping them apart or merging them "
         "is decided by the randomly seeded hash of the process: the defect repaired in 131db37); a hit is then exhibited on the real binary.")
NOTE = ("Level `other`: theorem about the model (schedule independence of meaning) + kernel-decided source inventory + multi-process "
        "observation. Trusted: translate.py's inventory patterns (a container smuggled in under a type alias from another crate is seen "
        "only by the runtime half).")
TECHNIQUE = "Lean theorem (schedule independence) + kernel-decided inventory of order/nondeterminism sources regenerated from source + multi-process byte comparison"
DESIGN_REF = "§3 C10"


def env_names():
    spec = importlib.util.spec_from_file_location("translate", os.path.join(core.VERIF, "tools", "translate.py"))
    mod = importlib.util.module_from_spec(spec)
    spec.loader.exec_module(mod)
    try:
        return mod.nondet_inventory()[2]
    except Exception:
        return []


def big_grammar(rng, i):
    k = i % 3
    if k == 0:
        # several commands that occur only inside words, each in its own within-word automaton; same-shaped ones too
        n = rng.randint(3, 7)
        opts = [f"--opt{j}={{{{{{ echo c{j}a; echo c{j}b }}}}}}" for j in range(n)]
        opts += [f"--sel{j}=(x{j} | y{j})" for j in range(rng.randint(2, 4))]
        opts += [f"--fb{j}=(p{j} || q{j} || {{{{{{ echo fb{j} }}}}}})" for j in range(rng.randint(1, 3))]
        rng.shuffle(opts)
        return "cmd (" + " | ".join(opts) + ")... <FILE>;\n<FILE> = {{{ ls }}};\n"
    g = gen.Gen(rng, max_depth=rng.choice([4, 5, 6]), p_sub=0.3, p_cmd=0.2, p_nt=0.25, p_fb=0.15,
                cmd_texts=[f"echo k{j}" for j in range(8)])
    return g.grammar(n_defs=rng.randint(2, 6), n_variants=rng.randint(2, 5))


def pool_shapes(rng, n):
    """grammars with several within-word expressions built from the same items in a different order, with the same
    automaton shape: whether two of them are told apart must not depend on hash values"""
    out = []
    for i in range(n):
        k = i % 4
        a, b, c = rng.sample(["LOCAL", "REMOTE", "HOST", "USER", "PORT"], 3)
        sep = rng.choice([":", "=", "@", "/"])
        if k == 0:
            text = (f"cmd push <{a}>{sep}<{b}> | pull <{b}>{sep}<{a}>;\n<{a}> = {{{{{{ echo {a.lower()}-1 }}}}}};\n"
                    f"<{b}> = {{{{{{ echo {b.lower()}-1 }}}}}};\n")
        elif k == 1:
            vals = rng.sample(["v", "w", "u1", "q", "zz"], rng.randint(2, 4))
            perms = []
            for _ in range(rng.randint(2, 5)):
                pm = vals[:]
                rng.shuffle(pm)
                perms.append(pm)
            text = "cmd " + " | ".join(f"k{j} --opt=({' | '.join(pm)}) x{j}" for j, pm in enumerate(perms)) + ";\n"
        elif k == 2:
            items = [f"<{a}>", f"<{b}>", f"<{c}>"]
            variants = []
            for j in range(rng.randint(3, 6)):
                pm = items[:]
                rng.shuffle(pm)
                variants.append(f"k{j} " + sep.join(pm))
            text = ("cmd " + " | ".join(variants) + ";\n" +
                    "".join(f"<{x}> = {{{{{{ echo {x.lower()}-1; echo {x.lower()}-2 }}}}}};\n" for x in (a, b, c)))
        else:
            text = (f"cmd (a{{{{{{ echo c }}}}}} | {{{{{{ echo c }}}}}}a) x | --k=(p || q) y | --k=(q || p) z;\n")
        out.append((f"pool{i}", text))
    return out


def check_pools(ctx, grammars):
    """deterministic half: in the real library's automaton, two entries of the within-word pool never compare equal
    (`==`) — otherwise interning them apart or together is decided by the hash values of the process"""
    cases = [(f"{gi}", "bash", text) for gi, (name, text) in enumerate(grammars)]
    recs = core.run_vh(cases, flags="dfa")
    bad = []
    for gi, (name, text) in enumerate(grammars):
        rec = recs.get(str(gi), {})
        if rec.get("stage") != "ok":
            ctx.count("pool-check:not-accepted")
            continue
        ctx.count("pool-check:grammars")
        ctx.evaluations += 1
        if rec.get("pool_eq"):
            bad.append((name, text, rec["pool_eq"]))
    return bad


def exhibit(ctx, text, shell, names, tries):
    """runs the real binary in fresh processes until two different outputs are seen"""
    workdir = tempfile.mkdtemp(prefix="c10x-", dir=ctx.workdir)
    p = os.path.join(workdir, "g.usage")
    with open(p, "w") as f:
        f.write(text)
    seen = set()
    jobs = [(shell, p, make_env(ctx.rng, i, names, workdir), workdir, f"x{i}") for i in range(tries)]
    with concurrent.futures.ThreadPoolExecutor(16) as ex:
        for r in ex.map(one_run, jobs, chunksize=4):
            seen.add(json.dumps(r))
    shutil.rmtree(workdir, ignore_errors=True)
    return len(seen)


def make_env(rng, run, names, home):
    env = {"PATH": "/usr/bin:/bin", "HOME": os.path.join(home, f"h{run}"), "LANG": rng.choice(["C", "C.UTF-8", "en_US.UTF-8", "pl_PL"]),
           "RUST_BACKTRACE": rng.choice(["0", "1", "full"])}
    for j in range(rng.randint(0, 400)):
        env[f"JUNK_{run}_{j}"] = "x" * rng.randint(1, 200)
    if run % 2 == 1:
        for n in names:
            if n not in ("PATH", "HOME"):
                env[n] = f"junk-{run}-{rng.randint(0, 10**6)}"
    return env


def one_run(args):
    shell, path, env, outdir, tag = args
    script = os.path.join(outdir, f"{tag}.script")
    dfa = os.path.join(outdir, f"{tag}.dfa")
    rx = os.path.join(outdir, f"{tag}.rx")
    # what the destination files held before is part of the "environment" too: in every other run they already exist and
    # are much longer than anything the program will write (an earlier, larger output)
    if sum(map(ord, tag)) % 2 == 1:
        for k, p in enumerate((script, dfa, rx)):
            with open(p, "wb") as f:
                f.write((b"# stale line %d of an earlier output }\n" % k) * 60000)
    r = subprocess.run([core.COMPLGEN, f"--{shell}", script, "--dfa", dfa, "--regex", rx, path], capture_output=True, env=env, timeout=120)
    digest = []
    for p in (script, dfa, rx):
        try:
            with open(p, "rb") as f:
                digest.append(hashlib.sha256(f.read()).hexdigest())
            os.unlink(p)
        except OSError:
            digest.append(None)
    if r.returncode != 0:
        digest = ["not-compared (rejected grammar: what is left in the destination is C06's subject)"] * 3
    return r.returncode, digest, hashlib.sha256(r.stderr).hexdigest()


def run(ctx, proof):
    ctx.extra["rule"] = ("bundled examples + random large grammars (template with several commands only inside words in different within-word "
                         "automata and same-shaped within-word automata; deep random grammars) x 4 shells x N fresh processes with differing "
                         "environments; script, --dfa, --regex and stderr digests must agree. non-trivial = accepted grammar whose script has "
                         ">= 2 within-word automata or >= 40 states (counted from the first run's files)")
    rng = ctx.rng
    names = env_names()
    ctx.extra["environment_names_from_source"] = names
    nproc = 24 if ctx.thorough() else 6
    ngram = 150 if ctx.thorough() else 18
    workdir = tempfile.mkdtemp(prefix="c10-", dir=ctx.workdir)
    grammars = []
    for p in sorted(glob.glob(os.path.join(core.REPO, "examples", "*.usage"))):
        with open(p) as f:
            grammars.append((os.path.basename(p), f.read()))
    for i in range(ngram):
        grammars.append((f"big{i}", big_grammar(rng, i)))
    # hundreds of distinct within-word automata of one shape (sizes past any plausible batching threshold)
    for nopt in ([300, 700] if ctx.thorough() else [rng.choice([290, 330, 520])]):
        grammars.append((f"many{nopt}", "big [<OPTION>]... <FILE>;\n<OPTION> = " +
                         " | ".join(f"--opt{j:03d}=<VALUE>" for j in range(nopt)) + ";\n<VALUE> = {{{ echo v1; echo v2 }}};\n<FILE> = {{{ ls }}};\n"))
    shapes = pool_shapes(rng, 120 if ctx.thorough() else 24)
    grammars += shapes[:8 if ctx.thorough() else 3]
    # deterministic half first: pool entries that compare equal
    for name, text, pairs in check_pools(ctx, grammars + shapes):
        n = exhibit(ctx, text, "bash", names, 600 if ctx.thorough() else 300)
        ctx.count("pool-entries-compare-equal")
        ctx.violation("intern-pool-entries-compare-equal", {
            "grammar": text, "grammar_hex": core.hexs(text), "shell": "bash", "pairs": pairs, "distinct_outputs_seen": n,
            "what": (f"within-word automata {pairs} of the library's pool are distinct entries that compare equal (==): whether they are "
                     f"merged depends on the hash values of the process; {n} different outputs seen in fresh processes")})
    jobs, meta = [], []
    for gi, (name, text) in enumerate(grammars):
        path = os.path.join(workdir, f"g{gi}.usage")
        with open(path, "w") as f:
            f.write(text)
        for sh in core.SHELLS:
            for run_i in range(nproc):
                jobs.append((sh, path, make_env(rng, run_i, names, workdir), workdir, f"g{gi}-{sh}-{run_i}"))
                meta.append((gi, sh, run_i))
    with concurrent.futures.ThreadPoolExecutor(16) as ex:
        results = list(ex.map(one_run, jobs, chunksize=4))
    by = {}
    for (gi, sh, run_i), r in zip(meta, results):
        by.setdefault((gi, sh), []).append(r)
    for (gi, sh), rs in by.items():
        name, text = grammars[gi]
        ctx.evaluations += 1
        ctx.count(f"exit:{rs[0][0]}")
        if rs[0][0] == 0 and (text.count("=(") + text.count("={{{") >= 2 or len(text) > 300):
            ctx.nontriv((name, sh))
        if len(ctx.samples) < 5 and gi >= 3:
            ctx.sample({"grammar": text[:400], "shell": sh, "processes": nproc, "exit": rs[0][0]})
        distinct = {json.dumps(r) for r in rs}
        if len(distinct) > 1:
            which = [k for k, lab in enumerate(("script", "dfa", "regex")) if len({json.dumps(r[1][k]) for r in rs}) > 1]
            labs = [("script", "dfa", "regex")[k] for k in which] or ["exit-status/stderr"]
            ctx.violation("output-differs-across-processes:" + "+".join(labs), {
                "grammar": text, "grammar_hex": core.hexs(text), "shell": sh, "processes": nproc,
                "distinct_outputs": len(distinct), "differs_in": labs, "environment_names_set": names,
                "what": f"{len(distinct)} different outputs in {nproc} fresh processes ({', '.join(labs)})"})
    shutil.rmtree(workdir, ignore_errors=True)
    ctx.extra["programs"] = ctx.evaluations
    ctx.extra["processes_per_case"] = nproc
    ctx.extra["explanation"] = ("level `other`: (1) Lean theorem schedule_irrelevant — the meaning of the compiled automaton does not depend on the "
                                "work-list order; (2) Lean theorem nondet_sources_ok, decided by the kernel on the inventory of order-bearing "
                                "containers / run-time reads / crate versions that tools/translate.py regenerates from src/*.rs, Cargo.toml and "
                                "Cargo.lock on every run; (3) observation: the real binary in fresh processes with differing environments, script + "
                                "--dfa + --regex + stderr digests compared byte for byte. (3) is exploration, (1)-(2) are proofs about the model / "
                                "the source inventory; no theorem can state byte identity across OS processes, hence `other`.")
    ctx.assumptions.append("byte identity across processes is observed (fresh processes, differing environments, ASLR), not proved")


def replay(ctx, proof, path):
    with open(path) as f:
        rp = json.load(f)
    names = env_names()
    workdir = tempfile.mkdtemp(prefix="c10r-", dir=ctx.workdir)
    p = os.path.join(workdir, "g.usage")
    with open(p, "w") as f:
        f.write(rp["grammar"])
    rs = [one_run((rp["shell"], p, make_env(ctx.rng, i, names, workdir), workdir, f"r{i}")) for i in range(24)]
    shutil.rmtree(workdir, ignore_errors=True)
    pool = check_pools(ctx, [("replay", rp["grammar"])])
    if pool:
        print("replay: pool entries that compare equal:", pool[0][2])
    if len({json.dumps(r) for r in rs}) > 1 or pool:
        print(f"VIOLATION property={ctx.prop} replay={path}")
        return 1
    print("replay: property holds on this case now")
    return 0
