"""Stage-wise correspondence (S) and certificate oracles (O) over a batch of grammars."""
import json

from . import core


def inp_key(text, subkeys):
    p = text.split()
    if p[0] == "L":
        return f"L:{p[1]}:{p[2]}:{p[3]}"
    if p[0] == "C":
        return f"C:{p[1]}:{p[2]}:{p[3]}"
    if p[0] == "X":
        return "X"
    if p[0] == "W":
        k = int(p[1])
        return f"W:{subkeys[k] if k < len(subkeys) else '?'}:{p[2]}"
    raise ValueError(text)


def wire(dfa, subkeys=()):
    keys = [inp_key(t, subkeys) for t in dfa["inputs"]]
    tr = "~".join(f"{f},{keys[i]},{t}" for f, i, t in dfa["trans"])
    return f"{dfa['start']};{','.join(str(a) for a in dfa['acc'])};{tr}"


def erase_levels(w):
    """the same automaton with `||` levels and descriptions erased from every key (C09)"""
    st, acc, tr = w.split(";")
    out = []
    for t in tr.split("~"):
        f, k, to = t.split(",")
        parts = k.split(":")
        if parts[0] in ("L", "C", "W"):
            parts[-1] = "0"
        if parts[0] == "L":
            parts[2] = "-"   # descriptions play no part in matching
        out.append(f"{f},{':'.join(parts)},{to}")
    return f"{st};{acc};{'~'.join(out)}"


def rx_text(rx):
    follow = " ".join(f"{p}:{','.join(str(x) for x in f)}" for p, f in rx["follow"] if f)
    return (f"inputs {' | '.join(rx['inputs'])} ; end {rx['end']} ; tree {rx['tree']} ; nullable {'true' if rx['nullable'] else 'false'} ; "
            f"first {','.join(str(x) for x in rx['first'])} ; follow {follow}")


def warn_text(m):
    return " ".join(sorted(f"{k}@{v}" for k, v in m))


class Analysis:
    """Everything the C02/C03/C09 checks need for one (grammar, shell) case."""

    def __init__(self, cid, shell, text, rec):
        self.cid, self.shell, self.text, self.rec = cid, shell, text, rec
        self.stage = rec.get("stage")
        self.model = {}
        self.issues = []       # (kind, detail): correspondence breaks (S)
        self.oracle = []       # (kind, detail): property failures on the implementation (O)
        self.nstates = 0


def analyse(cases, want_model=True):
    """cases: [(id, shell, text)] -> {id: Analysis}"""
    recs = core.run_vh(cases, flags="tree,valid,rx,dfa")
    out = {}
    reqs = []
    plan = []  # (analysis, what, extra)
    for cid, sh, text in cases:
        rec = recs.get(str(cid), {"stage": "missing"})
        a = Analysis(cid, sh, text, rec)
        out[cid] = a
        if "tree" in rec and want_model:
            for what in ("validate", "rx", "compile", "spec"):
                if what == "spec" and "raw" not in rec:
                    continue  # the meaning is defined for accepted grammars only
                reqs.append(f"{what} {sh} {rec['tree']}")
                plan.append((a, what, None))
        if "raw" in rec:
            for k, sub in enumerate(rec["subdfas"]):
                reqs.append("canon " + wire(sub))
                plan.append((a, "canon", k))
    answers = core.driver_parallel(reqs)
    for (a, what, extra), ans in zip(plan, answers):
        if what == "canon":
            a.model.setdefault("subkeys", {})[extra] = ans.split()[1] if ans.startswith("ok ") else "?"
        else:
            a.model[what] = ans
    # second round: certificates
    reqs, plan = [], []
    for a in out.values():
        rec = a.rec
        compare_front(a)
        if "raw" not in rec:
            continue
        hs = [a.model.get("subkeys", {}).get(k, "?") for k in range(len(rec["subdfas"]))]
        sk = [f"{h}.{hs[:k].count(h)}" for k, h in enumerate(hs)]
        a.subhashes = hs
        a.wraw = wire(rec["raw"], sk)
        a.wmin = wire(rec["min"], sk) if "min" in rec else None
        a.nstates = len({x for f, _, t in rec["raw"]["trans"] for x in (f, t)} | {rec["raw"]["start"]})
        if a.wmin is not None:
            reqs.append(f"equiv {a.wraw} {a.wmin}"); plan.append((a, "main:raw~min", None))
            reqs.append(f"minimal {a.wmin}"); plan.append((a, "main:minimal", None))
        # the pool the scripts are written from holds exactly the minimised within-word automata
        if rec.get("subpairs") is not None and all("min" in p for p in rec["subpairs"]):
            pool = {json.dumps(s, sort_keys=True) for s in rec["subdfas"]}
            mins = {json.dumps(p["min"], sort_keys=True) for p in rec["subpairs"]}
            if pool != mins:
                a.oracle.append(("sub:pool", f"differ: {len(pool - mins)} pool entries are not the minimised automaton of any within-word "
                                             f"expression, {len(mins - pool)} minimised automata are not in the pool"))
        for k, pair in enumerate(rec.get("subpairs", [])):
            if "raw" in pair:
                reqs.append(f"equiv {wire(pair['raw'])} {wire(pair['min'])}"); plan.append((a, f"sub{k}:raw~min", None))
                reqs.append(f"minimal {wire(pair['min'])}"); plan.append((a, f"sub{k}:minimal", None))
        sp = a.model.get("spec", "")
        if sp.startswith("ok "):
            a.wspec = sp[3:].split(" ## ")[0]
            # hypotheses of Spec.specAuto_correct on this grammar (construction finished, no empty alternative)
            flags = sp[3:].split(" ## ")[4].split() if len(sp[3:].split(" ## ")) > 4 else []
            a.spec_scope = dict(f.split("=") for f in flags)
            reqs.append(f"equiv {a.wraw} {a.wspec}"); plan.append((a, "spec:raw", None))
            if a.wmin is not None:
                reqs.append(f"equiv {a.wmin} {a.wspec}"); plan.append((a, "spec:min", None))
        m = a.model.get("compile", "")
        if m.startswith("ok "):
            parts = m[3:].split(" ## ")
            mraw = parts[0][4:]
            mmin = parts[1][4:]
            reqs.append(f"equiv {a.wraw} {mraw}"); plan.append((a, "model:raw", None))
            if a.wmin is not None:
                reqs.append(f"equiv {a.wmin} {mmin}"); plan.append((a, "model:min", None))
    answers = core.driver_parallel(reqs)
    for (a, what, _), ans in zip(plan, answers):
        a.model[what] = ans
        if what.startswith("model:"):
            if not ans.startswith("equiv"):
                hs = getattr(a, "subhashes", [])
                if len(set(hs)) != len(hs):
                    # two language-equal within-word automata were interned apart; which pool entry a
                    # position refers to then depends on state numbering (C09 territory), not comparable
                    a.skipped = "language-equal-subwords-interned-apart"
                else:
                    a.issues.append((what, ans))
        elif what.startswith("spec:"):
            if not ans.startswith("equiv"):
                hs = getattr(a, "subhashes", [])
                if len(set(hs)) != len(hs):
                    a.skipped = "language-equal-subwords-interned-apart"
                else:
                    a.oracle.append((what, ans))
        elif what.endswith("raw~min"):
            if not ans.startswith("equiv"):
                a.oracle.append((what, ans))
        elif what.endswith("minimal"):
            if not ans.startswith("minimal"):
                a.oracle.append((what, ans))
    return out


DETERMINISTIC_SPANS = {"MissingCallVariants", "InvalidCommandName", "VaryingCommandNames", "DuplicateNonterminalDefinition",
                       "UnknownShell", "NonCommandSpecialization", "SubwordSpaces"}


def compare_front(a):
    """(S) validate / rx stages, exact."""
    rec = a.rec
    mv = a.model.get("validate")
    if mv is None:
        return
    if rec["stage"] == "validate":
        cls = rec["err"]["class"]
        if not mv.startswith("err " + cls):
            a.issues.append(("validate-error", {"impl": cls, "model": mv[:200]}))
        elif cls in DETERMINISTIC_SPANS:
            spans = " ".join(rec["err"]["spans"])
            if mv != f"err {cls} {spans}".rstrip() and mv.rstrip() != f"err {cls} {spans}".rstrip():
                a.issues.append(("validate-error-spans", {"impl": spans, "model": mv[:200]}))
        return
    if rec["stage"] in ("panic", "crash"):
        if not mv.startswith("crash") and "valid" not in rec:
            a.issues.append(("validate-crash", {"impl": rec["stage"], "model": mv[:200]}))
        return
    if "valid" in rec:
        want = f"ok {rec['command']} | {rec['valid']} | {warn_text(rec['undefined'])} | {warn_text(rec['unused'])} | {warn_text(rec['unused_spec'])}"
        if mv != want:
            a.issues.append(("validate", {"impl": want[:600], "model": mv[:600]}))
            return
    mr = a.model.get("rx")
    if mr is not None and "rx" in rec:
        want = "ok " + " ## ".join([rx_text(rec["rx"])] + [rx_text(r) for r in rec["subrx"]])
        if mr != want:
            a.issues.append(("rx", {"impl": want[:800], "model": mr[:800]}))
    elif mr is not None and rec["stage"] == "regex":
        pass
    mc = a.model.get("compile")
    if mc is not None and rec["stage"] in ("regex", "dfa", "ambiguity"):
        cls = rec["err"]["class"]
        if not mc.startswith("err " + cls):
            a.issues.append(("late-error", {"impl": cls, "model": mc[:200]}))
    elif mc is not None and rec["stage"] == "ok" and not mc.startswith("ok "):
        a.issues.append(("late-error", {"impl": "ok", "model": mc[:200]}))
