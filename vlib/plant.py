"""Clean-by-construction base grammars and planted mistakes of known classes (C08, C13, C15)."""
from . import gen

SHELLS = ["bash", "fish", "zsh", "pwsh"]


class Base:
    """A grammar that is free of every mistake of C08 by construction."""

    def __init__(self, rng, max_depth=3):
        self.rng = rng
        g = gen.Gen(rng, max_depth=max_depth, p_descr=0.3, p_sub=0.15, p_nt=0.2, p_cmd=0.1, p_fb=0.1)
        g.lit = self._lit(g)
        self.g = g
        self.variants, self.defs = g.grammar_parts()
        # a description written after a group lands on some occurrences of a literal and not on others
        # (conflicting descriptions): a clean base has descriptions on literals only
        undd = lambda e: e[1] if e[0] == "dd" else e
        self.variants = [gen.map_tree(undd, v) for v in self.variants]
        self.defs = [(n, s, gen.map_tree(undd, e)) for n, s, e in self.defs]
        self.extra = []   # raw statements (text) appended after the generated ones
        self.command = "cmd"
        self.fresh = 0

    @staticmethod
    def _lit(g):
        def lit(allow_descr=True):
            t = g.rng.choice(g.lits)
            d = None
            if allow_descr:
                if t not in g.descr_of:
                    g.descr_of[t] = g.rng.choice(gen.DESCRS) if g.rng.random() < g.p_descr else None
                d = g.descr_of[t]
            return ("lit", t, d)
        return lit

    def name(self, stem="Z"):
        self.fresh += 1
        return f"{stem}{self.fresh}"

    def text(self):
        lines = [f"{self.command} {gen.render(v)};" for v in self.variants]
        for n, shell, e in self.defs:
            lhs = f"<{n}@{shell}>" if shell else f"<{n}>"
            lines.append(f"{lhs} = {gen.render(e)};")
        lines += self.extra
        return "\n".join(lines) + "\n"

    # ---- where a planted construct goes: somewhere reachable from a call variant, at word level

    def attach(self, planted, chain=None):
        """make `planted` (an expression tree) reachable: directly in a random variant, or behind a random chain
        of fresh definitions; wrapped in random operators"""
        rng = self.rng
        e = planted
        chain = rng.randint(0, 3) if chain is None else chain
        for _ in range(chain):
            n = self.name("P")
            wrap = rng.choice(["plain", "opt", "alt", "seq", "many"])
            body = {"plain": e, "opt": ("opt", e), "alt": ("alt", [("lit", "q" + n.lower(), None), e]),
                    "seq": ("seq", [("lit", "s" + n.lower(), None), e]), "many": ("many", e)}[wrap]
            self.defs.append((n, None, body))
            e = ("nt", n)
        i = rng.randrange(len(self.variants))
        how = rng.choice(["seq-after", "seq-before", "alt", "opt-after", "fb"])
        v = self.variants[i]
        if how == "seq-after":
            v = ("seq", [v, e])
        elif how == "seq-before":
            v = ("seq", [e, v])
        elif how == "alt":
            v = ("alt", [v, e])
        elif how == "opt-after":
            v = ("seq", [v, ("opt", e)])
        else:
            v = ("fb", [v, e])
        self.variants[i] = v
        rng.shuffle(self.defs)


def plant(rng, base, cls, shell_hint=None):
    """plants one mistake of class `cls`; returns {shell: expected error class or None (= accepted)}"""
    all_ = lambda c: {sh: c for sh in SHELLS}
    if cls == "clean":
        return all_(None)
    if cls == "cycle":
        n = rng.randint(1, 3)
        names = [base.name("Y") for _ in range(n)]
        for i, nm in enumerate(names):
            nxt = names[(i + 1) % n]
            body = rng.choice([("seq", [("lit", "x", None), ("nt", nxt)]), ("nt", nxt), ("opt", ("nt", nxt)),
                               ("alt", [("lit", "y", None), ("nt", nxt)]), ("sub", [("lit", "k=", None), ("nt", nxt)])])
            # a member of the cycle may also refer to ordinary, acyclic definitions ("tails") that nothing else reaches:
            # the traversal that looks for the cycle may be started there (the order of its starting points depends on
            # the names), and from a tail the cycle is not reachable
            if rng.random() < 0.5:
                used = {d[0] for d in base.defs} | set(names)
                pool = [t for t in ["END", "OPT", "C", "V", "TAIL", "D", "Z9", "AA", "M", "Q7", "STOP", "E"] if t not in used]
                for t in rng.sample(pool, rng.randint(1, min(3, len(pool)))):
                    body = rng.choice([("alt", [body, ("nt", t)]), ("seq", [body, ("opt", ("nt", t))])])
                    base.defs.append((t, None, rng.choice([("lit", "three", None), ("seq", [("lit", "t", None), ("lit", "u", None)])])))
            base.defs.append((nm, None, body))
        if rng.random() < 0.6:
            base.attach(("nt", rng.choice(names)))
        else:
            rng.shuffle(base.defs)
        return all_("NonterminalDefinitionsCycle")
    if cls == "dup-plain":
        nm = base.name("D")
        base.defs.append((nm, None, ("lit", "one", None)))
        base.defs.append((nm, None, rng.choice([("lit", "two", None), ("lit", "one", None), ("cmd", "echo x")])))
        if rng.random() < 0.6:
            base.attach(("nt", nm))
        else:
            rng.shuffle(base.defs)
        return all_("DuplicateNonterminalDefinition")
    if cls == "dup-spec":
        nm = base.name("D")
        sh = shell_hint or rng.choice(SHELLS)
        base.defs.append((nm, sh, ("cmd", "echo one")))
        base.defs.append((nm, sh, ("cmd", rng.choice(["echo two", "echo one"]))))
        if rng.random() < 0.5:
            base.defs.append((nm, None, ("cmd", "echo plain")))
        if rng.random() < 0.6:
            base.attach(("nt", nm))
        else:
            rng.shuffle(base.defs)
        return {s: ("DuplicateNonterminalDefinition" if s == sh else None) for s in SHELLS}
    if cls == "varying-names":
        base.extra.insert(rng.randrange(len(base.extra) + 1), f"other{rng.randint(1, 9)} foo bar;")
        return all_("VaryingCommandNames")
    if cls == "no-variant":
        base.variants = []
        if not base.defs:
            base.defs.append(("N0", None, ("lit", "foo", None)))
        return all_("MissingCallVariants")
    if cls == "slash-name":
        base.command = rng.choice(["a/b", "/usr/bin/cmd", "./cmd", "cmd/"])
        return all_("InvalidCommandName")
    if cls == "unknown-shell":
        nm = base.name("S")
        base.extra.append(f"<{nm}@{rng.choice(['tcsh', 'sh', 'BASH', 'elvish', 'nu', 'power-shell', 'zsh5', 'bash.exe', 'ba sh', 'fish_', 'z-sh', '4sh'])}> = {{{{{{ echo x }}}}}};")
        if rng.random() < 0.5:
            base.attach(("nt", nm))
        return all_("UnknownShell")
    if cls == "non-command-spec":
        nm = base.name("S")
        sh = rng.choice(SHELLS)
        base.defs.append((nm, sh, rng.choice([("lit", "foo", None), ("alt", [("lit", "foo", None), ("lit", "bar", None)]),
                                             ("seq", [("cmd", "echo x"), ("lit", "y", None)]), ("opt", ("cmd", "echo x"))])))
        if rng.random() < 0.5:
            base.attach(("nt", nm))
        else:
            rng.shuffle(base.defs)
        return all_("NonCommandSpecialization")
    if cls == "subword-spaces":
        inner = ("seq", [("lit", "aa", None), ("lit", "bb", None)])
        depth = rng.randint(0, 3)
        for _ in range(depth):
            n = base.name("W")
            inner_def = rng.choice([inner, ("alt", [("lit", "cc", None), inner]), ("opt", inner)])
            base.defs.append((n, None, inner_def))
            inner = ("nt", n)
        if depth == 0 or rng.random() < 0.3:
            inner = ("alt", [inner, ("lit", "dd", None)]) if rng.random() < 0.5 else inner
        word = ("sub", [("lit", rng.choice(["--k=", "p", "x:"]), None), inner])
        # the same definition may also be used as a whole word (where spaces are fine), before or after
        also = inner if inner[0] == "nt" and rng.random() < 0.5 else None
        if also is not None and rng.random() < 0.5:
            base.attach(also, chain=0)
            also = None
        base.attach(word)
        if also is not None:
            base.attach(also, chain=0)
        return all_("SubwordSpaces")
    if cls == "nontail-placeholder":
        ph = ("nt", rng.choice(["U", "_", "FILE"]))
        depth = rng.randint(0, 2)
        for _ in range(depth):
            n = base.name("W")
            base.defs.append((n, None, rng.choice([ph, ("alt", [("lit", "cc", None), ph])])))
            ph = ("nt", n)
        tail = rng.choice([("lit", "tail", None), ("alt", [("lit", "t1", None), ("lit", "t2", None)]), ("opt", ("lit", "t3", None))])
        parts = [ph, tail]
        if rng.random() < 0.6:
            parts.insert(0, ("lit", rng.choice(["--k=", "p"]), None))
        also = ph if ph[0] == "nt" and ph[1].startswith("W") and rng.random() < 0.5 else None
        if also is not None and rng.random() < 0.5:
            base.attach(also, chain=0)
            also = None
        base.attach(("sub", parts))
        if also is not None:
            base.attach(also, chain=0)
        return all_("UnboundedMatchable")
    if cls == "conflicting-descr":
        l = "zz" + str(rng.randint(1, 9))
        a, b = ("lit", l, "first meaning"), ("lit", l, "second meaning")
        planted = rng.choice([("alt", [a, b]), ("alt", [("seq", [a, ("lit", "x", None)]), ("seq", [b, ("lit", "y", None)])]),
                              ("seq", [("opt", a), b]), ("fb", [a, ("seq", [b, ("lit", "y", None)])])])
        base.attach(planted)
        return all_("ConflictingDescriptions")
    raise ValueError(cls)


CLASSES = ["clean", "cycle", "dup-plain", "dup-spec", "varying-names", "no-variant", "slash-name", "unknown-shell",
           "non-command-spec", "subword-spaces", "nontail-placeholder", "conflicting-descr"]
