"""Writing grammar text: escaping literals and descriptions the way parse.rs reads them."""
import string

REGULAR_PUNCT = "!#$%&'*+,-/:=?@^_`~"
ESCAPABLE = "()[]<>|;\"{}\\."
REGULAR = string.ascii_letters + string.digits + REGULAR_PUNCT
LITERAL_ALPHABET = REGULAR + ESCAPABLE


def lit(s):
    """Grammar text of the literal s (non-empty, over LITERAL_ALPHABET)."""
    out = []
    for c in s:
        if c in REGULAR:
            out.append(c)
        elif c in ESCAPABLE:
            out.append("\\" + c)
        else:
            raise ValueError(f"character {c!r} cannot occur in a literal")
    return "".join(out)


def descr(s):
    """Grammar text of the description s (any text)."""
    return '"' + s.replace("\\", "\\\\").replace('"', '\\"') + '"'
