"""Writing grammar text: escaping literals and descriptions the way parse.rs reads them."""
import string

REGULAR_PUNCT = "!#$%&'*+,-/:=?@^_`~"
ESCAPABLE = "()[]<>|;\"{}\\."
REGULAR = string.ascii_letters + string.digits + REGULAR_PUNCT
LITERAL_ALPHABET = REGULAR + ESCAPABLE


def lit(s):
    """Grammar text of the literal s (non-empty, over LITERAL_ALPHABET)."""
    out = []
    for c in s:
        if c in REGULAR:
            out.append(c)
        elif c in ESCAPABLE:
            out.append("\\" + c)
        else:
            raise ValueError(f"character {c!r} cannot occur in a literal")
    return "".join(out)


def descr(s):
    """Grammar text of the description s (any text)."""
    return '"' + s.replace("\\", "\\\\").replace('"', '\\"') + '"'


def lit_min(s):
    """Grammar text of the literal s with the fewest escapes: a dot is escaped only where it has to be — in a run of
    three or more dots, or in a run that ends the literal (what follows could be `...`)."""
    out = []
    i, n = 0, len(s)
    while i < n:
        c = s[i]
        if c == ".":
            j = i
            while j < n and s[j] == ".":
                j += 1
            run = j - i
            if run >= 3 or j == n:
                out.append("\\." * run)
            else:
                out.append("." * run)
            i = j
            continue
        if c in REGULAR:
            out.append(c)
        elif c in ESCAPABLE:
            out.append("\\" + c)
        else:
            raise ValueError(f"character {c!r} cannot occur in a literal")
        i += 1
    return "".join(out)
