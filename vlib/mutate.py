"""Structure-aware mutations of grammar text (C06, C05, C13)."""
import re

TOKEN_RE = re.compile(r'\{\{\{.*?\}\}\}|"(?:\\.|[^"\\])*"|<[^>\n]*>|\|\||::=|\.\.\.|[()\[\]|;=]|\s+|[^\s()\[\]|;="<>{}]+|.', re.S)


def tokens(text):
    return TOKEN_RE.findall(text)


def mutate(rng, text):
    """one random mutation; returns (kind, new text as bytes)"""
    toks = tokens(text)
    k = rng.choice(["del", "dup", "swap", "bracket", "trunc", "escape", "nonascii", "newline", "cycle", "soup",
                    "bytes", "deep", "longline", "unterminated", "insert"])
    if not toks:
        toks = ["cmd", " ", "a", ";"]
    if k == "del":
        i = rng.randrange(len(toks)); del toks[i]
    elif k == "dup":
        i = rng.randrange(len(toks)); toks.insert(i, toks[i])
    elif k == "swap" and len(toks) > 1:
        i, j = rng.randrange(len(toks)), rng.randrange(len(toks)); toks[i], toks[j] = toks[j], toks[i]
    elif k == "bracket":
        i = rng.randrange(len(toks) + 1); toks.insert(i, rng.choice(list("()[]<>{}") + ["{{{", "}}}", "\"", "||", "|", "...", ";"]))
    elif k == "trunc":
        s = "".join(toks); return k, s[: rng.randrange(len(s) + 1)].encode("utf-8", "surrogatepass")
    elif k == "escape":
        i = rng.randrange(len(toks) + 1); toks.insert(i, "\\" + rng.choice(list("()[]<>|;\"{}\\.ab \n")))
    elif k == "nonascii":
        i = rng.randrange(len(toks) + 1); toks.insert(i, rng.choice(["é", "“x”", "日本", "\u00a0", "\u2028", "😀", "<é>", "\"ü\"", "{{{ é }}}"]))
    elif k == "newline":
        i = rng.randrange(len(toks) + 1); toks.insert(i, rng.choice(["\n", "\n\n", "\r\n", "\x0c", "# c\n", "\t"]))
    elif k == "cycle":
        names = ["A", "B", "C"]
        n = rng.randint(1, 3)
        extra = "".join(f"\n<{names[i]}> = x <{names[(i + 1) % n]}>;" for i in range(n))
        ref = rng.choice(["", f"\ncmd <{names[0]}>;", f"\ncmd p<{names[rng.randrange(n)]}>;"])
        return k, ("".join(toks) + extra + ref + rng.choice(["", "\n<R> = y;"])).encode()
    elif k == "soup":
        voc = ["cmd", "a", "<A>", "<A@bash>", "<B@tcsh>", "=", "::=", ";", "|", "||", "(", ")", "[", "]", "...", "\"d\"", "{{{ c }}}", " ", "\n", "\\", "#", ".", "..", "a/b", "<_>", "<>", "{{{", "}}}", "\"", "\x0c"]
        return k, "".join(rng.choice(voc) + rng.choice(["", " "]) for _ in range(rng.randint(1, 25))).encode()
    elif k == "bytes":
        b = bytearray("".join(toks).encode())
        for _ in range(rng.randint(1, 4)):
            i = rng.randrange(len(b) + 1); b.insert(i, rng.choice([0xff, 0xfe, 0x80, 0xc3, 0x00, 0xe2, 0x28]))
        return k, bytes(b)
    elif k == "deep":
        d = rng.choice([20, 100, 400])
        o, c = rng.choice([("(", ")"), ("[", "]"), ("(", ")..."), ("p(", ")")])
        return k, f"cmd {o * d}a{c * d};\n".encode()
    elif k == "longline":
        n = rng.choice([200, 2000])
        return k, ("cmd " + " | ".join(f"w{i}" for i in range(n)) + rng.choice([";", " <U", " \"d", ""]) + "\n").encode()
    elif k == "unterminated":
        return k, ("".join(toks) + rng.choice(["\"abc", "{{{ abc", "<abc", "(a", "[a", "a \\", "<A@", "<A> =", "<A> ::="])).encode()
    elif k == "insert":
        i = rng.randrange(len(toks) + 1)
        toks.insert(i, rng.choice([" <UNDEF> ", " <N9> ", "<X@bash> = {{{ x }}};", "<X@nosuch> = {{{ x }}};", "<X@bash> = y;", "other z;", "a/b c;", "<N0> = dup;", "p<U>q", "p <U>q", "k=(a b)"]))
    return k, "".join(toks).encode("utf-8", "surrogatepass")
