/-
Canonical form of the language of a keyed automaton: minimise (with the model minimiser), renumber
breadth-first with the keys in sorted order.  The result is *checked*, not trusted: it is returned
only when the verified checkers confirm that it is equivalent to the input, deterministic, trim
and reduced — and the breadth-first numbering of a minimal automaton is unique.
-/
import Complgen.Model.Min
import Complgen.Cert.Search
namespace Complgen.Cert
open Complgen

def sortStrings (l : List String) : List String :=
  l.foldl (fun acc x => let (b, a) := acc.span (· ≤ x); b ++ [x] ++ a) []

def KAuto.wire (a : KAuto) : String :=
  s!"{a.start};{",".intercalate (a.acc.map toString)};{"~".intercalate (a.trans.map fun t => s!"{t.1},{t.2.1},{t.2.2}")}"

def verifiedMinimal (a : KAuto) : Bool :=
  detCheck a &&
  accessCheck a (accessWords a) &&
  coaccessCheck a (coaccessWords a) &&
  (match distinguish a with
   | .ok d => distinctCheck a d
   | .error _ => false)

def verifiedEquiv (a b : KAuto) : Bool :=
  detCheck a && detCheck b &&
  (match findBisim a b with
   | .ok R => bisimCheck a b R
   | .error _ => false)

def canonK (a : KAuto) : Option KAuto :=
  let keys := sortStrings (a.trans.map (·.2.1)).eraseDups
  -- states of the model minimiser start at 1 (0 is the dead state)
  let sh := fun (q : Nat) => q + 1
  let au : Auto := { start := sh a.start, acc := a.acc.map sh,
                     trans := a.trans.map fun t => (sh t.1, (keys.idxOf? t.2.1).getD 0, sh t.2.2),
                     inputs := keys.map fun _ => Inp.star }
  match Min.minimize fifo au with
  | none => none
  | some m =>
    let rec bfs : Nat → List Nat → List Nat → List Nat
      | 0, _, order => order
      | _ + 1, [], order => order
      | fuel + 1, q :: rest, order =>
        let nexts := (List.range keys.length).filterMap fun i => m.step q i
        let new := nexts.foldl (fun acc x => if order.contains x || acc.contains x then acc else acc ++ [x]) []
        bfs fuel (rest ++ new) (order ++ new)
    let order := bfs (m.states.length + 2) [m.start] [m.start]
    let new := fun q => (order.idxOf? q).getD 0
    let trans := order.flatMap fun q => (List.range keys.length).filterMap fun i =>
      (m.step q i).map fun t => (new q, keys[i]!, new t)
    let c : KAuto := { start := 0, acc := normSet (m.acc.map new), trans }
    if verifiedEquiv a c && verifiedMinimal c then some c else none

def hashKey (s : String) : String := toString (hash s)

/-- identifier of the language of `a` (none when `a` is not a deterministic automaton or the
canonical form could not be verified) -/
def langId (a : KAuto) : Option String := (canonK a).map fun c => hashKey c.wire

end Complgen.Cert
