/- Unverified search code producing the certificates that `Cert.KAuto` checks. -/
import Complgen.Cert.KAuto
namespace Complgen.Cert

/-- simultaneous exploration of two automata; `Except.error w` = a word accepted by exactly one -/
def findBisim (a b : KAuto) : Except (List String) (List (Nat × Nat)) :=
  let rec loop : Nat → List ((Nat × Nat) × List String) → List (Nat × Nat) →
      Except (List String) (List (Nat × Nat))
    | 0, _, seen => .ok seen
    | _ + 1, [], seen => .ok seen
    | fuel + 1, ((p, q), w) :: rest, seen =>
      if a.acc.contains p != b.acc.contains q then .error w.reverse else
      let keys := (a.keysFrom p ++ b.keysFrom q).eraseDups
      let rec succs : List String → List ((Nat × Nat) × List String) → List (Nat × Nat) →
          Except (List String) (List ((Nat × Nat) × List String) × List (Nat × Nat))
        | [], acc, seen => .ok (acc, seen)
        | k :: ks, acc, seen =>
          match a.step p k, b.step q k with
          | some p', some q' =>
            if seen.contains (p', q') then succs ks acc seen
            else succs ks (acc ++ [((p', q'), k :: w)]) ((p', q') :: seen)
          | none, none => succs ks acc seen
          | some p', none =>
            -- `a` can continue; find a word accepted from p' (any: automata are expected trim)
            .error ((k :: w).reverse ++ (witnessFrom a p'))
          | none, some q' => .error ((k :: w).reverse ++ (witnessFrom b q'))
      match succs keys [] seen with
      | .error e => .error e
      | .ok (new, seen) => loop fuel (rest ++ new) seen
  loop ((a.states.length + 1) * (b.states.length + 1) + 1) [((a.start, b.start), [])] [(a.start, b.start)]
where
  /-- shortest word leading from `q` to acceptance, `[]` if none is found -/
  witnessFrom (m : KAuto) (q : Nat) : List String :=
    let rec bfs : Nat → List (Nat × List String) → List Nat → List String
      | 0, _, _ => []
      | _ + 1, [], _ => []
      | fuel + 1, (s, w) :: rest, seen =>
        if m.acc.contains s then w.reverse else
        let nexts := (m.trans.filter (·.1 == s)).filter (fun t => !seen.contains t.2.2)
        bfs fuel (rest ++ nexts.map (fun t => (t.2.2, t.2.1 :: w))) (seen ++ nexts.map (·.2.2))
    bfs (m.states.length * m.states.length + 2) [(q, [])] [q]

def accessWords (a : KAuto) : List (Nat × List String) :=
  let rec bfs : Nat → List (Nat × List String) → List (Nat × List String) → List (Nat × List String)
    | 0, _, done => done
    | _ + 1, [], done => done
    | fuel + 1, (s, w) :: rest, done =>
      let nexts := (a.trans.filter (·.1 == s)).filter fun t =>
        !(done.any (·.1 == t.2.2)) && !(rest.any (·.1 == t.2.2)) && t.2.2 != s
      let nexts := nexts.foldl (fun acc t => if acc.any (·.1 == t.2.2) then acc else acc ++ [(t.2.2, w ++ [t.2.1])]) []
      bfs fuel (rest ++ nexts) (done ++ [(s, w)])
  bfs (a.states.length + 2) [(a.start, [])] []

def coaccessWords (a : KAuto) : List (Nat × List String) :=
  let init := a.acc.eraseDups.map fun s => (s, ([] : List String))
  let rec grow : Nat → List (Nat × List String) → List (Nat × List String)
    | 0, done => done
    | fuel + 1, done =>
      let new := a.trans.foldl (fun acc t =>
        if done.any (·.1 == t.1) || acc.any (·.1 == t.1) then acc
        else match done.find? (·.1 == t.2.2) with
          | some (_, w) => acc ++ [(t.1, t.2.1 :: w)]
          | none => acc) []
      if new.isEmpty then done else grow fuel (done ++ new)
  grow (a.states.length + 2) init

/-- distinguishing words for all pairs of states; `Except.error (p, q)` = an indistinguishable pair -/
def distinguish (a : KAuto) : Except (Nat × Nat) (List ((Nat × Nat) × List String)) :=
  let states := a.states
  let pairs := states.flatMap fun p => (states.filter (p < ·)).map fun q => (p, q)
  let accOf : Option Nat → Bool := fun s => match s with | some s => a.acc.contains s | none => false
  -- table over Option Nat pairs: none is the dead state
  let lookup (tab : List ((Option Nat × Option Nat) × List String)) (x y : Option Nat) : Option (List String) :=
    if x == y then none else
    match tab.find? (fun d => d.1 == (x, y) || d.1 == (y, x)) with
    | some (_, w) => some w
    | none => none
  let allOpt : List (Option Nat) := none :: states.map some
  let optPairs := allOpt.flatMap fun x => (allOpt.filter (fun y => optLt x y)).map fun y => (x, y)
  let init := optPairs.filterMap fun (x, y) => if accOf x != accOf y then some ((x, y), ([] : List String)) else none
  let keys := (a.trans.map (·.2.1)).eraseDups
  let stepO : Option Nat → String → Option Nat := fun s k => match s with | some s => a.step s k | none => none
  let rec iter : Nat → List ((Option Nat × Option Nat) × List String) → List ((Option Nat × Option Nat) × List String)
    | 0, tab => tab
    | fuel + 1, tab =>
      let new := optPairs.foldl (fun acc (x, y) =>
        if (lookup tab x y).isSome || acc.any (·.1 == (x, y)) then acc else
        match keys.findSome? (fun k => (lookup tab (stepO x k) (stepO y k)).map (k :: ·)) with
        | some w => acc ++ [((x, y), w)]
        | none => acc) []
      if new.isEmpty then tab else iter fuel (tab ++ new)
  let tab := iter (states.length + 2) init
  match pairs.find? (fun (p, q) => (lookup tab (some p) (some q)).isNone) with
  | some pq => .error pq
  | none => .ok (pairs.filterMap fun (p, q) => (lookup tab (some p) (some q)).map fun w => ((p, q), w))
where
  optLt : Option Nat → Option Nat → Bool
    | none, some _ => true
    | some a, some b => a < b
    | _, _ => false

end Complgen.Cert
