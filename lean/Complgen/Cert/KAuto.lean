/-
Verified checkers for automata with opaque symbol keys (Cert).  The driver *computes* candidate
certificates (a relation, access words, distinguishing words) with unverified search code; the
functions here *check* them, and `Proofs/Cert.lean` proves what a successful check implies.
-/
namespace Complgen.Cert

/-- A finite automaton whose symbols are opaque keys.  `step` takes the *first* matching
transition; `detCheck` says there is never a second one. -/
structure KAuto where
  start : Nat
  trans : List (Nat × String × Nat)
  acc : List Nat
deriving Inhabited, Repr

def KAuto.step (a : KAuto) (q : Nat) (k : String) : Option Nat :=
  (a.trans.find? (fun t => t.1 == q && t.2.1 == k)).map (·.2.2)

def KAuto.runFrom (a : KAuto) : Nat → List String → Option Nat
  | q, [] => some q
  | q, k :: w => match a.step q k with
    | some q' => a.runFrom q' w
    | none => none

def KAuto.acceptsFrom (a : KAuto) (q : Nat) (w : List String) : Bool :=
  match a.runFrom q w with
  | some q' => a.acc.contains q'
  | none => false

def KAuto.accepts (a : KAuto) (w : List String) : Bool := a.acceptsFrom a.start w

def KAuto.keysFrom (a : KAuto) (q : Nat) : List String :=
  (a.trans.filter (·.1 == q)).map (·.2.1)

def KAuto.states (a : KAuto) : List Nat :=
  (a.start :: a.trans.flatMap (fun t => [t.1, t.2.2])).eraseDups

/-- no state has two transitions on one key -/
def detCheck (a : KAuto) : Bool :=
  a.trans.all fun t => a.trans.all fun u =>
    !(t.1 == u.1 && t.2.1 == u.2.1) || t.2.2 == u.2.2

/-- `R` is a bisimulation between `a` and `b` containing the pair of start states. -/
def bisimCheck (a b : KAuto) (R : List (Nat × Nat)) : Bool :=
  R.contains (a.start, b.start) &&
  R.all fun (p, q) =>
    (a.acc.contains p == b.acc.contains q) &&
    (a.keysFrom p ++ b.keysFrom q).all fun k =>
      match a.step p k, b.step q k with
      | some p', some q' => R.contains (p', q')
      | none, none => true
      | _, _ => false

/-- every listed state is reached from the start by its access word -/
def accessCheck (a : KAuto) (access : List (Nat × List String)) : Bool :=
  a.states.all fun s =>
    match access.find? (·.1 == s) with
    | some (_, w) => a.runFrom a.start w == some s
    | none => false

/-- every state has a word leading to acceptance -/
def coaccessCheck (a : KAuto) (co : List (Nat × List String)) : Bool :=
  a.states.all fun s =>
    match co.find? (·.1 == s) with
    | some (_, w) => a.acceptsFrom s w
    | none => false

/-- every two different states are told apart by a recorded word -/
def distinctCheck (a : KAuto) (dist : List ((Nat × Nat) × List String)) : Bool :=
  a.states.all fun p => a.states.all fun q =>
    p == q ||
    match dist.find? (fun d => d.1 == (p, q) || d.1 == (q, p)) with
    | some (_, w) => a.acceptsFrom p w != a.acceptsFrom q w
    | none => false

end Complgen.Cert
