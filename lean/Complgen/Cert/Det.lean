/-
Word-determinism checker (C09).  Keys of an implementation automaton name *expected items*
(`L:text:descr:level`, `W:language.index:level`, `C:text:kind:level`, `X`).  Two different keys can
accept the same typed word: the same literal text under two labels, two within-word automata with
the same language.  `wordClass` maps a key to what it matches; the automaton is word-deterministic
when it is deterministic after that renaming.
-/
import Complgen.Cert.KAuto
namespace Complgen.Cert

def KAuto.mapKeys (a : KAuto) (f : String → String) : KAuto :=
  { a with trans := a.trans.map fun t => (t.1, f t.2.1, t.2.2) }

/-- what a key matches: a literal matches its text whatever its description and level; a
within-word automaton matches its language whatever pool entry and level it has -/
def wordClass (k : String) : String :=
  match k.splitOn ":" with
  | ["L", t, _, _] => "L:" ++ t
  | ["W", h, _] => "W:" ++ (match h.splitOn "." with | x :: _ => x | [] => h)
  | _ => k

def wordDetCheck (a : KAuto) (cls : String → String) : Bool := detCheck (a.mapKeys cls)

/-- a witness when the check fails: state, the two keys, the two targets -/
def wordConflict (a : KAuto) (cls : String → String) : Option (Nat × String × String × Nat × Nat) :=
  a.trans.findSome? fun t => a.trans.findSome? fun u =>
    if t.1 == u.1 && cls t.2.1 == cls u.2.1 && t.2.2 != u.2.2 then some (t.1, t.2.1, u.2.1, t.2.2, u.2.2) else none

/-- every pair of keys that conflict somewhere -/
def wordConflictPairs (a : KAuto) (cls : String → String) : List (String × String) :=
  (a.trans.flatMap fun t => a.trans.filterMap fun u =>
    if t.1 == u.1 && cls t.2.1 == cls u.2.1 && t.2.2 != u.2.2 then some (t.2.1, u.2.1) else none).eraseDups

/-- labels that play no part in matching erased from every key: the `||` level (the `|` variant of
a grammar has all levels 0) and the description of a literal (a description written after a group
is spent differently under `||` and `|`) -/
def eraseLevel (k : String) : String :=
  match k.splitOn ":" with
  | ["L", t, _, _] => s!"L:{t}:-:0"
  | ["C", c, a, _] => s!"C:{c}:{a}:0"
  | ["W", h, _] => s!"W:{h}:0"
  | _ => k

end Complgen.Cert
