namespace Complgen

/-- Source location as `HumanSpan` (1-based line, 1-based byte columns). -/
structure Span where
  line : Nat
  cs : Nat
  ce : Nat
deriving DecidableEq, Repr, Inhabited, BEq, Hashable

inductive Shell where
  | bash | fish | zsh | pwsh
deriving DecidableEq, Repr, Inhabited, BEq

def Shell.name : Shell → String
  | .bash => "bash" | .fish => "fish" | .zsh => "zsh" | .pwsh => "pwsh"

def Shell.ofName? : String → Option Shell
  | "bash" => some .bash | "fish" => some .fish | "zsh" => some .zsh | "pwsh" => some .pwsh
  | _ => none

end Complgen
