/-
C17 — external commands run only when expected, with the documented arguments/output.

The candidate a line of output contributes is `Spec.Complete.field`: the text before its first
tab.  Proved here for every line: the field contains no tab, is a prefix of the line, and is the
whole line when the line has no tab.  The call sets (`Answer.required`, `Answer.allowed`) are
computed by `Spec.Complete.complete`.  Proved over the model of the bash template with call
recording (`Model/BashRtCalls.lean`: its call sequence equals the probe log of the real bash on
every explored command line): `calls_have_template_form` — every call of an external command, for
every table set and every output of the commands, passes either `("", "")` (an earlier word is
being read between words), `(typed text, "")` (candidates are collected between words), or
`(rest of a word, part of it already read)` — and `recording_transparent` (the candidates are those
of the model without recording).  `calls_spec` (the calls are exactly the ones the grammar allows
at the points the walk visits) is the open growth target.
-/
import Complgen.Spec.Complete
import Complgen.Proofs.Calls
namespace Complgen.Props.C17
open Complgen Complgen.Spec.Complete

theorem mem_takeWhile {α} (p : α → Bool) : ∀ (l : List α) (x : α), x ∈ l.takeWhile p → p x = true
  | [], _, h => by simp at h
  | a :: l, x, h => by
    simp only [List.takeWhile_cons] at h
    split at h
    · rename_i hp
      rcases List.mem_cons.mp h with rfl | h'
      · exact hp
      · exact mem_takeWhile p l x h'
    · simp at h

theorem takeWhile_all {α} (p : α → Bool) : ∀ (l : List α), (∀ x ∈ l, p x = true) → l.takeWhile p = l
  | [], _ => rfl
  | a :: l, h => by
    have ha := h a (by simp)
    simp only [List.takeWhile_cons, ha, if_true]
    rw [takeWhile_all p l (fun x hx => h x (by simp [hx]))]

theorem field_no_tab (line : String) : '\t' ∉ (field line).toList := by
  unfold field
  rw [String.toList_ofList]
  intro h
  have := mem_takeWhile _ _ _ h
  simp at this

theorem field_prefix (line : String) : (field line).toList.isPrefixOf line.toList = true := by
  unfold field
  rw [String.toList_ofList]
  simp only [List.isPrefixOf_iff_prefix]
  exact List.takeWhile_prefix _

theorem field_whole (line : String) (h : '\t' ∉ line.toList) : field line = line := by
  unfold field
  have : line.toList.takeWhile (· ≠ '\t') = line.toList := by
    apply takeWhile_all
    intro c hc
    simp only [ne_eq, decide_not, Bool.not_eq_eq_eq_not, Bool.not_true, decide_eq_false_iff_not]
    intro hct; subst hct; exact h hc
  rw [this]
  exact String.ofList_toList

/-- **With which arguments**: every call the template makes has one of its four forms -/
theorem calls_have_template_form (S : BashRt.Script) (start : Nat) (words : List String) (prefix_ wb : String)
    (c : BashRt.Call) (h : c ∈ (BashRt.completeL S start words prefix_ wb).2) :
    c.2 = ("", "") ∨ c.2 = (prefix_, "") ∨ ∃ w ∈ words ++ [prefix_], c.2.2 ++ c.2.1 = w :=
  BashRt.completeL_calls S start words prefix_ wb c h

/-- recording the calls does not change what is offered -/
theorem recording_transparent (S : BashRt.Script) (start : Nat) (words : List String) (prefix_ wb : String) :
    (BashRt.completeL S start words prefix_ wb).1 = BashRt.complete S start words prefix_ wb :=
  BashRt.completeL_fst S start words prefix_ wb

end Complgen.Props.C17
