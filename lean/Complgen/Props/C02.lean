/-
C02 — the compiled automaton recognises exactly the grammar's language, labels included.
-/
import Complgen.Proofs.Glushkov
import Complgen.Proofs.Subset
import Complgen.Proofs.RxOfExpr
import Complgen.Proofs.Passes
import Complgen.Proofs.Choice
import Complgen.Proofs.Meaning
import Complgen.Proofs.SpecAuto
import Complgen.Proofs.EndToEnd
namespace Complgen.Props.C02
open Complgen

/-- Glushkov: a word of positions belongs to a linear expression iff it is a path of the position
automaton read off nullable / firstpos / followpos / lastpos. -/
theorem glushkov_local (r : Rx) (hl : r.Linear) (ps : List Nat) (p : Nat) :
    r.Lang (ps ++ [p]) ↔ ∃ cur, PosPath r.first r.follow ps cur ∧ p ∈ cur ∧ p ∈ r.last :=
  Rx.lang_iff_path r hl ps p

theorem glushkov_nil (r : Rx) : r.Lang [] ↔ r.nullable = true := Rx.lang_nil_iff r

/-- the subset construction of the model is correct for every work-list order -/
theorem subset_construction_correct (σ : Schedule) (r : Regex) (symOf : Nat → Option Inp) (a : Auto)
    (hsym : ∀ p, p < r.inputs.length → (symOf p).isSome)
    (hend : symOf r.endPos = none)
    (hfollow : ∀ p q, q ∈ r.follow p → q ≤ r.endPos)
    (hfirst : ∀ q ∈ r.first, q ≤ r.endPos)
    (h : buildAuto σ r symOf = some a) :
    ∀ w : List Inp, a.acceptsInp w = true ↔ PosAccepts r.first r.follow r.endPos symOf w :=
  buildAuto_correct σ r symOf a hsym hend hfollow hfirst h

/-- the regular expression `do_from_expr` builds means what the grammar expression means
(`Optional ↦ Or[x, ε]`, `Many1 ↦ Cat[x, Star x]`, `||` and `|` ↦ `Or`), over the leaf numbering -/
theorem rx_of_expr_lang (e : Expr) (ins : List RxInput) (pool : RxPool) (ps : List Nat) :
    (rxOfExpr e (ins, pool)).1.Lang ps ↔ e.denPos ins.length ps :=
  rxOfExpr_lang e ins pool ps

/-- positions are pairwise distinct and the end marker is fresh -/
theorem of_expr_linear (e : Expr) (pool : RxPool) :
    (Regex.ofExpr e pool).1.root.Linear ∧
    (Regex.ofExpr e pool).1.endPos ∉ (Regex.ofExpr e pool).1.root.positions ∧
    (Regex.ofExpr e pool).1.inputs.length = e.leafCount :=
  Regex.ofExpr_linear e pool

/-- **The raw automaton of the model, for every work-list order, accepts exactly the label
sequences of the words of the (validated) grammar expression** — labels = the symbol of each
leaf (literal text + description + level, command text + level, any-word, within-word automaton
+ level). -/
theorem C02_raw_model (σ : Schedule) (e : Expr) (pool : RxPool) (symOf : Nat → Option Inp) (a : Auto)
    (hsym : ∀ p, p < e.leafCount → (symOf p).isSome)
    (hend : symOf e.leafCount = none)
    (h : buildAuto σ (Regex.ofExpr e pool).1 symOf = some a) :
    ∀ w : List Inp, a.acceptsInp w = true ↔ ∃ ps, e.denPos 0 ps ∧ ps.map symOf = w.map some :=
  raw_automaton_correct σ e pool symOf a hsym hend h

/-! ### the passes of validation against the rules of the specification

`Spec.meaning` composes: description rule (`Spec.distr`), choice of definitions (`Spec.pick`) with
expansion, words (`Spec.words`), `||` levels (`Spec.label`).  The model's passes that have a
counterpart there *are* these functions: -/

/-- descriptions: first literal of each alternative, spent once per sequence -/
theorem descriptions_as_specified (e : Expr) : Check.distribute e = (Spec.distr e none).1 :=
  Check.distribute_eq_spec e

/-- after that pass no `( … ) "descr"` node is left, which is what the later passes assume -/
theorem descriptions_erased (e : Expr) : Check.NoDD (Check.distribute e) = true := Check.distribute_noDD e

/-- the definition chosen at every reference is `Spec.pick`'s (C11's theorem) -/
theorem choice_as_specified (g : Grammar) (sh : Shell) (specs : Check.AList Check.UserSpec) (fbs : Check.AList String)
    (h : Check.getSpecializations g sh = .ok (specs, fbs)) (e : Expr) (b : Check.Book) (hb : Check.SameCmds specs b) :
    (Check.specialize sh fbs ((Check.plainDefs g).map (·.1)) e b).1 = Check.applyPick sh g e :=
  (Check.specialize_eq_applyPick g sh specs fbs h e b hb).1

/-- the topmost juxtaposition is one word with a flattened inside -/
theorem words_as_specified (e : Expr) (h : Check.NoDD e = true) : Check.collapse e = Spec.words e :=
  Check.collapse_spec e h

/-- every item carries the index of its branch in the innermost enclosing `||` -/
theorem levels_as_specified (e : Expr) (lvl : Nat) (h : Check.NoDD e = true) :
    Check.propagate e lvl = Spec.label e lvl :=
  Check.propagate_spec e lvl h

/-- Non-vacuity: `a [b]` — the model builds an automaton, and the theorem's premises hold for it. -/
example :
    let e : Expr := .seq (.cons (.term "a" none 0 default) (.cons (.opt (.term "b" none 0 default) default) .nil)) default
    let symOf : Nat → Option Inp := fun p => if p = 0 then some (.lit "a" none 0) else if p = 1 then some (.lit "b" none 0) else none
    (buildAuto fifo (Regex.ofExpr e []).1 symOf).isSome = true ∧ e.leafCount = 2 := by
  decide

/-! ### validation as a whole

The passes composed, with the one that has no counterpart function in the specification — the
expansion of definitions in dependency order, found by a depth-first traversal — proved to compute
the specification's fixpoint expansion. -/

/-- **What validation returns is the grammar's meaning**, for every grammar and target shell the
model of check.rs accepts: call variants joined, descriptions distributed, every reference replaced
by the definition `Spec.pick` chooses and expanded to the end (whatever order the traversal finds),
juxtapositions flattened into words, `||` levels attached.  `topSpan g` is the source position the
code records at the node joining several call variants. -/
theorem validation_is_meaning (g : Grammar) (sh : Shell) (v : Check.Valid) (h : Check.validate g sh = .ok v) :
    v.expr = Spec.meaningAt (Check.topSpan g) g sh :=
  Check.validate_expr_eq_meaning g sh v h

/-- that position is the only thing by which `Spec.meaningAt` differs from `Spec.meaning` -/
theorem meaning_root_span (g : Grammar) (sh : Shell) :
    (∀ sp, Spec.meaningAt sp g sh = Spec.meaning g sh) ∨ (∃ X, ∀ sp, Spec.meaningAt sp g sh = .alt X sp) :=
  Check.meaningAt_cases g sh

/-- a successful traversal lists every definition once, after everything it refers to -/
theorem resolution_order_topological (D : Check.AList (Span × Expr)) (order : List String)
    (h : Check.resolutionOrder D = .ok order) :
    ∃ R : List String, order = R.filter (fun v => !(((Check.depGraph D).get? v).getD []).isEmpty) ∧ R.Nodup ∧
      Check.Closed (Check.depGraph D) R ∧ ∀ v ∈ Check.verts (Check.depGraph D), v ∈ R :=
  Check.resolutionOrder_ok D order h

/-- the fuel the specification's expansion is given always suffices (a definition is entered at most
once along a path when the traversal succeeds) -/
theorem expansion_as_specified (sh : Shell) (g : Grammar) (order : List String)
    (hnodup : ((Check.plainDefs g).map (·.1)).Nodup) (hro : Check.resolutionOrder (Check.tableOf sh g) = .ok order)
    (e : Expr) (hd : Check.NoDD e = true) (u u' : Check.AList Span) (k : Nat)
    (hk : Check.depth e + ((Check.plainDefs g).map fun x => 2 * Spec.size x.2.2).sum ≤ k) :
    Spec.expand sh g k e =
      (Check.resolve (order.foldl Check.resStep (Check.tableOf sh g, u)).1 (Check.applyPick sh g e) u').1 :=
  Check.expansion_correct sh g order hnodup hro e hd u u' k hk

/-- **End to end over the model**: for every grammar and shell the model of check.rs accepts and
every work-list order, the raw automaton accepts exactly the label sequences of the words of the
grammar's *meaning* (`Spec.meaningAt`: choice of definitions, expansion, descriptions, words, levels;
`denPos`: the words of an expression, position by position). -/
theorem C02_end_to_end (σ : Schedule) (g : Grammar) (sh : Shell) (v : Check.Valid) (pool : RxPool)
    (symOf : Nat → Option Inp) (a : Auto) (hv : Check.validate g sh = .ok v)
    (hsym : ∀ p, p < v.expr.leafCount → (symOf p).isSome) (hend : symOf v.expr.leafCount = none)
    (h : buildAuto σ (Regex.ofExpr v.expr pool).1 symOf = some a) :
    ∀ w : List Inp, a.acceptsInp w = true ↔
      ∃ ps, (Spec.meaningAt (Check.topSpan g) g sh).denPos 0 ps ∧ ps.map symOf = w.map some := by
  have he := Check.validate_expr_eq_meaning g sh v hv
  intro w
  rw [← he]
  exact C02_raw_model σ v.expr pool symOf a hsym hend h w

/-- **The oracle of the run has the semantics of the theorems**: the determinised partial-derivative
automaton of the grammar's meaning — the automaton every implementation automaton is decided
equivalent to, per grammar, by the verified bisimulation checker — accepts exactly the key sequences
of the words (`denPos`) of `Spec.meaning g sh` (`Proofs/Antimirov.lean`: partial derivatives and the
work-list construction; `Proofs/SpecAuto.lean`: the regular expression of an expression).  The two
hypotheses are evaluated by the driver for every explored grammar (`fin`, `nea`). -/
theorem oracle_has_theorem_semantics (g : Grammar) (sh : Shell) (hn : Spec.NoEmptyAlt (Spec.meaning g sh) = true)
    (hfin : Spec.Finished (Spec.toSRx Spec.wordKey (Spec.meaning g sh))) (kw : List String) :
    (Spec.specAuto g sh).accepts kw = true ↔
      ∃ ps, (Spec.meaning g sh).denPos 0 ps ∧
        ps.map (Spec.keyAt (Spec.leafKeys Spec.wordKey (Spec.meaning g sh)) 0) = kw :=
  Spec.specAuto_correct g sh hn hfin kw

/-- **The pipeline recognises the grammar's meaning** (`C02_end_to_end` with its side conditions
discharged, `Proofs/EndToEnd.lean`): whenever the model of the whole pipeline (validate ▸ regex ▸
ambiguity checks ▸ symbols and within-word automata ▸ subset construction ▸ minimisation) produces a
result, the raw *and the minimised* main automaton accept exactly the label sequences of the words
of `Spec.meaningAt g sh`, the label of position `p` being the symbol the pipeline computed for it. -/
theorem pipeline_recognises_meaning (σ : Schedule) (g : Grammar) (sh : Shell) (c : Pipeline.Compiled)
    (h : Pipeline.compile σ g sh = .ok c) :
    ∃ syms, Pipeline.symbolsOf σ c.pool c.regex.inputs = .ok (syms, c.raw.subs) ∧
      ∀ w : List Inp,
        (c.raw.main.acceptsInp w = true ↔
          ∃ ps, (Spec.meaningAt (Check.topSpan g) g sh).denPos 0 ps ∧
            ps.map (fun p => syms[p]?) = w.map some) ∧
        c.min.main.acceptsInp w = c.raw.main.acceptsInp w :=
  Pipeline.compile_meaning σ g sh c h

end Complgen.Props.C02
