/-
C02 — the compiled automaton recognises exactly the grammar's language, labels included.
(Provisional: completed when Proofs/RxOfExpr.lean lands.)
-/
import Complgen.Proofs.Glushkov
import Complgen.Proofs.Subset
namespace Complgen.Props.C02
open Complgen

/-- Glushkov: a word of positions belongs to a linear expression iff it is a path of the position
automaton read off nullable / firstpos / followpos / lastpos. -/
theorem glushkov_local (r : Rx) (hl : r.Linear) (ps : List Nat) (p : Nat) :
    r.Lang (ps ++ [p]) ↔ ∃ cur, PosPath r.first r.follow ps cur ∧ p ∈ cur ∧ p ∈ r.last :=
  Rx.lang_iff_path r hl ps p

theorem glushkov_nil (r : Rx) : r.Lang [] ↔ r.nullable = true := Rx.lang_nil_iff r

/-- the subset construction of the model is correct for every work-list order -/
theorem subset_construction_correct (σ : Schedule) (r : Regex) (symOf : Nat → Option Inp) (a : Auto)
    (hsym : ∀ p, p < r.inputs.length → (symOf p).isSome)
    (hend : symOf r.endPos = none)
    (hfollow : ∀ p q, q ∈ r.follow p → q ≤ r.endPos)
    (hfirst : ∀ q ∈ r.first, q ≤ r.endPos)
    (h : buildAuto σ r symOf = some a) :
    ∀ w : List Inp, a.acceptsInp w = true ↔ PosAccepts r.first r.follow r.endPos symOf w :=
  buildAuto_correct σ r symOf a hsym hend hfollow hfirst h

end Complgen.Props.C02
