/-
C09 — a typed word never has two readings; `||` is transparent to matching.

Proved here: soundness of the word-determinism checker the check runs on every automaton the real
library produces (main and within-word, raw and minimised): an automaton that passes has, at every
state, at most one continuation per typed word among literals (whatever their label) and among
within-word automata (whatever pool entry they are).  The full statement is *false* of the pinned
design (see known_findings.jsonl: the same literal in two `||` branches, language-equal within-word
automata interned apart); those two kinds are computed from the witness the checker returns.
And `fallback_transparent`: the validated expression of a grammar and of its `|` variant agree once
descriptions, levels and positions are erased (`Proofs/Fallback.lean`, through C02's
`validation_is_meaning`).
-/
import Complgen.Proofs.Det
import Complgen.Proofs.Fallback
namespace Complgen.Props.C09
open Complgen.Cert

theorem word_det_sound (a : KAuto) (h : wordDetCheck a wordClass = true) :
    ∀ q k₁ k₂ q₁ q₂, (q, k₁, q₁) ∈ a.trans → (q, k₂, q₂) ∈ a.trans →
      wordClass k₁ = wordClass k₂ → q₁ = q₂ :=
  wordDet_sound a wordClass h

/-- the witness returned on failure is a real conflict -/
theorem word_conflict_real (a : KAuto) (q : Nat) (k₁ k₂ : String) (t₁ t₂ : Nat)
    (h : wordConflict a wordClass = some (q, k₁, k₂, t₁, t₂)) :
    (q, k₁, t₁) ∈ a.trans ∧ (q, k₂, t₂) ∈ a.trans ∧ wordClass k₁ = wordClass k₂ ∧ t₁ ≠ t₂ := by
  unfold wordConflict at h
  obtain ⟨t, ht, h⟩ := List.exists_of_findSome?_eq_some h
  obtain ⟨u, hu, h⟩ := List.exists_of_findSome?_eq_some h
  split at h
  · rename_i hc
    simp only [Option.some.injEq, Prod.mk.injEq] at h
    obtain ⟨rfl, rfl, rfl, rfl, rfl⟩ := h
    simp only [Bool.and_eq_true, beq_iff_eq, bne_iff_ne, ne_eq] at hc
    obtain ⟨⟨h1, h2⟩, h3⟩ := hc
    refine ⟨ht, ?_, h2, h3⟩
    have : u = (t.1, u.2.1, u.2.2) := by rw [h1]
    rw [← this]; exact hu
  · cases h

/-- Non-vacuity, and the shape of the known finding: `cmd (a x || a y);` compiles to a start state
with two `a` items (levels 0 and 1) leading to different states — the checker rejects it; merging
them is accepted.  (The class function is written out for these keys: string splitting does not
reduce in the kernel; the driver evaluates the same `wordDetCheck` with `wordClass`.) -/
example :
    let cls : String → String := fun k => if k = "L:61:e:0" ∨ k = "L:61:e:1" then "L:61" else k
    let bad : KAuto := { start := 1, acc := [4], trans := [(1, "L:61:e:0", 2), (1, "L:61:e:1", 3), (2, "L:78:e:0", 4), (3, "L:79:e:1", 4)] }
    let good : KAuto := { start := 1, acc := [4], trans := [(1, "L:61:e:0", 2), (1, "L:61:e:1", 2), (2, "L:78:e:0", 4), (2, "L:79:e:1", 4)] }
    wordDetCheck bad cls = false ∧ wordDetCheck good cls = true := by
  decide

/-! ### `||` is transparent to matching

`Check.strip` erases what does not take part in matching — descriptions, `||` levels, source
positions — and reads `||` as `|`.  `Check.fbToAltG g` is the grammar `g` with every `||` replaced by
`|`. -/

open Complgen in
/-- the meaning the specification gives a grammar and its `|` variant is the same expression up to
`strip` (replacing `||` by `|` changes only how a description after a group is spent, and the levels) -/
theorem fallback_transparent_meaning (sp : Span) (g : Grammar) (sh : Shell) :
    Check.strip (Spec.meaningAt sp (Check.fbToAltG g) sh) = Check.strip (Spec.meaningAt sp g sh) :=
  Check.meaningAt_fbToAlt sp g sh

open Complgen in
/-- **`||` is transparent to matching in the model of check.rs**: whenever it accepts a grammar and
its `|` variant, the two validated expressions — from which the automata are built — agree up to
`strip`, hence match the same command lines. -/
theorem fallback_transparent (g : Grammar) (sh : Shell) (v v' : Check.Valid) (h : Check.validate g sh = .ok v)
    (h' : Check.validate (Check.fbToAltG g) sh = .ok v') : Check.strip v'.expr = Check.strip v.expr :=
  Check.validate_fbToAlt g sh v v' h h'

end Complgen.Props.C09
