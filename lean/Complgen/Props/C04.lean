/-
C04 — every emitted script embeds exactly the compiled automaton.

The run decodes the tables of the four real scripts with the string readers of `Model/Quote.lean`
and the index bases of `Gen.arrayStart` (both regenerated / re-checked against the source on every
run) and compares them with the library's automaton.  Proved here: shifting an index by a shell's
base and shifting it back is the identity (so the comparison loses nothing), the bases are the ones
the four shells use (0 for bash and PowerShell arrays, 1 for fish and zsh), and reading back an
emitted constant gives the original text for every string (C07's theorems, restated for the
literal and description tables).  `decode_encode` over a Lean model of the emitters is open.
-/
import Complgen.Proofs.Quote
import Complgen.Gen.Chains
import Complgen.Gen.Tables
namespace Complgen.Props.C04
open Complgen Complgen.Quote Complgen.Gen

theorem base_roundtrip (sh : Shell) (i : Nat) : (i + arrayStart sh) - arrayStart sh = i := by
  omega

theorem bases : arrayStart .bash = 0 ∧ arrayStart .pwsh = 0 ∧ arrayStart .fish = 1 ∧ arrayStart .zsh = 1 := by
  decide

/-- a shifted index never collides with the unused slot below the base -/
theorem shifted_ge_base (sh : Shell) (i : Nat) : arrayStart sh ≤ i + arrayStart sh := by omega

theorem literal_tables_readable (s : List Char) :
    bashDialect.decode (applyChain bashChain s) = some s ∧
    fishDialect.decode (applyChain fishChain s) = some s ∧
    zshDialect.decode (applyChain zshChain s) = some s ∧
    pwshDialect.decode (applyChain pwshChain s) = some s :=
  ⟨chain_roundtrip _ _ (by decide) s, chain_roundtrip _ _ (by decide) s,
   chain_roundtrip _ _ (by decide) s, chain_roundtrip _ _ (by decide) s⟩

end Complgen.Props.C04
