/-
C04 — every emitted script embeds exactly the compiled automaton.

The run decodes the tables of the four real scripts with the string readers of `Model/Quote.lean`
and the index bases of `Gen.arrayStart` (both regenerated / re-checked against the source on every
run) and compares them with the library's automaton.  Proved here: shifting an index by a shell's
base and shifting it back is the identity (so the comparison loses nothing), the bases are the ones
the four shells use (0 for bash and PowerShell arrays, 1 for fish and zsh), and reading back an
emitted constant gives the original text for every string (C07's theorems, restated for the
literal and description tables).  And over a model of the shared table construction
(`Model/Tables.lean`): `tables_embed_main`, `tables_embed_subwords` — the tables determine exactly the
transitions of the automaton.  The text of the four emitters around the tables is not modelled.
-/
import Complgen.Proofs.Quote
import Complgen.Gen.Chains
import Complgen.Gen.Tables
import Complgen.Proofs.Tables
namespace Complgen.Props.C04
open Complgen Complgen.Quote Complgen.Gen

theorem base_roundtrip (sh : Shell) (i : Nat) : (i + arrayStart sh) - arrayStart sh = i := by
  omega

theorem bases : arrayStart .bash = 0 ∧ arrayStart .pwsh = 0 ∧ arrayStart .fish = 1 ∧ arrayStart .zsh = 1 := by
  decide

/-- a shifted index never collides with the unused slot below the base -/
theorem shifted_ge_base (sh : Shell) (i : Nat) : arrayStart sh ≤ i + arrayStart sh := by omega

theorem literal_tables_readable (s : List Char) :
    bashDialect.decode (applyChain bashChain s) = some s ∧
    fishDialect.decode (applyChain fishChain s) = some s ∧
    zshDialect.decode (applyChain zshChain s) = some s ∧
    pwshDialect.decode (applyChain pwshChain s) = some s :=
  ⟨chain_roundtrip _ _ (by decide) s, chain_roundtrip _ _ (by decide) s,
   chain_roundtrip _ _ (by decide) s, chain_roundtrip _ _ (by decide) s⟩

open Complgen.Tables in
/-- **The tables embed exactly the automaton** (`Proofs/Tables.lean` over `Model/Tables.lean`, the model of
tables.rs / the table getters of dfa.rs as the bash emitter uses them, compared with the tables of the
real script on every run): the labelled transitions that can be read back from the tables of the
main function — literal text, command text, within-word function number or any-word, with the `||`
level recovered from the level tables — are exactly the transitions of the automaton.  The three
side conditions say that one state never has two items with the same table id and different targets
(C09's recorded finding is precisely a violation of the first). -/
theorem tables_embed_main (d : Dfa) (out : Nat → List String)
    (hL : ∀ q, LitDetAt d.main q) (hC : ∀ q, CmdDetAt d.main q) (hS : ∀ q, SubKDetAt d.main q)
    (q : Nat) (lab : Label) (lv : Option Nat) (t : Nat) :
    (q, lab, lv, t) ∈ transitionsOf (ofDfa d out).main (commands d) ↔
      ∃ x, HasEdge d.main q x t ∧ labelOf (subIdOf (subOrder d.main)) x = some (lab, lv) :=
  script_main_embeds d out hL hC hS q lab lv t

open Complgen.Tables in
/-- … and every within-word automaton the main automaton enters has a function number whose tables
describe exactly its transitions -/
theorem tables_embed_subwords (d : Dfa) (out : Nat → List String) {q0 k l0 t0 : Nat} {s : Auto}
    (he : HasEdge d.main q0 (.sub k l0) t0) (hs : d.subs[k]? = some s)
    (hL : ∀ q, LitDetAt s q) (hC : ∀ q, CmdDetAt s q) :
    ∃ j, subIdOf (subOrder d.main) k = some j ∧
      ∀ q lab lv t, (q, lab, lv, t) ∈ transitionsOf ((ofDfa d out).sub j) (commands d) ↔
        ∃ x, HasEdge s q x t ∧ labelOf (fun _ => none) x = some (lab, lv) :=
  script_sub_embeds d out he hs hL hC

open Complgen.Tables in
/-- the any-word table, with no side condition -/
theorem tables_star (a : Auto) (cmds : List String) (subId : Nat → Option Nat) (q t : Nat) :
    (q, t) ∈ (ofAuto a cmds subId).star ↔ HasEdge a q .star t :=
  E2_star

open Complgen.Tables in
/-- the side condition is needed: one literal leaving a state at two `||` levels with two targets —
the tables keep one target and describe a transition the automaton does not have -/
theorem tables_need_determinism :
    (0, Label.lit "a", some 0, 2) ∈ transitionsOf (ofAuto cexAuto [] fun _ => none) [] ∧
    ¬ ∃ x, HasEdge cexAuto 0 x 2 ∧ labelOf (fun _ => none) x = some (Label.lit "a", some 0) :=
  cex_E4_fails

end Complgen.Props.C04
