/-
C07 — text taken from the grammar reaches the shell verbatim and inert.

The chains (`Gen.*Chain`) are regenerated from the Rust source on every run; each theorem below is
re-checked against what the code says now.  `chainOK` is a decidable predicate evaluated by the
kernel (`decide`) on the current chain; `chain_roundtrip` lifts it to every string.
-/
import Complgen.Proofs.Quote
import Complgen.Gen.Chains
namespace Complgen.Props.C07
open Complgen.Quote Complgen.Gen

theorem bash_chain_ok : chainOK bashDialect bashChain = true := by decide
theorem fish_chain_ok : chainOK fishDialect fishChain = true := by decide
theorem zsh_chain_ok : chainOK zshDialect zshChain = true := by decide
theorem pwsh_chain_ok : chainOK pwshDialect pwshChain = true := by decide

/-- bash reads every emitted string constant back as the original text. -/
theorem bash_roundtrip (s : List Char) :
    bashDialect.decode (applyChain bashChain s) = some s :=
  chain_roundtrip _ _ bash_chain_ok s

theorem fish_roundtrip (s : List Char) :
    fishDialect.decode (applyChain fishChain s) = some s :=
  chain_roundtrip _ _ fish_chain_ok s

theorem zsh_roundtrip (s : List Char) :
    zshDialect.decode (applyChain zshChain s) = some s :=
  chain_roundtrip _ _ zsh_chain_ok s

theorem pwsh_roundtrip (s : List Char) :
    pwshDialect.decode (applyChain pwshChain s) = some s :=
  chain_roundtrip _ _ pwsh_chain_ok s

/-- Non-vacuity: the theorems speak about strings full of special characters. -/
example : fishDialect.decode (applyChain fishChain "a\\\"$`b".toList) = some "a\\\"$`b".toList := by
  decide

end Complgen.Props.C07
