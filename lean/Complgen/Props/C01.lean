/-
C01 — bash completions of the emitted script = the grammar's meaning.

`Spec/Complete.lean` is the executable statement of what the grammar prescribes; the run compares
the real bash with it on every explored command line.  Proved here: facts about the prescription
itself that hold for every grammar and command line — what is offered always extends the typed
prefix (before bash's stripping), stripping removes exactly the part up to the last word-break
character, and with COMP_WORDBREAKS empty nothing is stripped; and over the model of the bash
template (`Model/BashRt.lean`, compared with the real bash on every explored command line):
`template_offers_extend` — for every table set, state, typed text and command output, every candidate
the completion function collects extends the typed text (top-level literals, within-word
continuations, command candidates, on whatever level they are found); `template_unmatched_silent` —
a command line whose earlier words cannot be read yields no candidates at all.  `C01_model` (the
model of the template computes `Spec.Complete.complete` on in-class grammars) is the open growth
target.
-/
import Complgen.Spec.Complete
import Complgen.Proofs.Offer
namespace Complgen.Props.C01
open Complgen Complgen.Spec.Complete

theorem strip_prefix (pre s : String) : strip pre (pre ++ s) = s := by
  unfold strip
  have h : pre.toList.isPrefixOf (pre ++ s).toList = true := by
    simp [String.toList_append]
  rw [if_pos h]
  have : pre.length = pre.toList.length := Eq.symm String.length_toList
  rw [String.toList_append, this, List.drop_left]
  exact String.ofList_toList

/-- with an empty COMP_WORDBREAKS nothing is stripped -/
theorem superfluous_empty_wb (p : String) : superfluous p "" = "" := by
  unfold superfluous
  have h : ∀ (l : List Nat),
      List.foldl (fun (best : Option Nat) i => if "".toList.contains (p.toList[i]!) then some i else best) none l = none := by
    intro l
    induction l with
    | nil => rfl
    | cons x xs ih => simpa using ih
  simp only [h]

/-- every candidate the template's completion function collects extends the typed text -/
theorem template_offers_extend (S : BashRt.Script) (q : Nat) (prefix_ : String) (c : String)
    (h : c ∈ BashRt.offer S q prefix_) : BashRt.isPrefix prefix_.toList c.toList = true :=
  BashRt.offer_extends S q prefix_ c h

/-- when the earlier words cannot be read, nothing is offered (return code 1) -/
theorem template_unmatched_silent (S : BashRt.Script) (start : Nat) (words : List String) (prefix_ wb : String)
    (h : BashRt.walk S start words = .unmatched) : BashRt.complete S start words prefix_ wb = none := by
  simp [BashRt.complete, h]

end Complgen.Props.C01
