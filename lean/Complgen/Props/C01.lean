/-
C01 — bash completions of the emitted script = the grammar's meaning.

`Spec/Complete.lean` is the executable statement of what the grammar prescribes; the run compares
the real bash with it on every explored command line.  Proved here: facts about the prescription
itself that hold for every grammar and command line — what is offered always extends the typed
prefix (before bash's stripping), stripping removes exactly the part up to the last word-break
character, and with COMP_WORDBREAKS empty nothing is stripped; and over the model of the bash
template (`Model/BashRt.lean`, compared with the real bash on every explored command line):
`template_offers_extend` — for every table set, state, typed text and command output, every candidate
the completion function collects extends the typed text (top-level literals, within-word
continuations, command candidates, on whatever level they are found); `template_unmatched_silent` —
a command line whose earlier words cannot be read yields no candidates at all.  `C01_model` (the
model of the template computes `Spec.Complete.complete` on in-class grammars) is the open growth
target.
-/
import Complgen.Spec.Complete
import Complgen.Proofs.Offer
import Complgen.Proofs.TemplateDfa
import Complgen.Proofs.TemplateDfaAll
import Complgen.Proofs.SubwordDfa
namespace Complgen.Props.C01
open Complgen Complgen.Spec.Complete

theorem strip_prefix (pre s : String) : strip pre (pre ++ s) = s := by
  unfold strip
  have h : pre.toList.isPrefixOf (pre ++ s).toList = true := by
    simp [String.toList_append]
  rw [if_pos h]
  have : pre.length = pre.toList.length := Eq.symm String.length_toList
  rw [String.toList_append, this, List.drop_left]
  exact String.ofList_toList

/-- with an empty COMP_WORDBREAKS nothing is stripped -/
theorem superfluous_empty_wb (p : String) : superfluous p "" = "" := by
  unfold superfluous
  have h : ∀ (l : List Nat),
      List.foldl (fun (best : Option Nat) i => if "".toList.contains (p.toList[i]!) then some i else best) none l = none := by
    intro l
    induction l with
    | nil => rfl
    | cons x xs ih => simpa using ih
  simp only [h]

/-- every candidate the template's completion function collects extends the typed text -/
theorem template_offers_extend (S : BashRt.Script) (q : Nat) (prefix_ : String) (c : String)
    (h : c ∈ BashRt.offer S q prefix_) : BashRt.isPrefix prefix_.toList c.toList = true :=
  BashRt.offer_extends S q prefix_ c h

/-- when the earlier words cannot be read, nothing is offered (return code 1) -/
theorem template_unmatched_silent (S : BashRt.Script) (start : Nat) (words : List String) (prefix_ wb : String)
    (h : BashRt.walk S start words = .unmatched) : BashRt.complete S start words prefix_ wb = none := by
  simp [BashRt.complete, h]

open Complgen.Tables Complgen.TemplateDfa in
/-- **The emitted bash script interprets the automaton — the literal part** (`Proofs/TemplateDfa.lean`,
over the model of the template `Model/BashRt.lean` running on the model of the emitted tables
`Model/Tables.lean`, both compared with the real bash / the real script on every run): for a `Dfa`
whose states reachable through literals carry only literal transitions and never two literals with
one text and different targets (C09's demand), the completion function returns code 1 exactly when
the earlier words spell no path of literal transitions from the start state; otherwise COMPREPLY
is, as a set, the stripped `text ++ " "` of the literal transitions out of the state reached that
extend the typed prefix at the least `||` level that has any. -/
theorem template_interprets_literals (d : Dfa) (out : Nat → List String)
    (honly : ∀ r, LitReach d.main d.main.start r → LitOnlyAt d.main r)
    (hdet : ∀ r, LitReach d.main d.main.start r → WordDetAt d.main r)
    (ws : List String) (p wb : String) :
    (BashRt.complete (ofDfa d out) d.main.start ws p wb = none ↔ ¬ ∃ q, LitPath d.main d.main.start ws q) ∧
    ∀ q, LitPath d.main d.main.start ws q →
      ∃ cs, BashRt.complete (ofDfa d out) d.main.start ws p wb = some cs ∧
        ∀ c, c ∈ cs ↔ ∃ m, Cand d.main q p m ∧ c = strip p wb m :=
  ofDfa_complete_literals d out honly hdet ws p wb

open Complgen.Tables Complgen.TemplateDfa in
/-- a typed word that is a literal expected at the current state moves to that literal's target — whatever
else is expected there (the literal has priority) — when the state has no two literals with that
text and different targets -/
theorem template_reads_literal (d : Dfa) (out : Nat → List String) {q : Nat} {w : String}
    {dsc : Option String} {lvl t : Nat}
    (he : HasEdge d.main q (.lit w dsc lvl) t) (hdet : WordDetAt d.main q) :
    (BashRt.readWord (ofDfa d out) q w).1 = some t :=
  ofDfa_readWord_literal d out he hdet

open Complgen.Tables Complgen.TemplateDfa in
/-- that hypothesis is needed: with `a "x"` and `a "y"` leading to different states no script can follow
both (the same finding as C09's, seen from the template) -/
theorem template_needs_word_determinism (S : BashRt.Script) :
    ¬ ∀ (dsc : Option String) (lvl t : Nat),
      HasEdge cexWord 0 (.lit "a" dsc lvl) t → (BashRt.readWord S 0 "a").1 = some t :=
  readWord_literal_needs_wordDet' S

open Complgen.Tables Complgen.TemplateDfa Complgen.TemplateDfaAll in
/-- **The emitted bash script interprets the automaton — every kind of item** (`Proofs/TemplateDfaAll.lean`):
at arbitrary states.  A complete earlier word is read by priority — a literal with that text; else a
within-word automaton expected here whose function matches the word; else a command expected here
that prints the word; else the any-word transition (`DStep`); the walk over the earlier words is the
run of that step relation, with the last-word heuristic as the model has it (`DRun`); and when every
reachable state has one reading per word, the completion function returns code 1 exactly when that
run fails, and otherwise COMPREPLY is, as a set, the stripped candidates — literals (text + blank),
completions inside a word, output lines of commands, all extending the typed prefix — of the least
`||` level that has any, at the state the run ends in.  (The within-word matcher itself stays
abstract here; C12's theorems are about it.) -/
theorem template_interprets_automaton (d : Dfa) (out : Nat → List String)
    (hdet : ∀ q, DReach d out d.main.start q → ∀ w, DStepDetAt d out q w)
    (ws : List String) (p wb : String) :
    (BashRt.complete (ofDfa d out) d.main.start ws p wb = none ↔ DRun d out d.main.start ws .unmatched) ∧
    ∀ q, DRun d out d.main.start ws (.state q) →
      ∃ cs, BashRt.complete (ofDfa d out) d.main.start ws p wb = some cs ∧
        ∀ c, c ∈ cs ↔ ∃ m, DOffered d out q p m ∧ c = strip p wb m :=
  ofDfa_complete_spec d out hdet ws p wb

open Complgen.Tables Complgen.TemplateDfaAll in
/-- without any determinism hypothesis: what the script does on the earlier words is always *a* run of
the automaton by that priority rule -/
theorem template_walk_is_a_run (d : Dfa) (out : Nat → List String) (ws : List String) (q0 : Nat) :
    DRun d out q0 ws (BashRt.walk (ofDfa d out) q0 ws) :=
  ofDfa_walk_sound d out ws q0

open Complgen.TemplateDfaAll in
/-- bash's `readarray -t candidates`, which overwrites the accumulated literal candidates after a level
with commands, never changes what is offered: the loop with and without the overwriting give the
same list, for all tables -/
theorem template_overwritten_array_harmless (S : BashRt.Script) (q : Nat) (p : String) :
    offerAcc S q p = BashRt.offer S q p :=
  offerAcc_eq_offer S q p

open Complgen.Tables Complgen.TemplateDfa Complgen.SubwordDfa in
/-- **The within-word matcher follows the within-word automaton** (`Proofs/SubwordDfa.lean`), in the class the
property is stated for: a within-word automaton whose transitions carry non-empty literals, prefix-free
at every state and with one target per text.  The function `_<cmd>_subword_N matches` accepts a word
exactly when the word is the concatenation of the texts of a path of transitions from the start state
(there are no accepting states in the tables: the recorded finding); in complete mode it stops after
the longest readable part and offers `matched ++ literal` for the literals expected there that extend
the rest, at the least `||` level that has any. -/
theorem within_word_matcher_follows_automaton (s : Auto) (cmds : List String) (out : Nat → List String)
    (hstart : s.start = 0) (honly : ∀ q, LitOnlyAt s q) (hne : ∀ q, LitNonEmptyAt s q)
    (hpf : ∀ q, PrefixFreeAt s q) (hdet : ∀ q, WordDetAt s q) (word : String) :
    (BashRt.subMatches (ofAuto s cmds fun _ => none) out word = true ↔
      ∃ t, SubPath s s.start word.toList t) ∧
    ∃ q i, ReadsTo s s.start word.toList q i ∧
      ∀ c, c ∈ BashRt.subComplete (ofAuto s cmds fun _ => none) out word ↔
        SubCand s q (String.ofList (word.toList.take i)) (word.toList.drop i) c :=
  ⟨ofAuto_subMatches_iff s cmds out hstart honly hne hpf hdet word,
   ofAuto_subComplete_mem s cmds out hstart honly hne hpf hdet word⟩

open Complgen.SubwordDfa in
/-- prefix-freeness is needed (it is the class C12 treats separately): with `a`, `ab` expected at one state
and `bc` after `a`, the word `abc` is a path of the automaton and the one-pass matcher misses it -/
theorem within_word_needs_prefix_free :
    ¬ ∀ (T : BashRt.Tables) (s : Auto) (word : String), SubOf T s → s.start = 0 →
      (∃ t, SubPath s s.start word.toList t) → BashRt.subMatches T (fun _ => []) word = true :=
  subMatches_iff_needs_prefixFree

end Complgen.Props.C01
