/-
C15 — warnings are complete, precise and harmless.

`Spec/Warn.lean` states the three warning sets over the reference graph of the grammar.  Proved
here (for every grammar): `_` is never reported; a name reported as unused has a plain definition
and occurs in no statement (and conversely); an unused specialisation reported for shell S is a
definition for S whose name occurs in no statement (and conversely); every set lists a name once.
`warn_unused_eq`: for every grammar and shell the model of check.rs accepts, the names in its `unused`
map are exactly `unusedNames` (proved through the model's specialise / resolve passes,
`Proofs/Warn.lean`); `warn_unused_spec_eq`: likewise its `unusedSpecs` are exactly
`unusedSpecNames sh`; `warn_undefined_eq`: its `undefined` map holds exactly `undefinedNames sh`
(plus `_`, which is dropped when the warnings are printed) — through `validation_is_meaning` (C02),
i.e. through the dependency-ordered expansion; `warnings_harmless` — deleting the definitions (plain,
for the target shell, any) of a name no statement mentions leaves the validated expression unchanged
(`Proofs/Harmless.lean`).  Per grammar the run checks model = library exactly and library/binary =
spec.
-/
import Complgen.Spec.Warn
import Complgen.Proofs.Warn
import Complgen.Proofs.Meaning
import Complgen.Proofs.Harmless
namespace Complgen.Props.C15
open Complgen Complgen.Spec

theorem underscore_never_reported (sh : Shell) (g : Grammar) : "_" ∉ undefinedNames sh g := by
  unfold undefinedNames
  intro h
  have := List.mem_eraseDups.mp h
  simp at this

theorem unused_iff (g : Grammar) (n : String) :
    n ∈ unusedNames g ↔ (∃ sp e, Stmt.defn n sp none e ∈ g) ∧ n ∉ referred g := by
  unfold unusedNames
  rw [List.mem_eraseDups, List.mem_filterMap]
  constructor
  · rintro ⟨st, hst, h⟩
    cases st with
    | call => simp at h
    | defn m sp shell e =>
      cases shell with
      | some s => simp at h
      | none =>
        simp only at h
        split at h
        · cases h
        · rename_i hc
          simp only [Option.some.injEq] at h
          subst h
          exact ⟨⟨sp, e, hst⟩, by simpa using hc⟩
  · rintro ⟨⟨sp, e, hst⟩, hn⟩
    refine ⟨_, hst, ?_⟩
    simp [hn]

theorem unused_spec_iff (sh : Shell) (g : Grammar) (n : String) :
    n ∈ unusedSpecNames sh g ↔ (∃ sp ss e, Stmt.defn n sp (some (sh.name, ss)) e ∈ g) ∧ n ∉ referred g := by
  unfold unusedSpecNames
  rw [List.mem_eraseDups, List.mem_filterMap]
  constructor
  · rintro ⟨st, hst, h⟩
    cases st with
    | call => simp at h
    | defn m sp shell e =>
      cases shell with
      | none => simp at h
      | some s =>
        obtain ⟨s, ss⟩ := s
        simp only at h
        split at h
        · rename_i hc
          simp only [Option.some.injEq] at h
          subst h
          simp only [Bool.and_eq_true, beq_iff_eq, Bool.not_eq_eq_eq_not, Bool.not_true,
            List.contains_eq_mem, decide_eq_false_iff_not] at hc
          obtain ⟨h1, h2⟩ := hc
          subst h1
          exact ⟨⟨sp, ss, e, hst⟩, h2⟩
        · cases h
  · rintro ⟨⟨sp, ss, e, hst⟩, hn⟩
    refine ⟨_, hst, ?_⟩
    simp [hn]

theorem nodup_eraseDups_aux {α} [BEq α] [LawfulBEq α] (n : Nat) :
    ∀ l : List α, l.length ≤ n → l.eraseDups.Nodup := by
  induction n with
  | zero =>
    intro l hl
    have : l = [] := List.eq_nil_of_length_eq_zero (Nat.le_zero.1 hl)
    subst this
    simp
  | succ n ih =>
    intro l hl
    cases l with
    | nil => simp
    | cons x l =>
      rw [List.eraseDups_cons, List.nodup_cons]
      refine ⟨?_, ?_⟩
      · rw [List.mem_eraseDups, List.mem_filter]
        intro h
        simp at h
      · apply ih
        have h1 := List.length_filter_le (fun b => !b == x) l
        simp only [List.length_cons] at hl
        omega

/-- each set lists a name at most once -/
theorem reported_once (sh : Shell) (g : Grammar) :
    (undefinedNames sh g).Nodup ∧ (unusedNames g).Nodup ∧ (unusedSpecNames sh g).Nodup := by
  refine ⟨?_, ?_, ?_⟩ <;> exact nodup_eraseDups_aux _ _ (Nat.le_refl _)

/-- **What the model warns about as unused is what the specification says**, for every grammar and
target shell the model of check.rs accepts. -/
theorem warn_unused_eq (g : Grammar) (sh : Shell) (v : Check.Valid) (h : Check.validate g sh = .ok v) (n : String) :
    n ∈ v.unused.map (·.1) ↔ n ∈ unusedNames g :=
  Check.validate_unused_eq g sh v h n

/-- hence: a plain definition is reported by the model iff its name occurs in no statement -/
theorem warn_unused_iff (g : Grammar) (sh : Shell) (v : Check.Valid) (h : Check.validate g sh = .ok v) (n : String) :
    n ∈ v.unused.map (·.1) ↔ (∃ sp e, Stmt.defn n sp none e ∈ g) ∧ n ∉ referred g :=
  (warn_unused_eq g sh v h n).trans (unused_iff g n)

/-- **The specialisations the model warns about as unused are what the specification says.** -/
theorem warn_unused_spec_eq (g : Grammar) (sh : Shell) (v : Check.Valid) (h : Check.validate g sh = .ok v) (n : String) :
    n ∈ v.unusedSpecs.map (·.1) ↔ n ∈ unusedSpecNames sh g :=
  Check.validate_unusedSpecs_eq g sh v h n

theorem warn_unused_spec_iff (g : Grammar) (sh : Shell) (v : Check.Valid) (h : Check.validate g sh = .ok v) (n : String) :
    n ∈ v.unusedSpecs.map (·.1) ↔
      (∃ sp ss e, Stmt.defn n sp (some (sh.name, ss)) e ∈ g) ∧ n ∉ referred g :=
  (warn_unused_spec_eq g sh v h n).trans (unused_spec_iff sh g n)

/-- **The names the model reports as undefined are what the specification says**: the names that
still stand for "any word" in the grammar's meaning for the target shell, `_` excepted. -/
theorem warn_undefined_eq (g : Grammar) (sh : Shell) (v : Check.Valid) (h : Check.validate g sh = .ok v) (n : String) :
    (n ∈ v.undefined.map (·.1) ∧ n ≠ "_") ↔ n ∈ undefinedNames sh g :=
  Check.validate_undefined_eq g sh v h n

/-- **Warnings are harmless**: a definition that is warned about as unused — its name occurs in no
statement — does not take part in the grammar's meaning.  `q` selects definitions of `n` (e.g.
`Check.isPlainDefOf n`, `Check.isSpecDefOf n sh`); whenever the model accepts the grammar with and
without them, the validated expression (from which the automaton and every script are built) is the
same. -/
theorem warnings_harmless (g : Grammar) (sh : Shell) (n : String) (q : Stmt → Bool) (hq : Check.DefsOf n q)
    (v v' : Check.Valid) (hu : n ∉ referred g) (h : Check.validate g sh = .ok v)
    (h' : Check.validate (Check.dropWhere q g) sh = .ok v') : v'.expr = v.expr :=
  Check.validate_dropWhere g sh n q hq v v' hu h h'

/-- the two selections the warnings are about -/
theorem harmless_selections (n : String) (sh : Shell) :
    Check.DefsOf n (Check.isPlainDefOf n) ∧ Check.DefsOf n (Check.isSpecDefOf n sh) :=
  ⟨Check.defsOf_plain n, Check.defsOf_spec n sh⟩

end Complgen.Props.C15
