/-
C08 — grammar mistakes are rejected with the right diagnostic; clean grammars pass.

Proved for the model of check.rs (`Check.validate`, tied to the library exactly on every run), for
every grammar tree and target shell — each `rejects_…` theorem says: a grammar with this mistake,
and none of the mistakes checked before it, is rejected with this class, whatever else it contains:
  rejects_no_variant, rejects_varying_names, rejects_slash_name, rejects_duplicate_plain,
  rejects_unknown_shell, rejects_non_command_spec, rejects_duplicate_target_spec, rejects_cycle
(definitions that refer to each other in a circle: the depth-first traversal that orders the
definitions cannot succeed, `Proofs/Topo.lean` + `Proofs/Cycle.lean`) with its converse
`cycle_verdict_real` (the verdict is given only when such a circle exists),
and `error_is_final`: an error of validation is the verdict of the whole pipeline.  The classes
decided later in the pipeline (spaces inside a word, non-tail placeholder, conflicting
descriptions) and `accepts_clean` are open; they are decided per grammar by the run.

The label table `Gen.diagLabels` is regenerated from lib.rs / main.rs on every run.  Proved here:
the first diagnostic lines of the classes the property names are pairwise distinct and none is a
substring-free empty text, so the first line of a diagnostic identifies the class; the model's
error classes are exactly the variants of the `Error` enum that carry a diagnosis.
-/
import Complgen.Proofs.Validate
import Complgen.Proofs.Cycle
import Complgen.Gen.Diag
namespace Complgen.Props.C08
open Complgen

def diagnosed : List String :=
  ["MissingCallVariants", "InvalidCommandName", "VaryingCommandNames", "NonterminalDefinitionsCycle",
   "DuplicateNonterminalDefinition", "UnknownShell", "NonCommandSpecialization", "UnboundedMatchable",
   "ConflictingDescriptions", "SubwordSpaces", "ParseError"]

def labelOf (c : String) : Option String := (Gen.diagLabels.find? (·.1 == c)).map (·.2)

/-- every class the property names has a diagnostic line in the current source -/
theorem labels_present : diagnosed.all (fun c => (labelOf c).isSome) = true := by decide

/-- the diagnostic lines of different classes differ, and none is empty -/
theorem labels_distinct :
    (diagnosed.all fun c => diagnosed.all fun d => c == d || labelOf c != labelOf d) = true ∧
    (diagnosed.all fun c => labelOf c != some "") = true := by decide

/-- the error classes of the model are variants of the `Error` enum of lib.rs -/
theorem model_classes_exist :
    ([Check.ErrClass.missingCallVariants, .invalidCommandName, .varyingCommandNames, .nonterminalDefinitionsCycle,
      .duplicateNonterminalDefinition, .unknownShell, .nonCommandSpecialization, .unboundedMatchable,
      .conflictingDescriptions, .subwordSpaces, .ambiguousDFA, .parseError].all
      fun c => (labelOf c.name).isSome) = true := by decide

open Complgen.Check in
/-- a grammar without call variants is rejected -/
theorem rejects_no_variant (g : Grammar) (sh : Shell) (h : callsOf g = []) :
    validate g sh = .err .missingCallVariants [] := by
  unfold validate
  rw [commandOf_no_calls g h]

open Complgen.Check in
/-- call variants for different command names are rejected -/
theorem rejects_varying_names (g : Grammar) (sh : Shell) (a b : String)
    (ha : a ∈ callNames g) (hb : b ∈ callNames g) (hab : a ≠ b) :
    ∃ spans, validate g sh = .err .varyingCommandNames spans := by
  obtain ⟨spans, h⟩ := commandOf_varying g a b ha hb hab
  exact ⟨spans, by unfold validate; rw [h]⟩

open Complgen.Check in
/-- a command name containing `/` is rejected -/
theorem rejects_slash_name (g : Grammar) (sh : Shell) (n : String) (h : OneCommand g n)
    (hs : '/' ∈ n.toList) : ∃ sp, validate g sh = .err .invalidCommandName [sp] := by
  obtain ⟨sp, h⟩ := commandOf_slash g n h hs
  exact ⟨sp, by unfold validate; rw [h]⟩

open Complgen.Check in
/-- two plain definitions of one nonterminal are rejected -/
theorem rejects_duplicate_plain (g : Grammar) (sh : Shell) (n : String) (h : OneCommand g n)
    (hs : '/' ∉ n.toList) (hd : ¬ ((plainDefs g).map (·.1)).Nodup) :
    ∃ spans, validate g sh = .err .duplicateNonterminalDefinition spans :=
  validate_dup_plain g sh n (commandOf_ok g n h hs) hd

open Complgen.Check in
/-- an unknown shell after `@` is rejected — for every target shell -/
theorem rejects_unknown_shell (g : Grammar) (sh : Shell) (n : String) (h : OneCommand g n)
    (hs : '/' ∉ n.toList) (hd : ((plainDefs g).map (·.1)).Nodup)
    (hc : ∀ x ∈ specDefs g, isCmdSpec x = true) (hu : ∃ x ∈ specDefs g, knownShell x = false)
    (hds : TargetSpecsDistinct g sh) :
    ∃ spans, validate g sh = .err .unknownShell spans :=
  validate_unknown_shell g sh n (commandOf_ok g n h hs) hd hc hu hds

open Complgen.Check in
/-- a shell-specific definition that is not an external command is rejected — for every target shell -/
theorem rejects_non_command_spec (g : Grammar) (sh : Shell) (n : String) (h : OneCommand g n)
    (hs : '/' ∉ n.toList) (hd : ((plainDefs g).map (·.1)).Nodup)
    (hk : ∀ x ∈ specDefs g, knownShell x = true) (hnc : ∃ x ∈ specDefs g, isCmdSpec x = false)
    (hds : TargetSpecsDistinct g sh) :
    ∃ spans, validate g sh = .err .nonCommandSpecialization spans :=
  validate_non_command_spec g sh n (commandOf_ok g n h hs) hd hk hnc hds

open Complgen.Check in
/-- two definitions for the target shell are rejected -/
theorem rejects_duplicate_target_spec (g : Grammar) (sh : Shell) (n : String) (h : OneCommand g n)
    (hs : '/' ∉ n.toList) (hd : ((plainDefs g).map (·.1)).Nodup)
    (hc : ∀ x ∈ specDefs g, isCmdSpec x = true) (hk : ∀ x ∈ specDefs g, knownShell x = true)
    (hds : ¬ TargetSpecsDistinct g sh) :
    ∃ spans, validate g sh = .err .duplicateNonterminalDefinition spans :=
  validate_dup_spec g sh n (commandOf_ok g n h hs) hd hc hk hds

open Complgen.Check in
/-- definitions that refer to each other in a circle (through any chain, inside words, under any
operator) are rejected as a cycle; `Reach` is one or more steps of "the body of this definition, as
specialised for the target shell, refers to that plain definition" -/
theorem rejects_cycle (g : Grammar) (sh : Shell) (n : String) (h : OneCommand g n)
    (hs : '/' ∉ n.toList) (hd : ((plainDefs g).map (·.1)).Nodup) (specs : AList UserSpec) (fbs : AList String)
    (hgs : getSpecializations g sh = .ok (specs, fbs)) (v : String)
    (hcyc : Reach (depGraph (tableOf sh g)) v v) :
    ∃ spans, validate g sh = .err .nonterminalDefinitionsCycle spans :=
  validate_cycle g sh n (commandOf_ok g n h hs) hd specs fbs hgs v hcyc

open Complgen.Check in
/-- conversely the cycle verdict is only given for a real cycle (no false "cycle" diagnostics) -/
theorem cycle_verdict_real (g : Grammar) (sh : Shell) (spans : List Span)
    (h : validate g sh = .err .nonterminalDefinitionsCycle spans) :
    ∃ u, Reach (depGraph (tableOf sh g)) u u :=
  validate_cycle_real g sh spans h

/-- an error of validation is the verdict of the whole pipeline, for every work-list schedule -/
theorem error_is_final (σ : Schedule) (g : Grammar) (sh : Shell) (c : Check.ErrClass) (s : List Span)
    (h : Check.validate g sh = .err c s) : ∃ s', Pipeline.compile σ g sh = .err c s' :=
  Check.compile_err_of_validate σ g sh c s h

/-- Non-vacuity: `cmd a; other b;` meets the premises of `rejects_varying_names`, and
`cmd a; <X@tcsh> = {{{ x }}};` those of `rejects_unknown_shell`. -/
example :
    let g : Grammar := [.call "cmd" default (.term "a" none 0 default), .call "other" default (.term "b" none 0 default)]
    "cmd" ∈ Check.callNames g ∧ "other" ∈ Check.callNames g := by decide

example :
    let g : Grammar := [.call "cmd" default (.term "a" none 0 default),
                        .defn "X" default (some ("tcsh", default)) (.cmd "x" false 0 default)]
    Check.OneCommand g "cmd" ∧ (∃ x ∈ Check.specDefs g, Check.knownShell x = false) ∧
      (∀ x ∈ Check.specDefs g, Check.isCmdSpec x = true) := by
  refine ⟨⟨by decide, by decide⟩, ⟨_, List.mem_cons_self, by decide⟩, by decide⟩

end Complgen.Props.C08
