/-
C08 — grammar mistakes are rejected with the right diagnostic; clean grammars pass.

Proved for the model of check.rs (`Check.validate`, tied to the library exactly on every run), for
every grammar tree and target shell — each `rejects_…` theorem says: a grammar with this mistake,
and none of the mistakes checked before it, is rejected with this class, whatever else it contains:
  rejects_no_variant, rejects_varying_names, rejects_slash_name, rejects_duplicate_plain,
  rejects_unknown_shell, rejects_non_command_spec, rejects_duplicate_target_spec, rejects_cycle
(definitions that refer to each other in a circle: the depth-first traversal that orders the
definitions cannot succeed, `Proofs/Topo.lean` + `Proofs/Cycle.lean`) with its converse
`cycle_verdict_real` (the verdict is given only when such a circle exists),
and `error_is_final`: an error of validation is the verdict of the whole pipeline.  The classes
decided later in the pipeline (spaces inside a word, non-tail placeholder, conflicting
descriptions) and `accepts_clean` are open; they are decided per grammar by the run.

The label table `Gen.diagLabels` is regenerated from lib.rs / main.rs on every run.  Proved here:
the first diagnostic lines of the classes the property names are pairwise distinct and none is a
substring-free empty text, so the first line of a diagnostic identifies the class; the model's
error classes are exactly the variants of the `Error` enum that carry a diagnosis.
-/
import Complgen.Proofs.Validate
import Complgen.Proofs.Cycle
import Complgen.Gen.Diag
import Complgen.Proofs.Verdict
namespace Complgen.Props.C08
open Complgen

def diagnosed : List String :=
  ["MissingCallVariants", "InvalidCommandName", "VaryingCommandNames", "NonterminalDefinitionsCycle",
   "DuplicateNonterminalDefinition", "UnknownShell", "NonCommandSpecialization", "UnboundedMatchable",
   "ConflictingDescriptions", "SubwordSpaces", "ParseError"]

def labelOf (c : String) : Option String := (Gen.diagLabels.find? (·.1 == c)).map (·.2)

/-- every class the property names has a diagnostic line in the current source -/
theorem labels_present : diagnosed.all (fun c => (labelOf c).isSome) = true := by decide

/-- the diagnostic lines of different classes differ, and none is empty -/
theorem labels_distinct :
    (diagnosed.all fun c => diagnosed.all fun d => c == d || labelOf c != labelOf d) = true ∧
    (diagnosed.all fun c => labelOf c != some "") = true := by decide

/-- the error classes of the model are variants of the `Error` enum of lib.rs -/
theorem model_classes_exist :
    ([Check.ErrClass.missingCallVariants, .invalidCommandName, .varyingCommandNames, .nonterminalDefinitionsCycle,
      .duplicateNonterminalDefinition, .unknownShell, .nonCommandSpecialization, .unboundedMatchable,
      .conflictingDescriptions, .subwordSpaces, .ambiguousDFA, .parseError].all
      fun c => (labelOf c.name).isSome) = true := by decide

open Complgen.Check in
/-- a grammar without call variants is rejected -/
theorem rejects_no_variant (g : Grammar) (sh : Shell) (h : callsOf g = []) :
    validate g sh = .err .missingCallVariants [] := by
  unfold validate
  rw [commandOf_no_calls g h]

open Complgen.Check in
/-- call variants for different command names are rejected -/
theorem rejects_varying_names (g : Grammar) (sh : Shell) (a b : String)
    (ha : a ∈ callNames g) (hb : b ∈ callNames g) (hab : a ≠ b) :
    ∃ spans, validate g sh = .err .varyingCommandNames spans := by
  obtain ⟨spans, h⟩ := commandOf_varying g a b ha hb hab
  exact ⟨spans, by unfold validate; rw [h]⟩

open Complgen.Check in
/-- a command name containing `/` is rejected -/
theorem rejects_slash_name (g : Grammar) (sh : Shell) (n : String) (h : OneCommand g n)
    (hs : '/' ∈ n.toList) : ∃ sp, validate g sh = .err .invalidCommandName [sp] := by
  obtain ⟨sp, h⟩ := commandOf_slash g n h hs
  exact ⟨sp, by unfold validate; rw [h]⟩

open Complgen.Check in
/-- two plain definitions of one nonterminal are rejected -/
theorem rejects_duplicate_plain (g : Grammar) (sh : Shell) (n : String) (h : OneCommand g n)
    (hs : '/' ∉ n.toList) (hd : ¬ ((plainDefs g).map (·.1)).Nodup) :
    ∃ spans, validate g sh = .err .duplicateNonterminalDefinition spans :=
  validate_dup_plain g sh n (commandOf_ok g n h hs) hd

open Complgen.Check in
/-- an unknown shell after `@` is rejected — for every target shell -/
theorem rejects_unknown_shell (g : Grammar) (sh : Shell) (n : String) (h : OneCommand g n)
    (hs : '/' ∉ n.toList) (hd : ((plainDefs g).map (·.1)).Nodup)
    (hc : ∀ x ∈ specDefs g, isCmdSpec x = true) (hu : ∃ x ∈ specDefs g, knownShell x = false)
    (hds : TargetSpecsDistinct g sh) :
    ∃ spans, validate g sh = .err .unknownShell spans :=
  validate_unknown_shell g sh n (commandOf_ok g n h hs) hd hc hu hds

open Complgen.Check in
/-- a shell-specific definition that is not an external command is rejected — for every target shell -/
theorem rejects_non_command_spec (g : Grammar) (sh : Shell) (n : String) (h : OneCommand g n)
    (hs : '/' ∉ n.toList) (hd : ((plainDefs g).map (·.1)).Nodup)
    (hk : ∀ x ∈ specDefs g, knownShell x = true) (hnc : ∃ x ∈ specDefs g, isCmdSpec x = false)
    (hds : TargetSpecsDistinct g sh) :
    ∃ spans, validate g sh = .err .nonCommandSpecialization spans :=
  validate_non_command_spec g sh n (commandOf_ok g n h hs) hd hk hnc hds

open Complgen.Check in
/-- two definitions for the target shell are rejected -/
theorem rejects_duplicate_target_spec (g : Grammar) (sh : Shell) (n : String) (h : OneCommand g n)
    (hs : '/' ∉ n.toList) (hd : ((plainDefs g).map (·.1)).Nodup)
    (hc : ∀ x ∈ specDefs g, isCmdSpec x = true) (hk : ∀ x ∈ specDefs g, knownShell x = true)
    (hds : ¬ TargetSpecsDistinct g sh) :
    ∃ spans, validate g sh = .err .duplicateNonterminalDefinition spans :=
  validate_dup_spec g sh n (commandOf_ok g n h hs) hd hc hk hds

open Complgen.Check in
/-- definitions that refer to each other in a circle (through any chain, inside words, under any
operator) are rejected as a cycle; `Reach` is one or more steps of "the body of this definition, as
specialised for the target shell, refers to that plain definition" -/
theorem rejects_cycle (g : Grammar) (sh : Shell) (n : String) (h : OneCommand g n)
    (hs : '/' ∉ n.toList) (hd : ((plainDefs g).map (·.1)).Nodup) (specs : AList UserSpec) (fbs : AList String)
    (hgs : getSpecializations g sh = .ok (specs, fbs)) (v : String)
    (hcyc : Reach (depGraph (tableOf sh g)) v v) :
    ∃ spans, validate g sh = .err .nonterminalDefinitionsCycle spans :=
  validate_cycle g sh n (commandOf_ok g n h hs) hd specs fbs hgs v hcyc

open Complgen.Check in
/-- conversely the cycle verdict is only given for a real cycle (no false "cycle" diagnostics) -/
theorem cycle_verdict_real (g : Grammar) (sh : Shell) (spans : List Span)
    (h : validate g sh = .err .nonterminalDefinitionsCycle spans) :
    ∃ u, Reach (depGraph (tableOf sh g)) u u :=
  validate_cycle_real g sh spans h

/-- an error of validation is the verdict of the whole pipeline, for every work-list schedule -/
theorem error_is_final (σ : Schedule) (g : Grammar) (sh : Shell) (c : Check.ErrClass) (s : List Span)
    (h : Check.validate g sh = .err c s) : ∃ s', Pipeline.compile σ g sh = .err c s' :=
  Check.compile_err_of_validate σ g sh c s h

/-- Non-vacuity: `cmd a; other b;` meets the premises of `rejects_varying_names`, and
`cmd a; <X@tcsh> = {{{ x }}};` those of `rejects_unknown_shell`. -/
example :
    let g : Grammar := [.call "cmd" default (.term "a" none 0 default), .call "other" default (.term "b" none 0 default)]
    "cmd" ∈ Check.callNames g ∧ "other" ∈ Check.callNames g := by decide

example :
    let g : Grammar := [.call "cmd" default (.term "a" none 0 default),
                        .defn "X" default (some ("tcsh", default)) (.cmd "x" false 0 default)]
    Check.OneCommand g "cmd" ∧ (∃ x ∈ Check.specDefs g, Check.knownShell x = false) ∧
      (∀ x ∈ Check.specDefs g, Check.isCmdSpec x = true) := by
  refine ⟨⟨by decide, by decide⟩, ⟨_, List.mem_cons_self, by decide⟩, by decide⟩

open Complgen.Check in
/-- **No false diagnostics**: each of the eight verdicts of validation is only given when the mistake it
names is present (`Proofs/Verdict.lean`).  For "non-command specialization" the mistake has two forms —
the code also requires a *plain* definition of a name that is defined for the target shell as well to be
an external command (it is that definition's fall-back). -/
theorem no_false_diagnostics (g : Grammar) (sh : Shell) (spans : List Span) :
    (validate g sh = .err .missingCallVariants spans → callsOf g = []) ∧
    (validate g sh = .err .varyingCommandNames spans → ∃ a b, a ∈ callNames g ∧ b ∈ callNames g ∧ a ≠ b) ∧
    (validate g sh = .err .invalidCommandName spans → ∃ n, OneCommand g n ∧ '/' ∈ n.toList) ∧
    (validate g sh = .err .duplicateNonterminalDefinition spans →
      ¬ ((plainDefs g).map (·.1)).Nodup ∨ ¬ TargetSpecsDistinct g sh) ∧
    (validate g sh = .err .unknownShell spans → ∃ x ∈ specDefs g, knownShell x = false) ∧
    (validate g sh = .err .nonCommandSpecialization spans →
      (∃ x ∈ specDefs g, isCmdSpec x = false) ∨
      (∃ p ∈ plainDefs g, p.1 ∈ targetSpecNames g sh ∧ isCmdExpr p.2.2 = false)) ∧
    (validate g sh = .err .nonterminalDefinitionsCycle spans → Cyclic g sh) ∧
    (validate g sh = .err .subwordSpaces spans →
      ∃ l r t, spacesVerdict g sh = .bad l r t ∧ spans = l :: r :: t) :=
  ⟨missingCallVariants_real g sh spans, varyingCommandNames_real g sh spans, invalidCommandName_real g sh spans,
   duplicateNonterminalDefinition_real g sh spans, unknownShell_real g sh spans,
   nonCommandSpecialization_real g sh spans, validate_cycle_real g sh spans, subwordSpaces_real g sh spans⟩

open Complgen.Check in
/-- validation gives no other verdicts than these eight -/
theorem verdict_classes (g : Grammar) (sh : Shell) (c : ErrClass) (spans : List Span)
    (h : validate g sh = .err c spans) :
    c = .missingCallVariants ∨ c = .varyingCommandNames ∨ c = .invalidCommandName ∨
    c = .duplicateNonterminalDefinition ∨ c = .unknownShell ∨ c = .nonCommandSpecialization ∨
    c = .nonterminalDefinitionsCycle ∨ c = .subwordSpaces :=
  validate_classes g sh c spans h

open Complgen.Check in
/-- **Clean grammars pass**: one command name without `/`, every name defined at most once plainly and at
most once for the target shell, every shell-specific definition an external command for a known shell,
the plain definitions shadowed by a target-shell definition external commands, no circle among the
definitions, no blank-separated items inside a word — then validation accepts. -/
theorem clean_grammars_pass (g : Grammar) (sh : Shell) (n : String) (h : OneCommand g n)
    (hs : '/' ∉ n.toList) (hd : ((plainDefs g).map (·.1)).Nodup)
    (hc : ∀ x ∈ specDefs g, isCmdSpec x = true) (hk : ∀ x ∈ specDefs g, knownShell x = true)
    (hds : TargetSpecsDistinct g sh) (hsh : ShadowedPlainAreCmds g sh)
    (hcyc : ¬ ∃ u, Reach (depGraph (tableOf sh g)) u u) (hsp : spacesVerdict g sh = .fine) :
    ∃ v, validate g sh = .ok v :=
  validate_ok_of_clean g sh n h hs hd hc hk hds hsh hcyc hsp

open Complgen.Check in
/-- … and only they: an accepted grammar has none of the mistakes -/
theorem accepted_is_clean (g : Grammar) (sh : Shell) (v : Valid) (h : validate g sh = .ok v) :
    ∃ n, WellFormed g sh n ∧ ¬ Cyclic g sh ∧ spacesVerdict g sh = .fine :=
  accepted_real g sh v h

open Complgen.Check in
/-- the condition on shadowed plain definitions cannot be dropped: `cmd <X>; <X> ::= foo; <X@bash> ::= {{{ x }}};`
meets all the others and is rejected for bash -/
theorem shadowed_plain_must_be_command :
    OneCommand shadowExample "cmd" ∧ '/' ∉ "cmd".toList ∧ ((plainDefs shadowExample).map (·.1)).Nodup ∧
    (∀ x ∈ specDefs shadowExample, isCmdSpec x = true) ∧ (∀ x ∈ specDefs shadowExample, knownShell x = true) ∧
    TargetSpecsDistinct shadowExample .bash ∧
    (¬ ∃ u, Reach (depGraph (tableOf .bash shadowExample)) u u) ∧
    spacesVerdict shadowExample .bash = .fine ∧
    validate shadowExample .bash = .err .nonCommandSpecialization [default] ∧
    ¬ ShadowedPlainAreCmds shadowExample .bash :=
  clean_needs_shadowed

open Complgen.Check in
/-- **The verdict as a decision list**, in the order the code runs its checks: the first condition that holds
decides the outcome (the shell-specific definitions are examined in source order; within one, "not a command"
wins over "unknown shell", which wins over "second definition for the target"). -/
theorem verdict_decision_list (g : Grammar) (sh : Shell) :
    (callsOf g = [] → validate g sh = .err .missingCallVariants []) ∧
    (∀ a b, a ∈ callNames g → b ∈ callNames g → a ≠ b →
      ∃ spans, validate g sh = .err .varyingCommandNames spans) ∧
    (∀ n, OneCommand g n → '/' ∈ n.toList → ∃ sp, validate g sh = .err .invalidCommandName [sp]) ∧
    (∀ n, OneCommand g n → '/' ∉ n.toList → ¬ ((plainDefs g).map (·.1)).Nodup →
      ∃ spans, validate g sh = .err .duplicateNonterminalDefinition spans) ∧
    (∀ n, OneCommand g n → '/' ∉ n.toList → ((plainDefs g).map (·.1)).Nodup →
      ∀ x, FirstSpecFault g sh x →
        (isCmdSpec x = false → validate g sh = .err .nonCommandSpecialization [x.2.2.2.2.span]) ∧
        (isCmdSpec x = true → knownShell x = false → validate g sh = .err .unknownShell [x.2.2.2.1]) ∧
        (isCmdSpec x = true → knownShell x = true →
          ∃ spans, validate g sh = .err .duplicateNonterminalDefinition spans)) ∧
    (∀ n, OneCommand g n → '/' ∉ n.toList → ((plainDefs g).map (·.1)).Nodup → SpecsClean g sh →
      ¬ ShadowedPlainAreCmds g sh → ∃ spans, validate g sh = .err .nonCommandSpecialization spans) ∧
    (∀ n, WellFormed g sh n → Cyclic g sh → ∃ spans, validate g sh = .err .nonterminalDefinitionsCycle spans) ∧
    (∀ n, WellFormed g sh n → ¬ Cyclic g sh →
      ∀ l r t, spacesVerdict g sh = .bad l r t → validate g sh = .err .subwordSpaces (l :: r :: t)) ∧
    (∀ n, WellFormed g sh n → ¬ Cyclic g sh → spacesVerdict g sh = .overflow →
      validate g sh = .crash spacesCrash) ∧
    (∀ n, WellFormed g sh n → ¬ Cyclic g sh → spacesVerdict g sh = .fine → ∃ v, validate g sh = .ok v) :=
  validate_verdict g sh

open Complgen.Check in
/-- the premises of the decision list cover every grammar -/
theorem verdict_exhaustive (g : Grammar) (sh : Shell) :
    callsOf g = [] ∨
    (∃ a b, a ∈ callNames g ∧ b ∈ callNames g ∧ a ≠ b) ∨
    (∃ n, OneCommand g n ∧ '/' ∈ n.toList) ∨
    (∃ n, OneCommand g n ∧ '/' ∉ n.toList ∧ ¬ ((plainDefs g).map (·.1)).Nodup) ∨
    (∃ n, OneCommand g n ∧ '/' ∉ n.toList ∧ ((plainDefs g).map (·.1)).Nodup ∧ ∃ x, FirstSpecFault g sh x) ∨
    (∃ n, OneCommand g n ∧ '/' ∉ n.toList ∧ ((plainDefs g).map (·.1)).Nodup ∧ SpecsClean g sh ∧
      ¬ ShadowedPlainAreCmds g sh) ∨
    (∃ n, WellFormed g sh n ∧ Cyclic g sh) ∨
    (∃ n, WellFormed g sh n ∧ ¬ Cyclic g sh) :=
  validate_verdict_exhaustive g sh

end Complgen.Props.C08
