/-
C08 — grammar mistakes are rejected with the right diagnostic; clean grammars pass.

The label table `Gen.diagLabels` is regenerated from lib.rs / main.rs on every run.  Proved here:
the first diagnostic lines of the classes the property names are pairwise distinct and none is a
substring-free empty text, so the first line of a diagnostic identifies the class; the model's
error classes are exactly the variants of the `Error` enum that carry a diagnosis.
-/
import Complgen.Model.Check
import Complgen.Gen.Diag
namespace Complgen.Props.C08
open Complgen

def diagnosed : List String :=
  ["MissingCallVariants", "InvalidCommandName", "VaryingCommandNames", "NonterminalDefinitionsCycle",
   "DuplicateNonterminalDefinition", "UnknownShell", "NonCommandSpecialization", "UnboundedMatchable",
   "ConflictingDescriptions", "SubwordSpaces", "ParseError"]

def labelOf (c : String) : Option String := (Gen.diagLabels.find? (·.1 == c)).map (·.2)

/-- every class the property names has a diagnostic line in the current source -/
theorem labels_present : diagnosed.all (fun c => (labelOf c).isSome) = true := by decide

/-- the diagnostic lines of different classes differ, and none is empty -/
theorem labels_distinct :
    (diagnosed.all fun c => diagnosed.all fun d => c == d || labelOf c != labelOf d) = true ∧
    (diagnosed.all fun c => labelOf c != some "") = true := by decide

/-- the error classes of the model are variants of the `Error` enum of lib.rs -/
theorem model_classes_exist :
    ([Check.ErrClass.missingCallVariants, .invalidCommandName, .varyingCommandNames, .nonterminalDefinitionsCycle,
      .duplicateNonterminalDefinition, .unknownShell, .nonCommandSpecialization, .unboundedMatchable,
      .conflictingDescriptions, .subwordSpaces, .ambiguousDFA, .parseError].all
      fun c => (labelOf c.name).isSome) = true := by decide

end Complgen.Props.C08
