/-
C16 — the --dfa and --regex Graphviz dumps are well-formed and show the real automaton.

The label escaping chains (`Gen.dotRegexCmdChain`: `make_dot_string_constant`; `Gen.dotDfaLabelChain`:
the chain applied to edge labels in dfa.rs) are regenerated from the source on every run.  Proved:
for every string, the DOT string reader (`Quote.dotDialect`: `\"` is a quote, `\\` a backslash,
everything else is kept) gives back the original text from the escaped constant — so no label can
end its string early or be altered, whatever quotes and backslashes it contains.  The run parses
the real files with `Model/Dot.lean` and compares the graph with the library's automaton.

And over a model of the emitter itself (`Model/DotEmit.lean`: `DFA::to_dot` / `do_to_dot` line by line —
node shapes, the dead state 0 among the plain nodes, clusters for the within-word automata numbered in
order of first use, labelled edges with `diagnostic_display_input` and the label chain, dashed entry
and exit edges — compared byte for byte with the real `--dfa` file on every case of the run):
`dfa_dump_shows_the_automaton` — for *every* automaton, pool of within-word automata and numbering
base, whatever characters its literals, descriptions and commands contain, the text the emitter
writes is read by the DOT reader as exactly the graph `expectedStmts` describes (one node per state,
one labelled edge per transition, one cluster per within-word automaton …), in particular
`dfa_dump_well_formed`; and `dfa_label_displayed` — what graphviz displays for a label is the item's
text.
-/
import Complgen.Proofs.Quote
import Complgen.Gen.Chains
import Complgen.Model.Dot
import Complgen.Proofs.DotEmit
namespace Complgen.Props.C16
open Complgen.Quote Complgen.Gen

theorem dot_cmd_chain_ok : chainOK dotDialect dotRegexCmdChain = true := by decide
theorem dot_label_chain_ok : chainOK dotDialect dotDfaLabelChain = true := by decide

theorem dot_cmd_label_roundtrip (s : List Char) :
    dotDialect.decode (applyChain dotRegexCmdChain s) = some s :=
  chain_roundtrip _ _ dot_cmd_chain_ok s

theorem dot_dfa_label_roundtrip (s : List Char) :
    dotDialect.decode (applyChain dotDfaLabelChain s) = some s :=
  chain_roundtrip _ _ dot_label_chain_ok s

/-- Non-vacuity: the string reader of the DOT model turns `\"` into a quote, keeps a pair `\\`, and a pair
`\\` followed by `"` ends the string (the way an unescaped backslash breaks a label). -/
example : Dot.lexQuoted ['a', '\\', '"', 'b', '"', 'x'] [] = some (['a', '"', 'b'], ['x']) ∧
    Dot.lexQuoted ['a', '\\', '\\', '"', 'b', '"'] [] = some (['a', '\\', '\\'], ['b', '"']) := by
  decide

/-- **The `--dfa` dump shows the automaton**: the text of the emitter model parses to the expected graph,
for every automaton and every numbering base. -/
theorem dfa_dump_shows_the_automaton (d : Dfa) (base : Nat) :
    Dot.parse (Dot.emitDfa d base) = some ("dfa", Dot.expectedStmts d base) :=
  Dot.emitDfa_parse d base

/-- **… and is always well-formed DOT** -/
theorem dfa_dump_well_formed (d : Dfa) (base : Nat) : (Dot.parse (Dot.emitDfa d base)).isSome = true :=
  Dot.emitDfa_wellFormed d base

/-- an edge label, as written by the emitter (`escLabel`), is read by the string reader as a value whose
displayed form is the original text -/
theorem dfa_label_displayed (s rest acc : List Char) :
    Dot.lexQuoted (Dot.escLabel s ++ '"' :: rest) acc = some (acc ++ Dot.labelValue s, rest) ∧
    Dot.display (Dot.labelValue s) = s :=
  ⟨Dot.lexQuoted_escLabel s rest acc, Dot.display_labelValue s⟩

/-- the label chain of the emitter model is the chain regenerated from the source -/
theorem emitter_chain_is_source_chain : Dot.dotLabelChain = Complgen.Gen.dotDfaLabelChain :=
  Dot.dotLabelChain_eq_gen

end Complgen.Props.C16
