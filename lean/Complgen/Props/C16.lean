/-
C16 — the --dfa and --regex Graphviz dumps are well-formed and show the real automaton.

The label escaping chains (`Gen.dotRegexCmdChain`: `make_dot_string_constant`; `Gen.dotDfaLabelChain`:
the chain applied to edge labels in dfa.rs) are regenerated from the source on every run.  Proved:
for every string, the DOT string reader (`Quote.dotDialect`: `\"` is a quote, `\\` a backslash,
everything else is kept) gives back the original text from the escaped constant — so no label can
end its string early or be altered, whatever quotes and backslashes it contains.  The run parses
the real files with `Model/Dot.lean` and compares the graph with the library's automaton.
-/
import Complgen.Proofs.Quote
import Complgen.Gen.Chains
import Complgen.Model.Dot
namespace Complgen.Props.C16
open Complgen.Quote Complgen.Gen

theorem dot_cmd_chain_ok : chainOK dotDialect dotRegexCmdChain = true := by decide
theorem dot_label_chain_ok : chainOK dotDialect dotDfaLabelChain = true := by decide

theorem dot_cmd_label_roundtrip (s : List Char) :
    dotDialect.decode (applyChain dotRegexCmdChain s) = some s :=
  chain_roundtrip _ _ dot_cmd_chain_ok s

theorem dot_dfa_label_roundtrip (s : List Char) :
    dotDialect.decode (applyChain dotDfaLabelChain s) = some s :=
  chain_roundtrip _ _ dot_label_chain_ok s

/-- Non-vacuity: the string reader of the DOT model turns `\"` into a quote, keeps a pair `\\`, and a pair
`\\` followed by `"` ends the string (the way an unescaped backslash breaks a label). -/
example : Dot.lexQuoted ['a', '\\', '"', 'b', '"', 'x'] [] = some (['a', '"', 'b'], ['x']) ∧
    Dot.lexQuoted ['a', '\\', '\\', '"', 'b', '"'] [] = some (['a', '\\', '\\'], ['b', '"']) := by
  decide

end Complgen.Props.C16
