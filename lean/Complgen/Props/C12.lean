/-
C12 — inside a word, overlapping alternatives are told apart correctly.

Proved over the Lean model of the bash template (`Model/BashRt.lean`, compared with the real bash on
every explored command line): `overlap_match` — a fully typed value `h ++ v` is read as head then
value `v` by the one-pass matcher, whatever other values are prefixes of `v` or have `v` as a prefix,
provided the literal table lists the literals before `v` at least as long as `v` (the
decreasing-length order of dfa.rs, checked on every emitted table by the run);
`overlap_complete_stop` — a partially typed value stops the matcher at the point where the values
are expected (so that exactly the values extending it are offered), no shorter value consuming part
of it first.  Before the repair 4d96d3e `overlap_match` was false of the template (the stop test
fired in `matches` mode).

The expectation the check uses is the statement written outright over the value list `L`:
a partially typed value `p` is offered exactly `L.filter (p <+: ·)`.  Proved here: that set never
drops a longer value because a shorter one also matches (`longest_kept`), contains a value typed in
full (`full_value_offered`), and offers nothing foreign (`only_allowed`).  The theorems about the
one-pass matcher of the template (`overlap_match`, `overlap_complete`) are the open growth target.
-/
import Complgen.Proofs.Overlap
namespace Complgen.Props.C12
open Complgen.BashRt

def extending (L : List (List Char)) (p : List Char) : List (List Char) := L.filter (p.isPrefixOf ·)

theorem only_allowed (L : List (List Char)) (p v : List Char) (h : v ∈ extending L p) :
    v ∈ L ∧ p.isPrefixOf v = true := by
  simpa [extending, List.mem_filter] using h

theorem full_value_offered (L : List (List Char)) (v : List Char) (h : v ∈ L) : v ∈ extending L v := by
  simp [extending, List.mem_filter, h]

/-- the longest value is never cut short by a shorter one: both are offered -/
theorem longest_kept (L : List (List Char)) (p short long : List Char)
    (hs : short ∈ L) (hl : long ∈ L) (hps : p.isPrefixOf short = true) (hsl : short.isPrefixOf long = true) :
    short ∈ extending L p ∧ long ∈ extending L p := by
  have h1 : p <+: short := List.isPrefixOf_iff_prefix.mp hps
  have h2 : short <+: long := List.isPrefixOf_iff_prefix.mp hsl
  have h3 : p.isPrefixOf long = true := List.isPrefixOf_iff_prefix.mpr (List.IsPrefix.trans h1 h2)
  simp [extending, List.mem_filter, hs, hl, hps, h3]

/-- **A fully typed value is recognised as that value.** -/
theorem overlap_match (T : Tables) (out : Nat → List String) (h v : String) (ih iv q2 : Nat)
    (row1 : List (Nat × Nat)) (hh : h.toList ≠ []) (hv : v.toList ≠ [])
    (hrow0 : rowOf T.litTrans 0 = some [(ih, 1)]) (hrow1 : rowOf T.litTrans 1 = some row1)
    (hlh : T.literals[ih]? = some h) (hlv : T.literals[iv]? = some v) (htv : toOf row1 iv = some q2)
    (hhv : isPrefix (h ++ v).toList h.toList = false)
    (hsorted : ∀ i, i < iv → ∀ l, T.literals[i]? = some l → l.length ≥ v.length ∧ l ≠ v) :
    subLoop T out .matchesMode (h ++ v).toList ((h ++ v).toList.length + 1) 0 0 =
      (q2, (h ++ v).toList.length, true) :=
  BashRt.overlap_match T out h v ih iv q2 row1 hh hv hrow0 hrow1 hlh hlv htv hhv hsorted

/-- **A partially typed value stops the matcher where the values are expected.** -/
theorem overlap_complete_stop (lits0 : List String) (row : List (Nat × Nat)) (p : List Char)
    (rest : List String) (id j : Nat) (lj : String) (h : rest[j]? = some lj)
    (ht : (toOf row (id + j)).isSome = true) (hp : isPrefix p lj.toList = true) (hne : p ≠ lj.toList)
    (hb : ∀ i, i < j → ∀ l, rest[i]? = some l → l.length ≥ lj.length ∧
        ¬ ((toOf row (id + i)).isSome = true ∧ isPrefix p l.toList = true)) :
    litPass .complete lits0 row p id rest = .stop :=
  litPass_complete_stop lits0 row p rest id j lj h ht hp hne hb

example : extending ["a".toList, "abc".toList, "abcd".toList, "x".toList] "ab".toList = ["abc".toList, "abcd".toList] := by
  decide

end Complgen.Props.C12
