/-
C12 — inside a word, overlapping alternatives are told apart correctly.

The expectation the check uses is the statement written outright over the value list `L`:
a partially typed value `p` is offered exactly `L.filter (p <+: ·)`.  Proved here: that set never
drops a longer value because a shorter one also matches (`longest_kept`), contains a value typed in
full (`full_value_offered`), and offers nothing foreign (`only_allowed`).  The theorems about the
one-pass matcher of the template (`overlap_match`, `overlap_complete`) are the open growth target.
-/
namespace Complgen.Props.C12

def extending (L : List (List Char)) (p : List Char) : List (List Char) := L.filter (p.isPrefixOf ·)

theorem only_allowed (L : List (List Char)) (p v : List Char) (h : v ∈ extending L p) :
    v ∈ L ∧ p.isPrefixOf v = true := by
  simpa [extending, List.mem_filter] using h

theorem full_value_offered (L : List (List Char)) (v : List Char) (h : v ∈ L) : v ∈ extending L v := by
  simp [extending, List.mem_filter, h]

/-- the longest value is never cut short by a shorter one: both are offered -/
theorem longest_kept (L : List (List Char)) (p short long : List Char)
    (hs : short ∈ L) (hl : long ∈ L) (hps : p.isPrefixOf short = true) (hsl : short.isPrefixOf long = true) :
    short ∈ extending L p ∧ long ∈ extending L p := by
  have h1 : p <+: short := List.isPrefixOf_iff_prefix.mp hps
  have h2 : short <+: long := List.isPrefixOf_iff_prefix.mp hsl
  have h3 : p.isPrefixOf long = true := List.isPrefixOf_iff_prefix.mpr (List.IsPrefix.trans h1 h2)
  simp [extending, List.mem_filter, hs, hl, hps, h3]

example : extending ["a".toList, "abc".toList, "abcd".toList, "x".toList] "ab".toList = ["abc".toList, "abcd".toList] := by
  decide

end Complgen.Props.C12
