/-
C14 — layout and statement order do not change the output.

No theorem closes this property yet (the chain layout_irrelevant → span_irrelevant →
defn_order_irrelevant of DESIGN.md §3 C14 rests on the parser model of C05).  What is proved is the
one step that does not need the parser: spans never influence the *meaning* the specification
assigns — the automaton of the grammar's meaning is built from a span-free regular expression.
-/
import Complgen.Spec.Den
namespace Complgen.Props.C14
open Complgen Complgen.Spec

mutual
theorem toSRx_eraseSpans (wk : Expr → String) (hwk : ∀ c, wk c.eraseSpans = wk c) :
    ∀ e : Expr, toSRx wk e.eraseSpans = toSRx wk e
  | .term .. => by simp [Expr.eraseSpans, toSRx]
  | .nonterm .. => by simp [Expr.eraseSpans, toSRx]
  | .cmd .. => by simp [Expr.eraseSpans, toSRx]
  | .sub c l s => by simp [Expr.eraseSpans, toSRx, hwk]
  | .seq cs _ => by simp [Expr.eraseSpans, toSRx, toSRxCat_eraseSpans wk hwk cs]
  | .alt cs _ => by simp [Expr.eraseSpans, toSRx, toSRxAlt_eraseSpans wk hwk cs]
  | .fb cs _ => by simp [Expr.eraseSpans, toSRx, toSRxAlt_eraseSpans wk hwk cs]
  | .opt c _ => by simp [Expr.eraseSpans, toSRx, toSRx_eraseSpans wk hwk c]
  | .many1 c _ => by simp [Expr.eraseSpans, toSRx, toSRx_eraseSpans wk hwk c]
  | .dd c _ _ => by simp [Expr.eraseSpans, toSRx, toSRx_eraseSpans wk hwk c]
theorem toSRxCat_eraseSpans (wk : Expr → String) (hwk : ∀ c, wk c.eraseSpans = wk c) :
    ∀ es : ExprL, toSRxCat wk es.eraseSpans = toSRxCat wk es
  | .nil => by simp [ExprL.eraseSpans, toSRxCat]
  | .cons e es => by
    simp [ExprL.eraseSpans, toSRxCat, toSRx_eraseSpans wk hwk e, toSRxCat_eraseSpans wk hwk es]
theorem toSRxAlt_eraseSpans (wk : Expr → String) (hwk : ∀ c, wk c.eraseSpans = wk c) :
    ∀ es : ExprL, toSRxAlt wk es.eraseSpans = toSRxAlt wk es
  | .nil => by simp [ExprL.eraseSpans, toSRxAlt]
  | .cons e .nil => by simp [ExprL.eraseSpans, toSRxAlt, toSRx_eraseSpans wk hwk e]
  | .cons e (.cons e' es) => by
    have := toSRxAlt_eraseSpans wk hwk (.cons e' es)
    simp only [ExprL.eraseSpans] at this
    simp [ExprL.eraseSpans, toSRxAlt, toSRx_eraseSpans wk hwk e, this]
end

/-- **Spans do not influence the meaning**: the regular expression of an expression and of the
same expression with every source location erased coincide (for any span-blind naming of words). -/
theorem span_irrelevant_meaning (e : Expr) :
    toSRx (fun _ => "?") e.eraseSpans = toSRx (fun _ => "?") e :=
  toSRx_eraseSpans _ (fun _ => rfl) e

end Complgen.Props.C14
