/-
C14 — layout and statement order do not change the output.

The layout half: `layout_irrelevant` (`Proofs/LadderLayout.lean`) — on the operator ladder (literals,
nonterminals, commands, juxtaposition by blanks, `|`, `||`, `[ ]`, postfix `...`, parentheses) two texts
of one tree that differ only in their layout (any blanks, form feeds, line breaks and closed `#`
comments at every position between the tokens) are parsed by `fallback_expr` into trees that differ
in spans only; with `span_irrelevant_meaning` below, into grammars of the same meaning.  Outside the
fragment (descriptions, escapes, layout between statements) the layout half is decided per grammar
by the run.  Proved further:
`span_irrelevant_meaning` — spans never influence the *meaning* the specification assigns (the
automaton of the grammar's meaning is built from a span-free regular expression);
`meaning_order_irrelevant` — `Spec.meaning` is the same for every permutation of the statements that
keeps the call variants in order, when no name is defined twice; `defn_order_irrelevant` — hence
(through C02's `validation_is_meaning`) the model of check.rs returns the same validated expression
for two such grammars whenever it accepts both — the same automaton and the same scripts.
-/
import Complgen.Spec.Den
import Complgen.Proofs.Order
import Complgen.Proofs.LadderLayout
import Complgen.Proofs.Statements
import Complgen.Proofs.StatementsFull
namespace Complgen.Props.C14
open Complgen Complgen.Spec

mutual
theorem toSRx_eraseSpans (wk : Expr → String) (hwk : ∀ c, wk c.eraseSpans = wk c) :
    ∀ e : Expr, toSRx wk e.eraseSpans = toSRx wk e
  | .term .. => by simp [Expr.eraseSpans, toSRx]
  | .nonterm .. => by simp [Expr.eraseSpans, toSRx]
  | .cmd .. => by simp [Expr.eraseSpans, toSRx]
  | .sub c l s => by simp [Expr.eraseSpans, toSRx, hwk]
  | .seq cs _ => by simp [Expr.eraseSpans, toSRx, toSRxCat_eraseSpans wk hwk cs]
  | .alt cs _ => by simp [Expr.eraseSpans, toSRx, toSRxAlt_eraseSpans wk hwk cs]
  | .fb cs _ => by simp [Expr.eraseSpans, toSRx, toSRxAlt_eraseSpans wk hwk cs]
  | .opt c _ => by simp [Expr.eraseSpans, toSRx, toSRx_eraseSpans wk hwk c]
  | .many1 c _ => by simp [Expr.eraseSpans, toSRx, toSRx_eraseSpans wk hwk c]
  | .dd c _ _ => by simp [Expr.eraseSpans, toSRx, toSRx_eraseSpans wk hwk c]
theorem toSRxCat_eraseSpans (wk : Expr → String) (hwk : ∀ c, wk c.eraseSpans = wk c) :
    ∀ es : ExprL, toSRxCat wk es.eraseSpans = toSRxCat wk es
  | .nil => by simp [ExprL.eraseSpans, toSRxCat]
  | .cons e es => by
    simp [ExprL.eraseSpans, toSRxCat, toSRx_eraseSpans wk hwk e, toSRxCat_eraseSpans wk hwk es]
theorem toSRxAlt_eraseSpans (wk : Expr → String) (hwk : ∀ c, wk c.eraseSpans = wk c) :
    ∀ es : ExprL, toSRxAlt wk es.eraseSpans = toSRxAlt wk es
  | .nil => by simp [ExprL.eraseSpans, toSRxAlt]
  | .cons e .nil => by simp [ExprL.eraseSpans, toSRxAlt, toSRx_eraseSpans wk hwk e]
  | .cons e (.cons e' es) => by
    have := toSRxAlt_eraseSpans wk hwk (.cons e' es)
    simp only [ExprL.eraseSpans] at this
    simp [ExprL.eraseSpans, toSRxAlt, toSRx_eraseSpans wk hwk e, this]
end

/-- **Spans do not influence the meaning**: the regular expression of an expression and of the
same expression with every source location erased coincide (for any span-blind naming of words). -/
theorem span_irrelevant_meaning (e : Expr) :
    toSRx (fun _ => "?") e.eraseSpans = toSRx (fun _ => "?") e :=
  toSRx_eraseSpans _ (fun _ => rfl) e

/-- **The meaning does not depend on the order of the statements** (call variants kept in order, no
name defined twice for the shell / plainly — `Check.UniqueDefs`, which validation enforces:
`Check.uniqueDefs_of_validate`). -/
theorem meaning_order_irrelevant (sp : Span) (sh : Shell) (g g' : Grammar) (hp : g.Perm g')
    (hu : Check.UniqueDefs sh g) (hc : callBodies g' = callBodies g) :
    meaningAt sp g' sh = meaningAt sp g sh :=
  Check.meaningAt_perm sp sh g g' hp hu hc

/-- **Permuting the definitions does not change what the model of check.rs returns.** -/
theorem defn_order_irrelevant (g g' : Grammar) (sh : Shell) (v v' : Check.Valid) (hp : g.Perm g')
    (hc : Check.callsOf g' = Check.callsOf g) (h : Check.validate g sh = .ok v)
    (h' : Check.validate g' sh = .ok v') : v'.expr = v.expr :=
  Check.validate_perm g g' sh v v' hp hc h h'

/-- **Layout does not change the tree** (operator ladder): two admissible layouts of one tree are parsed
as trees that differ in their spans only. -/
theorem layout_irrelevant (e : Expr) (hnf : Parse.NF e) (lay₁ lay₂ : Parse.Layout)
    (adm₁ : lay₁.Adm) (adm₂ : lay₂.Adm)
    (rest₁ rest₂ : List Char) (hrest₁ : Parse.Follows rest₁) (hrest₂ : Parse.Follows rest₂)
    (s₁ s₂ : Parse.PState)
    (hs₁ : s₁.rest = Parse.ppL lay₁ 0 e ++ rest₁) (hs₂ : s₂.rest = Parse.ppL lay₂ 0 e ++ rest₂)
    (fuel₁ fuel₂ : Nat) (hfuel₁ : Parse.fuelNeeded e ≤ fuel₁) (hfuel₂ : Parse.fuelNeeded e ≤ fuel₂) :
    ∃ e₁ e₂, Parse.fallback fuel₁ s₁ = some (s₁.adv (Parse.ppL lay₁ 0 e).length, e₁) ∧
      Parse.fallback fuel₂ s₂ = some (s₂.adv (Parse.ppL lay₂ 0 e).length, e₂) ∧
      e₁.eraseSpans = e₂.eraseSpans :=
  Parse.layout_irrelevant e hnf lay₁ lay₂ adm₁ adm₂ rest₁ rest₂ hrest₁ hrest₂ s₁ s₂ hs₁ hs₂
    fuel₁ fuel₂ hfuel₁ hfuel₂

/-- **Layout does not change the grammar** (whole files, `Proofs/Statements.lean`): two texts of one
list of statements over the operator ladder that differ only in layout — at the beginning of the
file, after statement names, around `::=` / `=` (and in the choice between the two signs), inside the
expressions, before `;`, between statements, in the presence of the final `;` — are parsed by the
model of `Grammar::parse` into grammars that differ in spans only. -/
theorem grammar_layout_irrelevant (g : Grammar) (hg : ∀ st ∈ g, Parse.StmtNF st) (G₁ G₂ : Parse.GLayout)
    (adm₁ : G₁.Adm g) (adm₂ : G₂.Adm g) :
    ∃ g₁ g₂, Parse.parse (Parse.ppGrammarL G₁ g) = .ok g₁ ∧ Parse.parse (Parse.ppGrammarL G₂ g) = .ok g₂ ∧
      g₁.map Stmt.eraseSpans = g₂.map Stmt.eraseSpans :=
  Parse.grammar_layout_irrelevant g hg G₁ G₂ adm₁ adm₂

/-- **Layout does not change the grammar — the larger fragment** (`Proofs/StatementsFull.lean`): whole files
whose expressions use escaped literals, descriptions, descriptions over groups and words by
juxtaposition besides the operators; layout may additionally stand before a description. -/
theorem grammar_layout_irrelevant_full (g : Grammar) (hg : ∀ st ∈ g, Parse.Full.StmtNF' st)
    (G₁ G₂ : Parse.Full.GLayout') (adm₁ : G₁.Adm g) (adm₂ : G₂.Adm g) :
    ∃ g₁ g₂, Parse.parse (Parse.Full.ppGrammarL' G₁ g) = .ok g₁ ∧
      Parse.parse (Parse.Full.ppGrammarL' G₂ g) = .ok g₂ ∧
      g₁.map Stmt.eraseSpans = g₂.map Stmt.eraseSpans :=
  Parse.grammar_layout_irrelevant_full g hg G₁ G₂ adm₁ adm₂

end Complgen.Props.C14
