/-
C11 — the definition chosen for a nonterminal is the one for the target shell.

`Spec.pick` is the statement written outright (spec@S ▸ plain ▸ built-in PATH/DIRECTORY ▸ any word;
built-in table regenerated from check.rs on every run).  Proved here, for every grammar:
definitions for other shells never influence the choice; a plain definition overrides the built-in
meaning; a specialisation for the target shell wins over everything.  The check compares the real
library's automaton and the four real scripts with `Spec.pick` on the whole definition table.
-/
import Complgen.Spec.Den
namespace Complgen.Props.C11
open Complgen Complgen.Spec

/-- the specialisation of `name` for `sh` that `pick` looks at -/
def specFor (sh : Shell) (name : String) : Stmt → Option String
  | .defn n _ (some (s, _)) (.cmd c _ _ _) => if n == name && s == sh.name then some c else none
  | _ => none

def plainFor (name : String) : Stmt → Option Expr
  | .defn n _ none e => if n == name then some e else none
  | _ => none

theorem pick_unfold (sh : Shell) (g : Grammar) (name : String) :
    pick sh g name =
      match g.findSome? (specFor sh name) with
      | some c => .command c (sh == .zsh)
      | none =>
        match g.findSome? (plainFor name) with
        | some e => .expr e
        | none =>
          match (Gen.builtinTable.find? (fun r => r.1 == name && r.2.1 == sh)).map (·.2.2) with
          | some c => .command c (sh == .zsh)
          | none => .anyWord := by
  rfl

/-- a statement that is a definition for a shell other than `sh` -/
def forOtherShell (sh : Shell) : Stmt → Bool
  | .defn _ _ (some (s, _)) _ => s != sh.name
  | _ => false

theorem findSome_filter_irrelevant {α β} (f : α → Option β) (drop : α → Bool) (l : List α)
    (h : ∀ x, drop x = true → f x = none) :
    (l.filter (fun x => !drop x)).findSome? f = l.findSome? f := by
  induction l with
  | nil => rfl
  | cons x xs ih =>
    by_cases hd : drop x = true
    · simp [List.filter, hd, List.findSome?, h x hd, ih]
    · simp only [Bool.not_eq_true] at hd
      simp [List.filter, hd, List.findSome?, ih]

/-- **Definitions for other shells never influence the result.** -/
theorem other_shells_irrelevant (sh : Shell) (g : Grammar) (name : String) :
    pick sh (g.filter (fun st => !forOtherShell sh st)) name = pick sh g name := by
  rw [pick_unfold, pick_unfold]
  rw [findSome_filter_irrelevant (specFor sh name) (forOtherShell sh) g,
      findSome_filter_irrelevant (plainFor name) (forOtherShell sh) g]
  · intro st hst
    unfold forOtherShell at hst
    unfold plainFor
    split at hst <;> simp_all
  · intro st hst
    unfold forOtherShell at hst
    unfold specFor
    split at hst
    · rename_i n sp s ss e
      split
      · rename_i h; simp only [bne_iff_ne, ne_eq] at hst
        simp_all
      · rfl
    · cases hst

/-- **A specialisation for the target shell wins** over a plain definition and over the built-in. -/
theorem spec_wins (sh : Shell) (g : Grammar) (name c : String)
    (h : g.findSome? (specFor sh name) = some c) : pick sh g name = .command c (sh == .zsh) := by
  rw [pick_unfold, h]

/-- **A plain definition overrides the built-in meaning** (and is what `<X>` stands for when there
is no specialisation for the target shell). -/
theorem plain_overrides_builtin (sh : Shell) (g : Grammar) (name : String) (e : Expr)
    (h1 : g.findSome? (specFor sh name) = none) (h2 : g.findSome? (plainFor name) = some e) :
    pick sh g name = .expr e := by
  rw [pick_unfold, h1, h2]

/-- without any definition: the built-in command for PATH / DIRECTORY, otherwise any word -/
theorem undefined_is_builtin_or_any (sh : Shell) (g : Grammar) (name : String)
    (h1 : g.findSome? (specFor sh name) = none) (h2 : g.findSome? (plainFor name) = none) :
    pick sh g name = (match (Gen.builtinTable.find? (fun r => r.1 == name && r.2.1 == sh)).map (·.2.2) with
      | some c => .command c (sh == .zsh)
      | none => .anyWord) := by
  rw [pick_unfold, h1, h2]

/-- the built-in table (regenerated from check.rs) covers exactly PATH and DIRECTORY, for every shell -/
theorem builtin_names : (Gen.builtinTable.map (·.1)).eraseDups = ["PATH", "DIRECTORY"] ∧
    Gen.builtinTable.length = 8 := by decide

end Complgen.Props.C11
