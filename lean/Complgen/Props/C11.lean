/-
C11 — the definition chosen for a nonterminal is the one for the target shell.

`Spec.pick` is the statement written outright (spec@S ▸ plain ▸ built-in PATH/DIRECTORY ▸ any word;
built-in table regenerated from check.rs on every run).  Proved here, for every grammar:
definitions for other shells never influence the choice; a plain definition overrides the built-in
meaning; a specialisation for the target shell wins over everything.  And for the model of the code
(`Check.specialize` = check.rs `specialize_nonterminals` fed by parse.rs `get_specializations`, tied
to the library exactly on every run): `choice_spec` — whenever the specialisation tables are accepted,
the pass replaces *every* nonterminal reference of an expression (top level, inside a word, in a
definition body — wherever it stands) by exactly what `Spec.pick` prescribes, whatever `used` flags
and unused-bookkeeping it has accumulated on the way.  The check compares the real library's
automaton and the four real scripts with `Spec.pick` on the whole definition table.
-/
import Complgen.Spec.Den
import Complgen.Proofs.Choice
namespace Complgen.Props.C11
open Complgen Complgen.Spec

/-- the specialisation of `name` for `sh` that `pick` looks at -/
def specFor (sh : Shell) (name : String) : Stmt → Option String
  | .defn n _ (some (s, _)) (.cmd c _ _ _) => if n == name && s == sh.name then some c else none
  | _ => none

def plainFor (name : String) : Stmt → Option Expr
  | .defn n _ none e => if n == name then some e else none
  | _ => none

theorem pick_unfold (sh : Shell) (g : Grammar) (name : String) :
    pick sh g name =
      match g.findSome? (specFor sh name) with
      | some c => .command c (sh == .zsh)
      | none =>
        match g.findSome? (plainFor name) with
        | some e => .expr e
        | none =>
          match (Gen.builtinTable.find? (fun r => r.1 == name && r.2.1 == sh)).map (·.2.2) with
          | some c => .command c (sh == .zsh)
          | none => .anyWord := by
  rfl

/-- a statement that is a definition for a shell other than `sh` -/
def forOtherShell (sh : Shell) : Stmt → Bool
  | .defn _ _ (some (s, _)) _ => s != sh.name
  | _ => false

theorem findSome_filter_irrelevant {α β} (f : α → Option β) (drop : α → Bool) (l : List α)
    (h : ∀ x, drop x = true → f x = none) :
    (l.filter (fun x => !drop x)).findSome? f = l.findSome? f := by
  induction l with
  | nil => rfl
  | cons x xs ih =>
    by_cases hd : drop x = true
    · simp [List.filter, hd, List.findSome?, h x hd, ih]
    · simp only [Bool.not_eq_true] at hd
      simp [List.filter, hd, List.findSome?, ih]

/-- **Definitions for other shells never influence the result.** -/
theorem other_shells_irrelevant (sh : Shell) (g : Grammar) (name : String) :
    pick sh (g.filter (fun st => !forOtherShell sh st)) name = pick sh g name := by
  rw [pick_unfold, pick_unfold]
  rw [findSome_filter_irrelevant (specFor sh name) (forOtherShell sh) g,
      findSome_filter_irrelevant (plainFor name) (forOtherShell sh) g]
  · intro st hst
    unfold forOtherShell at hst
    unfold plainFor
    split at hst <;> simp_all
  · intro st hst
    unfold forOtherShell at hst
    unfold specFor
    split at hst
    · rename_i n sp s ss e
      split
      · rename_i h; simp only [bne_iff_ne, ne_eq] at hst
        simp_all
      · rfl
    · cases hst

/-- **A specialisation for the target shell wins** over a plain definition and over the built-in. -/
theorem spec_wins (sh : Shell) (g : Grammar) (name c : String)
    (h : g.findSome? (specFor sh name) = some c) : pick sh g name = .command c (sh == .zsh) := by
  rw [pick_unfold, h]

/-- **A plain definition overrides the built-in meaning** (and is what `<X>` stands for when there
is no specialisation for the target shell). -/
theorem plain_overrides_builtin (sh : Shell) (g : Grammar) (name : String) (e : Expr)
    (h1 : g.findSome? (specFor sh name) = none) (h2 : g.findSome? (plainFor name) = some e) :
    pick sh g name = .expr e := by
  rw [pick_unfold, h1, h2]

/-- without any definition: the built-in command for PATH / DIRECTORY, otherwise any word -/
theorem undefined_is_builtin_or_any (sh : Shell) (g : Grammar) (name : String)
    (h1 : g.findSome? (specFor sh name) = none) (h2 : g.findSome? (plainFor name) = none) :
    pick sh g name = (match (Gen.builtinTable.find? (fun r => r.1 == name && r.2.1 == sh)).map (·.2.2) with
      | some c => .command c (sh == .zsh)
      | none => .anyWord) := by
  rw [pick_unfold, h1, h2]

/-- the built-in table (regenerated from check.rs) covers exactly PATH and DIRECTORY, for every shell -/
theorem builtin_names : (Gen.builtinTable.map (·.1)).eraseDups = ["PATH", "DIRECTORY"] ∧
    Gen.builtinTable.length = 8 := by decide

/-- **The model of the specialisation pass implements `Spec.pick` at every reference.** -/
theorem choice_spec (g : Grammar) (sh : Shell) (specs : Check.AList Check.UserSpec) (fbs : Check.AList String)
    (h : Check.getSpecializations g sh = .ok (specs, fbs)) (e : Expr) (b : Check.Book)
    (hb : Check.SameCmds specs b) :
    (Check.specialize sh fbs ((Check.plainDefs g).map (·.1)) e b).1 = Check.applyPick sh g e ∧
    Check.SameCmds specs (Check.specialize sh fbs ((Check.plainDefs g).map (·.1)) e b).2 :=
  Check.specialize_eq_applyPick g sh specs fbs h e b hb

/-- the book the pass starts with satisfies the invariant -/
theorem choice_spec_init (specs : Check.AList Check.UserSpec) (unused : Check.AList Span) :
    Check.SameCmds specs ⟨specs, unused⟩ := fun _ => rfl

/-- at a single reference: the chosen command with zsh's `compadd` flag, or the reference left for
expansion / as "any word" -/
theorem choice_at_reference (g : Grammar) (sh : Shell) (name : String) (l : Nat) (s : Span) :
    Check.applyPick sh g (.nonterm name l s) =
      match pick sh g name with
      | .command c a => .cmd c a l s
      | _ => .nonterm name l s := by
  unfold Check.applyPick
  cases pick sh g name <;> rfl

/-- Non-vacuity: a grammar with `<X@bash>` and a plain `<X>` has accepted tables for bash. -/
example :
    let g : Grammar := [.call "cmd" default (.nonterm "X" 0 default),
                        .defn "X" default (some ("bash", default)) (.cmd "echo b" false 0 default),
                        .defn "X" default none (.cmd "echo p" false 0 default)]
    (match Check.getSpecializations g .bash with | .ok _ => true | _ => false) = true := by
  decide

end Complgen.Props.C11
