/-
C13 — diagnostics point at the construct they complain about.

The position bookkeeping of the parser model (`Parse.PState`: line and byte column of the first
character of the rest of the input, advanced character by character as nom_locate does) is what
every span of the tree is computed from; the run compares every span of the model's tree, and every
parse-error location, with the real parser's.  Proved (`Proofs/Position.lean`): advancing is additive
and never moves backwards, a span computed by `fromRange` starts exactly at the position of its first
character, and `adv_position` / `init_position` — the location reached after consuming any text `w`
is (line + number of line feeds in `w`, byte length of what follows the last line feed of `w`, from
1), whatever `w` contains (escapes, comments, non-ASCII text, form feeds).

And `span_sound` itself on the operator ladder (`Proofs/LadderSpans.lean`): `span_sound_ladder` —
when the printed form of a tree of the fragment (literals, nonterminals, commands, juxtaposition, `|`,
`||`, `[...]`, postfix `...`, parentheses where precedence needs them) stands anywhere in a file,
`fallback_expr` returns that tree, and *every* node of it, in preorder, carries the span that starts at
the line (1 + line feeds before) and byte column (1 + bytes since the last line feed) of the offset of
the first character of that node's own text — the characters of the file between the node's two
offsets are the printed form of that node.  `span_sound_full` / `span_sound_file` (`Proofs/SpansFull.lean`, `SpansFile.lean`) extend it to the larger
fragment (escapes, descriptions, juxtaposition), to every admissible layout and to whole files
including the spans of statement heads.  Outside these fragments span soundness is decided per
grammar by the exact comparison of all spans with the real parser.
-/
import Complgen.Proofs.Position
import Complgen.Proofs.LadderSpans
import Complgen.Proofs.SpansFull
import Complgen.Proofs.SpansFile
namespace Complgen.Props.C13
open Complgen Complgen.Parse

theorem adv_add (s : PState) (m n : Nat) : (s.adv m).adv n = s.adv (m + n) := Pos.adv_add s m n

theorem adv_rest (s : PState) (n : Nat) : (s.adv n).rest = s.rest.drop n := Pos.adv_rest s n

theorem adv_line_mono (s : PState) (n : Nat) : s.line ≤ (s.adv n).line := Pos.adv_line_mono s n

/-- a span starts at the position of the first character of the construct -/
theorem fromRange_start (before after : PState) :
    (fromRange before after).line = before.line ∧ (fromRange before after).cs = before.col :=
  Pos.fromRange_start before after

/-- the location of a parse error is the position where the rest of the input starts -/
theorem fromMachine_start (s : PState) : (fromMachine s).line = s.line ∧ (fromMachine s).cs = s.col :=
  Pos.fromMachine_start s

/-- within one line the column advances by the byte length of what was consumed -/
theorem adv_col_same_line (s : PState) (w : List Char) (rest : List Char) (hs : s.rest = w ++ rest)
    (hw : '\n' ∉ w) : (s.adv w.length).line = s.line ∧ (s.adv w.length).col = s.col + bytesLen w :=
  Pos.adv_col_same_line s w rest hs hw

/-- **Location arithmetic**: after consuming the text `w`, the line is the old line plus the number of
line feeds in `w`, and the column is the byte length of what follows the last line feed of `w`,
counted from 1 — or from the old column when `w` has no line feed.  (Everything that precedes a token
decides its location, and nothing else does.) -/
theorem adv_position (w : List Char) (s : PState) (rest : List Char) (hs : s.rest = w ++ rest) :
    (s.adv w.length).line = s.line + w.count '\n' ∧
    (s.adv w.length).col = (if '\n' ∈ w then 1 else s.col) + bytesLen (Pos.lastLine w) :=
  Pos.adv_position w s rest hs

/-- in particular for a whole file read from its beginning (line 1, column 1) -/
theorem init_position (t w rest : List Char) (ht : t = w ++ rest) :
    ((PState.init t).adv w.length).line = 1 + w.count '\n' ∧
    ((PState.init t).adv w.length).col = 1 + bytesLen (Pos.lastLine w) :=
  Pos.init_position t w rest ht

/-- **Every span of the ladder points at its construct** (relative form): the tree `fallback_expr`
returns for the printed form of a tree of the fragment carries, at every node, the span of exactly
the text printed for that node (`Placed`: it starts at the state reached by consuming what was
printed before the node's first character — not counting a parenthesis the context forced around
it — and ends after its last character). -/
theorem span_sound_ladder_placed (e : Expr) (hnf : NF e) (rest : List Char) (hrest : Follows rest) (s : PState)
    (hs : s.rest = pp 0 e ++ rest) (fuel : Nat) (hfuel : fuelNeeded e ≤ fuel) :
    ∃ e', fallback fuel s = some (s.adv (pp 0 e).length, e') ∧ Placed 0 s e e' :=
  fallback_spans e hnf rest hrest s hs fuel hfuel

/-- the root of a placed tree starts where its text starts -/
theorem placed_root_start {s : PState} {e e' : Expr} (h : Placed 0 s e e') :
    e'.span.line = s.line ∧ e'.span.cs = s.col := h.span_top_start

/-- **Every span of the ladder points at its construct, in a file** (`span_sound` on the fragment):
the printed form of `e` stands in the file `t` after the text `pre`; then the parser started there
returns `e` up to spans; the spans of the result, node by node in preorder, are those between the
offsets `offs` lists; the characters of `t` between the two offsets of a node are the printed form of
that node; and every span starts at line 1 + (line feeds before the node's first character) and
byte column 1 + (bytes since the last line feed before it). -/
theorem span_sound_ladder (pre : List Char) (e : Expr) (hnf : NF e) (rest : List Char)
    (hrest : Follows rest) (t : List Char) (ht : t = pre ++ pp 0 e ++ rest)
    (fuel : Nat) (hfuel : fuelNeeded e ≤ fuel) :
    ∃ e', fallback fuel ((PState.init t).adv pre.length) =
        some ((PState.init t).adv (pre.length + (pp 0 e).length), e') ∧
      e'.eraseSpans = e.eraseSpans ∧
      spansOf e' = (offs 0 pre.length e).map (spanAt (PState.init t)) ∧
      (offs 0 pre.length e).map (slice t) = (nodesOf e).map (pp 0) ∧
      ∀ sp ∈ spansOf e', ∃ ab ∈ offs 0 pre.length e,
        sp.line = 1 + (t.take ab.1).count '\n' ∧
        sp.cs = 1 + bytesLen (Pos.lastLine (t.take ab.1)) :=
  fallback_spans_in_file pre e hnf rest hrest t ht fuel hfuel

/-- Non-vacuity: `a (b | <C>)... [d]` on the second line of a file is in the fragment; its eight nodes
get the offsets of their own texts. -/
example :
    let e : Expr := .seq (.cons (.term "a" none 0 default)
      (.cons (.many1 (.alt (.cons (.term "b" none 0 default) (.cons (.nonterm "C" 0 default) .nil)) default) default)
        (.cons (.opt (.term "d" none 0 default) default) .nil))) default
    String.ofList (pp 0 e) = "a (b | <C>)... [d]" ∧
    offs 0 7 e = [(7, 25), (7, 8), (9, 21), (10, 17), (10, 11), (14, 17), (22, 25), (23, 24)] := by
  decide

/-- **Span soundness on the larger fragment, any layout** (`Proofs/SpansFull.lean`): escaped literals,
descriptions, descriptions over groups, words by juxtaposition.  `PlacedL'` says which text each node's
span covers *as the parser computes it*: a literal with a description spans literal + layout +
description; `( … ) "d"` starts at the parenthesis; a word and the sequence of its factors carry the
same span; a parenthesis forced by the context is not part of the node. -/
theorem span_sound_full (pre : List Char) (e : Expr) (hnf : Full.NF' e) (lay : Full.Layout') (adm : lay.Adm)
    (rest : List Char) (hrest : Follows rest) (t : List Char) (ht : t = pre ++ Full.ppL' lay 0 e ++ rest)
    (fuel : Nat) (hfuel : Full.needF e ≤ fuel) :
    ∃ e', fallback fuel ((PState.init t).adv pre.length) =
        some ((PState.init t).adv (pre.length + (Full.ppL' lay 0 e).length), e') ∧
      Full.PlacedL' lay 0 ((PState.init t).adv pre.length) e e' ∧
      e'.eraseSpans = e.eraseSpans ∧
      spansOf e' = (Full.offsL' lay 0 pre.length e).map (spanAt (PState.init t)) ∧
      (Full.offsL' lay 0 pre.length e).map (slice t) = Full.ownTexts lay e ∧
      ∀ sp ∈ spansOf e', ∃ ab ∈ Full.offsL' lay 0 pre.length e,
        sp.line = 1 + (t.take ab.1).count '\n' ∧
        sp.cs = 1 + bytesLen (Pos.lastLine (t.take ab.1)) :=
  fallback_spans_full_in_file pre e hnf lay adm rest hrest t ht fuel hfuel

/-- **Every span of a whole file points at its construct** (`Proofs/SpansFile.lean`): for every list of
statements of the larger fragment under every admissible layout, the model of `Grammar::parse` returns
the grammar, and for each statement — the span of the command name, of the `<NAME>` / `<NAME@SHELL>`
head, of the shell name, and of every node of the expression — the span starts at the line (1 + line
feeds before) and byte column (1 + bytes since the last line feed) of the offset of the first
character of the text it belongs to (`stmtOffs` lists the offsets, `stmtTexts` the texts found there). -/
theorem span_sound_file (g : Grammar) (hg : ∀ st ∈ g, Full.StmtNF' st) (G : Full.GLayout') (adm : G.Adm g) :
    ∃ g', parse (Full.ppGrammarL' G g) = .ok g' ∧ g'.map Stmt.eraseSpans = g.map Stmt.eraseSpans ∧
      ∀ i st, g[i]? = some st → ∃ st', g'[i]? = some st' ∧
        (∃ post, Full.ppGrammarL' G g =
          (Full.ppGrammarL' G g).take (Full.stmtOffset G g i) ++ Full.ppBodyL' (G.stmt i) st ++ post) ∧
        Full.StmtPlaced (G.stmt i) ((PState.init (Full.ppGrammarL' G g)).adv (Full.stmtOffset G g i)) st st' ∧
        Full.stmtSpans st' =
          (Full.stmtOffs (G.stmt i) (Full.stmtOffset G g i) st).map (spanAt (PState.init (Full.ppGrammarL' G g))) ∧
        (Full.stmtOffs (G.stmt i) (Full.stmtOffset G g i) st).map (slice (Full.ppGrammarL' G g)) =
          Full.stmtTexts (G.stmt i) st ∧
        ∀ sp ∈ Full.stmtSpans st', ∃ ab ∈ Full.stmtOffs (G.stmt i) (Full.stmtOffset G g i) st,
          sp.line = 1 + ((Full.ppGrammarL' G g).take ab.1).count '\n' ∧
          sp.cs = 1 + bytesLen (Pos.lastLine ((Full.ppGrammarL' G g).take ab.1)) :=
  grammar_spans_in_file g hg G adm

end Complgen.Props.C13
