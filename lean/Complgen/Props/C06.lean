/-
C06 — the compiler never crashes or hangs.  (Theorems about the model's totality are added as the
model grows; see DESIGN.md.)
-/
import Complgen.Model.Pipeline
namespace Complgen.Props.C06
open Complgen Complgen.Check

/-- The validation passes of the model are total functions: every grammar tree gives an outcome
(a value, a diagnosed error class, or an explicitly modelled crash site) — there is no partiality
hidden in the model. Stated as: the outcome is one of the three forms. -/
theorem validate_total (g : Grammar) (sh : Shell) :
    (∃ v, validate g sh = .ok v) ∨ (∃ c s, validate g sh = .err c s) ∨ (∃ site, validate g sh = .crash site) := by
  cases h : validate g sh with
  | ok v => exact .inl ⟨v, rfl⟩
  | err c s => exact .inr (.inl ⟨c, s, rfl⟩)
  | crash site => exact .inr (.inr ⟨site, rfl⟩)

end Complgen.Props.C06
