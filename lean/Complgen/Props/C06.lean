/-
C06 — the compiler never crashes or hangs.  (Theorems about the model's totality are added as the
model grows; see DESIGN.md.)
-/
import Complgen.Model.Pipeline
import Complgen.Proofs.NoCrash
import Complgen.Proofs.PipelineMin
import Complgen.Proofs.BuildTerm
import Complgen.Proofs.SpacesDepth
namespace Complgen.Props.C06
open Complgen Complgen.Check

/-- The validation passes of the model are total functions: every grammar tree gives an outcome
(a value, a diagnosed error class, or an explicitly modelled crash site) — there is no partiality
hidden in the model. Stated as: the outcome is one of the three forms. -/
theorem validate_total (g : Grammar) (sh : Shell) :
    (∃ v, validate g sh = .ok v) ∨ (∃ c s, validate g sh = .err c s) ∨ (∃ site, validate g sh = .crash site) := by
  cases h : validate g sh with
  | ok v => exact .inl ⟨v, rfl⟩
  | err c s => exact .inr (.inl ⟨c, s, rfl⟩)
  | crash site => exact .inr (.inr ⟨site, rfl⟩)

/-- the only crash site in the model of validation is the native stack of `check_subword_spaces`
(modelled by a recursion budget): every other path — whatever the grammar tree — ends in a value or
in a diagnosed error.  Together with the exact model/library correspondence on every mutated input
of the run, a panic of the library's validation can only be that one. -/
theorem validate_crash_only_stack (g : Grammar) (sh : Shell) (s : String) (h : validate g sh = .crash s) :
    s = "check_subword_spaces: unbounded recursion through cyclic definitions" :=
  Check.validate_crash_only_stack g sh s h

/-- **The minimiser never exhausts its budget**: the pipeline model has two calls of the minimiser (main
automaton, every within-word automaton) whose refinement loop is modelled with fuel; neither can
run out, for any grammar, shell and schedule (`Proofs/HopcroftTerm.lean` through
`Proofs/PipelineMin.lean`: what the subset construction builds is well-formed, and on well-formed
input |states|² rounds suffice). -/
theorem minimiser_budget_suffices (σ : Schedule) (g : Grammar) (sh : Shell) :
    Pipeline.compile σ g sh ≠ .crash "do_minimize: out of fuel" :=
  Pipeline.compile_never_minimize_fuel σ g sh

/-- **The subset construction terminates**: on every compiled expression — and more generally whenever
the first/follow sets only mention positions up to the end marker — the model's work-list loop ends
within its budget of 2^(n+1) rounds (every round pops a set of positions, every set is pushed once,
and there are at most 2^(n+1) sets of positions `≤ n`), for every schedule. -/
theorem subset_construction_terminates (σ : Schedule) (e : Expr) (pool : RxPool) (symOf : Nat → Option Inp) :
    (buildAuto σ (Regex.ofExpr e pool).1 symOf).isSome :=
  buildAuto_ofExpr_isSome σ e pool symOf

/-- **The only crash outcome of the whole pipeline model** (validate ▸ regex ▸ ambiguity checks ▸
symbols and within-word automata ▸ subset construction ▸ minimisation ▸ ambiguity check) is the
modelled native stack of `check_subword_spaces`: no budget of a loop runs out and no pool lookup
fails, for any grammar, shell and schedule.  Every other run of the model ends in a result or in a
diagnosed error. -/
theorem pipeline_crash_only_stack (σ : Schedule) (g : Grammar) (sh : Shell) (s : String)
    (h : Pipeline.compile σ g sh = .crash s) :
    s = "check_subword_spaces: unbounded recursion through cyclic definitions" :=
  Pipeline.compile_crash_only_stack σ g sh s h

/-- **Below the modelled stack the pipeline model never crashes** (`Proofs/SpacesDepth.lean`): the walk of
`check_subword_spaces` over the expanded definitions needs at most `spacesDepth` of the top expression
plus the deepest expanded definition; in particular every grammar whose statements have fewer than
10 000 nodes in total goes through the whole pipeline model without any crash outcome, for every
shell and schedule.  (The expanded table is closed — no body refers to a defined name any more —
which is what makes the recursion through definitions one level deep.) -/
theorem no_crash_below_stack (g : Grammar) (sh : Shell) (h : (g.map stmtSize).sum ≤ 9999) :
    ∀ σ site, Pipeline.compile σ g sh ≠ .crash site :=
  Pipeline.compile_no_crash_of_size g sh h

/-- the sharper bound in the units of the walk itself -/
theorem no_crash_below_depth (g : Grammar) (sh : Shell)
    (h : spacesDepth (topSpecialised g sh) + tableDepth (expandedTable g sh) ≤ stackFuel) :
    ∀ σ site, Pipeline.compile σ g sh ≠ .crash site :=
  Pipeline.compile_no_crash_of_depth g sh h

/-- the bound is about something: with too little budget the walk does report exhaustion, and on a
table that is not closed (`<X> ::= <X>`) it does so for every budget -/
theorem stack_bound_not_vacuous :
    (spaces [] 7 flat6 [] false = .overflow ∧ spaces [] 8 flat6 [] false = .fine) ∧
    (∀ fuel tr w, spaces tableLoop fuel (.nonterm "X" 0 default) tr w = .overflow) :=
  ⟨⟨flat6_overflow.2.2.1, flat6_overflow.2.2.2⟩, loop_overflow⟩

end Complgen.Props.C06
