/-
C10 — output is a pure function of the input.

What a theorem can carry (DESIGN.md §3 C10):
* `schedule_irrelevant` — the *meaning* of the compiled automaton never depends on the order in
  which the work-list of the subset construction is processed (any two schedules give automata
  with the same language);
* `nondet_sources_ok` — the inventory of order-bearing containers and of run-time reads,
  regenerated from src/*.rs, Cargo.toml and Cargo.lock on every run, contains no randomly seeded
  hash container (std `HashMap`/`HashSet`/`RandomState`), no read of the environment, clock,
  thread/process id, pointer value or RNG, and the direct `hashbrown` requirement is the 0.13 line
  (default hasher `BuildHasherDefault<AHasher>`: fixed keys).
Byte identity across processes itself is observed by the run (fresh processes, differing
environments), not proved: the model cannot exhibit a hasher seed.
-/
import Complgen.Proofs.Subset
import Complgen.Gen.Nondet
import Complgen.Proofs.EndToEnd
namespace Complgen.Props.C10
open Complgen

theorem schedule_irrelevant (σ σ' : Schedule) (r : Regex) (symOf : Nat → Option Inp) (a a' : Auto)
    (hsym : ∀ p, p < r.inputs.length → (symOf p).isSome)
    (hend : symOf r.endPos = none)
    (hfollow : ∀ p q, q ∈ r.follow p → q ≤ r.endPos)
    (hfirst : ∀ q ∈ r.first, q ≤ r.endPos)
    (h : buildAuto σ r symOf = some a) (h' : buildAuto σ' r symOf = some a') :
    ∀ w : List Inp, a.acceptsInp w = a'.acceptsInp w := by
  intro w
  have h1 := buildAuto_correct σ r symOf a hsym hend hfollow hfirst h w
  have h2 := buildAuto_correct σ' r symOf a' hsym hend hfollow hfirst h' w
  cases ha : a.acceptsInp w <;> cases hb : a'.acceptsInp w <;> simp_all

def fixedOrder : List String := ["hashbrown", "indexmap", "std-btree", "ustr", "roaring"]

theorem nondet_sources_ok :
    (Gen.containers.all fun c => fixedOrder.contains c.2.2) = true ∧
    Gen.runtimeReads = [] ∧
    (Gen.lockVersions.any fun v => v.1 == "hashbrown-direct" && (v.2.take 5).toString == "0.13.") = true := by
  refine ⟨by decide, by decide, ?_⟩
  decide

/-- every type that hashes by hand also compares by hand: a hand-written `Hash` next to a derived
`PartialEq` is how equality and hash of `InpInternPool` drifted apart (keys of a randomly seeded
`IndexSet`; repaired in 131db37).  Decided on the inventory regenerated from the current source. -/
theorem hash_impls_paired : (Gen.handHash.all fun t => Gen.handEq.contains t) = true := by decide

/-- … and conversely no type compares by hand while its `Hash` is derived: a hand-written equality that
ignores a field next to a derived hash that includes it makes set membership depend on the random
seed of the process (keys that compare equal land in different buckets except by chance). -/
theorem eq_impls_paired :
    (Gen.handEq.all fun t => Gen.handHash.contains t || !Gen.derivedHash.contains t) = true := by decide

/-- the minimiser's result does not depend, in size or language, on the iteration order of its hash
containers: both results are smallest automata of the same language (`Proofs/HopcroftCard.lean`) -/
theorem minimised_size_schedule_irrelevant (σ₁ σ₂ : Schedule) (a m₁ m₂ : Auto) (hwf : Min.WF a)
    (hco : Min.CoAcc a) (hacc : Min.Access a) (h₁ : Min.minimize σ₁ a = some m₁)
    (h₂ : Min.minimize σ₂ a = some m₂) :
    m₁.states.length = m₂.states.length ∧ ∀ w, m₁.accepts w = m₂.accepts w :=
  Pipeline.minimize_size_schedule_irrelevant σ₁ σ₂ a m₁ m₂ hwf hco hacc h₁ h₂

end Complgen.Props.C10
