/-
C05 — grammar text parses to the tree its syntax prescribes.

The parser model (`Model/Parse.lean`) is compared with the real parser on every run (trees, spans,
error locations, exactly).  Proved here: the facts about layout that the round-trip theorems rest
on — skipping blanks is idempotent, comments run to the end of their line, and blanks never start
with a character that can begin an item — and, for the two lexers (`Proofs/Lexer.lean`), the round
trip itself, for every text:
  * `terminal_is_decoder` — the three-phase loop of `terminal` (regular run / escapes / fewer than three
    dots, repeated) reads exactly what a character-by-character reference decoder reads, for every
    input; `terminal_roundtrip` / `terminal_roundtrip_escape_all` — every non-empty text over the
    permitted characters, printed with the fewest escapes (a dot is escaped only as the third of a
    run) or with every special character escaped, followed by anything that cannot continue a
    literal, is read back as that text and exactly its characters are consumed;
  * `description_roundtrip` — every text printed between double quotes with `"` and `\` escaped is read
    back as that text.
  * `ladder_roundtrip` (`Proofs/Ladder.lean`) — the operator ladder: every normal-form tree over
    literals of regular characters, nonterminals and commands, built with sequence, `|`, `||`, `[ ]`
    and postfix `...`, printed with the minimum of parentheses the precedences require (`Parse.pp`),
    is read back by `fallback` as the same tree up to spans — precedence, associativity, the
    `|`-versus-`||` look-ahead, and the back-tracking of the sequence loop, for every tree.
  * `ladder_roundtrip_layout` (`Proofs/LadderLayout.lean`) — the same with *any* admissible layout
    between the tokens: every stretch of blanks, form feeds and closed `#` comments (chosen per
    position of the tree: between the items of a sequence, on either side of `|` and `||`, inside
    brackets and parentheses, before a postfix `...`; at least one character between two words, and no
    `#` directly after a word, where it would be part of the word).  `Parse.pp` is the instance with
    one blank at the operators (`plain_printer_is_a_layout`).
  * `ladder_roundtrip_full` (`Proofs/LadderFull.lean`) — the ladder with escaped literals, descriptions
    (of literals and distributed over groups) and juxtaposition inside words, for the printer `pp'`.
  * `grammar_roundtrip`, `grammar_roundtrip_layout` (`Proofs/Statements.lean`) — whole files: statements
    of the three kinds over the operator ladder, under every admissible layout, through the model of
    `Grammar::parse` with the fuel it provides itself.
  * `ladder_roundtrip_full_layout`, `grammar_roundtrip_full_layout` (`Proofs/LadderFullLayout.lean`,
    `Proofs/StatementsFull.lean`) — both extensions together: whole files over the larger fragment under
    every admissible layout.
Open: blanks inside `{{{ }}}` and commands containing `}`; redundant parentheses; the `(…)` forms the
printer never chooses.
-/
import Complgen.Model.Parse
import Complgen.Proofs.Lexer
import Complgen.Proofs.Ladder
import Complgen.Proofs.LadderLayout
import Complgen.Proofs.LadderFull
import Complgen.Proofs.Statements
import Complgen.Proofs.LadderFullLayout
import Complgen.Proofs.StatementsFull
namespace Complgen.Props.C05
open Complgen Complgen.Parse

/-- what `multiblanks0` skips ends where no blank, comment or form feed starts -/
theorem mb0Aux_stop (l : List Char) :
    ∀ inComment, mb0Aux false (l.drop (mb0Aux inComment l)) = 0 := by
  induction l with
  | nil => intro b; cases b <;> simp [mb0Aux]
  | cons c cs ih =>
    intro b
    cases b with
    | true =>
      simp only [mb0Aux]
      split <;> (rw [Nat.add_comm, List.drop_succ_cons]; exact ih _)
    | false =>
      simp only [mb0Aux]
      split
      · rw [Nat.add_comm, List.drop_succ_cons]; exact ih _
      · split
        · rw [Nat.add_comm, List.drop_succ_cons]; exact ih _
        · rename_i h1 h2
          simp only [List.drop_zero, mb0Aux, h1, h2]
          simp

/-- a comment swallows everything up to the end of its line, operators included -/
theorem comment_swallows (body rest : List Char) (h : '\n' ∉ body) :
    mb0Aux true (body ++ '\n' :: rest) = body.length + 1 + mb0Aux false rest := by
  induction body with
  | nil => simp [mb0Aux]
  | cons c cs ih =>
    have hc : c ≠ '\n' := by intro h'; apply h; simp [h']
    have hcs : '\n' ∉ cs := by intro h'; apply h; simp [h']
    simp only [List.cons_append, mb0Aux, hc, if_false, ih hcs, List.length_cons]
    omega

/-- blanks stop in front of anything that can start an item or an operator -/
theorem mb0Aux_item (c : Char) (cs : List Char)
    (h : isSpace c = false ∧ c ≠ '\x0c' ∧ c ≠ '#') : mb0Aux false (c :: cs) = 0 := by
  obtain ⟨h1, h2, h3⟩ := h
  simp [mb0Aux, h1, h2, h3]

/-- Non-vacuity: the model parses a grammar with every operator, and reports where an unparsable
statement starts. -/
example : (Parse.parse "cmd a|b;".toList).toOption.isSome = true := by decide

/-- the literal lexer is the character-by-character reference decoder `dec'`, on every input -/
theorem terminal_is_decoder (s : PState) :
    terminal s = match dec' s.rest with
      | none => none
      | some (t, n) => if t.isEmpty then none else some (s.adv n, String.ofList t) :=
  terminal_eq_dec s

/-- **Literals round-trip** (fewest escapes): whatever precedes in `s`'s position bookkeeping, a
printed literal followed by a terminating character is read back exactly -/
theorem terminal_roundtrip (t rest : List Char) (s : PState) (ht : t ≠ [])
    (hperm : ∀ c ∈ t, isRegular c = true ∨ isEsc c = true) (hrest : Terminates rest)
    (hs : s.rest = escT 0 t ++ rest) :
    terminal s = some (s.adv (escT 0 t).length, String.ofList t) :=
  Parse.terminal_roundtrip t rest s ht hperm hrest hs

/-- the same with every special character escaped -/
theorem terminal_roundtrip_escape_all (t rest : List Char) (s : PState) (ht : t ≠ [])
    (hperm : ∀ c ∈ t, isRegular c = true ∨ isEsc c = true) (hrest : Terminates rest)
    (hs : s.rest = escAll t ++ rest) :
    terminal s = some (s.adv (escAll t).length, String.ofList t) :=
  Parse.terminal_roundtrip_all t rest s ht hperm hrest hs

/-- **Descriptions round-trip**: any text at all, with `"` and `\` escaped -/
theorem description_roundtrip (d rest : List Char) (s : PState) (hs : s.rest = '"' :: escD d ++ '"' :: rest) :
    description s = some (s.adv ((escD d).length + 2), String.ofList d) :=
  Parse.description_roundtrip d rest s hs

/-- Non-vacuity: `a.b` followed by a blank meets the premises of `terminal_roundtrip` -/
example : Terminates [' '] ∧ (∀ c ∈ ['a', '.', 'b'], isRegular c = true ∨ isEsc c = true) ∧
    escT 0 ['a', '.', 'b'] = ['a', '.', 'b'] ∧ escT 0 ['.', '.', '.'] = ['.', '.', '\\', '.'] := by
  refine ⟨.inr ⟨' ', [], rfl, by decide, by decide, by decide⟩, by decide, by decide, by decide⟩

/-- **The operator ladder round-trips**: a normal-form tree printed with minimal parentheses parses
back to itself (up to source positions), whatever follows it that cannot continue an expression. -/
theorem ladder_roundtrip (e : Expr) (hnf : NF e) (rest : List Char) (hrest : Follows rest) (s : PState)
    (hs : s.rest = pp 0 e ++ rest) (fuel : Nat) (hfuel : fuelNeeded e ≤ fuel) :
    ∃ e', fallback fuel s = some (s.adv (pp 0 e).length, e') ∧ e'.eraseSpans = e.eraseSpans :=
  fallback_roundtrip e hnf rest hrest s hs fuel hfuel

/-- what may follow: the end of the input, `;`, `)`, `]` -/
theorem ladder_followers (r : List Char) :
    Follows [] ∧ Follows (';' :: r) ∧ Follows (')' :: r) ∧ Follows (']' :: r) :=
  ⟨Follows_nil, Follows_semicolon r, Follows_rparen r, Follows_rbracket r⟩

/-- **The operator ladder round-trips under every admissible layout.** -/
theorem ladder_roundtrip_layout (e : Expr) (hnf : NF e) (lay : Layout) (adm : lay.Adm)
    (rest : List Char) (hrest : Follows rest) (s : PState) (hs : s.rest = ppL lay 0 e ++ rest)
    (fuel : Nat) (hfuel : fuelNeeded e ≤ fuel) :
    ∃ e', fallback fuel s = some (s.adv (ppL lay 0 e).length, e') ∧ e'.eraseSpans = e.eraseSpans :=
  fallback_roundtrip_layout e hnf lay adm rest hrest s hs fuel hfuel

/-- the plain printer is the printer with layout at one blank around the operators, an admissible
layout -/
theorem plain_printer_is_a_layout (ctx : Nat) (e : Expr) :
    pp ctx e = ppL plainLayout ctx e ∧ plainLayout.Adm :=
  ⟨pp_eq_ppL ctx e, plainLayout_adm⟩

/-- Non-vacuity: a layout with a comment, a line break and a form feed is admissible. -/
example : IsLayoutW [' ', '#', 'x', '\n', '\x0c', ' '] ∧ IsLayout ['#', '\n'] ∧ ¬ IsLayout ['#', 'a'] := by
  refine ⟨⟨by decide, fun r h => by cases h⟩, by decide, by decide⟩

/-- **The ladder round-trips with escapes, descriptions and juxtaposition** (`Proofs/LadderFull.lean`):
the fragment `NF'` — literals over every character the lexer admits (printed with the fewest
escapes), literals with a description, descriptions distributed over a group (`( … ) "d"`), words
built by juxtaposition (`--opt=<V>`), and the operators of `ladder_roundtrip` — printed by `pp'`
(parentheses where precedence, the three-dots rule or the description rule need them) is read back
as the same tree up to spans. -/
theorem ladder_roundtrip_full (e : Expr) (hnf : Full.NF' e) (rest : List Char) (hrest : Follows rest) (s : PState)
    (hs : s.rest = Full.pp' 0 e ++ rest) (fuel : Nat) (hfuel : fuelNeeded e ≤ fuel) :
    ∃ e', fallback fuel s = some (s.adv (Full.pp' 0 e).length, e') ∧ e'.eraseSpans = e.eraseSpans :=
  fallback_roundtrip_full e hnf rest hrest s hs fuel hfuel

/-- the larger fragment contains the smaller, with the same printed text -/
theorem full_subsumes_plain (e : Expr) (h : NF e) : Full.NF' e ∧ ∀ ctx, ctx ≤ 4 → Full.pp' ctx e = pp ctx e :=
  ⟨Full.NF_sub e h, Full.pp'_eq_pp e h⟩

/-- the side conditions of `NF'` and the extra parentheses of `pp'` are needed: kernel-evaluated runs
of the parser model on the offending texts (two juxtaposed literals read as one; a word inside a word
is flattened; a literal starting with `#` is a comment; `a....` is not `(a.)...`; `a "d"` is not
`(a) "d"`) -/
theorem full_restrictions_needed :
    Full.readsBack (.sub (.seq (ExprL.ofList [.term "a" none 0 ⟨0, 0, 0⟩, .term "b" none 0 ⟨0, 0, 0⟩]) ⟨0, 0, 0⟩) 0 ⟨0, 0, 0⟩) = false ∧
    Full.readsBack (.seq (ExprL.ofList [.term "x" none 0 ⟨0, 0, 0⟩, .term "#y" none 0 ⟨0, 0, 0⟩]) ⟨0, 0, 0⟩) = false ∧
    Full.readsAs ['a', '.', '.', '.', '.'] (.many1 (.term "a." none 0 ⟨0, 0, 0⟩) ⟨0, 0, 0⟩) = false ∧
    Full.readsAs ['a', ' ', '"', 'd', '"'] (.dd (.term "a" none 0 ⟨0, 0, 0⟩) "d" ⟨0, 0, 0⟩) = false :=
  ⟨Full.word_two_literals, Full.hash_literal, Full.dots_unparenthesised, Full.dd_unparenthesised.1⟩

/-- **Whole grammars round-trip** (`Proofs/Statements.lean`): every list of statements of the fragment
(`cmd expr;`, `<NAME> ::= expr;`, `<NAME@shell> ::= expr;` over the operator ladder), printed one
statement per line, is read back by the model of `Grammar::parse` as the same grammar up to spans —
with the fuel `Grammar::parse` itself provides (no fuel hypothesis). -/
theorem grammar_roundtrip (g : Grammar) (hg : ∀ st ∈ g, StmtNF st) :
    ∃ g', parse (ppGrammar g) = .ok g' ∧ g'.map Stmt.eraseSpans = g.map Stmt.eraseSpans :=
  Parse.grammar_roundtrip g hg

/-- … and under every admissible layout of the file: blanks / comments at the beginning, after the
statement name, around `::=` or `=` (either sign), inside the expression (`ladder_roundtrip_layout`),
before `;`, between statements; the last `;` optional. -/
theorem grammar_roundtrip_layout (g : Grammar) (hg : ∀ st ∈ g, StmtNF st) (G : GLayout) (adm : G.Adm g) :
    ∃ g', parse (ppGrammarL G g) = .ok g' ∧ g'.map Stmt.eraseSpans = g.map Stmt.eraseSpans :=
  Parse.grammar_roundtrip_layout g hg G adm

/-- Non-vacuity: a two-statement grammar under a layout with comments, a tab, `=` and no final `;`. -/
example : ∃ g', parse "# example\ncmd\ta <X> ;\n\n# next\n<X>\t=b | [c] ".toList = .ok g' ∧
    g'.map Stmt.eraseSpans = exGrammar.map Stmt.eraseSpans := by
  have h := Parse.grammar_roundtrip_layout exGrammar exGrammar_nf exLayout exLayout_adm
  rwa [show ppGrammarL exLayout exGrammar =
    "# example\ncmd\ta <X> ;\n\n# next\n<X>\t=b | [c] ".toList by decide] at h

/-- **The larger fragment under every admissible layout** (`Proofs/LadderFullLayout.lean`): escaped
literals, descriptions (a possibly empty stretch of layout before the `"`, not starting with `#`),
descriptions over groups, words by juxtaposition (no layout inside a word), and the operators. -/
theorem ladder_roundtrip_full_layout (e : Expr) (hnf : Full.NF' e) (lay : Full.Layout') (adm : lay.Adm)
    (rest : List Char) (hrest : Follows rest) (s : PState) (hs : s.rest = Full.ppL' lay 0 e ++ rest)
    (fuel : Nat) (hfuel : Full.needF e ≤ fuel) :
    ∃ e', fallback fuel s = some (s.adv (Full.ppL' lay 0 e).length, e') ∧ e'.eraseSpans = e.eraseSpans :=
  fallback_roundtrip_full_layout e hnf lay adm rest hrest s hs fuel hfuel

/-- where layout may *not* stand, with kernel-evaluated runs of the parser model: a comment directly
after a word and before its description is part of the word; a blank inside a word splits it -/
theorem layout_positions_needed :
    Full.readsAs "a#c\n\"d\"".toList (.term "a" (some "d") 0 ⟨0, 0, 0⟩) = false ∧
    Full.readsAs "a#c\n\"d\"".toList (.term "a#c" (some "d") 0 ⟨0, 0, 0⟩) = true ∧
    Full.readsAs "--o= <V>".toList
      (.sub (.seq (ExprL.ofList [.term "--o=" none 0 ⟨0, 0, 0⟩, .nonterm "V" 0 ⟨0, 0, 0⟩]) ⟨0, 0, 0⟩) 0 ⟨0, 0, 0⟩) = false :=
  ⟨Full.descr_hash_literal.2.2.1, Full.descr_hash_literal.2.2.2, Full.blank_in_word.2.1⟩

/-- **Whole files over the larger fragment, every admissible layout** (`Proofs/StatementsFull.lean`),
with the fuel `Grammar::parse` provides. -/
theorem grammar_roundtrip_full_layout (g : Grammar) (hg : ∀ st ∈ g, Full.StmtNF' st) (G : Full.GLayout')
    (adm : G.Adm g) :
    ∃ g', parse (Full.ppGrammarL' G g) = .ok g' ∧ g'.map Stmt.eraseSpans = g.map Stmt.eraseSpans :=
  Parse.grammar_roundtrip_full_layout g hg G adm

/-- the plain printer of whole files over the larger fragment -/
theorem grammar_roundtrip_full (g : Grammar) (hg : ∀ st ∈ g, Full.StmtNF' st) :
    ∃ g', parse (Full.ppGrammar' g) = .ok g' ∧ g'.map Stmt.eraseSpans = g.map Stmt.eraseSpans :=
  Parse.grammar_roundtrip_full g hg

end Complgen.Props.C05
