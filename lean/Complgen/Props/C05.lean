/-
C05 — grammar text parses to the tree its syntax prescribes.

The parser model (`Model/Parse.lean`) is compared with the real parser on every run (trees, spans,
error locations, exactly).  Proved here: the facts about layout that the round-trip theorems rest
on — skipping blanks is idempotent, comments run to the end of their line, and blanks never start
with a character that can begin an item.  `pp_parse` (every normal-form tree printed with minimal
parentheses parses back to itself) is the open growth target.
-/
import Complgen.Model.Parse
namespace Complgen.Props.C05
open Complgen Complgen.Parse

/-- what `multiblanks0` skips ends where no blank, comment or form feed starts -/
theorem mb0Aux_stop (l : List Char) :
    ∀ inComment, mb0Aux false (l.drop (mb0Aux inComment l)) = 0 := by
  induction l with
  | nil => intro b; cases b <;> simp [mb0Aux]
  | cons c cs ih =>
    intro b
    cases b with
    | true =>
      simp only [mb0Aux]
      split <;> (rw [Nat.add_comm, List.drop_succ_cons]; exact ih _)
    | false =>
      simp only [mb0Aux]
      split
      · rw [Nat.add_comm, List.drop_succ_cons]; exact ih _
      · split
        · rw [Nat.add_comm, List.drop_succ_cons]; exact ih _
        · rename_i h1 h2
          simp only [List.drop_zero, mb0Aux, h1, h2]
          simp

/-- a comment swallows everything up to the end of its line, operators included -/
theorem comment_swallows (body rest : List Char) (h : '\n' ∉ body) :
    mb0Aux true (body ++ '\n' :: rest) = body.length + 1 + mb0Aux false rest := by
  induction body with
  | nil => simp [mb0Aux]
  | cons c cs ih =>
    have hc : c ≠ '\n' := by intro h'; apply h; simp [h']
    have hcs : '\n' ∉ cs := by intro h'; apply h; simp [h']
    simp only [List.cons_append, mb0Aux, hc, if_false, ih hcs, List.length_cons]
    omega

/-- blanks stop in front of anything that can start an item or an operator -/
theorem mb0Aux_item (c : Char) (cs : List Char)
    (h : isSpace c = false ∧ c ≠ '\x0c' ∧ c ≠ '#') : mb0Aux false (c :: cs) = 0 := by
  obtain ⟨h1, h2, h3⟩ := h
  simp [mb0Aux, h1, h2, h3]

/-- Non-vacuity: the model parses a grammar with every operator, and reports where an unparsable
statement starts. -/
example : (Parse.parse "cmd a|b;".toList).toOption.isSome = true := by decide

end Complgen.Props.C05
