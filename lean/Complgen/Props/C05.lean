/-
C05 — grammar text parses to the tree its syntax prescribes.

The parser model (`Model/Parse.lean`) is compared with the real parser on every run (trees, spans,
error locations, exactly).  Proved here: the facts about layout that the round-trip theorems rest
on — skipping blanks is idempotent, comments run to the end of their line, and blanks never start
with a character that can begin an item — and, for the two lexers (`Proofs/Lexer.lean`), the round
trip itself, for every text:
  * `terminal_is_decoder` — the three-phase loop of `terminal` (regular run / escapes / fewer than three
    dots, repeated) reads exactly what a character-by-character reference decoder reads, for every
    input; `terminal_roundtrip` / `terminal_roundtrip_escape_all` — every non-empty text over the
    permitted characters, printed with the fewest escapes (a dot is escaped only as the third of a
    run) or with every special character escaped, followed by anything that cannot continue a
    literal, is read back as that text and exactly its characters are consumed;
  * `description_roundtrip` — every text printed between double quotes with `"` and `\` escaped is read
    back as that text.
  * `ladder_roundtrip` (`Proofs/Ladder.lean`) — the operator ladder: every normal-form tree over
    literals of regular characters, nonterminals and commands, built with sequence, `|`, `||`, `[ ]`
    and postfix `...`, printed with the minimum of parentheses the precedences require (`Parse.pp`),
    is read back by `fallback` as the same tree up to spans — precedence, associativity, the
    `|`-versus-`||` look-ahead, and the back-tracking of the sequence loop, for every tree.
Open: the same with juxtaposition (`.sub`), descriptions after groups and escaped literals inside
the ladder (the lexers' own round trips are above), and arbitrary layout between tokens.
-/
import Complgen.Model.Parse
import Complgen.Proofs.Lexer
import Complgen.Proofs.Ladder
namespace Complgen.Props.C05
open Complgen Complgen.Parse

/-- what `multiblanks0` skips ends where no blank, comment or form feed starts -/
theorem mb0Aux_stop (l : List Char) :
    ∀ inComment, mb0Aux false (l.drop (mb0Aux inComment l)) = 0 := by
  induction l with
  | nil => intro b; cases b <;> simp [mb0Aux]
  | cons c cs ih =>
    intro b
    cases b with
    | true =>
      simp only [mb0Aux]
      split <;> (rw [Nat.add_comm, List.drop_succ_cons]; exact ih _)
    | false =>
      simp only [mb0Aux]
      split
      · rw [Nat.add_comm, List.drop_succ_cons]; exact ih _
      · split
        · rw [Nat.add_comm, List.drop_succ_cons]; exact ih _
        · rename_i h1 h2
          simp only [List.drop_zero, mb0Aux, h1, h2]
          simp

/-- a comment swallows everything up to the end of its line, operators included -/
theorem comment_swallows (body rest : List Char) (h : '\n' ∉ body) :
    mb0Aux true (body ++ '\n' :: rest) = body.length + 1 + mb0Aux false rest := by
  induction body with
  | nil => simp [mb0Aux]
  | cons c cs ih =>
    have hc : c ≠ '\n' := by intro h'; apply h; simp [h']
    have hcs : '\n' ∉ cs := by intro h'; apply h; simp [h']
    simp only [List.cons_append, mb0Aux, hc, if_false, ih hcs, List.length_cons]
    omega

/-- blanks stop in front of anything that can start an item or an operator -/
theorem mb0Aux_item (c : Char) (cs : List Char)
    (h : isSpace c = false ∧ c ≠ '\x0c' ∧ c ≠ '#') : mb0Aux false (c :: cs) = 0 := by
  obtain ⟨h1, h2, h3⟩ := h
  simp [mb0Aux, h1, h2, h3]

/-- Non-vacuity: the model parses a grammar with every operator, and reports where an unparsable
statement starts. -/
example : (Parse.parse "cmd a|b;".toList).toOption.isSome = true := by decide

/-- the literal lexer is the character-by-character reference decoder `dec'`, on every input -/
theorem terminal_is_decoder (s : PState) :
    terminal s = match dec' s.rest with
      | none => none
      | some (t, n) => if t.isEmpty then none else some (s.adv n, String.ofList t) :=
  terminal_eq_dec s

/-- **Literals round-trip** (fewest escapes): whatever precedes in `s`'s position bookkeeping, a
printed literal followed by a terminating character is read back exactly -/
theorem terminal_roundtrip (t rest : List Char) (s : PState) (ht : t ≠ [])
    (hperm : ∀ c ∈ t, isRegular c = true ∨ isEsc c = true) (hrest : Terminates rest)
    (hs : s.rest = escT 0 t ++ rest) :
    terminal s = some (s.adv (escT 0 t).length, String.ofList t) :=
  Parse.terminal_roundtrip t rest s ht hperm hrest hs

/-- the same with every special character escaped -/
theorem terminal_roundtrip_escape_all (t rest : List Char) (s : PState) (ht : t ≠ [])
    (hperm : ∀ c ∈ t, isRegular c = true ∨ isEsc c = true) (hrest : Terminates rest)
    (hs : s.rest = escAll t ++ rest) :
    terminal s = some (s.adv (escAll t).length, String.ofList t) :=
  Parse.terminal_roundtrip_all t rest s ht hperm hrest hs

/-- **Descriptions round-trip**: any text at all, with `"` and `\` escaped -/
theorem description_roundtrip (d rest : List Char) (s : PState) (hs : s.rest = '"' :: escD d ++ '"' :: rest) :
    description s = some (s.adv ((escD d).length + 2), String.ofList d) :=
  Parse.description_roundtrip d rest s hs

/-- Non-vacuity: `a.b` followed by a blank meets the premises of `terminal_roundtrip` -/
example : Terminates [' '] ∧ (∀ c ∈ ['a', '.', 'b'], isRegular c = true ∨ isEsc c = true) ∧
    escT 0 ['a', '.', 'b'] = ['a', '.', 'b'] ∧ escT 0 ['.', '.', '.'] = ['.', '.', '\\', '.'] := by
  refine ⟨.inr ⟨' ', [], rfl, by decide, by decide, by decide⟩, by decide, by decide, by decide⟩

/-- **The operator ladder round-trips**: a normal-form tree printed with minimal parentheses parses
back to itself (up to source positions), whatever follows it that cannot continue an expression. -/
theorem ladder_roundtrip (e : Expr) (hnf : NF e) (rest : List Char) (hrest : Follows rest) (s : PState)
    (hs : s.rest = pp 0 e ++ rest) (fuel : Nat) (hfuel : fuelNeeded e ≤ fuel) :
    ∃ e', fallback fuel s = some (s.adv (pp 0 e).length, e') ∧ e'.eraseSpans = e.eraseSpans :=
  fallback_roundtrip e hnf rest hrest s hs fuel hfuel

/-- what may follow: the end of the input, `;`, `)`, `]` -/
theorem ladder_followers (r : List Char) :
    Follows [] ∧ Follows (';' :: r) ∧ Follows (')' :: r) ∧ Follows (']' :: r) :=
  ⟨Follows_nil, Follows_semicolon r, Follows_rparen r, Follows_rbracket r⟩

end Complgen.Props.C05
