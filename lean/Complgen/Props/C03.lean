/-
C03 — minimisation preserves the language and yields the trim minimal automaton.

Proved here: soundness of the certificate checkers that the check runs on every (raw, minimised)
pair the real library produces — a pair that passes has equal languages and a minimised automaton
with no unreachable state, no dead state and no two equivalent states, hence of minimal size.
`hopcroft_correct` (the model of `do_minimize` is correct for every work-list order) is the open
growth target; it is *not* claimed.
-/
import Complgen.Proofs.Cert
namespace Complgen.Props.C03
open Complgen.Cert

/-- language preservation, given a checked bisimulation between raw and minimised -/
theorem language_preserved (raw min : KAuto) (R : List (Nat × Nat))
    (h : bisimCheck raw min R = true) : ∀ w, raw.accepts w = min.accepts w :=
  bisim_sound raw min R h

/-- every state of a certified automaton is reachable and can reach acceptance -/
theorem trim (a : KAuto) (access co : List (Nat × List String))
    (ha : accessCheck a access = true) (hc : coaccessCheck a co = true) :
    ∀ s ∈ a.states, (∃ w, a.runFrom a.start w = some s) ∧ (∃ w, a.acceptsFrom s w = true) :=
  fun s hs => ⟨access_sound a access ha s hs, coaccess_sound a co hc s hs⟩

/-- no two states of a certified automaton accept the same continuations -/
theorem reduced (a : KAuto) (dist : List ((Nat × Nat) × List String))
    (h : distinctCheck a dist = true) :
    ∀ p ∈ a.states, ∀ q ∈ a.states, p ≠ q → ∃ w, a.acceptsFrom p w ≠ a.acceptsFrom q w :=
  distinct_sound a dist h

/-- a certified automaton has the size of the minimal automaton of its language -/
theorem minimal_size (a : KAuto) (access co : List (Nat × List String))
    (dist : List ((Nat × Nat) × List String))
    (ha : accessCheck a access = true) (hc : coaccessCheck a co = true)
    (hd : distinctCheck a dist = true) (b : KAuto) (hL : ∀ w, b.accepts w = a.accepts w) :
    a.states.length ≤ b.states.length :=
  minimal_card a access co dist ha hc hd b hL

/-- Non-vacuity: a three-state automaton for `a b* ` passes all checks. -/
example :
    let a : KAuto := { start := 0, trans := [(0, "a", 1), (1, "b", 1), (1, "c", 2)], acc := [2] }
    accessCheck a [(0, []), (1, ["a"]), (2, ["a", "c"])] = true ∧
    coaccessCheck a [(0, ["a", "c"]), (1, ["c"]), (2, [])] = true ∧
    distinctCheck a [((0, 1), ["c"]), ((0, 2), []), ((1, 2), [])] = true := by decide

end Complgen.Props.C03
