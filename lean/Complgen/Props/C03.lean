/-
C03 — minimisation preserves the language and yields the trim minimal automaton.

Proved here: soundness of the certificate checkers that the check runs on every (raw, minimised)
pair the real library produces — a pair that passes has equal languages and a minimised automaton
with no unreachable state, no dead state and no two equivalent states, hence of minimal size.
And over the model of `do_minimize` itself (`Model/Min.lean`: Hopcroft's partition refinement on the
automaton completed with the dead state 0, for *every* iteration order of its hash containers, then
the quotient, the two clean-up passes and the renumbering): `hopcroft_preserves_language` — whenever
`minimize` returns, the result accepts exactly the words of the input, for every well-formed input
automaton (`Min.WF`: state 0 unused, deterministic transitions, input indices in range, accepting
states reachable); `hopcroft_partition_stable` — the partition it ends with is a congruence that
never mixes accepting and non-accepting states (`Proofs/Hopcroft.lean`).  Minimality of the result
(no two equivalent states remain) is not proved over the model; it is decided per automaton by the
certificates above.
-/
import Complgen.Proofs.Cert
import Complgen.Proofs.Hopcroft
import Complgen.Proofs.BuildWF
namespace Complgen.Props.C03
open Complgen.Cert

/-- language preservation, given a checked bisimulation between raw and minimised -/
theorem language_preserved (raw min : KAuto) (R : List (Nat × Nat))
    (h : bisimCheck raw min R = true) : ∀ w, raw.accepts w = min.accepts w :=
  bisim_sound raw min R h

/-- every state of a certified automaton is reachable and can reach acceptance -/
theorem trim (a : KAuto) (access co : List (Nat × List String))
    (ha : accessCheck a access = true) (hc : coaccessCheck a co = true) :
    ∀ s ∈ a.states, (∃ w, a.runFrom a.start w = some s) ∧ (∃ w, a.acceptsFrom s w = true) :=
  fun s hs => ⟨access_sound a access ha s hs, coaccess_sound a co hc s hs⟩

/-- no two states of a certified automaton accept the same continuations -/
theorem reduced (a : KAuto) (dist : List ((Nat × Nat) × List String))
    (h : distinctCheck a dist = true) :
    ∀ p ∈ a.states, ∀ q ∈ a.states, p ≠ q → ∃ w, a.acceptsFrom p w ≠ a.acceptsFrom q w :=
  distinct_sound a dist h

/-- a certified automaton has the size of the minimal automaton of its language -/
theorem minimal_size (a : KAuto) (access co : List (Nat × List String))
    (dist : List ((Nat × Nat) × List String))
    (ha : accessCheck a access = true) (hc : coaccessCheck a co = true)
    (hd : distinctCheck a dist = true) (b : KAuto) (hL : ∀ w, b.accepts w = a.accepts w) :
    a.states.length ≤ b.states.length :=
  minimal_card a access co dist ha hc hd b hL

/-- Non-vacuity: a three-state automaton for `a b* ` passes all checks. -/
example :
    let a : KAuto := { start := 0, trans := [(0, "a", 1), (1, "b", 1), (1, "c", 2)], acc := [2] }
    accessCheck a [(0, []), (1, ["a"]), (2, ["a", "c"])] = true ∧
    coaccessCheck a [(0, ["a", "c"]), (1, ["c"]), (2, [])] = true ∧
    distinctCheck a [((0, 1), ["c"]), ((0, 2), []), ((1, 2), [])] = true := by decide

open Complgen in
/-- **The model of the minimiser preserves the language, for every schedule of its work-list.** -/
theorem hopcroft_preserves_language (σ : Schedule) (a m : Auto) (hwf : Min.WF a) (h : Min.minimize σ a = some m) :
    ∀ w : List Nat, m.accepts w = a.accepts w :=
  Min.minimize_lang σ a m hwf h

open Complgen in
/-- the partition the refinement ends with: blocks cover all states, are disjoint, never mix accepting
and non-accepting states, and states of one block step into one common block on every input -/
theorem hopcroft_partition_stable (σ : Schedule) (a : Auto) (P : List Min.Block) (hwf : Min.WF a)
    (h : Min.partition σ a = some P) : Min.PInv a P ∧ Min.Stable a P :=
  Min.partition_stable σ a P hwf h

open Complgen in
/-- what the subset construction builds is well-formed (states numbered from 1, deterministic, input
indices in range, every accepting state reachable) -/
theorem built_automaton_wf (σ : Schedule) (r : Regex) (symOf : Nat → Option Inp) (a : Auto)
    (h : buildAuto σ r symOf = some a) : Min.WF a :=
  buildAuto_WF σ r symOf a h

open Complgen in
/-- **Minimising the automaton the compiler builds preserves its language**, for every schedule of the
subset construction and every schedule of the minimiser. -/
theorem minimize_built_automaton (σ σ' : Schedule) (r : Regex) (symOf : Nat → Option Inp) (a m : Auto)
    (h : buildAuto σ r symOf = some a) (hm : Min.minimize σ' a = some m) :
    ∀ w : List Nat, m.accepts w = a.accepts w :=
  minimize_buildAuto_lang σ σ' r symOf a m h hm

end Complgen.Props.C03
