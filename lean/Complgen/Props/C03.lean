/-
C03 — minimisation preserves the language and yields the trim minimal automaton.

Proved here: soundness of the certificate checkers that the check runs on every (raw, minimised)
pair the real library produces — a pair that passes has equal languages and a minimised automaton
with no unreachable state, no dead state and no two equivalent states, hence of minimal size.
And over the model of `do_minimize` itself (`Model/Min.lean`: Hopcroft's partition refinement on the
automaton completed with the dead state 0, for *every* iteration order of its hash containers, then
the quotient, the two clean-up passes and the renumbering): `hopcroft_preserves_language` — whenever
`minimize` returns, the result accepts exactly the words of the input, for every well-formed input
automaton (`Min.WF`: state 0 unused, deterministic transitions, input indices in range, accepting
states reachable); `hopcroft_partition_stable` — the partition it ends with is a congruence that
never mixes accepting and non-accepting states (`Proofs/Hopcroft.lean`).
`minimiser_terminates` — on every well-formed automaton the refinement loop ends within the fuel the
model gives it (|states|² rounds: every round either splits a block or shortens the work-list), so the
hypothesis `minimize σ a = some m` of the other theorems is always met (`Proofs/HopcroftTerm.lean`).
Minimality over the model (`Proofs/HopcroftMin.lean`): `minimised_is_reduced` — when every state of
the input can reach acceptance, any two different states of the result are told apart by a word
(the partition Hopcroft ends with separates every distinguishable pair: the invariant "every pair of
blocks that a word separates is cut by a block still on the work-list or already stable" holds for
every schedule); `minimised_is_accessible` — when every state of the input is reachable, so is every
state of the result; `built_automaton_trim` — what the subset construction builds from a regular
expression without empty alternation *is* reachable and co-reachable, for every schedule; hence
`minimised_built_is_minimal` — the minimised automaton of every compiled expression is reduced and
accessible, i.e. the minimal automaton of its language; `minimised_is_trim` — every state of the
result is reachable and can reach acceptance; and the cardinality form (`Proofs/HopcroftCard.lean`,
a Myhill–Nerode argument for partial automata): `minimised_is_smallest` /
`minimised_built_is_smallest` — *no automaton whatever that accepts the same words has fewer states*
than the minimiser's result.  Both hypotheses are needed, with
counterexamples (`coacc_needed`, `access_needed`): the real code keeps the dead state 0 in a block of
its own, so states that cannot reach acceptance are not merged with it — the compiler never produces
such states.
-/
import Complgen.Proofs.Cert
import Complgen.Proofs.Hopcroft
import Complgen.Proofs.BuildWF
import Complgen.Proofs.HopcroftTerm
import Complgen.Proofs.HopcroftMin
import Complgen.Proofs.HopcroftCard
import Complgen.Proofs.EndToEnd
namespace Complgen.Props.C03
open Complgen.Cert

/-- language preservation, given a checked bisimulation between raw and minimised -/
theorem language_preserved (raw min : KAuto) (R : List (Nat × Nat))
    (h : bisimCheck raw min R = true) : ∀ w, raw.accepts w = min.accepts w :=
  bisim_sound raw min R h

/-- every state of a certified automaton is reachable and can reach acceptance -/
theorem trim (a : KAuto) (access co : List (Nat × List String))
    (ha : accessCheck a access = true) (hc : coaccessCheck a co = true) :
    ∀ s ∈ a.states, (∃ w, a.runFrom a.start w = some s) ∧ (∃ w, a.acceptsFrom s w = true) :=
  fun s hs => ⟨access_sound a access ha s hs, coaccess_sound a co hc s hs⟩

/-- no two states of a certified automaton accept the same continuations -/
theorem reduced (a : KAuto) (dist : List ((Nat × Nat) × List String))
    (h : distinctCheck a dist = true) :
    ∀ p ∈ a.states, ∀ q ∈ a.states, p ≠ q → ∃ w, a.acceptsFrom p w ≠ a.acceptsFrom q w :=
  distinct_sound a dist h

/-- a certified automaton has the size of the minimal automaton of its language -/
theorem minimal_size (a : KAuto) (access co : List (Nat × List String))
    (dist : List ((Nat × Nat) × List String))
    (ha : accessCheck a access = true) (hc : coaccessCheck a co = true)
    (hd : distinctCheck a dist = true) (b : KAuto) (hL : ∀ w, b.accepts w = a.accepts w) :
    a.states.length ≤ b.states.length :=
  minimal_card a access co dist ha hc hd b hL

/-- Non-vacuity: a three-state automaton for `a b* ` passes all checks. -/
example :
    let a : KAuto := { start := 0, trans := [(0, "a", 1), (1, "b", 1), (1, "c", 2)], acc := [2] }
    accessCheck a [(0, []), (1, ["a"]), (2, ["a", "c"])] = true ∧
    coaccessCheck a [(0, ["a", "c"]), (1, ["c"]), (2, [])] = true ∧
    distinctCheck a [((0, 1), ["c"]), ((0, 2), []), ((1, 2), [])] = true := by decide

open Complgen in
/-- **The model of the minimiser preserves the language, for every schedule of its work-list.** -/
theorem hopcroft_preserves_language (σ : Schedule) (a m : Auto) (hwf : Min.WF a) (h : Min.minimize σ a = some m) :
    ∀ w : List Nat, m.accepts w = a.accepts w :=
  Min.minimize_lang σ a m hwf h

open Complgen in
/-- the partition the refinement ends with: blocks cover all states, are disjoint, never mix accepting
and non-accepting states, and states of one block step into one common block on every input -/
theorem hopcroft_partition_stable (σ : Schedule) (a : Auto) (P : List Min.Block) (hwf : Min.WF a)
    (h : Min.partition σ a = some P) : Min.PInv a P ∧ Min.Stable a P :=
  Min.partition_stable σ a P hwf h

open Complgen in
/-- what the subset construction builds is well-formed (states numbered from 1, deterministic, input
indices in range, every accepting state reachable) -/
theorem built_automaton_wf (σ : Schedule) (r : Regex) (symOf : Nat → Option Inp) (a : Auto)
    (h : buildAuto σ r symOf = some a) : Min.WF a :=
  buildAuto_WF σ r symOf a h

open Complgen in
/-- **Minimising the automaton the compiler builds preserves its language**, for every schedule of the
subset construction and every schedule of the minimiser. -/
theorem minimize_built_automaton (σ σ' : Schedule) (r : Regex) (symOf : Nat → Option Inp) (a m : Auto)
    (h : buildAuto σ r symOf = some a) (hm : Min.minimize σ' a = some m) :
    ∀ w : List Nat, m.accepts w = a.accepts w :=
  minimize_buildAuto_lang σ σ' r symOf a m h hm

open Complgen in
/-- **The minimiser terminates**: on a well-formed automaton the model's refinement loop never runs
out of its fuel, for any schedule. -/
theorem minimiser_terminates (σ : Schedule) (a : Auto) (hwf : Min.WF a) :
    (Min.minimize σ a).isSome = true :=
  Min.minimize_isSome σ a hwf

open Complgen in
/-- **No two states of the minimised automaton are equivalent**, when every state of the input can
reach acceptance. -/
theorem minimised_is_reduced (σ : Schedule) (a m : Auto) (hwf : Min.WF a) (hco : Min.CoAcc a)
    (h : Min.minimize σ a = some m) :
    ∀ p ∈ m.states, ∀ q ∈ m.states, p ≠ q → ∃ w : List Nat, Min.accFrom m p w ≠ Min.accFrom m q w :=
  Min.minimize_reduced σ a m hwf hco h

open Complgen in
/-- **Every state of the minimised automaton is reachable**, when every state of the input is. -/
theorem minimised_is_accessible (σ : Schedule) (a m : Auto) (hwf : Min.WF a) (hacc : Min.Access a)
    (h : Min.minimize σ a = some m) :
    ∀ q ∈ m.states, ∃ w : List Nat, m.run m.start w = some q :=
  Min.minimize_accessible σ a m hwf hacc h

open Complgen in
/-- what the subset construction builds is trim: every state reachable (always), and every state
able to reach acceptance when the expression has no empty alternation, every position a symbol and
the end marker none -/
theorem built_automaton_trim (σ : Schedule) (r : Regex) (symOf : Nat → Option Inp) (a : Auto)
    (hl : r.root.Linear) (hpos : ∀ q ∈ r.root.positions, q < r.endPos) (hne : r.root.NoEmptyOr)
    (hsym : ∀ p, p < r.inputs.length → (symOf p).isSome) (hend : symOf r.endPos = none)
    (h : buildAuto σ r symOf = some a) : Min.Access a ∧ Min.CoAcc a :=
  ⟨buildAuto_access σ r symOf a h, buildAuto_coacc σ r symOf a hl hpos hne hsym hend h⟩

open Complgen in
/-- **The minimised automaton of a compiled expression is the minimal one**: reduced and accessible,
for every schedule of the subset construction and of the minimiser. -/
theorem minimised_built_is_minimal (σ σ' : Schedule) (e : Expr) (pool : RxPool)
    (symOf : Nat → Option Inp) (a m : Auto) (hne : e.NoEmptyAlt)
    (hsym : ∀ p, p < e.leafCount → (symOf p).isSome) (hend : symOf e.leafCount = none)
    (h : buildAuto σ (Regex.ofExpr e pool).1 symOf = some a) (hm : Min.minimize σ' a = some m) :
    (∀ p ∈ m.states, ∀ q ∈ m.states, p ≠ q →
      ∃ w : List Nat, Min.accFrom m p w ≠ Min.accFrom m q w) ∧
    (∀ q ∈ m.states, ∃ w : List Nat, m.run m.start w = some q) :=
  minimize_raw_reduced_accessible σ σ' e pool symOf a m hne hsym hend h hm

open Complgen in
/-- the hypothesis of `minimised_is_reduced` is needed: a well-formed, accessible automaton with two
states that cannot reach acceptance keeps two equivalent states -/
theorem coacc_needed : Min.WF Min.exNotReduced ∧ Min.Access Min.exNotReduced ∧
    ∀ m, Min.minimize fifo Min.exNotReduced = some m →
      2 ∈ m.states ∧ 3 ∈ m.states ∧ ∀ w, Min.accFrom m 2 w = Min.accFrom m 3 w :=
  ⟨Min.exNotReduced_WF, Min.exNotReduced_access, Min.exNotReduced_spec⟩

open Complgen in
/-- the hypothesis of `minimised_is_accessible` is needed -/
theorem access_needed : Min.WF Min.exNotAccessible ∧ Min.CoAcc Min.exNotAccessible ∧
    ∀ m, Min.minimize fifo Min.exNotAccessible = some m →
      2 ∈ m.states ∧ ∀ w, m.run m.start w ≠ some 2 :=
  ⟨Min.exNotAccessible_WF, Min.exNotAccessible_coacc, Min.exNotAccessible_spec⟩

open Complgen in
/-- **The minimised automaton is trim**: every state reachable and able to reach acceptance. -/
theorem minimised_is_trim (σ : Schedule) (a m : Auto) (hwf : Min.WF a) (hco : Min.CoAcc a)
    (hacc : Min.Access a) (h : Min.minimize σ a = some m) :
    ∀ q ∈ m.states, (∃ u : List Nat, m.run m.start u = some q) ∧
      (∃ w : List Nat, Min.accFrom m q w = true) :=
  Min.minimize_trim σ a m hwf hco hacc h

open Complgen in
/-- the list of states of an automaton has no duplicates, so its length is the number of states -/
theorem states_counted_once (a : Auto) : a.states.Nodup := Min.states_nodup a

open Complgen in
/-- **Nothing smaller accepts the same words**: any automaton `b` with the language of the input has
at least as many states as the minimiser's result. -/
theorem minimised_is_smallest (σ : Schedule) (a m : Auto) (hwf : Min.WF a) (hco : Min.CoAcc a)
    (hacc : Min.Access a) (h : Min.minimize σ a = some m) (b : Auto)
    (hb : ∀ w : List Nat, b.accepts w = a.accepts w) : m.states.length ≤ b.states.length :=
  Min.minimize_minimal_card σ a m hwf hco hacc h b hb

open Complgen in
/-- **The minimised automaton of a compiled expression is the smallest automaton of its language**,
and every state of it can reach acceptance — for every schedule of both loops. -/
theorem minimised_built_is_smallest (σ σ' : Schedule) (e : Expr) (pool : RxPool)
    (symOf : Nat → Option Inp) (a m : Auto) (hne : e.NoEmptyAlt)
    (hsym : ∀ p, p < e.leafCount → (symOf p).isSome) (hend : symOf e.leafCount = none)
    (h : buildAuto σ (Regex.ofExpr e pool).1 symOf = some a) (hm : Min.minimize σ' a = some m) :
    (∀ q ∈ m.states, ∃ w : List Nat, Min.accFrom m q w = true) ∧
    ∀ b : Auto, (∀ w : List Nat, b.accepts w = a.accepts w) → m.states.length ≤ b.states.length :=
  minimize_raw_minimal_card σ σ' e pool symOf a m hne hsym hend h hm

open Complgen in
/-- **From source text to the minimal automaton**: for every text the parser model accepts, every
shell and every schedule for which the pipeline model produces a result, the minimised main
automaton accepts the words of the raw one, no two of its states are equivalent and all are
reachable — no hypothesis left (the parser never builds an empty alternation and validation never
creates one: `Proofs/NoEmptyAlt.lean`; the symbols of the positions are total: `Proofs/PipelineMin.lean`). -/
theorem compiled_is_minimal (σ : Schedule) (input : List Char) (g : Grammar) (sh : Shell)
    (c : Pipeline.Compiled) (hp : Parse.parse input = .ok g) (h : Pipeline.compile σ g sh = .ok c) :
    (∀ w, c.min.main.accepts w = c.raw.main.accepts w) ∧
    (∀ p ∈ c.min.main.states, ∀ q ∈ c.min.main.states, p ≠ q →
      ∃ w : List Nat, Min.accFrom c.min.main p w ≠ Min.accFrom c.min.main q w) ∧
    (∀ q ∈ c.min.main.states, ∃ w : List Nat, c.min.main.run c.min.main.start w = some q) :=
  Pipeline.compile_parsed_minimal σ input g sh c hp h

open Complgen in
/-- **… and the smallest**: every state can reach acceptance and no automaton accepting the same words
has fewer states. -/
theorem compiled_is_smallest (σ : Schedule) (input : List Char) (g : Grammar) (sh : Shell)
    (c : Pipeline.Compiled) (hp : Parse.parse input = .ok g) (h : Pipeline.compile σ g sh = .ok c) :
    (∀ q ∈ c.min.main.states, ∃ w : List Nat, Min.accFrom c.min.main q w = true) ∧
    ∀ b : Auto, (∀ w : List Nat, b.accepts w = c.raw.main.accepts w) →
      c.min.main.states.length ≤ b.states.length :=
  Pipeline.compile_parsed_smallest σ input g sh c hp h

open Complgen in
/-- the hypothesis that validation needs: it passes an empty alternation through when its input has
one (a tree the parser cannot produce) -/
theorem empty_alternation_only_from_outside :
    ∃ v, Check.validate Check.emptyAltGrammar .bash = .ok v ∧ ¬ v.expr.NoEmptyAlt :=
  Check.validate_keeps_empty_alt

open Complgen in
/-- **The within-word automata** of a compiled grammar: each is the minimised automaton of the automaton
built from a within-word expression of the pool, accepts its language, is accessible, and is
reduced when that expression has no empty alternation and no nested within-word input. -/
theorem within_word_automata_minimised (σ : Schedule) (g : Grammar) (sh : Shell) (c : Pipeline.Compiled)
    (h : Pipeline.compile σ g sh = .ok c) :
    c.raw.subs = c.min.subs ∧
    ∀ m ∈ c.min.subs, ∃ sr ∈ c.pool, ∃ raw,
      buildAuto σ sr (Pipeline.subSymOf sr) = some raw ∧ Min.minimize σ raw = some m ∧
      (∀ w : List Nat, m.accepts w = raw.accepts w) ∧
      (∀ q ∈ m.states, ∃ w : List Nat, m.run m.start w = some q) ∧
      (sr.root.NoEmptyOr → (∀ i ∈ sr.inputs, ∀ rid l sp, i ≠ RxInput.sub rid l sp) →
        ∀ p ∈ m.states, ∀ q ∈ m.states, p ≠ q →
          ∃ w : List Nat, Min.accFrom m p w ≠ Min.accFrom m q w) :=
  Pipeline.compile_subs_minimised σ g sh c h

end Complgen.Props.C03
