/-
Spec of the three warning sets (C15), over the reference graph of the grammar, independent of the
bookkeeping inside check.rs:
  undefined sh g  = the names still standing for "any word" in the grammar's meaning for `sh`
                    (reachable from the call variants through the *chosen* definitions), except `_`;
  unused g        = plain definitions whose name occurs in no statement;
  unusedSpec sh g = definitions for `sh` whose name occurs in no statement.
-/
import Complgen.Spec.Den
namespace Complgen.Spec
open Complgen

mutual
/-- every nonterminal name occurring in an expression (inside words too) -/
def names : Expr → List String
  | .nonterm n _ _ => [n]
  | .seq cs _ | .alt cs _ | .fb cs _ => namesL cs
  | .opt c _ | .many1 c _ | .dd c _ _ | .sub c _ _ => names c
  | _ => []
def namesL : ExprL → List String
  | .nil => []
  | .cons e es => names e ++ namesL es
end

def Stmt.body : Stmt → Expr
  | .call _ _ e => e
  | .defn _ _ _ e => e

/-- names some statement refers to -/
def referred (g : Grammar) : List String := g.flatMap fun st => names (Stmt.body st)

def undefinedNames (sh : Shell) (g : Grammar) : List String :=
  ((names (meaning g sh)).filter (· != "_")).eraseDups

def unusedNames (g : Grammar) : List String :=
  (g.filterMap fun
    | .defn n _ none _ => if (referred g).contains n then none else some n
    | _ => none).eraseDups

def unusedSpecNames (sh : Shell) (g : Grammar) : List String :=
  (g.filterMap fun
    | .defn n _ (some (s, _)) _ => if s == sh.name && !(referred g).contains n then some n else none
    | _ => none).eraseDups

end Complgen.Spec
