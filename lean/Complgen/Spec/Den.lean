/-
Spec: what a grammar *means* for a target shell, written from the documentation and the property
statements, independently of check.rs's passes:
  1. the call variants are alternatives;
  2. `<X>` stands for the `<X@shell>` command if there is one, otherwise for the plain definition,
     otherwise for the built-in PATH/DIRECTORY command, otherwise for "any word";
  3. a description written after a parenthesised group goes to the first literal of every
     alternative of the group and is spent by the first literal of a sequence;
  4. every item carries the index of the branch of the innermost enclosing `||` it sits in;
  5. a juxtaposition is one word whose inside is the flattened expression.
The result is an expression in which only literals, commands, "any word", words, sequence,
alternative, optional and repetition occur; its language is given by partial derivatives.
-/
import Complgen.Model.Syntax
import Complgen.Gen.Tables
import Complgen.Cert.Canon
namespace Complgen.Spec
open Complgen

/-- meaning of a nonterminal reference -/
inductive Meaning where
  | command (text : String) (compadd : Bool)
  | expr (e : Expr)
  | anyWord

def pick (sh : Shell) (g : Grammar) (name : String) : Meaning :=
  let spec := g.findSome? fun
    | .defn n _ (some (s, _)) (.cmd c _ _ _) => if n == name && s == sh.name then some c else none
    | _ => none
  match spec with
  | some c => .command c (sh == .zsh)
  | none =>
    let plain := g.findSome? fun
      | .defn n _ none e => if n == name then some e else none
      | _ => none
    match plain with
    | some e => .expr e
    | none =>
      match (Gen.builtinTable.find? (fun r => r.1 == name && r.2.1 == sh)).map (·.2.2) with
      | some c => .command c (sh == .zsh)
      | none => .anyWord

mutual
/-- rule 3; returns the tree and whether the pending description is still unspent afterwards -/
def distr : Expr → Option String → Expr × Option String
  | .dd c d _, pend => ((distr c (some d)).1, pend)
  | .term t none l s, some d => (.term t (some d) l s, none)
  | .term t d l s, pend => (.term t d l s, pend)
  | .nonterm n l s, pend => (.nonterm n l s, pend)
  | .cmd c a l s, pend => (.cmd c a l s, pend)
  | .seq cs s, pend => let (cs', p) := distrSeq cs pend; (.seq cs' s, p)
  | .fb cs s, pend => let (cs', p) := distrSeq cs pend; (.fb cs' s, p)
  | .alt cs s, pend =>
    -- every alternative gets it; what follows the group gets it only if some alternative left it unspent
    let (cs', allSpent) := distrAlt cs pend
    (.alt cs' s, if allSpent then none else pend)
  | .opt c s, pend => let (c', p) := distr c pend; (.opt c' s, p)
  | .many1 c s, pend => let (c', p) := distr c pend; (.many1 c' s, p)
  | .sub c l s, pend => let (c', p) := distr c pend; (.sub c' l s, p)
def distrSeq : ExprL → Option String → ExprL × Option String
  | .nil, pend => (.nil, pend)
  | .cons e es, pend =>
    let (e', p) := distr e pend
    let (es', p') := distrSeq es p
    (.cons e' es', p')
def distrAlt : ExprL → Option String → ExprL × Bool
  | .nil, _ => (.nil, true)
  | .cons e es, pend =>
    let (e', p) := distr e pend
    let (es', all) := distrAlt es pend
    (.cons e' es', all && p.isNone)
end

mutual
/-- rule 2, to a fixpoint; `fuel` bounds the nesting of definitions (the grammar is acyclic) -/
def expand (sh : Shell) (g : Grammar) : Nat → Expr → Expr
  | 0, e => e
  | fuel + 1, e =>
    match e with
    | .nonterm n l s =>
      match pick sh g n with
      | .command c a => .cmd c a l s
      | .expr d => expand sh g fuel (distr d none).1
      | .anyWord => .nonterm n l s
    | .seq cs s => .seq (expandL sh g fuel cs) s
    | .alt cs s => .alt (expandL sh g fuel cs) s
    | .fb cs s => .fb (expandL sh g fuel cs) s
    | .opt c s => .opt (expand sh g fuel c) s
    | .many1 c s => .many1 (expand sh g fuel c) s
    | .sub c l s => .sub (expand sh g fuel c) l s
    | .dd c d s => .dd (expand sh g fuel c) d s
    | e => e
def expandL (sh : Shell) (g : Grammar) : Nat → ExprL → ExprL
  | 0, es => es
  | _ + 1, .nil => .nil
  | fuel + 1, .cons e es => .cons (expand sh g fuel e) (expandL sh g (fuel + 1) es)
end

mutual
/-- rule 5: inside a word there are no nested words -/
def unword : Expr → Expr
  | .sub c _ _ => unword c
  | .seq cs s => .seq (unwordL cs) s
  | .alt cs s => .alt (unwordL cs) s
  | .fb cs s => .fb (unwordL cs) s
  | .opt c s => .opt (unword c) s
  | .many1 c s => .many1 (unword c) s
  | e => e
def unwordL : ExprL → ExprL
  | .nil => .nil
  | .cons e es => .cons (unword e) (unwordL es)
end

mutual
/-- rule 5 applied everywhere: the topmost juxtaposition stays a word, its inside is flattened -/
def words : Expr → Expr
  | .sub c l s => .sub (unword c) l s
  | .seq cs s => .seq (wordsL cs) s
  | .alt cs s => .alt (wordsL cs) s
  | .fb cs s => .fb (wordsL cs) s
  | .opt c s => .opt (words c) s
  | .many1 c s => .many1 (words c) s
  | e => e
def wordsL : ExprL → ExprL
  | .nil => .nil
  | .cons e es => .cons (words e) (wordsL es)
end

mutual
/-- rule 4 -/
def label : Expr → Nat → Expr
  | .term t d _ s, lvl => .term t d lvl s
  | .nonterm n _ s, lvl => .nonterm n lvl s
  | .cmd c a _ s, lvl => .cmd c a lvl s
  | .seq cs s, lvl => .seq (labelL cs lvl) s
  | .alt cs s, lvl => .alt (labelL cs lvl) s
  | .fb cs s, _ => .fb (labelFb cs 0) s
  | .opt c s, lvl => .opt (label c lvl) s
  | .many1 c s, lvl => .many1 (label c lvl) s
  | .sub c _ s, lvl => .sub (label c lvl) lvl s
  | .dd c d s, lvl => .dd (label c lvl) d s
def labelL : ExprL → Nat → ExprL
  | .nil, _ => .nil
  | .cons e es, lvl => .cons (label e lvl) (labelL es lvl)
def labelFb : ExprL → Nat → ExprL
  | .nil, _ => .nil
  | .cons e es, i => .cons (label e i) (labelFb es (i + 1))
end

mutual
def size : Expr → Nat
  | .seq cs _ | .alt cs _ | .fb cs _ => sizeL cs + 1
  | .opt c _ | .many1 c _ | .dd c _ _ | .sub c _ _ => size c + 1
  | _ => 1
def sizeL : ExprL → Nat
  | .nil => 0
  | .cons e es => size e + sizeL es
end

def callBodies (g : Grammar) : List Expr :=
  g.filterMap fun
    | .call _ _ e => some e
    | _ => none

/-- rule 1: the call variants are alternatives; `sp` is the source position recorded at the node that
joins several call variants (positions carry no meaning) -/
def topOf (sp : Span) (g : Grammar) : Expr :=
  match callBodies g with
  | [e] => e
  | es => .alt (ExprL.ofList es) sp

/-- the expression a grammar denotes for a shell, with position `sp` at the joining node -/
def meaningAt (sp : Span) (g : Grammar) (sh : Shell) : Expr :=
  let e := (distr (topOf sp g) none).1
  -- along one path of the expansion every definition is entered at most once (acyclic grammar), so
  -- the depth is bounded by the total size of the grammar; every level costs two units of fuel
  let total := g.foldl (fun n st => n + match st with | .call _ _ e => size e | .defn _ _ _ e => size e) 0
  let e := expand sh g (2 * total + 8) e
  label (words e) 0

/-- the expression a grammar denotes for a shell -/
def meaning (g : Grammar) (sh : Shell) : Expr := meaningAt default g sh

/-! ### the language, by partial derivatives (Antimirov) -/

/-- regular expressions over symbol keys -/
inductive SRx where
  | eps
  | sym (k : String)
  | cat (a b : SRx)
  | alt (a b : SRx)
  | star (a : SRx)
deriving BEq, Repr, Inhabited

def SRx.nullable : SRx → Bool
  | .eps => true
  | .sym _ => false
  | .cat a b => a.nullable && b.nullable
  | .alt a b => a.nullable || b.nullable
  | .star _ => true

def SRx.mkCat : SRx → SRx → SRx
  | .eps, b => b
  | a, .eps => a
  | a, b => .cat a b

def addNew (l : List SRx) (x : SRx) : List SRx := if l.contains x then l else l ++ [x]
def unionS (a b : List SRx) : List SRx := b.foldl addNew a

/-- partial derivatives by the symbol `k` -/
def SRx.pd (k : String) : SRx → List SRx
  | .eps => []
  | .sym j => if j == k then [.eps] else []
  | .alt a b => unionS (a.pd k) (b.pd k)
  | .cat a b => unionS ((a.pd k).map (SRx.mkCat · b)) (if a.nullable then b.pd k else [])
  | .star a => (a.pd k).map (SRx.mkCat · (.star a))

def SRx.syms : SRx → List String
  | .eps => []
  | .sym k => [k]
  | .cat a b | .alt a b => (a.syms ++ b.syms).eraseDups
  | .star a => a.syms

/-- determinised partial-derivative automaton (states = sets of terms, named in discovery order) -/
def SRx.toKAuto (r : SRx) : Cert.KAuto :=
  let keys := Cert.sortStrings r.syms
  let rec loop : Nat → List (List SRx) → List (List SRx) → List (Nat × String × Nat) →
      List (List SRx) × List (Nat × String × Nat)
    | 0, _, states, trans => (states, trans)
    | _ + 1, [], states, trans => (states, trans)
    | fuel + 1, s :: work, states, trans =>
      let from_ := (states.idxOf? s).getD 0
      let (work, states, trans) := keys.foldl (init := (work, states, trans)) fun (work, states, trans) k =>
        let t := s.foldl (fun acc x => unionS acc (x.pd k)) []
        if t.isEmpty then (work, states, trans) else
        -- sets are compared as sets
        match states.findIdx? (fun u => u.all (t.contains ·) && t.all (u.contains ·)) with
        | some j => (work, states, trans ++ [(from_, k, j)])
        | none => (work ++ [t], states ++ [t], trans ++ [(from_, k, states.length)])
      loop fuel work states trans
  let (states, trans) := loop 4096 [[r]] [[r]] []
  { start := 0, trans,
    acc := (List.range states.length).filter fun i => (states[i]?.getD []).any SRx.nullable }

mutual
/-- the expression as a regular expression over keys; `wordKey` names the language of a word -/
def toSRx (wordKey : Expr → String) : Expr → SRx
  | .term t d l _ => .sym s!"L:{Hex.encode t}:{Hex.encodeOpt d}:{l}"
  | .nonterm _ _ _ => .sym "X"
  | .cmd c a l _ => .sym s!"C:{Hex.encode c}:{if a then 1 else 0}:{l}"
  | .sub c l _ => .sym s!"W:{wordKey c}.0:{l}"
  | .seq cs _ => toSRxCat wordKey cs
  | .alt cs _ => toSRxAlt wordKey cs
  | .fb cs _ => toSRxAlt wordKey cs
  | .opt c _ => .alt (toSRx wordKey c) .eps
  | .many1 c _ => let r := toSRx wordKey c; SRx.mkCat r (.star r)
  | .dd c _ _ => toSRx wordKey c
def toSRxCat (wordKey : Expr → String) : ExprL → SRx
  | .nil => .eps
  | .cons e es => SRx.mkCat (toSRx wordKey e) (toSRxCat wordKey es)
def toSRxAlt (wordKey : Expr → String) : ExprL → SRx
  | .nil => .cat (.sym "∅") (.sym "∅∅")   -- no alternative: nothing is accepted (never produced by the parser)
  | .cons e .nil => toSRx wordKey e
  | .cons e es => .alt (toSRx wordKey e) (toSRxAlt wordKey es)
end

/-- identifier of the language of a within-word expression -/
def wordKey (c : Expr) : String :=
  ((Cert.langId (toSRx (fun _ => "?") c).toKAuto)).getD "?"

/-- the automaton of the grammar's meaning -/
def specAuto (g : Grammar) (sh : Shell) : Cert.KAuto := (toSRx wordKey (meaning g sh)).toKAuto

mutual
/-- the within-word expressions of an expression, in order of occurrence -/
def wordsOf : Expr → List Expr
  | .sub c _ _ => [c]
  | .seq cs _ | .alt cs _ | .fb cs _ => wordsOfL cs
  | .opt c _ | .many1 c _ | .dd c _ _ => wordsOf c
  | _ => []
def wordsOfL : ExprL → List Expr
  | .nil => []
  | .cons e es => wordsOf e ++ wordsOfL es
end

end Complgen.Spec
