/-
Spec of completion (C01, C17; DESIGN.md Appendix D): what the grammar prescribes after a command
line, written over the automaton of the grammar's *meaning* (`Spec.meaning`, partial derivatives)
and independently of tables.rs / the bash template.

  reading a complete word `w` at a point: among the expected items that match `w`
  (literal: `w = t`; within-word expression: `w ∈ strings`; command: `w` is a candidate it
  prints; placeholder: always) the kind with the highest priority literal > word > command > any
  is taken; no matching item: the command line cannot be matched — nothing is offered.

  offering at the point reached, for the typed prefix `p`: for level k = 0, 1, …
     literals `t` of level k with `p <+: t ++ " "`, rendered `t ++ " "`;
     within-word continuations of level k (`within`);
     candidates of commands of level k that extend `p`;
  the first level with any candidate wins.  Then bash's own stripping: every candidate loses the part
  of `p` up to its last COMP_WORDBREAKS character.

The function also returns the external-command calls the grammar allows / requires (C17), and two
*lenient* answers that reproduce recorded defects of the emitted script (a word that stops in the
middle of a within-word expression is accepted; a last complete word that matches no candidate of
an expected command is ignored), so that the check can tell these known findings from anything new.
-/
import Complgen.Spec.Den
namespace Complgen.Spec.Complete
open Complgen Complgen.Cert

inductive Item where
  | lit (t : String) (lvl : Nat)
  | cmd (c : String) (lvl : Nat)
  | any
  | word (k : String) (lvl : Nat)
deriving Repr, Inhabited, BEq

def itemOfKey (k : String) : Option Item :=
  match k.splitOn ":" with
  | ["L", t, _, l] => do some (.lit (← Hex.decode t) (← l.toNat?))
  | ["C", c, _, l] => do some (.cmd (← Hex.decode c) (← l.toNat?))
  | ["X"] => some .any
  | ["W", h, l] => do some (.word h (← l.toNat?))
  | _ => none

/-- a call of an external command: text, first argument, second argument -/
structure Call where
  cmd : String
  a1 : String
  a2 : String
deriving BEq, Repr

structure World where
  main : KAuto
  subs : List (String × KAuto)          -- W key (`hash.0`) ↦ within-word automaton
  out : String → List String            -- command text ↦ the lines it prints

def field (line : String) : String := String.ofList (line.toList.takeWhile (· ≠ '\t'))

def World.fields (W : World) (c : String) : List String := ((W.out c).map field).filter (· ≠ "")

def trans (a : KAuto) (q : Nat) : List (Item × Nat) :=
  (a.trans.filter (·.1 == q)).filterMap fun t => (itemOfKey t.2.1).map fun i => (i, t.2.2)

def isPrefix (p s : String) : Bool := p.toList.isPrefixOf s.toList

def addNew {α} [BEq α] (l : List α) (x : α) : List α := if l.contains x then l else l ++ [x]

/-! ### inside a word -/

/-- one step of reading `w` from position `pos` in state `q` of a within-word automaton: the
(state, position) pairs reached by one complete item, with the calls made -/
def subStep (W : World) (a : KAuto) (w : List Char) (q pos : Nat) : List (Nat × Nat) × List Call :=
  let rest := w.drop pos
  let matched := String.ofList (w.take pos)
  (trans a q).foldl (init := ([], [])) fun (acc, calls) (it, q') =>
    match it with
    | .lit t _ =>
      if !t.isEmpty && t.toList.isPrefixOf rest then (addNew acc (q', pos + t.length), calls) else (acc, calls)
    | .cmd c _ =>
      if rest.isEmpty then (acc, calls) else
      let calls := addNew calls ⟨c, String.ofList rest, matched⟩
      ((W.fields c).foldl (fun acc f => if f.toList.isPrefixOf rest then addNew acc (q', pos + f.length) else acc) acc, calls)
    | .any => if rest.isEmpty then (acc, calls) else (addNew acc (q', w.length), calls)
    | .word _ _ => (acc, calls)

/-- all (state, position) pairs reachable by sequences of complete items -/
def subReach (W : World) (a : KAuto) (w : List Char) : Nat → List (Nat × Nat) → List (Nat × Nat) → List Call →
    List (Nat × Nat) × List Call
  | 0, _, seen, calls => (seen, calls)
  | _ + 1, [], seen, calls => (seen, calls)
  | fuel + 1, (q, pos) :: work, seen, calls =>
    let (next, cs) := subStep W a w q pos
    let new := next.filter fun x => !seen.contains x
    subReach W a w fuel (work ++ new) (seen ++ new) (cs.foldl addNew calls)

def subAll (W : World) (a : KAuto) (w : List Char) : List (Nat × Nat) × List Call :=
  subReach W a w ((a.states.length + 1) * (w.length + 2)) [(a.start, 0)] [(a.start, 0)] []

/-- `w ∈ strings`: the whole word is read and an accepting state is reached; the lenient variant
only asks that the whole word is read -/
def subMatches (W : World) (a : KAuto) (w : String) : Bool × Bool × List Call :=
  let (reach, calls) := subAll W a w.toList
  let full := reach.filter fun x => x.2 == w.length
  (full.any fun x => a.acc.contains x.1, !full.isEmpty, calls)

/-- the class C01 is stated for: at every point of the word expression no expected literal is a proper
prefix of another one (otherwise how a typed text splits into values is C12's subject) -/
def prefixFree (W : World) (a : KAuto) : Bool :=
  a.states.all fun q =>
    let lits := (trans a q).filterMap fun (it, _) => match it with
      | .lit t _ => some t
      | _ => none
    -- … and no candidate of a command expected inside the word is a proper prefix of another one of that
    -- command (`alexander`, `alexander-the-great`): which of them a typed text begins with is then decided
    -- by the order in which the template tries them, not by the grammar
    let cmdsOK := (trans a q).all fun (it, _) => match it with
      | .cmd c _ => (W.fields c).all fun x => (W.fields c).all fun y => x == y || !(isPrefix x y)
      | _ => true
    cmdsOK && lits.all fun x => lits.all fun y => x == y || !(isPrefix x y)

def maxLevel (a : KAuto) : Nat :=
  a.trans.foldl (fun m t => match itemOfKey t.2.1 with
    | some (.lit _ l) | some (.cmd _ l) | some (.word _ l) => max m l
    | _ => m) 0

/-- `within`: completions of the typed word `p` inside the word expression: from the point reached
after the longest readable part `m` of `p`, the items of the first level that has one extending the
rest.  Returns the candidates, the calls made while reading `p`, the calls made to collect candidates,
and whether the decomposition was unique. -/
def within (W : World) (a : KAuto) (p : String) : List String × List Call × List Call × Bool :=
  let w := p.toList
  let (reach, calls0) := subAll W a w
  let best := reach.foldl (fun m x => max m x.2) 0
  let pts := reach.filter fun x => x.2 == best
  let unique := pts.length ≤ 1 && prefixFree W a
  match pts.head? with
  | none => ([], calls0, [], unique)
  | some (q, pos) =>
    let m := String.ofList (w.take pos)
    let r := String.ofList (w.drop pos)
    let rec levels : Nat → Nat → List Call → List String × List Call
      | 0, _, calls => ([], calls)
      | fuel + 1, j, calls =>
        let (cands, calls) := (trans a q).foldl (init := ([], calls)) fun (acc, calls) (it, _) =>
          match it with
          | .lit t l => if l == j && isPrefix r t then (addNew acc (m ++ t), calls) else (acc, calls)
          | .cmd c l =>
            if l == j then
              let calls := addNew calls ⟨c, r, m⟩
              ((W.fields c).foldl (fun acc f => if isPrefix r f then addNew acc (m ++ f) else acc) acc, calls)
            else (acc, calls)
          | _ => (acc, calls)
        if !cands.isEmpty then (cands, calls) else levels fuel (j + 1) calls
    let (cands, calls) := levels (maxLevel a + 1) 0 []
    (cands, calls0, calls, unique)

/-! ### between words -/

inductive Read where
  | next (q : Nat)
  | noMatch
  | ambiguous
deriving Repr, BEq

def sameTarget (l : List Nat) : Read :=
  match l with
  | [] => .noMatch
  | q :: rest => if rest.all (· == q) then .next q else .ambiguous

structure ReadResult where
  strict : Read
  /-- reading that also accepts a word stopping in the middle of a within-word expression -/
  lenient : Read
  calls : List Call
  /-- the point expects a command that printed at least one candidate (for the second known finding) -/
  cmdPoint : Bool

def subOf (W : World) (k : String) : Option KAuto := (W.subs.find? (·.1 == k)).map (·.2)

/-- reading the complete word `w` at state `q` -/
def readWord (W : World) (q : Nat) (w : String) : ReadResult :=
  let ts := trans W.main q
  let lits := ts.filterMap fun (it, q') => match it with
    | .lit t _ => if t == w then some q' else none
    | _ => none
  let cmdItems := ts.filterMap fun (it, q') => match it with
    | .cmd c _ => some (c, q')
    | _ => none
  let cmdPoint := cmdItems.any fun (c, _) => !(W.fields c).isEmpty
  if !lits.isEmpty then ⟨sameTarget lits, sameTarget lits, [], cmdPoint⟩ else
  let wordRes := ts.filterMap fun (it, q') => match it with
    | .word k _ => (subOf W k).map fun a => (subMatches W a w, q')
    | _ => none
  let calls := wordRes.foldl (fun cs r => r.1.2.2.foldl addNew cs) []
  let strictW := wordRes.filterMap fun r => if r.1.1 then some r.2 else none
  let lenW := wordRes.filterMap fun r => if r.1.2.1 then some r.2 else none
  -- (the lenient reading may pick any within-word expression the word runs into, finished or not)
  if !strictW.isEmpty then ⟨sameTarget strictW, sameTarget lenW, calls, cmdPoint⟩ else
  -- commands are tried when no literal and no word expression matched
  let calls2 := cmdItems.foldl (fun cs (c, _) => addNew cs ⟨c, "", ""⟩) calls
  let cmds := cmdItems.filterMap fun (c, q') => if (W.fields c).contains w then some q' else none
  let anys := ts.filterMap fun (it, q') => match it with
    | .any => some q'
    | _ => none
  let rest : Read × List Call :=
    if !cmds.isEmpty then (sameTarget cmds, calls2)
    else if !anys.isEmpty then (sameTarget anys, calls2)
    else (.noMatch, calls2)
  if !lenW.isEmpty then ⟨rest.1, sameTarget lenW, calls, cmdPoint⟩
  else ⟨rest.1, rest.1, rest.2, cmdPoint⟩

/-- candidates offered at state `q` for the typed prefix `p`; the calls that collecting them requires;
the further calls reading `p` inside word expressions may make; uniqueness of the decompositions -/
def offer (W : World) (q : Nat) (p : String) : List String × List Call × List Call × Bool :=
  let ts := trans W.main q
  let rec levels : Nat → Nat → List Call → List Call → Bool → List String × List Call × List Call × Bool
    | 0, _, calls, extra, u => ([], calls, extra, u)
    | fuel + 1, k, calls, extra, u =>
      let (cands, calls, extra, u) := ts.foldl (init := ([], calls, extra, u)) fun (acc, calls, extra, u) (it, _) =>
        match it with
        | .lit t l => if l == k && isPrefix p (t ++ " ") then (addNew acc (t ++ " "), calls, extra, u) else (acc, calls, extra, u)
        | .word key l =>
          if l == k then
            match subOf W key with
            | some a =>
              let (cs, reading, collecting, uq) := within W a p
              (cs.foldl addNew acc, collecting.foldl addNew calls, reading.foldl addNew extra, u && uq)
            | none => (acc, calls, extra, u)
          else (acc, calls, extra, u)
        | .cmd c l =>
          if l == k then
            let calls := addNew calls ⟨c, p, ""⟩
            ((W.fields c).foldl (fun acc f => if isPrefix p f then addNew acc f else acc) acc, calls, extra, u)
          else (acc, calls, extra, u)
        | .any => (acc, calls, extra, u)
      if !cands.isEmpty then (cands, calls, extra, u) else levels fuel (k + 1) calls extra u
  levels (maxLevel W.main + 1) 0 [] [] true

/-- bash's stripping: the part of `p` up to and including its last COMP_WORDBREAKS character -/
def superfluous (p wb : String) : String :=
  let cs := p.toList
  let idx := (List.range cs.length).foldl (fun best i => if wb.toList.contains (cs[i]!) then some i else best) (none : Option Nat)
  match idx with
  | some i => String.ofList (cs.take (i + 1))
  | none => ""

def strip (pre s : String) : String :=
  if pre.toList.isPrefixOf s.toList then String.ofList (s.toList.drop pre.length) else s

structure Answer where
  /-- `none`: the command line cannot be matched; `some cs`: the candidates -/
  strict : Option (List String)
  ambiguous : Bool
  /-- calls the grammar requires at the final point / allows along the way -/
  required : List Call
  allowed : List Call
  /-- answers under the two recorded defects (none when they do not apply) -/
  lenientWord : Option (Option (List String))
  lenientLast : Option (Option (List String))
  /-- under the first recorded defect the word can be read in several ways (which one the script takes
  depends on table order) -/
  lenientAmbiguous : Bool

def finish (W : World) (q : Nat) (p wb : String) : List String × List Call × List Call × Bool :=
  let (cands, calls, extra, u) := offer W q p
  let pre := superfluous p wb
  (cands.map (strip pre), calls, extra, u)

/-- walk the complete words; `mode` 0 = strict, 1 = lenient about unfinished words -/
def walk (W : World) (mode : Nat) : List String → Nat → List Call → Bool → Option Nat × List Call × Bool × Option Nat
  | [], q, calls, amb => (some q, calls, amb, none)
  | w :: ws, q, calls, amb =>
    let r := readWord W q w
    let calls := r.calls.foldl addNew calls
    let rd := if mode == 0 then r.strict else r.lenient
    match rd with
    | .next q' => walk W mode ws q' calls amb
    | .ambiguous => (none, calls, true, none)
    | .noMatch =>
      -- remember the state when the *last* complete word is the one that fails at a command point
      (none, calls, amb, if ws.isEmpty && r.cmdPoint then some q else none)

def complete (W : World) (ws : List String) (p wb : String) : Answer :=
  let (q0, calls0, amb0, lastFail) := walk W 0 ws W.main.start [] false
  let strictRes := q0.map fun q => finish W q p wb
  let strict := strictRes.map (·.1)
  let required := (strictRes.map (·.2.1)).getD []
  let ambiguous := amb0 || (strictRes.map (!·.2.2.2)).getD false
  let allowed := required.foldl addNew calls0
  let allowed := ((strictRes.map (·.2.2.1)).getD []).foldl addNew allowed
  let (q1, calls1, amb1, lastFail1) := walk W 1 ws W.main.start [] false
  let lenientWord : Option (Option (List String)) :=
    if q1 == q0 then none else some (q1.map fun q => (finish W q p wb).1)
  -- the lenient reading may itself end in the second defect
  let lf := if lastFail.isSome then lastFail else lastFail1
  let lenientLast : Option (Option (List String)) :=
    match lf with
    | some q => some (some (finish W q p wb).1)
    | none => none
  let allowed := calls1.foldl addNew allowed
  let allowed := match q1 with
    | some q => let f := finish W q p wb; f.2.2.1.foldl addNew (f.2.1.foldl addNew allowed)
    | none => allowed
  let allowed := match lf with
    | some q => let f := finish W q p wb; f.2.2.1.foldl addNew (f.2.1.foldl addNew allowed)
    | none => allowed
  let lenUnique := match q1 with
    | some q => (finish W q p wb).2.2.2
    | none => true
  let lastUnique := match lf with
    | some q => (finish W q p wb).2.2.2
    | none => true
  { strict, ambiguous, required, allowed, lenientWord, lenientLast,
    lenientAmbiguous := (amb1 && !amb0) || !lenUnique || !lastUnique }

/-! ### the world of a grammar -/

mutual
def wordExprs : Expr → List (String × Expr)
  | .sub c _ _ => [(s!"{wordKey c}.0", c)]
  | .seq cs _ | .alt cs _ | .fb cs _ => wordExprsL cs
  | .opt c _ | .many1 c _ | .dd c _ _ => wordExprs c
  | _ => []
def wordExprsL : ExprL → List (String × Expr)
  | .nil => []
  | .cons e es => wordExprs e ++ wordExprsL es
end

def worldOf (g : Grammar) (sh : Shell) (out : String → List String) : World :=
  let m := meaning g sh
  { main := (toSRx wordKey m).toKAuto,
    subs := (wordExprs m).map fun (k, c) => (k, (toSRx (fun _ => "?") c).toKAuto),
    out }

end Complgen.Spec.Complete
