/-
Spec: what a position-numbered regular expression *means* (words of positions), and what the
position automaton read off nullable/first/follow accepts.  Written independently of the
construction algorithms; `Proofs/Glushkov.lean` and `Proofs/Subset.lean` relate the two and the
model of `dfa_from_regex`.
-/
import Complgen.Model.Dfa
namespace Complgen

mutual
/-- language of a regular expression over its positions -/
def Rx.Lang : Rx → List Nat → Prop
  | .eps, w => w = []
  | .sym p, w => w = [p]
  | .cat cs, w => RxL.LangCat cs w
  | .or cs, w => RxL.LangOr cs w
  | .plus c, w => ∃ ws : List (List Nat), ws ≠ [] ∧ w = ws.flatten ∧ ∀ u ∈ ws, Rx.Lang c u
def RxL.LangCat : RxL → List Nat → Prop
  | .nil, w => w = []
  | .cons c cs, w => ∃ u v, w = u ++ v ∧ Rx.Lang c u ∧ RxL.LangCat cs v
def RxL.LangOr : RxL → List Nat → Prop
  | .nil, _ => False
  | .cons c cs, w => Rx.Lang c w ∨ RxL.LangOr cs w
end

/-- every position occurs once (what `do_from_expr`'s numbering guarantees) -/
def Rx.Linear (r : Rx) : Prop := r.positions.Nodup

/-- A path through the position automaton given by `first`/`follow`: starts in `first`, each next
position is in the `follow` of the previous one. `PosPath first follow ps last` : `ps` is such a
path and `last` is what may follow its final position (`first` itself for the empty path). -/
inductive PosPath (first : List Nat) (follow : Nat → List Nat) : List Nat → List Nat → Prop
  | nil : PosPath first follow [] first
  | snoc {ps : List Nat} {cur : List Nat} (p : Nat) :
      PosPath first follow ps cur → p ∈ cur → PosPath first follow (ps ++ [p]) (follow p)

/-- The words (over symbols `α`) the position automaton accepts: label sequences of paths after
which the end marker may follow. -/
def PosAccepts {α : Type} (first : List Nat) (follow : Nat → List Nat) (endPos : Nat)
    (symOf : Nat → Option α) (w : List α) : Prop :=
  ∃ ps cur, PosPath first follow ps cur ∧ endPos ∈ cur ∧ (∀ p ∈ ps, p ≠ endPos) ∧
    ps.map symOf = w.map some

/-- acceptance of a word of symbols by a model automaton (a symbol outside `inputs` is rejected) -/
def Auto.acceptsInp (a : Auto) (w : List Inp) : Bool :=
  match w.mapM (fun x => a.inputs.idxOf? x) with
  | some is => a.accepts is
  | none => false

end Complgen
