/-
Spec: what a position-numbered regular expression *means* (words of positions), and what the
position automaton read off nullable/first/follow accepts.  Written independently of the
construction algorithms; `Proofs/Glushkov.lean` and `Proofs/Subset.lean` relate the two and the
model of `dfa_from_regex`.
-/
import Complgen.Model.Dfa
namespace Complgen

mutual
/-- language of a regular expression over its positions -/
def Rx.Lang : Rx → List Nat → Prop
  | .eps, w => w = []
  | .sym p, w => w = [p]
  | .cat cs, w => RxL.LangCat cs w
  | .or cs, w => RxL.LangOr cs w
  | .plus c, w => ∃ ws : List (List Nat), ws ≠ [] ∧ w = ws.flatten ∧ ∀ u ∈ ws, Rx.Lang c u
def RxL.LangCat : RxL → List Nat → Prop
  | .nil, w => w = []
  | .cons c cs, w => ∃ u v, w = u ++ v ∧ Rx.Lang c u ∧ RxL.LangCat cs v
def RxL.LangOr : RxL → List Nat → Prop
  | .nil, _ => False
  | .cons c cs, w => Rx.Lang c w ∨ RxL.LangOr cs w
end

/-- every position occurs once (what `do_from_expr`'s numbering guarantees) -/
def Rx.Linear (r : Rx) : Prop := r.positions.Nodup

/-- A path through the position automaton given by `first`/`follow`: starts in `first`, each next
position is in the `follow` of the previous one. `PosPath first follow ps last` : `ps` is such a
path and `last` is what may follow its final position (`first` itself for the empty path). -/
inductive PosPath (first : List Nat) (follow : Nat → List Nat) : List Nat → List Nat → Prop
  | nil : PosPath first follow [] first
  | snoc {ps : List Nat} {cur : List Nat} (p : Nat) :
      PosPath first follow ps cur → p ∈ cur → PosPath first follow (ps ++ [p]) (follow p)

/-- The words (over symbols `α`) the position automaton accepts: label sequences of paths after
which the end marker may follow. -/
def PosAccepts {α : Type} (first : List Nat) (follow : Nat → List Nat) (endPos : Nat)
    (symOf : Nat → Option α) (w : List α) : Prop :=
  ∃ ps cur, PosPath first follow ps cur ∧ endPos ∈ cur ∧ (∀ p ∈ ps, p ≠ endPos) ∧
    ps.map symOf = w.map some

/-- acceptance of a word of symbols by a model automaton (a symbol outside `inputs` is rejected) -/
def Auto.acceptsInp (a : Auto) (w : List Inp) : Bool :=
  match w.mapM (fun x => a.inputs.idxOf? x) with
  | some is => a.accepts is
  | none => false

end Complgen

namespace Complgen

mutual
/-- number of leaves (= positions `do_from_expr` allocates); a juxtaposition is one leaf -/
def Expr.leafCount : Expr → Nat
  | .term .. | .nonterm .. | .cmd .. | .sub .. => 1
  | .seq cs _ | .alt cs _ | .fb cs _ => ExprL.leafCount cs
  | .opt c _ | .many1 c _ => Expr.leafCount c
  | .dd .. => 0
def ExprL.leafCount : ExprL → Nat
  | .nil => 0
  | .cons e es => Expr.leafCount e + ExprL.leafCount es
end

mutual
/-- Meaning of an expression as a language over its leaves, the leaves being numbered from `i`
left to right: sequence = concatenation, `|` and `||` = union, `[e]` = `e` or nothing,
`e...` = one or more repetitions. -/
def Expr.denPos : Expr → Nat → List Nat → Prop
  | .term .., i, w => w = [i]
  | .nonterm .., i, w => w = [i]
  | .cmd .., i, w => w = [i]
  | .sub .., i, w => w = [i]
  | .seq cs _, i, w => ExprL.denSeq cs i w
  | .alt cs _, i, w => ExprL.denAlt cs i w
  | .fb cs _, i, w => ExprL.denAlt cs i w
  | .opt c _, i, w => w = [] ∨ Expr.denPos c i w
  | .many1 c _, i, w => ∃ ws : List (List Nat), ws ≠ [] ∧ w = ws.flatten ∧ ∀ u ∈ ws, Expr.denPos c i u
  | .dd .., _, w => w = []
def ExprL.denSeq : ExprL → Nat → List Nat → Prop
  | .nil, _, w => w = []
  | .cons e es, i, w => ∃ u v, w = u ++ v ∧ Expr.denPos e i u ∧ ExprL.denSeq es (i + Expr.leafCount e) v
def ExprL.denAlt : ExprL → Nat → List Nat → Prop
  | .nil, _, _ => False
  | .cons e es, i, w => Expr.denPos e i w ∨ ExprL.denAlt es (i + Expr.leafCount e) w
end

end Complgen
