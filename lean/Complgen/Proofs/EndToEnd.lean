/-
Composition of the parser, validation, pipeline and minimiser theorems: statements about what the
model of the whole compiler (`Parse.parse` ▸ `Pipeline.compile`) does on *source text*.
-/
import Complgen.Proofs.PipelineMin
import Complgen.Proofs.NoEmptyAlt
import Complgen.Proofs.HopcroftCard
import Complgen.Proofs.Meaning
import Complgen.Proofs.Subset
import Complgen.Proofs.RxOfExpr
namespace Complgen.Pipeline
open Complgen Complgen.Check

/-- the validated expression of a parsed grammar never has an empty alternation -/
theorem compile_parsed_NoEmptyAlt (σ : Schedule) (input : List Char) (g : Grammar) (sh : Shell)
    (c : Compiled) (hp : Parse.parse input = .ok g) (h : compile σ g sh = .ok c) :
    c.valid.expr.NoEmptyAlt :=
  parse_validate_NoEmptyAlt input g sh c.valid hp (compile_ok_inv σ g sh c h).1

/-- **From source text to the minimal automaton**: for every text the parser model accepts and every
shell and schedule for which the pipeline model produces a result, the minimised main automaton
accepts the words of the raw one, no two of its states are equivalent, and all are reachable. -/
theorem compile_parsed_minimal (σ : Schedule) (input : List Char) (g : Grammar) (sh : Shell)
    (c : Compiled) (hp : Parse.parse input = .ok g) (h : compile σ g sh = .ok c) :
    (∀ w, c.min.main.accepts w = c.raw.main.accepts w) ∧
    (∀ p ∈ c.min.main.states, ∀ q ∈ c.min.main.states, p ≠ q →
      ∃ w : List Nat, Min.accFrom c.min.main p w ≠ Min.accFrom c.min.main q w) ∧
    (∀ q ∈ c.min.main.states, ∃ w : List Nat, c.min.main.run c.min.main.start w = some q) :=
  ⟨compile_min_language σ g sh c h,
   compile_min_minimal σ g sh c h (compile_parsed_NoEmptyAlt σ input g sh c hp h)⟩

/-- **… and the smallest one**: every state of the minimised main automaton can reach acceptance, and
no automaton whatever that accepts the words of the raw automaton has fewer states. -/
theorem compile_parsed_smallest (σ : Schedule) (input : List Char) (g : Grammar) (sh : Shell)
    (c : Compiled) (hp : Parse.parse input = .ok g) (h : compile σ g sh = .ok c) :
    (∀ q ∈ c.min.main.states, ∃ w : List Nat, Min.accFrom c.min.main q w = true) ∧
    ∀ b : Auto, (∀ w : List Nat, b.accepts w = c.raw.main.accepts w) →
      c.min.main.states.length ≤ b.states.length := by
  have hne := compile_parsed_NoEmptyAlt σ input g sh c hp h
  obtain ⟨_, hre, _, syms, hs, hraw, hmin⟩ := compile_ok_inv σ g sh c h
  have hreg : c.regex = (Regex.ofExpr c.valid.expr []).1 := by rw [← hre]
  have hlen : c.regex.inputs.length = c.valid.expr.leafCount := by
    rw [hreg]; exact (Regex.ofExpr_linear _ _).2.2
  obtain ⟨hsym, hend⟩ := symbolsOf_symOf σ c.pool c.regex.inputs syms c.raw.subs hs
  rw [hlen] at hsym hend
  rw [hreg] at hraw
  exact minimize_raw_minimal_card σ σ c.valid.expr [] _ c.raw.main c.min.main hne hsym hend hraw hmin

/-- the minimiser keeps the table of input symbols -/
theorem minimize_inputs (σ : Schedule) (a m : Auto) (h : Min.minimize σ a = some m) :
    m.inputs = a.inputs := by
  rw [Min.minimize_eq, Option.map_eq_some_iff] at h
  obtain ⟨P, _, rfl⟩ := h
  rfl

/-- hence it preserves the language of labelled words, not only of index words -/
theorem minimize_acceptsInp (σ : Schedule) (a m : Auto) (hwf : Min.WF a) (h : Min.minimize σ a = some m)
    (w : List Inp) : m.acceptsInp w = a.acceptsInp w := by
  unfold Auto.acceptsInp
  rw [minimize_inputs σ a m h]
  cases w.mapM (fun x => a.inputs.idxOf? x) with
  | none => rfl
  | some is => exact Min.minimize_lang σ a m hwf h is

/-- **The compiled automaton recognises the grammar's meaning** (pipeline form of `C02_end_to_end`, with
its side conditions discharged): whenever the pipeline model produces a result, both the raw and the
minimised main automaton accept exactly the label sequences of the words of `Spec.meaningAt g sh`,
the label of position `p` being the symbol `symbolsOf` computed for it. -/
theorem compile_meaning (σ : Schedule) (g : Grammar) (sh : Shell) (c : Compiled)
    (h : compile σ g sh = .ok c) :
    ∃ syms, symbolsOf σ c.pool c.regex.inputs = .ok (syms, c.raw.subs) ∧
      ∀ w : List Inp,
        (c.raw.main.acceptsInp w = true ↔
          ∃ ps, (Spec.meaningAt (Check.topSpan g) g sh).denPos 0 ps ∧
            ps.map (fun p => syms[p]?) = w.map some) ∧
        c.min.main.acceptsInp w = c.raw.main.acceptsInp w := by
  obtain ⟨hv, hre, _, syms, hs, hraw, hmin⟩ := compile_ok_inv σ g sh c h
  have hreg : c.regex = (Regex.ofExpr c.valid.expr []).1 := by rw [← hre]
  have hlen : c.regex.inputs.length = c.valid.expr.leafCount := by
    rw [hreg]; exact (Regex.ofExpr_linear _ _).2.2
  obtain ⟨hsym, hend⟩ := symbolsOf_symOf σ c.pool c.regex.inputs syms c.raw.subs hs
  rw [hlen] at hsym hend
  refine ⟨syms, hs, fun w => ⟨?_, ?_⟩⟩
  · have he := Check.validate_expr_eq_meaning g sh c.valid hv
    rw [← he]
    rw [hreg] at hraw
    exact raw_automaton_correct σ c.valid.expr [] _ c.raw.main hsym hend hraw w
  · exact minimize_acceptsInp σ c.raw.main c.min.main (buildAuto_WF σ _ _ _ hraw) hmin w

/-- the number of states of the minimised automaton does not depend on the iteration order of the
minimiser's hash containers: both results are smallest automata of the same language -/
theorem minimize_size_schedule_irrelevant (σ₁ σ₂ : Schedule) (a m₁ m₂ : Auto) (hwf : Min.WF a)
    (hco : Min.CoAcc a) (hacc : Min.Access a) (h₁ : Min.minimize σ₁ a = some m₁)
    (h₂ : Min.minimize σ₂ a = some m₂) :
    m₁.states.length = m₂.states.length ∧ ∀ w, m₁.accepts w = m₂.accepts w := by
  have l₁ := Min.minimize_lang σ₁ a m₁ hwf h₁
  have l₂ := Min.minimize_lang σ₂ a m₂ hwf h₂
  refine ⟨Nat.le_antisymm ?_ ?_, fun w => (l₁ w).trans (l₂ w).symm⟩
  · exact Min.minimize_minimal_card σ₁ a m₁ hwf hco hacc h₁ m₂ l₂
  · exact Min.minimize_minimal_card σ₂ a m₂ hwf hco hacc h₂ m₁ l₁

end Complgen.Pipeline
