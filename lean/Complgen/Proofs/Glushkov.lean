/-
Glushkov / Dragon-book 3.9.5 correctness of the position automaton: for a linear expression the
words of positions in `Rx.Lang` are exactly the paths `first → follow → … → last`.

Method: a continuation language `Rx.After r p w` ("`w` may follow position `p` inside `r`") with
  (A)  Lang r (x :: w)   ↔ x ∈ first r ∧ After r x w
  (B0) After r p []       ↔ p ∈ last r
  (B1) After r p (x :: w) ↔ x ∈ follow r p ∧ After r x w
proved by mutual structural recursion over `Rx`/`RxL`.
-/
import Complgen.Spec.Lang
namespace Complgen

/-! ### continuation languages -/

/-- Kleene star of the language of `c` -/
def Rx.Star (c : Rx) (v : List Nat) : Prop :=
  ∃ ws : List (List Nat), v = ws.flatten ∧ ∀ u ∈ ws, Rx.Lang c u

mutual
/-- `After r p w`: some word of `r` is `… p w` with this occurrence of `p` (positions are unique) -/
def Rx.After : Rx → Nat → List Nat → Prop
  | .eps, _, _ => False
  | .sym q, p, w => p = q ∧ w = []
  | .cat cs, p, w => RxL.AfterCat cs p w
  | .or cs, p, w => RxL.AfterOr cs p w
  | .plus c, p, w => ∃ u v, w = u ++ v ∧ Rx.After c p u ∧ Rx.Star c v
def RxL.AfterCat : RxL → Nat → List Nat → Prop
  | .nil, _, _ => False
  | .cons c cs, p, w =>
    (∃ u v, w = u ++ v ∧ Rx.After c p u ∧ RxL.LangCat cs v) ∨ RxL.AfterCat cs p w
def RxL.AfterOr : RxL → Nat → List Nat → Prop
  | .nil, _, _ => False
  | .cons c cs, p, w => Rx.After c p w ∨ RxL.AfterOr cs p w
end

/-! ### star / plus -/

theorem Rx.star_nil (c : Rx) : Rx.Star c [] := ⟨[], rfl, by simp⟩

theorem Rx.star_cons (c : Rx) (x : Nat) (w : List Nat) :
    Rx.Star c (x :: w) ↔ ∃ u v, w = u ++ v ∧ Rx.Lang c (x :: u) ∧ Rx.Star c v := by
  constructor
  · rintro ⟨ws, h, hall⟩
    induction ws with
    | nil => simp at h
    | cons w0 ws ih =>
      cases w0 with
      | nil =>
        simp only [List.flatten_cons, List.nil_append] at h
        exact ih h (fun u hu => hall u (List.mem_cons_of_mem _ hu))
      | cons y w0 =>
        simp only [List.flatten_cons, List.cons_append, List.cons.injEq] at h
        obtain ⟨rfl, rfl⟩ := h
        exact ⟨w0, ws.flatten, rfl, hall _ (List.mem_cons_self ..), ws, rfl,
          fun u hu => hall u (List.mem_cons_of_mem _ hu)⟩
  · rintro ⟨u, v, rfl, ha, ws, rfl, hall⟩
    refine ⟨(x :: u) :: ws, by simp, ?_⟩
    intro w hw
    rcases List.mem_cons.mp hw with rfl | hw
    · exact ha
    · exact hall w hw

theorem Rx.lang_plus_cons (c : Rx) (x : Nat) (w : List Nat) :
    Rx.Lang (.plus c) (x :: w) ↔ Rx.Star c (x :: w) := by
  simp only [Rx.Lang, Rx.Star]
  constructor
  · rintro ⟨ws, _, h, hall⟩
    exact ⟨ws, h, hall⟩
  · rintro ⟨ws, h, hall⟩
    refine ⟨ws, ?_, h, hall⟩
    rintro rfl
    simp at h

theorem Rx.lang_plus_nil (c : Rx) : Rx.Lang (.plus c) [] ↔ Rx.Lang c [] := by
  simp only [Rx.Lang]
  constructor
  · rintro ⟨ws, hne, h, hall⟩
    cases ws with
    | nil => exact absurd rfl hne
    | cons w0 ws =>
      have h' : w0 = [] := by
        simp only [List.flatten_cons] at h
        exact (List.append_eq_nil_iff.mp h.symm).1
      subst h'
      exact hall _ (List.mem_cons_self ..)
  · intro h
    refine ⟨[[]], by simp, by simp, ?_⟩
    intro u hu
    simp only [List.mem_singleton] at hu
    subst hu
    exact h

/-! ### first / last / follow stay inside `positions` -/

mutual
theorem Rx.first_sub : (r : Rx) → ∀ p ∈ r.first, p ∈ r.positions
  | .eps => by simp [Rx.first]
  | .sym q => by simp [Rx.first, Rx.positions]
  | .cat cs => by
    simp only [Rx.first, Rx.positions]
    exact Rx.firstCat_sub cs
  | .or cs => by
    simp only [Rx.first, Rx.positions]
    exact Rx.firstOr_sub cs
  | .plus c => by
    simp only [Rx.first, Rx.positions]
    exact Rx.first_sub c
theorem Rx.firstCat_sub : (cs : RxL) → ∀ p ∈ Rx.firstCat cs, p ∈ Rx.positionsL cs
  | .nil => by simp [Rx.firstCat]
  | .cons c cs => by
    intro p hp
    simp only [Rx.firstCat, List.mem_append] at hp
    simp only [Rx.positionsL, List.mem_append]
    rcases hp with hp | hp
    · exact .inl (Rx.first_sub c p hp)
    · split at hp
      · exact .inr (Rx.firstCat_sub cs p hp)
      · simp at hp
theorem Rx.firstOr_sub : (cs : RxL) → ∀ p ∈ Rx.firstOr cs, p ∈ Rx.positionsL cs
  | .nil => by simp [Rx.firstOr]
  | .cons c cs => by
    intro p hp
    simp only [Rx.firstOr, List.mem_append] at hp
    simp only [Rx.positionsL, List.mem_append]
    exact hp.imp (Rx.first_sub c p) (Rx.firstOr_sub cs p)
end

mutual
theorem Rx.last_sub : (r : Rx) → ∀ p ∈ r.last, p ∈ r.positions
  | .eps => by simp [Rx.last]
  | .sym q => by simp [Rx.last, Rx.positions]
  | .cat cs => by
    simp only [Rx.last, Rx.positions]
    exact Rx.lastCat_sub cs
  | .or cs => by
    simp only [Rx.last, Rx.positions]
    exact Rx.lastOr_sub cs
  | .plus c => by
    simp only [Rx.last, Rx.positions]
    exact Rx.last_sub c
theorem Rx.lastCat_sub : (cs : RxL) → ∀ p ∈ Rx.lastCat cs, p ∈ Rx.positionsL cs
  | .nil => by simp [Rx.lastCat]
  | .cons c cs => by
    intro p hp
    simp only [Rx.lastCat, List.mem_append] at hp
    simp only [Rx.positionsL, List.mem_append]
    rcases hp with hp | hp
    · exact .inr (Rx.lastCat_sub cs p hp)
    · split at hp
      · exact .inl (Rx.last_sub c p hp)
      · simp at hp
theorem Rx.lastOr_sub : (cs : RxL) → ∀ p ∈ Rx.lastOr cs, p ∈ Rx.positionsL cs
  | .nil => by simp [Rx.lastOr]
  | .cons c cs => by
    intro p hp
    simp only [Rx.lastOr, List.mem_append] at hp
    simp only [Rx.positionsL, List.mem_append]
    exact hp.imp (Rx.last_sub c p) (Rx.lastOr_sub cs p)
end

mutual
theorem Rx.follow_sub : (r : Rx) → (p : Nat) → ∀ q ∈ r.follow p, q ∈ r.positions
  | .eps, _ => by simp [Rx.follow]
  | .sym _, _ => by simp [Rx.follow]
  | .cat cs, p => by
    simp only [Rx.follow, Rx.positions]
    exact Rx.followCat_sub cs p
  | .or cs, p => by
    simp only [Rx.follow, Rx.positions]
    exact Rx.followOr_sub cs p
  | .plus c, p => by
    intro q hq
    simp only [Rx.follow, List.mem_append] at hq
    simp only [Rx.positions]
    rcases hq with hq | hq
    · exact Rx.follow_sub c p q hq
    · split at hq
      · exact Rx.first_sub c q hq
      · simp at hq
theorem Rx.followCat_sub : (cs : RxL) → (p : Nat) → ∀ q ∈ Rx.followCat cs p, q ∈ Rx.positionsL cs
  | .nil, _ => by simp [Rx.followCat]
  | .cons c cs, p => by
    intro q hq
    simp only [Rx.followCat, List.mem_append] at hq
    simp only [Rx.positionsL, List.mem_append]
    rcases hq with (hq | hq) | hq
    · exact .inl (Rx.follow_sub c p q hq)
    · exact .inr (Rx.followCat_sub cs p q hq)
    · split at hq
      · exact .inr (Rx.firstCat_sub cs q hq)
      · simp at hq
theorem Rx.followOr_sub : (cs : RxL) → (p : Nat) → ∀ q ∈ Rx.followOr cs p, q ∈ Rx.positionsL cs
  | .nil, _ => by simp [Rx.followOr]
  | .cons c cs, p => by
    intro q hq
    simp only [Rx.followOr, List.mem_append] at hq
    simp only [Rx.positionsL, List.mem_append]
    exact hq.imp (Rx.follow_sub c p q) (Rx.followOr_sub cs p q)
end

mutual
theorem Rx.follow_nil_of_not_pos : (r : Rx) → (p : Nat) → p ∉ r.positions → r.follow p = []
  | .eps, _, _ => by simp [Rx.follow]
  | .sym _, _, _ => by simp [Rx.follow]
  | .cat cs, p, h => by
    simp only [Rx.positions] at h
    simp only [Rx.follow]
    exact Rx.followCat_nil_of_not_pos cs p h
  | .or cs, p, h => by
    simp only [Rx.positions] at h
    simp only [Rx.follow]
    exact Rx.followOr_nil_of_not_pos cs p h
  | .plus c, p, h => by
    simp only [Rx.positions] at h
    have h1 : p ∉ c.last := fun hp => h (Rx.last_sub c p hp)
    simp only [Rx.follow, Rx.follow_nil_of_not_pos c p h, if_neg h1, List.append_nil]
theorem Rx.followCat_nil_of_not_pos : (cs : RxL) → (p : Nat) → p ∉ Rx.positionsL cs →
    Rx.followCat cs p = []
  | .nil, _, _ => by simp [Rx.followCat]
  | .cons c cs, p, h => by
    simp only [Rx.positionsL, List.mem_append, not_or] at h
    have h1 : p ∉ c.last := fun hp => h.1 (Rx.last_sub c p hp)
    simp only [Rx.followCat, Rx.follow_nil_of_not_pos c p h.1,
      Rx.followCat_nil_of_not_pos cs p h.2, if_neg h1, List.append_nil]
theorem Rx.followOr_nil_of_not_pos : (cs : RxL) → (p : Nat) → p ∉ Rx.positionsL cs →
    Rx.followOr cs p = []
  | .nil, _, _ => by simp [Rx.followOr]
  | .cons c cs, p, h => by
    simp only [Rx.positionsL, List.mem_append, not_or] at h
    simp only [Rx.followOr, Rx.follow_nil_of_not_pos c p h.1,
      Rx.followOr_nil_of_not_pos cs p h.2, List.append_nil]
end

mutual
theorem Rx.after_pos : (r : Rx) → ∀ p w, Rx.After r p w → p ∈ r.positions
  | .eps => by simp [Rx.After]
  | .sym q => by simp [Rx.After, Rx.positions]
  | .cat cs => by
    simp only [Rx.After, Rx.positions]
    exact RxL.afterCat_pos cs
  | .or cs => by
    simp only [Rx.After, Rx.positions]
    exact RxL.afterOr_pos cs
  | .plus c => by
    simp only [Rx.After, Rx.positions]
    rintro p w ⟨u, v, _, h, _⟩
    exact Rx.after_pos c p u h
theorem RxL.afterCat_pos : (cs : RxL) → ∀ p w, RxL.AfterCat cs p w → p ∈ Rx.positionsL cs
  | .nil => by simp [RxL.AfterCat]
  | .cons c cs => by
    intro p w h
    simp only [RxL.AfterCat] at h
    simp only [Rx.positionsL, List.mem_append]
    rcases h with ⟨u, v, _, h, _⟩ | h
    · exact .inl (Rx.after_pos c p u h)
    · exact .inr (RxL.afterCat_pos cs p w h)
theorem RxL.afterOr_pos : (cs : RxL) → ∀ p w, RxL.AfterOr cs p w → p ∈ Rx.positionsL cs
  | .nil => by simp [RxL.AfterOr]
  | .cons c cs => by
    intro p w h
    simp only [RxL.AfterOr] at h
    simp only [Rx.positionsL, List.mem_append]
    exact h.imp (Rx.after_pos c p w) (RxL.afterOr_pos cs p w)
end

/-! ### the empty word -/

mutual
theorem Rx.lang_nil_iff : (r : Rx) → (r.Lang [] ↔ r.nullable = true)
  | .eps => by simp [Rx.Lang, Rx.nullable]
  | .sym p => by simp [Rx.Lang, Rx.nullable]
  | .cat cs => by
    simp only [Rx.Lang, Rx.nullable]
    exact RxL.langCat_nil_iff cs
  | .or cs => by
    simp only [Rx.Lang, Rx.nullable]
    exact RxL.langOr_nil_iff cs
  | .plus c => by
    rw [Rx.lang_plus_nil]
    simp only [Rx.nullable]
    exact Rx.lang_nil_iff c
theorem RxL.langCat_nil_iff : (cs : RxL) → (RxL.LangCat cs [] ↔ Rx.nullableAll cs = true)
  | .nil => by simp [RxL.LangCat, Rx.nullableAll]
  | .cons c cs => by
    simp only [RxL.LangCat, Rx.nullableAll, Bool.and_eq_true]
    constructor
    · rintro ⟨u, v, h, ha, hb⟩
      have : u = [] ∧ v = [] := by simpa using h.symm
      obtain ⟨rfl, rfl⟩ := this
      exact ⟨(Rx.lang_nil_iff c).mp ha, (RxL.langCat_nil_iff cs).mp hb⟩
    · rintro ⟨ha, hb⟩
      exact ⟨[], [], rfl, (Rx.lang_nil_iff c).mpr ha, (RxL.langCat_nil_iff cs).mpr hb⟩
theorem RxL.langOr_nil_iff : (cs : RxL) → (RxL.LangOr cs [] ↔ Rx.nullableAny cs = true)
  | .nil => by simp [RxL.LangOr, Rx.nullableAny]
  | .cons c cs => by
    simp only [RxL.LangOr, Rx.nullableAny, Bool.or_eq_true, Rx.lang_nil_iff c,
      RxL.langOr_nil_iff cs]
end

/-! ### (A) -/

theorem nodup_append_parts {l₁ l₂ : List Nat} (h : (l₁ ++ l₂).Nodup) :
    l₁.Nodup ∧ l₂.Nodup ∧ ∀ p, p ∈ l₁ → p ∉ l₂ := by
  rw [List.nodup_append] at h
  exact ⟨h.1, h.2.1, fun p h1 h2 => h.2.2 p h1 p h2 rfl⟩

mutual
theorem Rx.lang_cons : (r : Rx) → r.positions.Nodup → ∀ (x : Nat) (w : List Nat),
    (r.Lang (x :: w) ↔ x ∈ r.first ∧ Rx.After r x w)
  | .eps, _ => by simp [Rx.Lang, Rx.first]
  | .sym q, _ => by
    intro x w
    simp only [Rx.Lang, Rx.first, Rx.After, List.mem_singleton, List.cons.injEq]
    constructor
    · rintro ⟨rfl, rfl⟩; exact ⟨rfl, rfl, rfl⟩
    · rintro ⟨rfl, _, rfl⟩; exact ⟨rfl, rfl⟩
  | .cat cs, hl => by
    simp only [Rx.positions] at hl
    simp only [Rx.Lang, Rx.first, Rx.After]
    exact RxL.langCat_cons cs hl
  | .or cs, hl => by
    simp only [Rx.positions] at hl
    simp only [Rx.Lang, Rx.first, Rx.After]
    exact RxL.langOr_cons cs hl
  | .plus c, hl => by
    simp only [Rx.positions] at hl
    intro x w
    rw [Rx.lang_plus_cons, Rx.star_cons]
    simp only [Rx.first, Rx.After]
    constructor
    · rintro ⟨u, v, rfl, ha, hs⟩
      obtain ⟨hp, h⟩ := (Rx.lang_cons c hl x u).mp ha
      exact ⟨hp, u, v, rfl, h, hs⟩
    · rintro ⟨hp, u, v, rfl, h, hs⟩
      exact ⟨u, v, rfl, (Rx.lang_cons c hl x u).mpr ⟨hp, h⟩, hs⟩
theorem RxL.langCat_cons : (cs : RxL) → (Rx.positionsL cs).Nodup → ∀ (x : Nat) (w : List Nat),
    (RxL.LangCat cs (x :: w) ↔ x ∈ Rx.firstCat cs ∧ RxL.AfterCat cs x w)
  | .nil, _ => by simp [RxL.LangCat, Rx.firstCat]
  | .cons c cs, hl => by
    simp only [Rx.positionsL] at hl
    obtain ⟨la, lb, hd⟩ := nodup_append_parts hl
    intro x w
    simp only [RxL.LangCat, Rx.firstCat, RxL.AfterCat, List.mem_append]
    constructor
    · rintro ⟨u, v, h, ha, hb⟩
      cases u with
      | nil =>
        simp only [List.nil_append] at h
        subst h
        have hn := (Rx.lang_nil_iff c).mp ha
        obtain ⟨hp, h⟩ := (RxL.langCat_cons cs lb x w).mp hb
        exact ⟨.inr (by simpa [hn] using hp), .inr h⟩
      | cons y u =>
        simp only [List.cons_append, List.cons.injEq] at h
        obtain ⟨rfl, rfl⟩ := h
        obtain ⟨hp, h⟩ := (Rx.lang_cons c la x u).mp ha
        exact ⟨.inl hp, .inl ⟨u, v, rfl, h, hb⟩⟩
    · rintro ⟨hp, h⟩
      rcases h with ⟨u, v, rfl, h, hb⟩ | h
      · have hpa := Rx.after_pos c x u h
        rcases hp with hp | hp
        · exact ⟨x :: u, v, rfl, (Rx.lang_cons c la x u).mpr ⟨hp, h⟩, hb⟩
        · split at hp
          · exact absurd (Rx.firstCat_sub cs x hp) (hd x hpa)
          · simp at hp
      · have hpb := RxL.afterCat_pos cs x w h
        rcases hp with hp | hp
        · exact absurd hpb (hd x (Rx.first_sub c x hp))
        · split at hp
          · rename_i hn
            exact ⟨[], x :: w, rfl, (Rx.lang_nil_iff c).mpr hn,
              (RxL.langCat_cons cs lb x w).mpr ⟨hp, h⟩⟩
          · simp at hp
theorem RxL.langOr_cons : (cs : RxL) → (Rx.positionsL cs).Nodup → ∀ (x : Nat) (w : List Nat),
    (RxL.LangOr cs (x :: w) ↔ x ∈ Rx.firstOr cs ∧ RxL.AfterOr cs x w)
  | .nil, _ => by simp [RxL.LangOr, Rx.firstOr]
  | .cons c cs, hl => by
    simp only [Rx.positionsL] at hl
    obtain ⟨la, lb, hd⟩ := nodup_append_parts hl
    intro x w
    simp only [RxL.LangOr, Rx.firstOr, RxL.AfterOr, List.mem_append,
      Rx.lang_cons c la, RxL.langOr_cons cs lb]
    constructor
    · rintro (⟨hp, h⟩ | ⟨hp, h⟩)
      · exact ⟨.inl hp, .inl h⟩
      · exact ⟨.inr hp, .inr h⟩
    · rintro ⟨hp, h⟩
      rcases h with h | h
      · rcases hp with hp | hp
        · exact .inl ⟨hp, h⟩
        · exact absurd (Rx.firstOr_sub cs x hp) (hd x (Rx.after_pos c x w h))
      · rcases hp with hp | hp
        · exact absurd (RxL.afterOr_pos cs x w h) (hd x (Rx.first_sub c x hp))
        · exact .inr ⟨hp, h⟩
end

/-! ### (B0) -/

mutual
theorem Rx.after_nil : (r : Rx) → ∀ p, (Rx.After r p [] ↔ p ∈ r.last)
  | .eps => by simp [Rx.After, Rx.last]
  | .sym q => by simp [Rx.After, Rx.last]
  | .cat cs => by
    simp only [Rx.After, Rx.last]
    exact RxL.afterCat_nil cs
  | .or cs => by
    simp only [Rx.After, Rx.last]
    exact RxL.afterOr_nil cs
  | .plus c => by
    intro p
    simp only [Rx.After, Rx.last]
    constructor
    · rintro ⟨u, v, h, ha, _⟩
      have : u = [] ∧ v = [] := by simpa using h.symm
      obtain ⟨rfl, rfl⟩ := this
      exact (Rx.after_nil c p).mp ha
    · intro h
      exact ⟨[], [], rfl, (Rx.after_nil c p).mpr h, Rx.star_nil c⟩
theorem RxL.afterCat_nil : (cs : RxL) → ∀ p, (RxL.AfterCat cs p [] ↔ p ∈ Rx.lastCat cs)
  | .nil => by simp [RxL.AfterCat, Rx.lastCat]
  | .cons c cs => by
    intro p
    simp only [RxL.AfterCat, Rx.lastCat, List.mem_append]
    constructor
    · rintro (⟨u, v, h, ha, hb⟩ | h)
      · have : u = [] ∧ v = [] := by simpa using h.symm
        obtain ⟨rfl, rfl⟩ := this
        have hn := (RxL.langCat_nil_iff cs).mp hb
        exact .inr (by simpa [hn] using (Rx.after_nil c p).mp ha)
      · exact .inl ((RxL.afterCat_nil cs p).mp h)
    · rintro (h | h)
      · exact .inr ((RxL.afterCat_nil cs p).mpr h)
      · split at h
        · rename_i hn
          exact .inl ⟨[], [], rfl, (Rx.after_nil c p).mpr h, (RxL.langCat_nil_iff cs).mpr hn⟩
        · simp at h
theorem RxL.afterOr_nil : (cs : RxL) → ∀ p, (RxL.AfterOr cs p [] ↔ p ∈ Rx.lastOr cs)
  | .nil => by simp [RxL.AfterOr, Rx.lastOr]
  | .cons c cs => by
    intro p
    simp only [RxL.AfterOr, Rx.lastOr, List.mem_append, Rx.after_nil c, RxL.afterOr_nil cs]
end

/-! ### (B1) -/

mutual
theorem Rx.after_cons : (r : Rx) → r.positions.Nodup → ∀ (p x : Nat) (w : List Nat),
    (Rx.After r p (x :: w) ↔ x ∈ r.follow p ∧ Rx.After r x w)
  | .eps, _ => by simp [Rx.After, Rx.follow]
  | .sym q, _ => by simp [Rx.After, Rx.follow]
  | .cat cs, hl => by
    simp only [Rx.positions] at hl
    simp only [Rx.After, Rx.follow]
    exact RxL.afterCat_cons cs hl
  | .or cs, hl => by
    simp only [Rx.positions] at hl
    simp only [Rx.After, Rx.follow]
    exact RxL.afterOr_cons cs hl
  | .plus c, hl => by
    simp only [Rx.positions] at hl
    intro p x w
    simp only [Rx.After, Rx.follow, List.mem_append]
    constructor
    · rintro ⟨u, v, h, ha, hs⟩
      cases u with
      | nil =>
        simp only [List.nil_append] at h
        subst h
        have hp := (Rx.after_nil c p).mp ha
        obtain ⟨u', v', rfl, ha', hs'⟩ := (Rx.star_cons c x w).mp hs
        obtain ⟨hq, h⟩ := (Rx.lang_cons c hl x u').mp ha'
        exact ⟨.inr (by simpa [hp] using hq), u', v', rfl, h, hs'⟩
      | cons y u =>
        simp only [List.cons_append, List.cons.injEq] at h
        obtain ⟨rfl, rfl⟩ := h
        obtain ⟨hq, h⟩ := (Rx.after_cons c hl p x u).mp ha
        exact ⟨.inl hq, u, v, rfl, h, hs⟩
    · rintro ⟨hq, u, v, rfl, h, hs⟩
      rcases hq with hq | hq
      · exact ⟨x :: u, v, rfl, (Rx.after_cons c hl p x u).mpr ⟨hq, h⟩, hs⟩
      · split at hq
        · rename_i hp
          refine ⟨[], x :: (u ++ v), rfl, (Rx.after_nil c p).mpr hp, ?_⟩
          exact (Rx.star_cons c x (u ++ v)).mpr ⟨u, v, rfl,
            (Rx.lang_cons c hl x u).mpr ⟨hq, h⟩, hs⟩
        · simp at hq
theorem RxL.afterCat_cons : (cs : RxL) → (Rx.positionsL cs).Nodup →
    ∀ (p x : Nat) (w : List Nat),
    (RxL.AfterCat cs p (x :: w) ↔ x ∈ Rx.followCat cs p ∧ RxL.AfterCat cs x w)
  | .nil, _ => by simp [RxL.AfterCat, Rx.followCat]
  | .cons c cs, hl => by
    simp only [Rx.positionsL] at hl
    obtain ⟨la, lb, hd⟩ := nodup_append_parts hl
    intro p x w
    simp only [RxL.AfterCat, Rx.followCat, List.mem_append]
    constructor
    · rintro (⟨u, v, h, ha, hb⟩ | h)
      · cases u with
        | nil =>
          simp only [List.nil_append] at h
          subst h
          have hp := (Rx.after_nil c p).mp ha
          obtain ⟨hq, h⟩ := (RxL.langCat_cons cs lb x w).mp hb
          exact ⟨.inr (by simpa [hp] using hq), .inr h⟩
        | cons y u =>
          simp only [List.cons_append, List.cons.injEq] at h
          obtain ⟨rfl, rfl⟩ := h
          obtain ⟨hq, h⟩ := (Rx.after_cons c la p x u).mp ha
          exact ⟨.inl (.inl hq), .inl ⟨u, v, rfl, h, hb⟩⟩
      · obtain ⟨hq, h⟩ := (RxL.afterCat_cons cs lb p x w).mp h
        exact ⟨.inl (.inr hq), .inr h⟩
    · rintro ⟨hq, h⟩
      rcases hq with (hq | hq) | hq
      · rcases h with ⟨u, v, rfl, h, hb⟩ | h
        · exact .inl ⟨x :: u, v, rfl, (Rx.after_cons c la p x u).mpr ⟨hq, h⟩, hb⟩
        · exact absurd (RxL.afterCat_pos cs x w h) (hd x (Rx.follow_sub c p x hq))
      · rcases h with ⟨u, v, rfl, h, hb⟩ | h
        · exact absurd (Rx.followCat_sub cs p x hq) (hd x (Rx.after_pos c x u h))
        · exact .inr ((RxL.afterCat_cons cs lb p x w).mpr ⟨hq, h⟩)
      · split at hq
        · rename_i hp
          rcases h with ⟨u, v, rfl, h, hb⟩ | h
          · exact absurd (Rx.firstCat_sub cs x hq) (hd x (Rx.after_pos c x u h))
          · exact .inl ⟨[], x :: w, rfl, (Rx.after_nil c p).mpr hp,
              (RxL.langCat_cons cs lb x w).mpr ⟨hq, h⟩⟩
        · simp at hq
theorem RxL.afterOr_cons : (cs : RxL) → (Rx.positionsL cs).Nodup →
    ∀ (p x : Nat) (w : List Nat),
    (RxL.AfterOr cs p (x :: w) ↔ x ∈ Rx.followOr cs p ∧ RxL.AfterOr cs x w)
  | .nil, _ => by simp [RxL.AfterOr, Rx.followOr]
  | .cons c cs, hl => by
    simp only [Rx.positionsL] at hl
    obtain ⟨la, lb, hd⟩ := nodup_append_parts hl
    intro p x w
    simp only [RxL.AfterOr, Rx.followOr, List.mem_append, Rx.after_cons c la,
      RxL.afterOr_cons cs lb]
    constructor
    · rintro (⟨hq, h⟩ | ⟨hq, h⟩)
      · exact ⟨.inl hq, .inl h⟩
      · exact ⟨.inr hq, .inr h⟩
    · rintro ⟨hq, h⟩
      rcases hq with hq | hq <;> rcases h with h | h
      · exact .inl ⟨hq, h⟩
      · exact absurd (RxL.afterOr_pos cs x w h) (hd x (Rx.follow_sub c p x hq))
      · exact absurd (Rx.followOr_sub cs p x hq) (hd x (Rx.after_pos c x w h))
      · exact .inr ⟨hq, h⟩
end

/-! ### paths -/

/-- inversion of `PosPath` -/
theorem PosPath.inv {F : List Nat} {fo : Nat → List Nat} {l cur : List Nat}
    (h : PosPath F fo l cur) :
    (l = [] ∧ cur = F) ∨
      ∃ ps q cur', l = ps ++ [q] ∧ cur = fo q ∧ PosPath F fo ps cur' ∧ q ∈ cur' := by
  cases h with
  | nil => exact .inl ⟨rfl, rfl⟩
  | snoc q h hq => exact .inr ⟨_, q, _, rfl, rfl, h, hq⟩

theorem PosPath.nil_iff {F : List Nat} {fo : Nat → List Nat} {cur : List Nat} :
    PosPath F fo [] cur ↔ cur = F := by
  constructor
  · intro h
    rcases h.inv with ⟨_, h⟩ | ⟨ps, q, _, h, _⟩
    · exact h
    · simp at h
  · rintro rfl
    exact .nil

/-- cons-style unfolding of a path: peel off the first position -/
theorem PosPath.cons_iff {F : List Nat} {fo : Nat → List Nat} {x : Nat} {ps cur : List Nat} :
    PosPath F fo (x :: ps) cur ↔ x ∈ F ∧ PosPath (fo x) fo ps cur := by
  constructor
  · intro h
    have key : ∀ l cur, PosPath F fo l cur → ∀ x ps, l = x :: ps →
        x ∈ F ∧ PosPath (fo x) fo ps cur := by
      intro l cur h
      induction h with
      | nil => intro x ps h; simp at h
      | @snoc ps0 cur' q h hq ih =>
        intro x ps hl
        cases ps0 with
        | nil =>
          simp only [List.nil_append, List.cons.injEq] at hl
          obtain ⟨rfl, rfl⟩ := hl
          have := PosPath.nil_iff.mp h
          subst this
          exact ⟨hq, .nil⟩
        | cons y ps0' =>
          simp only [List.cons_append, List.cons.injEq] at hl
          obtain ⟨rfl, rfl⟩ := hl
          obtain ⟨hy, h'⟩ := ih y ps0' rfl
          exact ⟨hy, .snoc q h' hq⟩
    exact key _ _ h x ps rfl
  · rintro ⟨hx, h⟩
    induction h with
    | nil => exact PosPath.snoc (ps := []) x .nil hx
    | @snoc ps0 cur' q h hq ih => exact PosPath.snoc (ps := x :: ps0) q ih hq

/-- walking along `follow` from position `p` and stopping in `last` -/
def Walk (fo : Nat → List Nat) (la : List Nat) : Nat → List Nat → Prop
  | p, [] => p ∈ la
  | p, x :: w => x ∈ fo p ∧ Walk fo la x w

theorem Rx.after_iff_walk (r : Rx) (hl : r.Linear) :
    ∀ (w : List Nat) (p : Nat), Rx.After r p w ↔ Walk r.follow r.last p w
  | [], p => by simp only [Walk]; exact Rx.after_nil r p
  | x :: w, p => by
    simp only [Walk]
    rw [Rx.after_cons r hl p x w, Rx.after_iff_walk r hl w x]

theorem walk_snoc_iff (fo : Nat → List Nat) (la : List Nat) (p : Nat) :
    ∀ (ps : List Nat) (x : Nat), Walk fo la x (ps ++ [p]) ↔
      ∃ cur, PosPath (fo x) fo ps cur ∧ p ∈ cur ∧ p ∈ la
  | [], x => by
    simp only [List.nil_append, Walk, PosPath.nil_iff]
    constructor
    · rintro ⟨h1, h2⟩; exact ⟨_, rfl, h1, h2⟩
    · rintro ⟨_, rfl, h1, h2⟩; exact ⟨h1, h2⟩
  | y :: ps, x => by
    simp only [List.cons_append, Walk, PosPath.cons_iff]
    rw [walk_snoc_iff fo la p ps y]
    constructor
    · rintro ⟨hy, cur, h, h1, h2⟩; exact ⟨cur, ⟨hy, h⟩, h1, h2⟩
    · rintro ⟨cur, ⟨hy, h⟩, h1, h2⟩; exact ⟨hy, cur, h, h1, h2⟩

/-- Glushkov: for a linear expression, a non-empty word of positions is in the language iff it is
a path of the position automaton ending in `last`. -/
theorem Rx.lang_iff_path (r : Rx) (hl : r.Linear) (ps : List Nat) (p : Nat) :
    r.Lang (ps ++ [p]) ↔ ∃ cur, PosPath r.first r.follow ps cur ∧ p ∈ cur ∧ p ∈ r.last := by
  cases ps with
  | nil =>
    simp only [List.nil_append, PosPath.nil_iff]
    rw [Rx.lang_cons r hl p [], Rx.after_nil r p]
    constructor
    · rintro ⟨h1, h2⟩; exact ⟨_, rfl, h1, h2⟩
    · rintro ⟨_, rfl, h1, h2⟩; exact ⟨h1, h2⟩
  | cons x ps =>
    simp only [List.cons_append, PosPath.cons_iff]
    rw [Rx.lang_cons r hl x (ps ++ [p]), Rx.after_iff_walk r hl, walk_snoc_iff]
    constructor
    · rintro ⟨hx, cur, h, h1, h2⟩; exact ⟨cur, ⟨hx, h⟩, h1, h2⟩
    · rintro ⟨cur, ⟨hx, h⟩, h1, h2⟩; exact ⟨hx, cur, h, h1, h2⟩

/-! ### the end marker -/

/-- With the end marker appended (`full = cat [root, sym e]`, `e` fresh): the position automaton of
`full` accepts a path `ps` (then `e`) iff `ps` is a word of `root`.  No side condition on `ps`. -/
theorem Regex.posPath_end_iff' (root : Rx) (e : Nat) (hl : root.Linear) (he : e ∉ root.positions)
    (ps : List Nat) :
    (∃ cur, PosPath (Rx.cat (.cons root (.cons (.sym e) .nil))).first
              (Rx.cat (.cons root (.cons (.sym e) .nil))).follow ps cur ∧ e ∈ cur)
    ↔ root.Lang ps := by
  have hfl : (Rx.cat (.cons root (.cons (.sym e) .nil))).Linear := by
    simp only [Rx.Linear, Rx.positions, Rx.positionsL, List.append_nil]
    rw [List.nodup_append]
    refine ⟨hl, by simp, ?_⟩
    intro a ha b hb
    simp only [List.mem_singleton] at hb
    subst hb
    rintro rfl
    exact he ha
  have hlast : e ∈ (Rx.cat (.cons root (.cons (.sym e) .nil))).last := by
    simp [Rx.last, Rx.lastCat, Rx.nullableAll]
  have hlang : (Rx.cat (.cons root (.cons (.sym e) .nil))).Lang (ps ++ [e]) ↔ root.Lang ps := by
    simp only [Rx.Lang, RxL.LangCat]
    constructor
    · rintro ⟨u, v, h, hu, u', v', rfl, rfl, rfl⟩
      simp only [List.append_nil] at h
      have := List.append_cancel_right h
      subst this
      exact hu
    · intro h
      exact ⟨ps, [e], rfl, h, [e], [], rfl, rfl, rfl⟩
  rw [← hlang, Rx.lang_iff_path _ hfl ps e]
  constructor
  · rintro ⟨cur, h, h1⟩; exact ⟨cur, h, h1, hlast⟩
  · rintro ⟨cur, h, h1, _⟩; exact ⟨cur, h, h1⟩

/-- the requested form (the hypothesis `_hps` is not needed) -/
theorem Regex.posPath_end_iff (root : Rx) (e : Nat) (hl : root.Linear) (he : e ∉ root.positions)
    (ps : List Nat) (_hps : ∀ p ∈ ps, p ≠ e) :
    (∃ cur, PosPath (Rx.cat (.cons root (.cons (.sym e) .nil))).first
              (Rx.cat (.cons root (.cons (.sym e) .nil))).follow ps cur ∧ e ∈ cur)
    ↔ root.Lang ps :=
  Regex.posPath_end_iff' root e hl he ps

/-- the same, phrased with `Regex.first` / `Regex.follow` / `Regex.endPos` -/
theorem Regex.posPath_endPos_iff (r : Regex) (hl : r.root.Linear)
    (he : r.endPos ∉ r.root.positions) (ps : List Nat) :
    (∃ cur, PosPath r.first r.follow ps cur ∧ r.endPos ∈ cur) ↔ r.root.Lang ps := by
  have h := Regex.posPath_end_iff' r.root r.endPos hl he ps
  exact h

end Complgen
