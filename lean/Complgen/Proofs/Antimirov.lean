/-
Correctness of the determinised partial-derivative (Antimirov) automaton `SRx.toKAuto` of
`Spec/Den.lean` with respect to the standard language semantics of regular expressions.
-/
import Complgen.Spec.Den
namespace Complgen.Spec

/-! ### 1. semantics -/

inductive SRx.Lang : SRx → List String → Prop
  | eps : Lang .eps []
  | sym (k) : Lang (.sym k) [k]
  | cat {a b u v} : Lang a u → Lang b v → Lang (.cat a b) (u ++ v)
  | altL {a b w} : Lang a w → Lang (.alt a b) w
  | altR {a b w} : Lang b w → Lang (.alt a b) w
  | starNil {a} : Lang (.star a) []
  | starCons {a u v} : Lang a u → Lang (.star a) v → Lang (.star a) (u ++ v)

open SRx (Lang)

deriving instance ReflBEq, LawfulBEq for SRx

/-! inversion lemmas -/

theorem lang_eps {w} : Lang .eps w ↔ w = [] := by
  constructor
  · intro h; cases h; rfl
  · intro h; subst h; exact .eps

theorem lang_sym {k w} : Lang (.sym k) w ↔ w = [k] := by
  constructor
  · intro h; cases h; rfl
  · intro h; subst h; exact .sym k

theorem lang_cat {a b w} : Lang (.cat a b) w ↔ ∃ u v, w = u ++ v ∧ Lang a u ∧ Lang b v := by
  constructor
  · intro h; cases h with | cat h1 h2 => exact ⟨_, _, rfl, h1, h2⟩
  · rintro ⟨u, v, rfl, h1, h2⟩; exact .cat h1 h2

theorem lang_alt {a b w} : Lang (.alt a b) w ↔ Lang a w ∨ Lang b w := by
  constructor
  · intro h; cases h with
    | altL h => exact .inl h
    | altR h => exact .inr h
  · rintro (h | h)
    · exact .altL h
    · exact .altR h

/-- a non-empty word of a star starts with a non-empty word of the body -/
theorem lang_star_cons {a k w} :
    Lang (.star a) (k :: w) ↔ ∃ u v, w = u ++ v ∧ Lang a (k :: u) ∧ Lang (.star a) v := by
  constructor
  · intro h
    generalize hr : SRx.star a = r at h
    generalize hx : k :: w = x at h
    induction h generalizing w with
    | eps => cases hr
    | sym => cases hr
    | cat => cases hr
    | altL => cases hr
    | altR => cases hr
    | starNil => cases hx
    | @starCons a' u v h1 h2 _ ih2 =>
      cases hr
      cases u with
      | nil => exact ih2 rfl (by simpa using hx)
      | cons k' u' =>
        simp only [List.cons_append, List.cons.injEq] at hx
        obtain ⟨rfl, rfl⟩ := hx
        exact ⟨u', v, rfl, h1, h2⟩
  · rintro ⟨u, v, rfl, h1, h2⟩
    exact .starCons (u := k :: u) h1 h2

/-! ### 2. nullable, mkCat, unionS -/

theorem nullable_correct (r : SRx) : r.nullable = true ↔ Lang r [] := by
  induction r with
  | eps => simp [SRx.nullable, lang_eps]
  | sym k => simp [SRx.nullable, lang_sym]
  | cat a b iha ihb =>
    simp only [SRx.nullable, Bool.and_eq_true, iha, ihb, lang_cat]
    constructor
    · rintro ⟨h1, h2⟩; exact ⟨[], [], rfl, h1, h2⟩
    · rintro ⟨u, v, h, h1, h2⟩
      have : u = [] ∧ v = [] := by simpa using h.symm
      obtain ⟨rfl, rfl⟩ := this
      exact ⟨h1, h2⟩
  | alt a b iha ihb => simp only [SRx.nullable, Bool.or_eq_true, iha, ihb, lang_alt]
  | star a _ => simp only [SRx.nullable, true_iff]; exact .starNil

theorem mkCat_lang {a b : SRx} {w} : Lang (SRx.mkCat a b) w ↔ Lang (.cat a b) w := by
  have hl : ∀ b w, Lang b w ↔ Lang (.cat .eps b) w := by
    intro b w
    simp only [lang_cat, lang_eps]
    constructor
    · intro h; exact ⟨[], w, rfl, rfl, h⟩
    · rintro ⟨u, v, rfl, rfl, h⟩; exact h
  have hr : ∀ a w, Lang a w ↔ Lang (.cat a .eps) w := by
    intro a w
    simp only [lang_cat, lang_eps]
    constructor
    · intro h; exact ⟨w, [], by simp, h, rfl⟩
    · rintro ⟨u, v, rfl, h, rfl⟩; simpa using h
  cases a <;> cases b <;> first | exact hl _ _ | exact hr _ _ | exact Iff.rfl

theorem mem_addNew {l : List SRx} {x y : SRx} : y ∈ addNew l x ↔ y ∈ l ∨ y = x := by
  unfold addNew
  split
  · rename_i h
    have : x ∈ l := List.contains_iff_mem.mp h
    constructor
    · intro h; exact .inl h
    · rintro (h | rfl)
      · exact h
      · exact this
  · simp

theorem mem_unionS {a b : List SRx} {x : SRx} : x ∈ unionS a b ↔ x ∈ a ∨ x ∈ b := by
  unfold unionS
  induction b generalizing a with
  | nil => simp
  | cons y ys ih =>
    simp only [List.foldl_cons, ih, mem_addNew, List.mem_cons]
    constructor
    · rintro ((h | h) | h)
      · exact .inl h
      · exact .inr (.inl h)
      · exact .inr (.inr h)
    · rintro (h | h | h)
      · exact .inl (.inl h)
      · exact .inl (.inr h)
      · exact .inr h

/-! ### 3. partial derivatives -/

theorem pd_correct (r : SRx) (k : String) (w : List String) :
    Lang r (k :: w) ↔ ∃ r' ∈ r.pd k, Lang r' w := by
  induction r generalizing w with
  | eps => simp [SRx.pd, lang_eps]
  | sym j =>
    simp only [SRx.pd, lang_sym, List.cons.injEq]
    by_cases hjk : j = k
    · subst hjk; simp [lang_eps]
    · have : (j == k) = false := by simpa using hjk
      simp only [this, Bool.false_eq_true, if_false, List.not_mem_nil, false_and, exists_false,
        iff_false]
      rintro ⟨h, _⟩; exact hjk h.symm
  | alt a b iha ihb =>
    simp only [SRx.pd, lang_alt, iha, ihb, mem_unionS]
    constructor
    · rintro (⟨x, hx, h⟩ | ⟨x, hx, h⟩)
      · exact ⟨x, .inl hx, h⟩
      · exact ⟨x, .inr hx, h⟩
    · rintro ⟨x, hx | hx, h⟩
      · exact .inl ⟨x, hx, h⟩
      · exact .inr ⟨x, hx, h⟩
  | cat a b iha ihb =>
    simp only [SRx.pd, mem_unionS, List.mem_map]
    constructor
    · intro h
      obtain ⟨u, v, huv, h1, h2⟩ := lang_cat.mp h
      cases u with
      | nil =>
        simp only [List.nil_append] at huv
        subst huv
        obtain ⟨x, hx, hxw⟩ := (ihb w).mp h2
        refine ⟨x, .inr ?_, hxw⟩
        rw [if_pos ((nullable_correct a).mpr h1)]; exact hx
      | cons k' u' =>
        simp only [List.cons_append, List.cons.injEq] at huv
        obtain ⟨rfl, rfl⟩ := huv
        obtain ⟨x, hx, hxw⟩ := (iha u').mp h1
        exact ⟨SRx.mkCat x b, .inl ⟨x, hx, rfl⟩, mkCat_lang.mpr (.cat hxw h2)⟩
    · rintro ⟨x, hx | hx, hxw⟩
      · obtain ⟨y, hy, rfl⟩ := hx
        obtain ⟨u, v, rfl, h1, h2⟩ := lang_cat.mp (mkCat_lang.mp hxw)
        exact .cat (u := k :: u) ((iha u).mpr ⟨y, hy, h1⟩) h2
      · by_cases hn : a.nullable = true
        · rw [if_pos hn] at hx
          exact .cat (u := []) ((nullable_correct a).mp hn) ((ihb w).mpr ⟨x, hx, hxw⟩)
        · rw [if_neg hn] at hx; cases hx
  | star a iha =>
    simp only [SRx.pd, List.mem_map, lang_star_cons]
    constructor
    · rintro ⟨u, v, rfl, h1, h2⟩
      obtain ⟨x, hx, hxu⟩ := (iha u).mp h1
      exact ⟨SRx.mkCat x (.star a), ⟨x, hx, rfl⟩, mkCat_lang.mpr (.cat hxu h2)⟩
    · rintro ⟨x, ⟨y, hy, rfl⟩, hxw⟩
      obtain ⟨u, v, rfl, h1, h2⟩ := lang_cat.mp (mkCat_lang.mp hxw)
      exact ⟨u, v, rfl, (iha u).mpr ⟨y, hy, h1⟩, h2⟩

/-! ### 4. the automaton -/

/-! #### sets of terms -/

/-- the successor of a set of terms (the expression used inside `SRx.toKAuto`) -/
def stepS (S : List SRx) (k : String) : List SRx := S.foldl (fun acc x => unionS acc (x.pd k)) []

/-- the comparison "as sets" used inside `SRx.toKAuto` -/
def seteqB (u t : List SRx) : Bool := u.all (t.contains ·) && t.all (u.contains ·)

def SetEq (A B : List SRx) : Prop := ∀ x, x ∈ A ↔ x ∈ B

def SetLang (S : List SRx) (w : List String) : Prop := ∃ x ∈ S, Lang x w

theorem seteqB_iff {u t : List SRx} : seteqB u t = true ↔ SetEq u t := by
  simp only [seteqB, Bool.and_eq_true, List.all_eq_true, List.contains_iff_mem, SetEq]
  constructor
  · rintro ⟨h1, h2⟩ x; exact ⟨h1 x, h2 x⟩
  · intro h; exact ⟨fun x hx => (h x).mp hx, fun x hx => (h x).mpr hx⟩

theorem mem_stepS {S : List SRx} {k : String} {y : SRx} : y ∈ stepS S k ↔ ∃ x ∈ S, y ∈ x.pd k := by
  have : ∀ (S acc : List SRx), y ∈ S.foldl (fun acc x => unionS acc (x.pd k)) acc ↔
      y ∈ acc ∨ ∃ x ∈ S, y ∈ x.pd k := by
    intro S
    induction S with
    | nil => intro acc; simp
    | cons x xs ih =>
      intro acc
      simp only [List.foldl_cons, ih, mem_unionS, List.mem_cons]
      constructor
      · rintro ((h | h) | ⟨z, hz, h⟩)
        · exact .inl h
        · exact .inr ⟨x, .inl rfl, h⟩
        · exact .inr ⟨z, .inr hz, h⟩
      · rintro (h | ⟨z, rfl | hz, h⟩)
        · exact .inl (.inl h)
        · exact .inl (.inr h)
        · exact .inr ⟨z, hz, h⟩
  unfold stepS
  rw [this]
  simp

theorem setLang_cons {S : List SRx} {k : String} {w : List String} :
    SetLang S (k :: w) ↔ SetLang (stepS S k) w := by
  unfold SetLang
  constructor
  · rintro ⟨x, hx, h⟩
    obtain ⟨y, hy, hyw⟩ := (pd_correct x k w).mp h
    exact ⟨y, mem_stepS.mpr ⟨x, hx, hy⟩, hyw⟩
  · rintro ⟨y, hy, hyw⟩
    obtain ⟨x, hx, hxy⟩ := mem_stepS.mp hy
    exact ⟨x, hx, (pd_correct x k w).mpr ⟨y, hxy, hyw⟩⟩

theorem setLang_nil {S : List SRx} : SetLang S [] ↔ S.any SRx.nullable = true := by
  simp only [SetLang, List.any_eq_true, nullable_correct]

theorem SetEq.setLang {A B : List SRx} (h : SetEq A B) (w : List String) :
    SetLang A w ↔ SetLang B w := by
  unfold SetLang
  constructor
  · rintro ⟨x, hx, hw⟩; exact ⟨x, (h x).mp hx, hw⟩
  · rintro ⟨x, hx, hw⟩; exact ⟨x, (h x).mpr hx, hw⟩

theorem setLang_singleton {r : SRx} {w : List String} : SetLang [r] w ↔ Lang r w := by
  simp [SetLang]

/-! #### only keys of the expression occur in its words -/

theorem lang_syms {r : SRx} {w : List String} (h : Lang r w) : ∀ k ∈ w, k ∈ r.syms := by
  induction h with
  | eps => intro k hk; cases hk
  | sym j => intro k hk; simpa [SRx.syms] using hk
  | cat _ _ ih1 ih2 =>
    intro k hk
    simp only [SRx.syms, List.mem_eraseDups, List.mem_append]
    rcases List.mem_append.mp hk with h | h
    · exact .inl (ih1 k h)
    · exact .inr (ih2 k h)
  | altL _ ih =>
    intro k hk
    simp only [SRx.syms, List.mem_eraseDups, List.mem_append]
    exact .inl (ih k hk)
  | altR _ ih =>
    intro k hk
    simp only [SRx.syms, List.mem_eraseDups, List.mem_append]
    exact .inr (ih k hk)
  | starNil => intro k hk; cases hk
  | starCons _ _ ih1 ih2 =>
    intro k hk
    rcases List.mem_append.mp hk with h | h
    · exact ih1 k h
    · exact ih2 k h

theorem span_loop_append (p : String → Bool) : ∀ (as acc : List String),
    (List.span.loop p as acc).1 ++ (List.span.loop p as acc).2 = acc.reverse ++ as
  | [], acc => by simp [List.span.loop]
  | a :: as, acc => by
    unfold List.span.loop
    cases p a
    · simp
    · simp [span_loop_append p as (a :: acc)]

theorem mem_sortStrings {l : List String} {x : String} : x ∈ Cert.sortStrings l ↔ x ∈ l := by
  have : ∀ (l acc : List String),
      x ∈ l.foldl (fun acc x => let (b, a) := acc.span (· ≤ x); b ++ [x] ++ a) acc ↔
        x ∈ acc ∨ x ∈ l := by
    intro l
    induction l with
    | nil => intro acc; simp
    | cons y ys ih =>
      intro acc
      rw [List.foldl_cons, ih]
      have h := span_loop_append (fun z => decide (z ≤ y)) acc []
      have hm : x ∈ acc ↔ x ∈ (acc.span (fun z => decide (z ≤ y))).1 ∨
          x ∈ (acc.span (fun z => decide (z ≤ y))).2 := by
        rw [← List.mem_append]; unfold List.span; rw [h]; simp
      simp only [List.mem_append, List.mem_cons, List.not_mem_nil, or_false, hm]
      constructor
      · rintro (((h | h) | h) | h)
        · exact .inl (.inl h)
        · exact .inr (.inl h)
        · exact .inl (.inr h)
        · exact .inr (.inr h)
      · rintro ((h | h) | (h | h))
        · exact .inl (.inl (.inl h))
        · exact .inl (.inr h)
        · exact .inl (.inl (.inr h))
        · exact .inr h
  unfold Cert.sortStrings
  rw [this]
  simp

/-! #### the loop, returning also the remaining work list -/

abbrev LState := List (List SRx) × List (List SRx) × List (Nat × String × Nat)

/-- what the loop does for one state `s` (number `from_`) and one key -/
def keyStep (s : List SRx) (from_ : Nat) (st : LState) (k : String) : LState :=
  let t := stepS s k
  if t.isEmpty then st else
  match st.2.1.findIdx? (fun u => seteqB u t) with
  | some j => (st.1, st.2.1, st.2.2 ++ [(from_, k, j)])
  | none => (st.1 ++ [t], st.2.1 ++ [t], st.2.2 ++ [(from_, k, st.2.1.length)])

/-- `SRx.toKAuto.loop`, returning also the work list it stopped with -/
def loopW (keys : List String) :
    Nat → List (List SRx) → List (List SRx) → List (Nat × String × Nat) → LState
  | 0, work, states, trans => (work, states, trans)
  | _ + 1, [], states, trans => ([], states, trans)
  | fuel + 1, s :: work, states, trans =>
    let st := keys.foldl (keyStep s ((states.idxOf? s).getD 0)) (work, states, trans)
    loopW keys fuel st.1 st.2.1 st.2.2

theorem loop_eq (keys : List String) (fuel : Nat) (work states trans) :
    SRx.toKAuto.loop keys fuel work states trans = (loopW keys fuel work states trans).2 := by
  induction fuel generalizing work states trans with
  | zero => simp only [SRx.toKAuto.loop, loopW]
  | succ n ih =>
    cases work with
    | nil => simp only [SRx.toKAuto.loop, loopW]
    | cons s work =>
      simp only [SRx.toKAuto.loop, loopW]
      rw [ih]
      unfold keyStep stepS seteqB
      rfl

/-- the construction for `r` ended because the work list became empty (not because the fuel
ran out) -/
def Finished (r : SRx) : Prop := (loopW (Cert.sortStrings r.syms) 4096 [[r]] [[r]] []).1 = []

/-- executable form of `Finished` -/
def finishedB (r : SRx) : Bool := (loopW (Cert.sortStrings r.syms) 4096 [[r]] [[r]] []).1.isEmpty

theorem finishedB_iff (r : SRx) : finishedB r = true ↔ Finished r := List.isEmpty_iff

/-! #### the invariant -/

def nth (states : List (List SRx)) (i : Nat) : List SRx := states[i]?.getD []

theorem nth_eq_getElem {states : List (List SRx)} {i : Nat} (h : i < states.length) :
    nth states i = states[i] := by
  simp [nth, h]

theorem nth_append_lt {states : List (List SRx)} {t : List SRx} {i : Nat} (h : i < states.length) :
    nth (states ++ [t]) i = nth states i := by
  simp [nth, List.getElem?_append_left h]

theorem nth_append_len {states : List (List SRx)} {t : List SRx} :
    nth (states ++ [t]) states.length = t := by
  simp [nth]

theorem nth_mem {states : List (List SRx)} {i : Nat} (h : i < states.length) :
    nth states i ∈ states := by
  rw [nth_eq_getElem h]; exact List.getElem_mem h

/-- every word of a term of `S` consists of keys of `r` -/
def Good (r : SRx) (S : List SRx) : Prop := ∀ x ∈ S, ∀ w, Lang x w → ∀ k ∈ w, k ∈ r.syms

theorem Good.stepS {r : SRx} {S : List SRx} (h : Good r S) (k : String) : Good r (stepS S k) := by
  intro y hy w hw k' hk'
  obtain ⟨x, hx, hxy⟩ := mem_stepS.mp hy
  exact h x hx (k :: w) ((pd_correct x k w).mpr ⟨y, hxy, hw⟩) k' (List.mem_cons_of_mem _ hk')

/-- Invariant of the work-list loop; while the keys of state number `i0` are being processed,
`todo` are the keys still to do. -/
structure Inv (r : SRx) (keys : List String) (i0 : Nat) (todo : List String) (st : LState) :
    Prop where
  start : st.2.1[0]? = some [r]
  workSub : ∀ x ∈ st.1, x ∈ st.2.1
  nodup : st.2.1.Nodup
  good : ∀ S ∈ st.2.1, Good r S
  transOk : ∀ t ∈ st.2.2, t.1 < st.2.1.length ∧ t.2.2 < st.2.1.length ∧
      stepS (nth st.2.1 t.1) t.2.1 ≠ [] ∧
      SetEq (nth st.2.1 t.2.2) (stepS (nth st.2.1 t.1) t.2.1)
  closed : ∀ i, i < st.2.1.length → ∀ k ∈ keys, stepS (nth st.2.1 i) k ≠ [] →
      (∃ j, (i, k, j) ∈ st.2.2) ∨ nth st.2.1 i ∈ st.1 ∨ (i = i0 ∧ k ∈ todo)

theorem Inv.change {r keys i0 i1} {st : LState} (h : Inv r keys i0 [] st) : Inv r keys i1 [] st where
  start := h.start
  workSub := h.workSub
  nodup := h.nodup
  good := h.good
  transOk := h.transOk
  closed := by
    intro i hi k hk hne
    rcases h.closed i hi k hk hne with h1 | h1 | ⟨_, h1⟩
    · exact .inl h1
    · exact .inr (.inl h1)
    · cases h1

theorem keyStep_inv {r : SRx} {keys : List String} {i0 : Nat} {k : String} {ks : List String}
    {s : List SRx} {st : LState}
    (h : Inv r keys i0 (k :: ks) st) (hi : i0 < st.2.1.length) (hs : nth st.2.1 i0 = s) :
    Inv r keys i0 ks (keyStep s i0 st k) ∧ i0 < (keyStep s i0 st k).2.1.length ∧
      nth (keyStep s i0 st k).2.1 i0 = s := by
  obtain ⟨work, states, trans⟩ := st
  dsimp only at hi hs
  unfold keyStep
  dsimp only
  split
  · -- empty successor: nothing recorded
    rename_i hemp
    have hemp : stepS s k = [] := List.isEmpty_iff.mp hemp
    refine ⟨?_, hi, hs⟩
    exact {
      start := h.start, workSub := h.workSub, nodup := h.nodup, good := h.good,
      transOk := h.transOk,
      closed := by
        intro i hil k' hk' hne
        rcases h.closed i hil k' hk' hne with h1 | h1 | ⟨rfl, h1⟩
        · exact .inl h1
        · exact .inr (.inl h1)
        · rcases List.mem_cons.mp h1 with rfl | h2
          · exact absurd hemp (by dsimp only at hne; rw [hs] at hne; exact hne)
          · exact .inr (.inr ⟨rfl, h2⟩) }
  · rename_i hne0
    have hne0 : stepS s k ≠ [] := fun h => hne0 (List.isEmpty_iff.mpr h)
    split
    · -- a known set
      rename_i j hj
      obtain ⟨hjl, hjeq, -⟩ := List.findIdx?_eq_some_iff_getElem.mp hj
      refine ⟨?_, hi, hs⟩
      exact {
        start := h.start, workSub := h.workSub, nodup := h.nodup, good := h.good,
        transOk := by
          intro t ht
          rcases List.mem_append.mp ht with ht | ht
          · exact h.transOk t ht
          · have : t = (i0, k, j) := by simpa using ht
            subst this
            dsimp only
            rw [hs, nth_eq_getElem hjl]
            exact ⟨hi, hjl, hne0, seteqB_iff.mp hjeq⟩
        closed := by
          intro i hil k' hk' hne
          dsimp only
          rcases h.closed i hil k' hk' hne with ⟨j', h1⟩ | h1 | ⟨rfl, h1⟩
          · exact .inl ⟨j', List.mem_append_left _ h1⟩
          · exact .inr (.inl h1)
          · rcases List.mem_cons.mp h1 with rfl | h2
            · exact .inl ⟨j, List.mem_append_right _ (List.mem_singleton.mpr rfl)⟩
            · exact .inr (.inr ⟨rfl, h2⟩) }
    · -- a new set
      rename_i hnone
      have hnew : ∀ u ∈ states, seteqB u (stepS s k) = false :=
        List.findIdx?_eq_none_iff.mp hnone
      have hnotin : stepS s k ∉ states := by
        intro hin
        have := hnew _ hin
        rw [(seteqB_iff.mpr (fun _ => Iff.rfl) : seteqB (stepS s k) (stepS s k) = true)] at this
        cases this
      have hlen : (states ++ [stepS s k]).length = states.length + 1 := by simp
      refine ⟨?_, by dsimp only; omega, by dsimp only; rw [nth_append_lt hi]; exact hs⟩
      have hstart : states[0]? = some [r] := h.start
      have hpos : 0 < states.length := by
        cases states with
        | nil => cases hstart
        | cons _ _ => simp
      exact {
        start := by dsimp only; rw [List.getElem?_append_left hpos]; exact hstart
        workSub := by
          intro x hx
          dsimp only at hx ⊢
          rcases List.mem_append.mp hx with hx | hx
          · exact List.mem_append_left _ (h.workSub x hx)
          · exact List.mem_append_right _ hx
        nodup := by
          dsimp only
          rw [List.nodup_append]
          refine ⟨h.nodup, by simp, ?_⟩
          intro a ha b hb hab
          have : b = stepS s k := by simpa using hb
          subst this; subst hab
          exact hnotin ha
        good := by
          intro S hS
          dsimp only at hS
          rcases List.mem_append.mp hS with hS | hS
          · exact h.good S hS
          · have : S = stepS s k := by simpa using hS
            subst this
            have hg : Good r s := by rw [← hs]; exact h.good _ (nth_mem hi)
            exact hg.stepS k
        transOk := by
          intro t ht
          dsimp only at ht ⊢
          rcases List.mem_append.mp ht with ht | ht
          · obtain ⟨h1, h2, h3, h4⟩ := h.transOk t ht
            dsimp only at h1 h2 h3 h4
            rw [nth_append_lt h1, nth_append_lt h2]
            exact ⟨by omega, by omega, h3, h4⟩
          · have : t = (i0, k, states.length) := by simpa using ht
            subst this
            dsimp only
            rw [nth_append_lt hi, nth_append_len, hs]
            exact ⟨by omega, by omega, hne0, fun _ => Iff.rfl⟩
        closed := by
          intro i hil k' hk' hne
          dsimp only at hil hne ⊢
          by_cases hlt : i < states.length
          · rw [nth_append_lt hlt] at hne ⊢
            rcases h.closed i hlt k' hk' hne with ⟨j', h1⟩ | h1 | ⟨rfl, h1⟩
            · exact .inl ⟨j', List.mem_append_left _ h1⟩
            · exact .inr (.inl (List.mem_append_left _ h1))
            · rcases List.mem_cons.mp h1 with rfl | h2
              · exact .inl ⟨_, List.mem_append_right _ (List.mem_singleton.mpr rfl)⟩
              · exact .inr (.inr ⟨rfl, h2⟩)
          · have : i = states.length := by omega
            subst this
            rw [nth_append_len]
            exact .inr (.inl (List.mem_append_right _ (List.mem_singleton.mpr rfl))) }

theorem fold_inv {r : SRx} {keys : List String} {i0 : Nat} {s : List SRx} (ks : List String)
    (st : LState) (h : Inv r keys i0 ks st) (hi : i0 < st.2.1.length) (hs : nth st.2.1 i0 = s) :
    Inv r keys i0 [] (ks.foldl (keyStep s i0) st) := by
  induction ks generalizing st with
  | nil => exact h
  | cons k ks ih =>
    obtain ⟨h1, h2, h3⟩ := keyStep_inv h hi hs
    exact ih _ h1 h2 h3

theorem loopW_inv {r : SRx} {keys : List String} (fuel : Nat) (work states trans) (i0 : Nat)
    (h : Inv r keys i0 [] (work, states, trans)) :
    Inv r keys 0 [] (loopW keys fuel work states trans) := by
  induction fuel generalizing work states trans i0 with
  | zero => unfold loopW; exact h.change
  | succ n ih =>
    cases work with
    | nil => unfold loopW; exact h.change
    | cons s work =>
      unfold loopW
      dsimp only
      have hsin : s ∈ states := h.workSub s (List.mem_cons_self ..)
      cases hidx : states.idxOf? s with
      | none => exact absurd hsin (List.idxOf?_eq_none_iff.mp hidx)
      | some i =>
        obtain ⟨hil, his, -⟩ := List.idxOf?_eq_some_iff.mp hidx
        have hnth : nth states i = s := by rw [nth_eq_getElem hil]; exact his
        simp only [Option.getD_some]
        have hinv : Inv r keys i keys (work, states, trans) := {
          start := h.start
          workSub := fun x hx => h.workSub x (List.mem_cons_of_mem _ hx)
          nodup := h.nodup
          good := h.good
          transOk := h.transOk
          closed := by
            intro i' hil' k hk hne
            dsimp only at hil' hne ⊢
            rcases h.closed i' hil' k hk hne with h1 | h1 | ⟨_, h1⟩
            · exact .inl h1
            · rcases List.mem_cons.mp h1 with h2 | h2
              · refine .inr (.inr ⟨?_, hk⟩)
                rw [nth_eq_getElem hil', ← his] at h2
                exact (List.getElem_inj h.nodup).mp h2
              · exact .inr (.inl h2)
            · cases h1 }
        have := fold_inv keys (work, states, trans) hinv hil hnth
        exact ih _ _ _ i this

/-! #### the automaton accepts the language -/

theorem acceptsFrom_nil (a : Cert.KAuto) (q : Nat) : a.acceptsFrom q [] = a.acc.contains q := by
  simp only [Cert.KAuto.acceptsFrom, Cert.KAuto.runFrom]

theorem acceptsFrom_cons (a : Cert.KAuto) (q : Nat) (k : String) (w : List String) :
    a.acceptsFrom q (k :: w) = match a.step q k with
      | some q' => a.acceptsFrom q' w
      | none => false := by
  simp only [Cert.KAuto.acceptsFrom, Cert.KAuto.runFrom]
  cases a.step q k <;> rfl

/-- the automaton assembled from a final loop state -/
def autoOf (st : LState) : Cert.KAuto :=
  { start := 0, trans := st.2.2,
    acc := (List.range st.2.1.length).filter fun i => (st.2.1[i]?.getD []).any SRx.nullable }

theorem acceptsFrom_of_inv {r : SRx} {keys : List String} {st : LState}
    (hkeys : ∀ k, k ∈ keys ↔ k ∈ r.syms) (h : Inv r keys 0 [] st) (hw : st.1 = [])
    (w : List String) : ∀ i, i < st.2.1.length →
      ((autoOf st).acceptsFrom i w = true ↔ SetLang (nth st.2.1 i) w) := by
  induction w with
  | nil =>
    intro i hi
    rw [acceptsFrom_nil, setLang_nil]
    simp only [autoOf, List.contains_iff_mem, List.mem_filter, List.mem_range, nth, hi, true_and]
  | cons k w ih =>
    intro i hi
    rw [acceptsFrom_cons, setLang_cons]
    unfold Cert.KAuto.step
    cases hf : (autoOf st).trans.find? (fun t => t.1 == i && t.2.1 == k) with
    | none =>
      simp only [Option.map_none, Bool.false_eq_true, false_iff]
      have hno : ∀ j, (i, k, j) ∉ st.2.2 := by
        intro j hj
        have := List.find?_eq_none.mp hf _ hj
        simp at this
      by_cases hk : k ∈ keys
      · by_cases hne : stepS (nth st.2.1 i) k = []
        · rw [hne]; rintro ⟨x, hx, _⟩; cases hx
        · rcases h.closed i hi k hk hne with ⟨j, h1⟩ | h1 | ⟨_, h1⟩
          · exact absurd h1 (hno j)
          · rw [hw] at h1; cases h1
          · cases h1
      · intro hsl
        obtain ⟨x, hx, hxw⟩ := setLang_cons.mpr hsl
        exact hk ((hkeys k).mpr (h.good _ (nth_mem hi) x hx _ hxw k (List.mem_cons_self ..)))
    | some t =>
      have htm : t ∈ st.2.2 := List.mem_of_find?_eq_some hf
      have htp := List.find?_some hf
      simp only [Bool.and_eq_true, beq_iff_eq] at htp
      obtain ⟨ht1, ht2⟩ := htp
      obtain ⟨-, h2, -, h4⟩ := h.transOk t htm
      rw [ht1, ht2] at h4
      simp only [Option.map_some]
      rw [ih _ h2]
      exact h4.setLang w

theorem toKAuto_eq (r : SRx) :
    r.toKAuto = autoOf (loopW (Cert.sortStrings r.syms) 4096 [[r]] [[r]] []) := by
  unfold SRx.toKAuto
  simp only [loop_eq, autoOf]

theorem init_inv (r : SRx) (keys : List String) : Inv r keys 0 [] ([[r]], [[r]], []) where
  start := rfl
  workSub := fun _ hx => hx
  nodup := by simp
  good := by
    intro S hS
    have : S = [r] := by simpa using hS
    subst this
    intro x hx w hw
    have : x = r := by simpa using hx
    subst this
    exact lang_syms hw
  transOk := by intro t ht; cases ht
  closed := by
    intro i hi k _ _
    have : i = 0 := by simpa using hi
    subst this
    exact .inr (.inl (by simp [nth]))

/-- Main theorem: when the construction for `r` finished within its fuel, the automaton accepts
exactly the language of `r` (over arbitrary keys). -/
theorem toKAuto_correct (r : SRx) (hfin : Finished r) :
    ∀ w : List String, (r.toKAuto).accepts w = true ↔ SRx.Lang r w := by
  intro w
  have hinv := loopW_inv (keys := Cert.sortStrings r.syms) 4096 [[r]] [[r]] [] 0
    (init_inv r (Cert.sortStrings r.syms))
  have hstart := hinv.start
  have hpos : 0 < (loopW (Cert.sortStrings r.syms) 4096 [[r]] [[r]] []).2.1.length := by
    cases hl : (loopW (Cert.sortStrings r.syms) 4096 [[r]] [[r]] []).2.1 with
    | nil => rw [hl] at hstart; cases hstart
    | cons _ _ => simp
  have h0 : nth (loopW (Cert.sortStrings r.syms) 4096 [[r]] [[r]] []).2.1 0 = [r] := by
    simp [nth, hstart]
  have := acceptsFrom_of_inv (fun k => mem_sortStrings) hinv hfin w 0 hpos
  rw [h0, setLang_singleton] at this
  rw [toKAuto_eq]
  exact this

end Complgen.Spec
