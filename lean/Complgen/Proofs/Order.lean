/-
C14: the order in which the definitions are written does not matter.  `Spec.meaning` looks a name up
with "the first statement that …"; when at most one statement qualifies (which validation enforces)
the answer is the same for every permutation of the statements that keeps the call variants in their
order.  With `validate_expr_eq_meaning` this transfers to the model of check.rs.
-/
import Complgen.Proofs.Meaning
namespace Complgen.Check
open Complgen

theorem findSome?_perm {α β} (f : α → Option β) (l l' : List α) (hp : l.Perm l')
    (h1 : (l.filterMap f).length ≤ 1) : l.findSome? f = l'.findSome? f := by
  rw [← List.head?_filterMap, ← List.head?_filterMap]
  have hp' := hp.filterMap f
  cases hl : l.filterMap f with
  | nil =>
    rw [hl] at hp'
    rw [hp'.nil_eq.symm]
  | cons a t =>
    rw [hl] at h1 hp'
    have : t = [] := by
      cases t with
      | nil => rfl
      | cons b t' => simp at h1
    subst this
    rw [(hp'.symm).eq_singleton]

/-- at most one statement defines `n` for the shell, at most one defines it plainly -/
def UniqueDefs (sh : Shell) (g : Grammar) : Prop :=
  ∀ n, (g.filterMap (specFor sh n)).length ≤ 1 ∧ (g.filterMap (plainFor n)).length ≤ 1

theorem pick_perm (sh : Shell) (g g' : Grammar) (hp : g.Perm g') (hu : UniqueDefs sh g) (n : String) :
    Spec.pick sh g' n = Spec.pick sh g n := by
  rw [pick_unfold, pick_unfold, findSome?_perm _ g g' hp (hu n).1, findSome?_perm _ g g' hp (hu n).2]

theorem expand_congr (sh : Shell) (g g' : Grammar) (hpk : ∀ n, Spec.pick sh g' n = Spec.pick sh g n) :
    ∀ k : Nat, (∀ e : Expr, Spec.expand sh g' k e = Spec.expand sh g k e) ∧
      (∀ es : ExprL, Spec.expandL sh g' k es = Spec.expandL sh g k es)
  | 0 => ⟨fun e => by simp [Spec.expand], fun es => by simp [Spec.expandL]⟩
  | k + 1 => by
    have ih := expand_congr sh g g' hpk k
    have hE : ∀ e : Expr, Spec.expand sh g' (k + 1) e = Spec.expand sh g (k + 1) e := by
      intro e
      cases e with
      | term t d l s => simp [Spec.expand]
      | cmd c a l s => simp [Spec.expand]
      | nonterm n l s =>
        simp only [Spec.expand, hpk n]
        cases Spec.pick sh g n with
        | command c a => rfl
        | anyWord => rfl
        | expr d => exact ih.1 _
      | dd c d s => simp [Spec.expand, ih.1]
      | sub c l s => simp [Spec.expand, ih.1]
      | opt c s => simp [Spec.expand, ih.1]
      | many1 c s => simp [Spec.expand, ih.1]
      | seq cs s => simp [Spec.expand, ih.2]
      | alt cs s => simp [Spec.expand, ih.2]
      | fb cs s => simp [Spec.expand, ih.2]
    refine ⟨hE, ?_⟩
    have hL : ∀ es : ExprL, Spec.expandL sh g' (k + 1) es = Spec.expandL sh g (k + 1) es := by
      intro es
      exact expandL_congr_step sh g g' k ih.1 es
    exact hL
where
  expandL_congr_step (sh : Shell) (g g' : Grammar) (k : Nat)
      (hE : ∀ e : Expr, Spec.expand sh g' k e = Spec.expand sh g k e) :
      ∀ es : ExprL, Spec.expandL sh g' (k + 1) es = Spec.expandL sh g (k + 1) es
    | .nil => by simp [Spec.expandL]
    | .cons e es => by simp [Spec.expandL, hE, expandL_congr_step sh g g' k hE es]

theorem sum_perm {l l' : List Nat} (hp : l.Perm l') : l.sum = l'.sum := by
  induction hp with
  | nil => rfl
  | cons x _ ih => simp [ih]
  | swap x y l => simp only [List.sum_cons]; omega
  | trans _ _ ih1 ih2 => rw [ih1, ih2]

/-- **The meaning of a grammar does not depend on the order of its statements**, as long as the call
variants keep their order and no name is defined twice (for the shell / plainly). -/
theorem meaningAt_perm (sp : Span) (sh : Shell) (g g' : Grammar) (hp : g.Perm g') (hu : UniqueDefs sh g)
    (hc : Spec.callBodies g' = Spec.callBodies g) : Spec.meaningAt sp g' sh = Spec.meaningAt sp g sh := by
  unfold Spec.meaningAt Spec.topOf
  simp only [hc]
  generalize hA : List.foldl _ 0 g' = A
  generalize hB : List.foldl _ 0 g = B
  have hA' : A = (g'.map stmtSize).sum := by
    rw [← hA]; exact (foldl_total g' 0).trans (Nat.zero_add _)
  have hB' : B = (g.map stmtSize).sum := by
    rw [← hB]; exact (foldl_total g 0).trans (Nat.zero_add _)
  have hAB : A = B := by rw [hA', hB', sum_perm ((hp.map stmtSize).symm)]
  rw [hAB, (expand_congr sh g g' (pick_perm sh g g' hp hu) _).1]


/-! ### validation enforces the uniqueness -/

theorem validate_ok_inv (g : Grammar) (sh : Shell) (v : Valid) (h : validate g sh = .ok v) :
    ((plainDefs g).map (·.1)).Nodup ∧ ∃ specs fbs, getSpecializations g sh = .ok (specs, fbs) := by
  unfold validate at h
  cases hcmd : commandOf g with
  | err c s => rw [hcmd] at h; cases h
  | crash s => rw [hcmd] at h; cases h
  | ok command =>
    rw [hcmd] at h
    simp only at h
    by_cases hnd : ((plainDefs g).map (·.1)).Nodup
    · refine ⟨hnd, ?_⟩
      rw [collectPlain_spec (plainDefs g) [] (fun _ _ => rfl) hnd] at h
      simp only [List.nil_append] at h
      cases hgs : getSpecializations g sh with
      | err c s => rw [hgs] at h; cases h
      | crash s => rw [hgs] at h; cases h
      | ok r => exact ⟨r.1, r.2, rfl⟩
    · obtain ⟨spans, he⟩ := collectPlain_dup (plainDefs g) [] (.inr hnd)
      rw [he] at h; cases h

theorem filter_key_le_one {α} (n : String) : ∀ l : List (String × α), (l.map (·.1)).Nodup →
    (l.filter (·.1 == n)).length ≤ 1
  | [], _ => by simp
  | x :: xs, h => by
    simp only [List.map_cons, List.nodup_cons] at h
    by_cases hx : x.1 = n
    · have : xs.filter (·.1 == n) = [] := by
        apply List.filter_eq_nil_iff.mpr
        intro y hy hyn
        apply h.1
        have : y.1 = x.1 := by rw [hx]; simpa using hyn
        rw [← this]
        exact List.mem_map.mpr ⟨y, hy, rfl⟩
      simp [List.filter_cons, hx, this]
    · have hb : (x.1 == n) = false := by simpa using hx
      simp only [List.filter_cons, hb, Bool.false_eq_true, if_false]
      exact filter_key_le_one n xs h.2

theorem plainFor_count (n : String) : ∀ g : Grammar,
    (g.filterMap (plainFor n)).length = ((plainDefs g).filter (·.1 == n)).length
  | [] => by simp [plainDefs]
  | st :: rest => by
    have ih := plainFor_count n rest
    cases st with
    | call c s e =>
      have : plainDefs (Stmt.call c s e :: rest) = plainDefs rest := by simp [plainDefs]
      rw [this, ← ih]; simp [List.filterMap_cons, plainFor]
    | defn m s shell rhs =>
      cases shell with
      | some p =>
        have : plainDefs (Stmt.defn m s (some p) rhs :: rest) = plainDefs rest := by simp [plainDefs]
        rw [this, ← ih]; simp [List.filterMap_cons, plainFor]
      | none =>
        have : plainDefs (Stmt.defn m s none rhs :: rest) = (m, s, rhs) :: plainDefs rest := by simp [plainDefs]
        rw [this]
        by_cases hm : m = n
        · subst hm; simp [List.filterMap_cons, plainFor, List.filter_cons, ih]
        · have hb : (m == n) = false := by simpa using hm
          simp [List.filterMap_cons, plainFor, List.filter_cons, hb, ih]

theorem specFor_count (sh : Shell) (n : String) : ∀ g : Grammar,
    (g.filterMap (specFor sh n)).length ≤ (((specDefs g).filter (forTarget sh)).filter (·.1 == n)).length
  | [] => by simp [specDefs]
  | st :: rest => by
    have ih := specFor_count sh n rest
    cases st with
    | call c s e =>
      have : specDefs (Stmt.call c s e :: rest) = specDefs rest := by simp [specDefs]
      rw [this]; simpa [List.filterMap_cons, specFor] using ih
    | defn m s shell rhs =>
      cases shell with
      | none =>
        have : specDefs (Stmt.defn m s none rhs :: rest) = specDefs rest := by simp [specDefs]
        rw [this]; simpa [List.filterMap_cons, specFor] using ih
      | some p =>
        obtain ⟨shn, ss⟩ := p
        have hsd : specDefs (Stmt.defn m s (some (shn, ss)) rhs :: rest) = (m, s, shn, ss, rhs) :: specDefs rest := by
          simp [specDefs]
        rw [hsd]
        -- does this statement count on the left?
        cases hsf : specFor sh n (Stmt.defn m s (some (shn, ss)) rhs) with
        | none =>
          simp only [List.filterMap_cons, hsf]
          refine Nat.le_trans ih ?_
          have hsub : ∀ (x : String × Span × String × Span × Expr) (L : List (String × Span × String × Span × Expr)),
              ((L.filter (forTarget sh)).filter (·.1 == n)).length ≤
                (((x :: L).filter (forTarget sh)).filter (·.1 == n)).length := by
            intro x L
            simp only [List.filter_cons]
            by_cases h1 : forTarget sh x = true
            · simp only [h1, if_true, List.filter_cons]
              by_cases h2 : (x.1 == n) = true
              · simp [h2]
              · simp [h2]
            · simp [h1]
          exact hsub _ _
        | some c =>
          -- then it is a command definition of `n` for the shell, and counts on the right too
          have hmn : m = n ∧ shn = sh.name := by
            cases rhs with
            | cmd c' a l sp =>
              simp only [specFor] at hsf
              split at hsf
              · rename_i hcond
                simpa using hcond
              · cases hsf
            | term _ _ _ _ => simp [specFor] at hsf
            | nonterm _ _ _ => simp [specFor] at hsf
            | seq _ _ => simp [specFor] at hsf
            | alt _ _ => simp [specFor] at hsf
            | fb _ _ => simp [specFor] at hsf
            | opt _ _ => simp [specFor] at hsf
            | many1 _ _ => simp [specFor] at hsf
            | dd _ _ _ => simp [specFor] at hsf
            | sub _ _ _ => simp [specFor] at hsf
          have hft : forTarget sh (m, s, shn, ss, rhs) = true :=
            (forTarget_iff _ _).mpr ((ofName_iff _ _).mpr hmn.2)
          have hkey : (m == n) = true := by simpa using hmn.1
          simp only [List.filterMap_cons, hsf, List.filter_cons, hft, if_true, hkey, List.length_cons]
          omega

theorem loop1_ok_nodup (target : Shell) :
    ∀ (l : List (String × Span × String × Span × Expr)) (acc r : AList UserSpec),
    getSpecializations.loop1 target l acc = .ok r → (acc.map (·.1)).Nodup → (r.map (·.1)).Nodup
  | [], acc, r, h, hn => by
    unfold getSpecializations.loop1 at h
    cases h; exact hn
  | (n, s, shn, ss, rhs) :: rest, acc, r, h, hn => by
    unfold getSpecializations.loop1 at h
    split at h
    · split at h
      · cases h
      · split at h
        · exact loop1_ok_nodup target rest acc r h hn
        · split at h
          · cases h
          · rename_i hnone
            apply loop1_ok_nodup target rest _ r h
            simp only [List.map_append, List.map_cons, List.map_nil]
            apply List.nodup_append.mpr
            refine ⟨hn, by simp, ?_⟩
            intro a ha b hb e
            simp only [List.mem_singleton] at hb
            subst hb; subst e
            obtain ⟨p, hp, hpe⟩ := List.mem_map.mp ha
            have : (acc.get? a).isSome := get?_some_of_mem acc a p.2 (by rw [← hpe]; exact hp)
            rw [hnone] at this
            cases this
    · cases h

theorem uniqueDefs_of_validate (g : Grammar) (sh : Shell) (v : Valid) (h : validate g sh = .ok v) :
    UniqueDefs sh g := by
  obtain ⟨hnd, specs, fbs, hgs⟩ := validate_ok_inv g sh v h
  intro n
  constructor
  · -- specialisations for the shell
    have hdist : TargetSpecsDistinct g sh := by
      unfold getSpecializations at hgs
      cases h1 : getSpecializations.loop1 sh (specDefs g) [] with
      | err c s => rw [h1] at hgs; cases hgs
      | crash s => rw [h1] at hgs; cases hgs
      | ok sp =>
        have hnod := loop1_ok_nodup sh (specDefs g) [] sp h1 (by simp)
        have hinv := (loop1_ok_inv sh (specDefs g) [] sp h1).1
        rw [hinv] at hnod
        unfold TargetSpecsDistinct
        simpa [List.map_map, Function.comp_def, toSpec] using hnod
    exact Nat.le_trans (specFor_count sh n g) (filter_key_le_one n _ hdist)
  · rw [plainFor_count]
    exact filter_key_le_one n _ hnd

/-- **The order of the definitions does not change what validation returns**: two grammars with the
same statements, the call variants in the same order, both accepted for a shell, have the same
validated expression (hence the same automaton and the same scripts). -/
theorem validate_perm (g g' : Grammar) (sh : Shell) (v v' : Valid) (hp : g.Perm g')
    (hc : callsOf g' = callsOf g) (h : validate g sh = .ok v) (h' : validate g' sh = .ok v') :
    v'.expr = v.expr := by
  rw [validate_expr_eq_meaning g sh v h, validate_expr_eq_meaning g' sh v' h']
  have hts : topSpan g' = topSpan g := by unfold topSpan; rw [hc]
  rw [hts]
  exact meaningAt_perm _ sh g g' hp (uniqueDefs_of_validate g sh v h) (by rw [spec_calls, spec_calls, hc])

end Complgen.Check
