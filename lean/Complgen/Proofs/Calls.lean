/-
C17: the calls of the external commands, over the model of the bash template with call recording
(`Model/BashRtCalls.lean`, whose call sequence is compared with the probe log of the real bash on
every explored command line):
  * recording changes nothing: `completeL` returns what `complete` returns;
  * every call has one of the four forms of the template: `("", "")` while reading an earlier word,
    `(typed prefix, "")` while collecting candidates between words, and inside a word
    `(rest of the word, part already read)` — the two arguments always split the word at hand.
-/
import Complgen.Model.BashRtCalls
namespace Complgen.BashRt

/-! ### recording changes nothing -/

theorem cmdPassL_fst (out : Nat → List String) (sub : List Char) (matched : String) :
    ∀ row : List (Nat × Nat), (cmdPassL out sub matched row).1 = cmdPass out sub row
  | [] => rfl
  | (cmd, to) :: rest => by
    unfold cmdPassL cmdPass
    simp only
    cases candPass to sub (byDecreasingLength ((out cmd).filter (· ≠ ""))) with
    | nothing => simp [cmdPassL_fst out sub matched rest]
    | stop => rfl
    | consumed q n => rfl

theorem subLoopL_fst (T : Tables) (out : Nat → List String) (mode : Mode) (word : List Char) :
    ∀ (fuel q i : Nat), (subLoopL T out mode word fuel q i).1 = subLoop T out mode word fuel q i
  | 0, q, i => rfl
  | fuel + 1, q, i => by
    unfold subLoopL subLoop
    by_cases hi : i ≥ word.length
    · simp [hi]
    · simp only [hi, if_false]
      cases hl : rowOf T.litTrans q with
      | none =>
        cases hr : rowOf T.cmdTrans q with
        | none => simp only; split <;> rfl
        | some row =>
          simp only
          rw [cmdPassL_fst]
          cases cmdPass out (word.drop i) row with
          | consumed q' n =>
            simp only
            by_cases hn : n = 0
            · simp [hn]
            · simp only [hn, if_false]; exact subLoopL_fst T out mode word fuel q' (i + n)
          | stop => rfl
          | nothing => simp only; split <;> rfl
      | some lrow =>
        simp only
        cases litPass mode T.literals lrow (word.drop i) 0 T.literals with
        | consumed q' n =>
          simp only
          by_cases hn : n = 0
          · simp [hn]
          · simp only [hn, if_false]; exact subLoopL_fst T out mode word fuel q' (i + n)
        | stop => rfl
        | nothing =>
          simp only
          cases hr : rowOf T.cmdTrans q with
          | none => simp only; split <;> rfl
          | some row =>
            simp only
            rw [cmdPassL_fst]
            cases cmdPass out (word.drop i) row with
            | consumed q' n =>
              simp only
              by_cases hn : n = 0
              · simp [hn]
              · simp only [hn, if_false]; exact subLoopL_fst T out mode word fuel q' (i + n)
            | stop => rfl
            | nothing => simp only; split <;> rfl

theorem subMatchesL_fst (T : Tables) (out : Nat → List String) (word : String) :
    (subMatchesL T out word).1 = subMatches T out word := by
  unfold subMatchesL subMatches
  simp only [subLoopL_fst]

end Complgen.BashRt

/-! ### the arguments of every call -/
namespace Complgen.BashRt

/-- the two arguments split the word: (rest of the word, part already read) -/
def Splits (w : List Char) (c : Call) : Prop :=
  ∃ i, c.2.2 = String.ofList (w.take i) ∧ c.2.1 = String.ofList (w.drop i)

theorem splits_concat (w : String) (c : Call) (h : Splits w.toList c) : c.2.2 ++ c.2.1 = w := by
  obtain ⟨i, h1, h2⟩ := h
  rw [h1, h2, ← String.ofList_append, List.take_append_drop, String.ofList_toList]

theorem cmdPassL_calls (out : Nat → List String) (sub : List Char) (matched : String) :
    ∀ (row : List (Nat × Nat)) (c : Call), c ∈ (cmdPassL out sub matched row).2 →
      c.2.1 = String.ofList sub ∧ c.2.2 = matched
  | [], c, h => by simp [cmdPassL] at h
  | (cmd, to) :: rest, c, h => by
    unfold cmdPassL at h
    simp only at h
    cases hcp : candPass to sub (byDecreasingLength ((out cmd).filter (· ≠ ""))) with
    | nothing =>
      rw [hcp] at h
      simp only [List.mem_cons] at h
      rcases h with rfl | h
      · exact ⟨rfl, rfl⟩
      · exact cmdPassL_calls out sub matched rest c h
    | stop => rw [hcp] at h; simp only [List.mem_singleton] at h; subst h; exact ⟨rfl, rfl⟩
    | consumed q n => rw [hcp] at h; simp only [List.mem_singleton] at h; subst h; exact ⟨rfl, rfl⟩

theorem subLoopL_calls (T : Tables) (out : Nat → List String) (mode : Mode) (word : List Char) :
    ∀ (fuel q i : Nat) (c : Call), c ∈ (subLoopL T out mode word fuel q i).2 → Splits word c
  | 0, q, i, c, h => by simp [subLoopL] at h
  | fuel + 1, q, i, c, h => by
    unfold subLoopL at h
    by_cases hi : i ≥ word.length
    · simp [hi] at h
    · simp only [hi, if_false] at h
      have hcmd : ∀ row (c : Call), c ∈ (cmdPassL out (word.drop i) (String.ofList (word.take i)) row).2 → Splits word c := by
        intro row c hc
        obtain ⟨h1, h2⟩ := cmdPassL_calls out _ _ row c hc
        exact ⟨i, h2, h1⟩
      cases hl : rowOf T.litTrans q with
      | none =>
        rw [hl] at h
        cases hr : rowOf T.cmdTrans q with
        | none => rw [hr] at h; simp only at h; split at h <;> simp at h
        | some row =>
          rw [hr] at h
          simp only at h
          cases hs : (cmdPassL out (word.drop i) (String.ofList (word.take i)) row).1 with
          | consumed q' n =>
            rw [hs] at h
            simp only at h
            by_cases hn : n = 0
            · simp only [hn, if_true] at h; exact hcmd row c h
            · simp only [hn, if_false, List.mem_append] at h
              rcases h with h | h
              · exact hcmd row c h
              · exact subLoopL_calls T out mode word fuel q' (i + n) c h
          | stop => rw [hs] at h; exact hcmd row c h
          | nothing =>
            rw [hs] at h
            simp only at h
            split at h <;> exact hcmd row c h
      | some lrow =>
        rw [hl] at h
        simp only at h
        cases hlp : litPass mode T.literals lrow (word.drop i) 0 T.literals with
        | consumed q' n =>
          rw [hlp] at h
          simp only at h
          by_cases hn : n = 0
          · simp [hn] at h
          · simp only [hn, if_false] at h; exact subLoopL_calls T out mode word fuel q' (i + n) c h
        | stop => rw [hlp] at h; simp at h
        | nothing =>
          rw [hlp] at h
          simp only at h
          cases hr : rowOf T.cmdTrans q with
          | none => rw [hr] at h; simp only at h; split at h <;> simp at h
          | some row =>
            rw [hr] at h
            simp only at h
            cases hs : (cmdPassL out (word.drop i) (String.ofList (word.take i)) row).1 with
            | consumed q' n =>
              rw [hs] at h
              simp only at h
              by_cases hn : n = 0
              · simp only [hn, if_true] at h; exact hcmd row c h
              · simp only [hn, if_false, List.mem_append] at h
                rcases h with h | h
                · exact hcmd row c h
                · exact subLoopL_calls T out mode word fuel q' (i + n) c h
            | stop => rw [hs] at h; exact hcmd row c h
            | nothing =>
              rw [hs] at h
              simp only at h
              split at h <;> exact hcmd row c h

theorem subMatchesL_calls (T : Tables) (out : Nat → List String) (word : String) (c : Call)
    (h : c ∈ (subMatchesL T out word).2) : Splits word.toList c := by
  unfold subMatchesL at h
  exact subLoopL_calls T out _ _ _ _ _ c h

theorem subCompleteL_levels_calls (T : Tables) (out : Nat → List String) (w : List Char) (q i : Nat) :
    ∀ (fuel lvl : Nat) (cands : List String) (c : Call),
      c ∈ (subCompleteL.levels T out w q (String.ofList (w.take i)) (w.drop i) fuel lvl cands).2 → Splits w c
  | 0, _, _, c, h => by simp [subCompleteL.levels] at h
  | fuel + 1, lvl, cands, c, h => by
    unfold subCompleteL.levels at h
    simp only at h
    have hc : ∀ c : Call, c ∈ (idsAt T.cmdLevels lvl q).map (fun cmd => ((cmd, String.ofList (w.drop i), String.ofList (w.take i)) : Call)) →
        Splits w c := by
      intro c hc
      obtain ⟨cmd, _, rfl⟩ := List.mem_map.mp hc
      exact ⟨i, rfl, rfl⟩
    split at h
    · exact hc c h
    · split at h
      · exact hc c h
      · simp only [List.mem_append] at h
        rcases h with h | h
        · exact hc c h
        · exact subCompleteL_levels_calls T out w q i fuel (lvl + 1) _ c h

theorem subCompleteL_calls (T : Tables) (out : Nat → List String) (word : String) (c : Call)
    (h : c ∈ (subCompleteL T out word).2) : Splits word.toList c := by
  unfold subCompleteL at h
  simp only [List.mem_append] at h
  rcases h with h | h
  · exact subLoopL_calls T out _ _ _ _ _ c h
  · exact subCompleteL_levels_calls T out word.toList _ _ _ _ _ c h

end Complgen.BashRt

namespace Complgen.BashRt

theorem trySubs_calls (S : Script) (word : String) : ∀ (row : List (Nat × Nat)) (c : Call),
    c ∈ (trySubs S word row).2 → Splits word.toList c
  | [], c, h => by simp [trySubs] at h
  | (id, to) :: rest, c, h => by
    unfold trySubs at h
    simp only at h
    split at h
    · exact subMatchesL_calls _ _ word c h
    · simp only [List.mem_append] at h
      rcases h with h | h
      · exact subMatchesL_calls _ _ word c h
      · exact trySubs_calls S word rest c h

theorem tryCmds_calls (S : Script) (word : String) : ∀ (row : List (Nat × Nat)) (c : Call),
    c ∈ (tryCmds S word row).2 → c.2 = ("", "")
  | [], c, h => by simp [tryCmds] at h
  | (cmd, to) :: rest, c, h => by
    unfold tryCmds at h
    split at h
    · simp only [List.mem_singleton] at h; subst h; rfl
    · simp only [List.mem_cons] at h
      rcases h with rfl | h
      · rfl
      · exact tryCmds_calls S word rest c h

theorem readWordL_calls (S : Script) (q : Nat) (word : String) (c : Call)
    (h : c ∈ (readWordL S q word).2) : Splits word.toList c ∨ c.2 = ("", "") := by
  unfold readWordL at h
  simp only at h
  have hsw : ∀ c : Call, c ∈ (match rowOf S.main.subTrans q with
      | some row => trySubs S word row
      | none => (none, [])).2 → Splits word.toList c := by
    intro c hc
    cases hr : rowOf S.main.subTrans q with
    | none => rw [hr] at hc; simp at hc
    | some row => rw [hr] at hc; exact trySubs_calls S word row c hc
  have hcm : ∀ c : Call, c ∈ (tryCmds S word ((rowOf S.main.cmdTrans q).getD [])).2 → c.2 = ("", "") :=
    fun c hc => tryCmds_calls S word _ c hc
  split at h
  · simp at h
  · split at h
    · exact .inl (hsw c h)
    · split at h
      · simp only [List.mem_append] at h
        rcases h with h | h
        · exact .inl (hsw c h)
        · exact .inr (hcm c h)
      · split at h <;>
        · simp only [List.mem_append] at h
          rcases h with h | h
          · exact .inl (hsw c h)
          · exact .inr (hcm c h)

theorem walkL_calls (S : Script) : ∀ (q : Nat) (ws : List String) (c : Call), c ∈ (walkL S q ws).2 →
    (∃ w ∈ ws, Splits w.toList c) ∨ c.2 = ("", "")
  | q, [], c, h => by simp [walkL] at h
  | q, w :: ws, c, h => by
    unfold walkL at h
    simp only at h
    have hr := readWordL_calls S q w
    split at h
    · simp only [List.mem_append] at h
      rcases h with h | h
      · rcases hr c h with h1 | h1
        · exact .inl ⟨w, by simp, h1⟩
        · exact .inr h1
      · rename_i q' _ _
        rcases walkL_calls S q' ws c h with ⟨w', hw', h1⟩ | h1
        · exact .inl ⟨w', List.mem_cons_of_mem _ hw', h1⟩
        · exact .inr h1
    · rcases hr c h with h1 | h1
      · exact .inl ⟨w, by simp, h1⟩
      · exact .inr h1

theorem subCompletes_calls (S : Script) (prefix_ : String) : ∀ (ids : List Nat) (c : Call),
    c ∈ (subCompletes S prefix_ ids).2 → Splits prefix_.toList c
  | [], c, h => by simp [subCompletes] at h
  | id :: rest, c, h => by
    unfold subCompletes at h
    simp only [List.mem_append] at h
    rcases h with h | h
    · exact subCompleteL_calls _ _ prefix_ c h
    · exact subCompletes_calls S prefix_ rest c h

theorem offerL_levels_calls (S : Script) (q : Nat) (prefix_ : String) :
    ∀ (fuel lvl : Nat) (cands : List String) (c : Call),
      c ∈ (offerL.levels S q prefix_ S.main prefix_.toList fuel lvl cands).2 →
      Splits prefix_.toList c ∨ c.2 = (prefix_, "")
  | 0, _, _, c, h => by simp [offerL.levels] at h
  | fuel + 1, lvl, cands, c, h => by
    unfold offerL.levels at h
    simp only at h
    have hc : ∀ c : Call, c ∈ (subCompletes S prefix_ (idsAt S.main.subLevels lvl q)).2 ++
        (idsAt S.main.cmdLevels lvl q).map (fun cmd => ((cmd, prefix_, "") : Call)) →
        Splits prefix_.toList c ∨ c.2 = (prefix_, "") := by
      intro c hc
      rcases List.mem_append.mp hc with h1 | h1
      · exact .inl (subCompletes_calls S prefix_ _ c h1)
      · obtain ⟨cmd, _, rfl⟩ := List.mem_map.mp h1
        exact .inr rfl
    split at h
    · exact hc c h
    · split at h
      · exact hc c h
      · rcases List.mem_append.mp h with h | h
        · exact hc c h
        · exact offerL_levels_calls S q prefix_ fuel (lvl + 1) _ c h

theorem offerL_calls (S : Script) (q : Nat) (prefix_ : String) (c : Call) (h : c ∈ (offerL S q prefix_).2) :
    Splits prefix_.toList c ∨ c.2 = (prefix_, "") := by
  unfold offerL at h
  exact offerL_levels_calls S q prefix_ _ _ _ c h

/-- **Every call of an external command has one of the four forms of the template**: while an
earlier word is read at top level `("", "")`; while candidates are collected between words
`(typed text, "")`; inside a word — an earlier word or the one being completed — the two arguments
are the rest of that word and the part of it already read. -/
theorem completeL_calls (S : Script) (start : Nat) (words : List String) (prefix_ wb : String) (c : Call)
    (h : c ∈ (completeL S start words prefix_ wb).2) :
    c.2 = ("", "") ∨ c.2 = (prefix_, "") ∨ ∃ w ∈ words ++ [prefix_], c.2.2 ++ c.2.1 = w := by
  unfold completeL at h
  simp only at h
  have hw := walkL_calls S start words
  split at h
  · rcases hw c h with ⟨w, hwm, h1⟩ | h1
    · exact .inr (.inr ⟨w, List.mem_append_left _ hwm, splits_concat w c h1⟩)
    · exact .inl h1
  · simp only [List.mem_append] at h
    rcases h with h | h
    · rcases hw c h with ⟨w, hwm, h1⟩ | h1
      · exact .inr (.inr ⟨w, List.mem_append_left _ hwm, splits_concat w c h1⟩)
      · exact .inl h1
    · rcases offerL_calls S _ prefix_ c h with h1 | h1
      · exact .inr (.inr ⟨prefix_, by simp, splits_concat prefix_ c h1⟩)
      · exact .inr (.inl h1)

end Complgen.BashRt

/-! ### recording changes nothing (continued) -/
namespace Complgen.BashRt

theorem subCompleteL_levels_fst (T : Tables) (out : Nat → List String) (w : List Char) (q : Nat) (matched : String)
    (completed : List Char) : ∀ (fuel lvl : Nat) (cands : List String),
      (subCompleteL.levels T out w q matched completed fuel lvl cands).1 =
        subComplete.levels T out w q matched completed fuel lvl cands
  | 0, _, _ => rfl
  | fuel + 1, lvl, cands => by
    unfold subCompleteL.levels subComplete.levels
    simp only
    split
    · rfl
    · split
      · rfl
      · exact subCompleteL_levels_fst T out w q matched completed fuel (lvl + 1) _

theorem subCompleteL_fst (T : Tables) (out : Nat → List String) (word : String) :
    (subCompleteL T out word).1 = subComplete T out word := by
  unfold subCompleteL subComplete
  simp only
  rw [subCompleteL_levels_fst]
  have h := subLoopL_fst T out .complete word.toList (word.toList.length + 1) 0 0
  rw [← h]

theorem trySubs_fst (S : Script) (word : String) : ∀ row : List (Nat × Nat),
    (trySubs S word row).1 = row.findSome? fun (id, to) => if subMatches (S.sub id) S.out word then some to else none
  | [] => rfl
  | (id, to) :: rest => by
    unfold trySubs
    simp only [List.findSome?_cons, subMatchesL_fst]
    by_cases h : subMatches (S.sub id) S.out word = true
    · simp [h]
    · simp only [h, Bool.false_eq_true, if_false]
      exact trySubs_fst S word rest

theorem tryCmds_fst (S : Script) (word : String) : ∀ row : List (Nat × Nat),
    (tryCmds S word row).1 = row.findSome? fun (cmd, to) => if (S.out cmd).contains word then some to else none
  | [] => rfl
  | (cmd, to) :: rest => by
    unfold tryCmds
    simp only [List.findSome?_cons]
    by_cases h : (S.out cmd).contains word = true
    · simp only [h, if_true]
    · simp only [h, Bool.false_eq_true, if_false]
      exact tryCmds_fst S word rest

theorem readWordL_fst (S : Script) (q : Nat) (word : String) : (readWordL S q word).1 = readWord S q word := by
  unfold readWordL readWord
  simp only
  -- what happens once no literal reads the word
  have rest : (match (match rowOf S.main.subTrans q with
        | some row => trySubs S word row
        | none => (none, [])).1 with
      | some q' => (((some q', false) : Option Nat × Bool), (match rowOf S.main.subTrans q with
        | some row => trySubs S word row
        | none => (none, [])).2)
      | none =>
        match (tryCmds S word ((rowOf S.main.cmdTrans q).getD [])).1 with
        | some q' => ((some q', ((rowOf S.main.cmdTrans q).getD []).any fun (x : Nat × Nat) => !((S.out x.1).filter (· ≠ "")).isEmpty),
            (match rowOf S.main.subTrans q with
              | some row => trySubs S word row
              | none => (none, [])).2 ++ (tryCmds S word ((rowOf S.main.cmdTrans q).getD [])).2)
        | none =>
          match S.main.star.find? (fun x : Nat × Nat => x.1 == q) with
          | some (_, q') => ((some q', ((rowOf S.main.cmdTrans q).getD []).any fun (x : Nat × Nat) => !((S.out x.1).filter (· ≠ "")).isEmpty),
              (match rowOf S.main.subTrans q with
                | some row => trySubs S word row
                | none => (none, [])).2 ++ (tryCmds S word ((rowOf S.main.cmdTrans q).getD [])).2)
          | none => ((none, ((rowOf S.main.cmdTrans q).getD []).any fun (x : Nat × Nat) => !((S.out x.1).filter (· ≠ "")).isEmpty),
              (match rowOf S.main.subTrans q with
                | some row => trySubs S word row
                | none => (none, [])).2 ++ (tryCmds S word ((rowOf S.main.cmdTrans q).getD [])).2)).1 =
      (match (match rowOf S.main.subTrans q with
        | some row => row.findSome? fun (x : Nat × Nat) => if subMatches (S.sub x.1) S.out word then some x.2 else none
        | none => none) with
      | some q' => (some q', false)
      | none =>
        match ((rowOf S.main.cmdTrans q).getD []).findSome? fun (x : Nat × Nat) => if (S.out x.1).contains word then some x.2 else none with
        | some q' => (some q', ((rowOf S.main.cmdTrans q).getD []).any fun (x : Nat × Nat) => !((S.out x.1).filter (· ≠ "")).isEmpty)
        | none =>
          match S.main.star.find? (fun x : Nat × Nat => x.1 == q) with
          | some (_, q') => (some q', ((rowOf S.main.cmdTrans q).getD []).any fun (x : Nat × Nat) => !((S.out x.1).filter (· ≠ "")).isEmpty)
          | none => (none, ((rowOf S.main.cmdTrans q).getD []).any fun (x : Nat × Nat) => !((S.out x.1).filter (· ≠ "")).isEmpty)) := by
    have hcm := tryCmds_fst S word ((rowOf S.main.cmdTrans q).getD [])
    cases hr : rowOf S.main.subTrans q with
    | none =>
      simp only
      rw [hcm]
      cases List.findSome? (fun x : Nat × Nat => if (S.out x.1).contains word then some x.2 else none) ((rowOf S.main.cmdTrans q).getD []) with
      | some q' => rfl
      | none =>
        simp only
        cases List.find? (fun x : Nat × Nat => x.1 == q) S.main.star with
        | none => rfl
        | some p => rfl
    | some row =>
      simp only
      rw [trySubs_fst, hcm]
      cases List.findSome? (fun x : Nat × Nat => if subMatches (S.sub x.1) S.out word then some x.2 else none) row with
      | some q' => rfl
      | none =>
        simp only
        cases List.findSome? (fun x : Nat × Nat => if (S.out x.1).contains word then some x.2 else none) ((rowOf S.main.cmdTrans q).getD []) with
        | some q' => rfl
        | none =>
          simp only
          cases List.find? (fun x : Nat × Nat => x.1 == q) S.main.star with
          | none => rfl
          | some p => rfl
  cases hl : rowOf S.main.litTrans q with
  | none => simp only; exact rest
  | some lrow =>
    simp only
    cases List.findSome? (fun id => if (S.main.literals[id]? == some word) = true then toOf lrow id else none)
        (List.range S.main.literals.length) with
    | some q' => rfl
    | none => simp only; exact rest

theorem walkL_fst (S : Script) : ∀ (q : Nat) (ws : List String), (walkL S q ws).1 = walk S q ws
  | q, [] => rfl
  | q, w :: ws => by
    unfold walkL walk
    simp only
    rw [readWordL_fst]
    cases readWord S q w with
    | mk o seen =>
      cases o with
      | none => rfl
      | some q' => exact walkL_fst S q' ws

theorem subCompletes_fst (S : Script) (prefix_ : String) : ∀ ids : List Nat,
    (subCompletes S prefix_ ids).1 = ids.flatMap fun id => subComplete (S.sub id) S.out prefix_
  | [] => rfl
  | id :: rest => by
    unfold subCompletes
    simp only [List.flatMap_cons, subCompleteL_fst, subCompletes_fst S prefix_ rest]

theorem offerL_levels_fst (S : Script) (q : Nat) (prefix_ : String) : ∀ (fuel lvl : Nat) (cands : List String),
    (offerL.levels S q prefix_ S.main prefix_.toList fuel lvl cands).1 =
      offer.levels S q prefix_ S.main prefix_.toList fuel lvl cands
  | 0, _, _ => rfl
  | fuel + 1, lvl, cands => by
    unfold offerL.levels offer.levels
    simp only [subCompletes_fst]
    split
    · rfl
    · split
      · rfl
      · exact offerL_levels_fst S q prefix_ fuel (lvl + 1) _

theorem offerL_fst (S : Script) (q : Nat) (prefix_ : String) : (offerL S q prefix_).1 = offer S q prefix_ := by
  unfold offerL offer
  exact offerL_levels_fst S q prefix_ _ _ _

/-- **Recording the calls changes nothing**: the candidates and the return code are those of the
model without recording (the one C01's and C12's theorems are about). -/
theorem completeL_fst (S : Script) (start : Nat) (words : List String) (prefix_ wb : String) :
    (completeL S start words prefix_ wb).1 = complete S start words prefix_ wb := by
  unfold completeL complete
  simp only
  rw [walkL_fst]
  cases walk S start words with
  | unmatched => rfl
  | state q => simp only [offerL_fst]

end Complgen.BashRt
