/-
Facts about the model of `ValidGrammar::from_grammar` (`Check.validate`) used by C08: each early check
rejects exactly the grammars that have the mistake it is about (given that no earlier check fired).
-/
import Complgen.Model.Pipeline
namespace Complgen.Check
open Complgen

def callNames (g : Grammar) : List String := (callsOf g).map (·.1)

theorem commandOf_no_calls (g : Grammar) (h : callsOf g = []) :
    commandOf g = .err .missingCallVariants [] := by
  unfold commandOf
  simp only [h, List.isEmpty_nil, if_true]

/-! ### dedupNames -/

theorem dedupNames_names_subset : ∀ (l : List (String × Span)) (seen : List String) (x : String × Span),
    x ∈ dedupNames l seen → x ∈ l ∧ x.1 ∉ seen
  | [], _, _, h => by simp [dedupNames] at h
  | (n, s) :: rest, seen, x, h => by
    unfold dedupNames at h
    split at h
    · have := dedupNames_names_subset rest seen x h
      exact ⟨List.mem_cons_of_mem _ this.1, this.2⟩
    · rename_i hn
      rcases List.mem_cons.mp h with rfl | h'
      · exact ⟨List.mem_cons_self, by simpa using hn⟩
      · have := dedupNames_names_subset rest (n :: seen) x h'
        exact ⟨List.mem_cons_of_mem _ this.1, fun hx => this.2 (List.mem_cons_of_mem _ hx)⟩

theorem dedupNames_complete : ∀ (l : List (String × Span)) (seen : List String) (n : String),
    n ∈ l.map (·.1) → n ∉ seen → n ∈ (dedupNames l seen).map (·.1)
  | [], _, _, h, _ => by simp at h
  | (m, s) :: rest, seen, n, h, hs => by
    unfold dedupNames
    split
    · rename_i hm
      have hm' : m ∈ seen := by simpa using hm
      have hne : n ≠ m := fun e => hs (e ▸ hm')
      have : n ∈ rest.map (·.1) := by
        simp only [List.map_cons, List.mem_cons] at h
        rcases h with h | h
        · exact absurd h hne
        · exact h
      exact dedupNames_complete rest seen n this hs
    · by_cases e : n = m
      · subst e; simp
      · have : n ∈ rest.map (·.1) := by
          simp only [List.map_cons, List.mem_cons] at h
          rcases h with h | h
          · exact absurd h e
          · exact h
        have hs' : n ∉ m :: seen := by
          simp only [List.mem_cons, not_or]; exact ⟨e, hs⟩
        simp only [List.map_cons, List.mem_cons]
        exact .inr (dedupNames_complete rest (m :: seen) n this hs')

theorem dedupNames_nodup : ∀ (l : List (String × Span)) (seen : List String),
    ((dedupNames l seen).map (·.1)).Nodup
  | [], _ => by simp [dedupNames]
  | (m, s) :: rest, seen => by
    unfold dedupNames
    split
    · exact dedupNames_nodup rest seen
    · simp only [List.map_cons, List.nodup_cons]
      refine ⟨?_, dedupNames_nodup rest (m :: seen)⟩
      intro h
      obtain ⟨x, hx, hxe⟩ := List.mem_map.mp h
      have := (dedupNames_names_subset rest (m :: seen) x hx).2
      apply this
      rw [hxe]; exact List.mem_cons_self

/-- two call variants with different command names make the de-duplicated name list longer than one -/
theorem dedupNames_two (l : List (String × Span)) (a b : String)
    (ha : a ∈ l.map (·.1)) (hb : b ∈ l.map (·.1)) (hab : a ≠ b) : (dedupNames l []).length > 1 := by
  have h1 := dedupNames_complete l [] a ha (by simp)
  have h2 := dedupNames_complete l [] b hb (by simp)
  match hd : dedupNames l [] with
  | [] => rw [hd] at h1; simp at h1
  | [x] =>
    rw [hd] at h1 h2
    simp only [List.map_cons, List.map_nil, List.mem_singleton] at h1 h2
    exact absurd (h1.trans h2.symm) hab
  | _ :: _ :: _ => simp

/-- all call variants carry one name ⇒ the de-duplicated list is that single name -/
theorem dedupNames_one (l : List (String × Span)) (n : String) (hne : l ≠ [])
    (h : ∀ x ∈ l, x.1 = n) : ∃ s, dedupNames l [] = [(n, s)] := by
  have hnd := dedupNames_nodup l []
  match hd : dedupNames l [] with
  | [] =>
    obtain ⟨x, hx⟩ := List.exists_mem_of_ne_nil l hne
    have := dedupNames_complete l [] x.1 (List.mem_map.mpr ⟨x, hx, rfl⟩) (by simp)
    rw [hd] at this; simp at this
  | [(m, s)] =>
    have hm := (dedupNames_names_subset l [] (m, s) (by rw [hd]; simp)).1
    have := h _ hm
    simp only at this
    subst this
    exact ⟨s, rfl⟩
  | (m1, s1) :: (m2, s2) :: rest =>
    rw [hd] at hnd
    have h1 := h _ (dedupNames_names_subset l [] (m1, s1) (by rw [hd]; simp)).1
    have h2 := h _ (dedupNames_names_subset l [] (m2, s2) (by rw [hd]; simp)).1
    simp only at h1 h2
    subst h1; subst h2
    simp at hnd

/-! ### the command-name checks -/

theorem callNameSpans_names (g : Grammar) : (callNameSpans g).map (·.1) = callNames g := by
  simp [callNameSpans, callNames, List.map_map, Function.comp_def]

theorem commandOf_varying (g : Grammar) (a b : String)
    (ha : a ∈ callNames g) (hb : b ∈ callNames g) (hab : a ≠ b) :
    ∃ spans, commandOf g = .err .varyingCommandNames spans := by
  unfold commandOf
  have hne : (callsOf g).isEmpty = false := by
    cases h : callsOf g with
    | nil => simp [callNames, h] at ha
    | cons _ _ => rfl
  have := dedupNames_two (callNameSpans g) a b (by rw [callNameSpans_names]; exact ha)
    (by rw [callNameSpans_names]; exact hb) hab
  simp only [hne, this, if_true, Bool.false_eq_true, if_false]
  exact ⟨_, rfl⟩

/-- the grammar has call variants, all for one command name `n` -/
def OneCommand (g : Grammar) (n : String) : Prop := callsOf g ≠ [] ∧ ∀ x ∈ callsOf g, x.1 = n

theorem commandOf_one (g : Grammar) (n : String) (h : OneCommand g n) :
    ∃ s, dedupNames (callNameSpans g) [] = [(n, s)] ∧ (callsOf g).isEmpty = false := by
  obtain ⟨hne, hall⟩ := h
  have hne' : (callsOf g).isEmpty = false := by
    cases h : callsOf g with
    | nil => exact absurd h hne
    | cons _ _ => rfl
  obtain ⟨s, hs⟩ := dedupNames_one (callNameSpans g) n
    (by intro h; apply hne; simpa [callNameSpans] using h)
    (by intro x hx; obtain ⟨y, hy, rfl⟩ := List.mem_map.mp hx; exact hall y hy)
  exact ⟨s, hs, hne'⟩

theorem commandOf_slash (g : Grammar) (n : String) (h : OneCommand g n) (hslash : '/' ∈ n.toList) :
    ∃ sp, commandOf g = .err .invalidCommandName [sp] := by
  obtain ⟨s, hs, hne'⟩ := commandOf_one g n h
  unfold commandOf
  refine ⟨s, ?_⟩
  simp [hne', hs, hslash]

theorem commandOf_ok (g : Grammar) (n : String) (h : OneCommand g n) (hslash : '/' ∉ n.toList) :
    commandOf g = .ok n := by
  obtain ⟨s, hs, hne'⟩ := commandOf_one g n h
  unfold commandOf
  simp [hne', hs, hslash]

/-! ### duplicate plain definitions -/

theorem collectPlain_spec : ∀ (l : List (String × Span × Expr)) (acc : AList (Span × Expr)),
    (∀ x ∈ l, acc.get? x.1 = none) → (l.map (·.1)).Nodup →
    collectPlain l acc = .ok (acc ++ l.map fun x => (x.1, (x.2.1, x.2.2)))
  | [], acc, _, _ => by simp [collectPlain]
  | (n, s, e) :: rest, acc, hacc, hnd => by
    unfold collectPlain
    have h0 := hacc (n, s, e) List.mem_cons_self
    simp only at h0
    simp only [h0]
    have hnd' : (rest.map (·.1)).Nodup := (List.nodup_cons.mp hnd).2
    have hn : n ∉ rest.map (·.1) := (List.nodup_cons.mp hnd).1
    have := collectPlain_spec rest (acc ++ [(n, (s, e))]) (by
      intro x hx
      have hx1 := hacc x (List.mem_cons_of_mem _ hx)
      have hxn : x.1 ≠ n := fun h => hn (h ▸ List.mem_map.mpr ⟨x, hx, rfl⟩)
      unfold AList.get? at *
      rw [List.find?_append]
      have : List.find? (fun p => p.1 == x.1) acc = none := by
        cases hf : List.find? (fun p => p.1 == x.1) acc with
        | none => rfl
        | some v => simp [hf] at hx1
      have hb : (n == x.1) = false := by simpa using (Ne.symm hxn)
      simp [this, List.find?, hb]) hnd'
    rw [this]
    simp

theorem get?_some_of_mem {α} : ∀ (m : AList α) (k : String) (v : α), (k, v) ∈ m → (m.get? k).isSome
  | [], _, _, h => by simp at h
  | (k', v') :: rest, k, v, h => by
    unfold AList.get?
    simp only [List.find?]
    by_cases e : k' == k
    · simp [e]
    · simp only [e]
      rcases List.mem_cons.mp h with h | h
      · simp only [Prod.mk.injEq] at h; simp [h.1] at e
      · exact get?_some_of_mem rest k v h

theorem collectPlain_dup : ∀ (l : List (String × Span × Expr)) (acc : AList (Span × Expr)),
    (∃ x ∈ l, (acc.get? x.1).isSome) ∨ ¬ (l.map (·.1)).Nodup →
    ∃ spans, collectPlain l acc = .err .duplicateNonterminalDefinition spans
  | [], acc, h => by
    rcases h with ⟨x, hx, _⟩ | h
    · simp at hx
    · simp at h
  | (n, s, e) :: rest, acc, h => by
    unfold collectPlain
    cases hg : acc.get? n with
    | some prev => exact ⟨_, rfl⟩
    | none =>
      simp only
      apply collectPlain_dup rest (acc ++ [(n, (s, e))])
      rcases h with ⟨x, hx, hsome⟩ | h
      · rcases List.mem_cons.mp hx with rfl | hx'
        · simp [hg] at hsome
        · left
          refine ⟨x, hx', ?_⟩
          unfold AList.get? at *
          rw [List.find?_append]
          cases hf : List.find? (fun p => p.1 == x.1) acc with
          | none => simp [hf] at hsome
          | some v => simp
      · simp only [List.map_cons, List.nodup_cons] at h
        by_cases hmem : n ∈ rest.map (·.1)
        · have h := hmem
          left
          obtain ⟨x, hx, hxe⟩ := List.mem_map.mp h
          refine ⟨x, hx, ?_⟩
          have : (n, (s, e)) ∈ acc ++ [(n, (s, e))] := by simp
          rw [hxe]
          exact get?_some_of_mem _ _ _ this
        · right; exact fun hnd => h ⟨hmem, hnd⟩

/-- the grammar passes the command-name checks -/
theorem validate_after_names (g : Grammar) (sh : Shell) (n : String) (h : commandOf g = .ok n) :
    validate g sh =
      match collectPlain (plainDefs g) [] with
      | .err c s => .err c s
      | .crash s => .crash s
      | .ok defs =>
        match getSpecializations g sh with
        | .err c s => .err c s
        | .crash s => .crash s
        | .ok (specs, fbs) => finishValidate g sh n defs specs fbs := by
  unfold validate
  rw [h]
  rfl

theorem validate_dup_plain (g : Grammar) (sh : Shell) (n : String) (h : commandOf g = .ok n)
    (hd : ¬ ((plainDefs g).map (·.1)).Nodup) :
    ∃ spans, validate g sh = .err .duplicateNonterminalDefinition spans := by
  rw [validate_after_names g sh n h]
  obtain ⟨spans, hs⟩ := collectPlain_dup (plainDefs g) [] (.inr hd)
  exact ⟨spans, by rw [hs]⟩

end Complgen.Check

namespace Complgen.Check
open Complgen

/-! ### shell-specific definitions (`Grammar::get_specializations`, first loop) -/

/-- a shell-specific definition `(name, span, shell, shellSpan, rhs)` whose right-hand side is an external command -/
def isCmdSpec (x : String × Span × String × Span × Expr) : Bool :=
  match x.2.2.2.2 with
  | .cmd .. => true
  | _ => false

def knownShell (x : String × Span × String × Span × Expr) : Bool := (Shell.ofName? x.2.2.1).isSome

def forTarget (target : Shell) (x : String × Span × String × Span × Expr) : Bool :=
  Shell.ofName? x.2.2.1 == some target

theorem shell_beq_iff (a b : Shell) : (a == b) = true ↔ a = b := by
  cases a <;> cases b <;> decide

theorem shell_bne_iff (a b : Shell) : (a != b) = true ↔ a ≠ b := by
  cases a <;> cases b <;> decide

theorem forTarget_iff (target : Shell) (x : String × Span × String × Span × Expr) :
    forTarget target x = true ↔ Shell.ofName? x.2.2.1 = some target := by
  unfold forTarget
  cases h : Shell.ofName? x.2.2.1 with
  | none => simp
  | some a =>
    have : (some a == some target) = (a == target) := rfl
    rw [this, shell_beq_iff]
    simp

theorem get?_append_ne {α} (acc : AList α) (n x : String) (v : α) (h : x ≠ n) :
    (acc ++ [(n, v)]).get? x = acc.get? x := by
  unfold AList.get?
  rw [List.find?_append]
  have hb : (n == x) = false := by simpa using (Ne.symm h)
  cases hf : List.find? (fun p => p.1 == x) acc with
  | none => simp [List.find?, hb]
  | some v => simp

theorem get?_append_self {α} (acc : AList α) (n : String) (v : α) :
    ((acc ++ [(n, v)]).get? n).isSome := get?_some_of_mem _ _ v (by simp)

/-- what the first loop does with one command definition for a known shell -/
theorem loop1_cons_cmd (target : Shell) (n : String) (s : Span) (sh : String) (ss : Span) (c : String) (a : Bool)
    (l : Nat) (sp : Span) (rest : List (String × Span × String × Span × Expr)) (acc : AList UserSpec)
    (shell : Shell) (ho : Shell.ofName? sh = some shell) :
    getSpecializations.loop1 target ((n, s, sh, ss, .cmd c a l sp) :: rest) acc =
      if shell = target then
        match acc.get? n with
        | some prev => .err .duplicateNonterminalDefinition [prev.span, s]
        | none => getSpecializations.loop1 target rest (acc ++ [(n, ⟨c, s, false⟩)])
      else getSpecializations.loop1 target rest acc := by
  conv => lhs; unfold getSpecializations.loop1
  simp only [ho]
  by_cases h : shell = target
  · have : (shell != target) = false := by
      cases hb : (shell != target) with
      | false => rfl
      | true => exact absurd h ((shell_bne_iff _ _).mp hb)
    rw [this]
    subst h
    simp only [Bool.false_eq_true, if_false, if_true]
    rfl
  · have : (shell != target) = true := (shell_bne_iff _ _).mpr h
    simp [this, h]

theorem loop1_cons_noncmd (target : Shell) (x : String × Span × String × Span × Expr)
    (rest : List (String × Span × String × Span × Expr)) (acc : AList UserSpec) (h : isCmdSpec x = false) :
    ∃ spans, getSpecializations.loop1 target (x :: rest) acc = .err .nonCommandSpecialization spans := by
  obtain ⟨n, s, sh, ss, rhs⟩ := x
  conv => arg 1; intro spans; lhs; unfold getSpecializations.loop1
  cases rhs with
  | cmd c a l sp => exact absurd h (by simp [isCmdSpec])
  | term t d l sp => exact ⟨[(Expr.term t d l sp).span], rfl⟩
  | nonterm t l sp => exact ⟨[(Expr.nonterm t l sp).span], rfl⟩
  | seq cs sp => exact ⟨[(Expr.seq cs sp).span], rfl⟩
  | alt cs sp => exact ⟨[(Expr.alt cs sp).span], rfl⟩
  | fb cs sp => exact ⟨[(Expr.fb cs sp).span], rfl⟩
  | opt c sp => exact ⟨[(Expr.opt c sp).span], rfl⟩
  | many1 c sp => exact ⟨[(Expr.many1 c sp).span], rfl⟩
  | dd c d sp => exact ⟨[(Expr.dd c d sp).span], rfl⟩
  | sub c l sp => exact ⟨[(Expr.sub c l sp).span], rfl⟩

theorem loop1_cons_unknown (target : Shell) (n : String) (s : Span) (sh : String) (ss : Span) (c : String) (a : Bool)
    (l : Nat) (sp : Span) (rest : List (String × Span × String × Span × Expr)) (acc : AList UserSpec)
    (ho : Shell.ofName? sh = none) :
    getSpecializations.loop1 target ((n, s, sh, ss, .cmd c a l sp) :: rest) acc = .err .unknownShell [ss] := by
  conv => lhs; unfold getSpecializations.loop1
  simp only [ho]

/-- the invariant of the first loop: the names collected so far do not clash with the target-shell definitions
still to come, which are pairwise distinct -/
def FreshFor (target : Shell) (l : List (String × Span × String × Span × Expr)) (acc : AList UserSpec) : Prop :=
  (∀ x ∈ l, forTarget target x = true → acc.get? x.1 = none) ∧ ((l.filter (forTarget target)).map (·.1)).Nodup

theorem FreshFor.tail_other {target : Shell} {x : String × Span × String × Span × Expr} {rest acc}
    (h : FreshFor target (x :: rest) acc) (hx : forTarget target x = false) : FreshFor target rest acc :=
  ⟨fun y hy => h.1 y (List.mem_cons_of_mem _ hy), by simpa [List.filter_cons, hx] using h.2⟩

theorem FreshFor.tail_target {target : Shell} {x : String × Span × String × Span × Expr} {rest acc} (v : UserSpec)
    (h : FreshFor target (x :: rest) acc) (hx : forTarget target x = true) :
    FreshFor target rest (acc ++ [(x.1, v)]) := by
  have hnd : x.1 ∉ (rest.filter (forTarget target)).map (·.1) ∧ ((rest.filter (forTarget target)).map (·.1)).Nodup := by
    have := h.2
    simp only [List.filter_cons, hx, if_true, List.map_cons, List.nodup_cons] at this
    exact this
  refine ⟨?_, hnd.2⟩
  intro y hy hyt
  have hne : y.1 ≠ x.1 := fun e => hnd.1 (List.mem_map.mpr ⟨y, List.mem_filter.mpr ⟨hy, hyt⟩, e⟩)
  rw [get?_append_ne _ _ _ _ hne]
  exact h.1 y (List.mem_cons_of_mem _ hy) hyt

/-- one step of the loop on a command definition for a known shell, under the invariant -/
theorem loop1_step (target : Shell) (x : String × Span × String × Span × Expr)
    (rest : List (String × Span × String × Span × Expr)) (acc : AList UserSpec)
    (hc : isCmdSpec x = true) (hk : knownShell x = true) (hf : FreshFor target (x :: rest) acc) :
    ∃ acc', FreshFor target rest acc' ∧
      getSpecializations.loop1 target (x :: rest) acc = getSpecializations.loop1 target rest acc' := by
  obtain ⟨n, s, sh, ss, rhs⟩ := x
  cases rhs with
  | cmd c a l sp =>
    simp only [knownShell] at hk
    cases ho : Shell.ofName? sh with
    | none => simp [ho] at hk
    | some shell =>
      rw [loop1_cons_cmd target n s sh ss c a l sp rest acc shell ho]
      by_cases hsh : shell = target
      · have hft : forTarget target (n, s, sh, ss, .cmd c a l sp) = true := (forTarget_iff _ _).mpr (by simp [ho, hsh])
        have h0 := hf.1 _ List.mem_cons_self hft
        simp only at h0
        simp only [hsh, if_true, h0]
        exact ⟨_, hf.tail_target ⟨c, s, false⟩ hft, rfl⟩
      · have hft : forTarget target (n, s, sh, ss, .cmd c a l sp) = false := by
          cases hb : forTarget target (n, s, sh, ss, .cmd c a l sp) with
          | false => rfl
          | true => have := (forTarget_iff _ _).mp hb; simp [ho] at this; exact absurd this hsh
        simp only [hsh, if_false]
        exact ⟨acc, hf.tail_other hft, rfl⟩
  | term _ _ _ _ => exact Bool.noConfusion hc
  | nonterm _ _ _ => exact Bool.noConfusion hc
  | seq _ _ => exact Bool.noConfusion hc
  | alt _ _ => exact Bool.noConfusion hc
  | fb _ _ => exact Bool.noConfusion hc
  | opt _ _ => exact Bool.noConfusion hc
  | many1 _ _ => exact Bool.noConfusion hc
  | dd _ _ _ => exact Bool.noConfusion hc
  | sub _ _ _ => exact Bool.noConfusion hc

/-- **a shell-specific definition that is not an external command is rejected**, when it is the only mistake
among the shell-specific definitions -/
theorem loop1_non_command (target : Shell) :
    ∀ (l : List (String × Span × String × Span × Expr)) (acc : AList UserSpec),
    (∀ x ∈ l, knownShell x = true) → (∃ x ∈ l, isCmdSpec x = false) → FreshFor target l acc →
    ∃ spans, getSpecializations.loop1 target l acc = .err .nonCommandSpecialization spans
  | [], _, _, h, _ => by obtain ⟨x, hx, _⟩ := h; simp at hx
  | x :: rest, acc, hk, hnc, hf => by
    by_cases hc : isCmdSpec x = true
    · obtain ⟨acc', hf', he⟩ := loop1_step target x rest acc hc (hk x List.mem_cons_self) hf
      rw [he]
      apply loop1_non_command target rest acc' (fun y hy => hk y (List.mem_cons_of_mem _ hy)) _ hf'
      obtain ⟨y, hy, hyc⟩ := hnc
      rcases List.mem_cons.mp hy with rfl | hy'
      · simp [hc] at hyc
      · exact ⟨y, hy', hyc⟩
    · exact loop1_cons_noncmd target x rest acc (by simpa using hc)

/-- **an unknown shell after `@` is rejected** -/
theorem loop1_unknown_shell (target : Shell) :
    ∀ (l : List (String × Span × String × Span × Expr)) (acc : AList UserSpec),
    (∀ x ∈ l, isCmdSpec x = true) → (∃ x ∈ l, knownShell x = false) → FreshFor target l acc →
    ∃ spans, getSpecializations.loop1 target l acc = .err .unknownShell spans
  | [], _, _, h, _ => by obtain ⟨x, hx, _⟩ := h; simp at hx
  | x :: rest, acc, hc, hu, hf => by
    by_cases hk : knownShell x = true
    · obtain ⟨acc', hf', he⟩ := loop1_step target x rest acc (hc x List.mem_cons_self) hk hf
      rw [he]
      apply loop1_unknown_shell target rest acc' (fun y hy => hc y (List.mem_cons_of_mem _ hy)) _ hf'
      obtain ⟨y, hy, hyk⟩ := hu
      rcases List.mem_cons.mp hy with rfl | hy'
      · simp [hk] at hyk
      · exact ⟨y, hy', hyk⟩
    · obtain ⟨n, s, sh, ss, rhs⟩ := x
      have hcx := hc _ List.mem_cons_self
      cases rhs with
      | cmd c a l sp =>
        have ho : Shell.ofName? sh = none := by
          simp only [knownShell] at hk
          cases h : Shell.ofName? sh with
          | none => rfl
          | some v => simp [h] at hk
        exact ⟨_, loop1_cons_unknown target n s sh ss c a l sp rest acc ho⟩
      | term _ _ _ _ => exact Bool.noConfusion hcx
      | nonterm _ _ _ => exact Bool.noConfusion hcx
      | seq _ _ => exact Bool.noConfusion hcx
      | alt _ _ => exact Bool.noConfusion hcx
      | fb _ _ => exact Bool.noConfusion hcx
      | opt _ _ => exact Bool.noConfusion hcx
      | many1 _ _ => exact Bool.noConfusion hcx
      | dd _ _ _ => exact Bool.noConfusion hcx
      | sub _ _ _ => exact Bool.noConfusion hcx

/-- **two definitions for the target shell are rejected** -/
theorem loop1_duplicate (target : Shell) :
    ∀ (l : List (String × Span × String × Span × Expr)) (acc : AList UserSpec),
    (∀ x ∈ l, isCmdSpec x = true) → (∀ x ∈ l, knownShell x = true) →
    ((∃ x ∈ l, forTarget target x = true ∧ (acc.get? x.1).isSome) ∨
      ¬ ((l.filter (forTarget target)).map (·.1)).Nodup) →
    ∃ spans, getSpecializations.loop1 target l acc = .err .duplicateNonterminalDefinition spans
  | [], _, _, _, h => by
    rcases h with ⟨x, hx, _⟩ | h
    · simp at hx
    · simp at h
  | (n, s, sh, ss, rhs) :: rest, acc, hc, hk, h => by
    have hcs := hc (n, s, sh, ss, rhs) List.mem_cons_self
    have hc' : ∀ x ∈ rest, isCmdSpec x = true := fun x hx => hc x (List.mem_cons_of_mem _ hx)
    have hk' : ∀ x ∈ rest, knownShell x = true := fun x hx => hk x (List.mem_cons_of_mem _ hx)
    cases rhs with
    | cmd c a l sp =>
      have hks := hk (n, s, sh, ss, .cmd c a l sp) List.mem_cons_self
      simp only [knownShell] at hks
      cases ho : Shell.ofName? sh with
      | none => simp [ho] at hks
      | some shell =>
        rw [loop1_cons_cmd target n s sh ss c a l sp rest acc shell ho]
        by_cases hsh : shell = target
        · have hft : forTarget target (n, s, sh, ss, .cmd c a l sp) = true := (forTarget_iff _ _).mpr (by simp [ho, hsh])
          simp only [hsh, if_true]
          cases hg : acc.get? n with
          | some prev => exact ⟨_, rfl⟩
          | none =>
            simp only
            apply loop1_duplicate target rest _ hc' hk'
            rcases h with ⟨x, hx, hxt, hsome⟩ | h
            · rcases List.mem_cons.mp hx with rfl | hx'
              · simp [hg] at hsome
              · left
                refine ⟨x, hx', hxt, ?_⟩
                by_cases e : x.1 = n
                · rw [e]; exact get?_append_self _ _ _
                · rw [get?_append_ne _ _ _ _ e]; exact hsome
            · simp only [List.filter_cons, hft, if_true, List.map_cons, List.nodup_cons] at h
              by_cases hmem : n ∈ (rest.filter (forTarget target)).map (·.1)
              · left
                obtain ⟨x, hx, hxe⟩ := List.mem_map.mp hmem
                have hx' := List.mem_filter.mp hx
                refine ⟨x, hx'.1, hx'.2, ?_⟩
                rw [hxe]; exact get?_append_self _ _ _
              · right; exact fun hnd => h ⟨hmem, hnd⟩
        · have hft : forTarget target (n, s, sh, ss, .cmd c a l sp) = false := by
            cases hb : forTarget target (n, s, sh, ss, .cmd c a l sp) with
            | false => rfl
            | true => have := (forTarget_iff _ _).mp hb; simp [ho] at this; exact absurd this hsh
          simp only [hsh, if_false]
          apply loop1_duplicate target rest acc hc' hk'
          rcases h with ⟨x, hx, hxt, hsome⟩ | h
          · rcases List.mem_cons.mp hx with rfl | hx'
            · simp [hft] at hxt
            · exact .inl ⟨x, hx', hxt, hsome⟩
          · right; simpa [List.filter_cons, hft] using h
    | term _ _ _ _ => exact Bool.noConfusion hcs
    | nonterm _ _ _ => exact Bool.noConfusion hcs
    | seq _ _ => exact Bool.noConfusion hcs
    | alt _ _ => exact Bool.noConfusion hcs
    | fb _ _ => exact Bool.noConfusion hcs
    | opt _ _ => exact Bool.noConfusion hcs
    | many1 _ _ => exact Bool.noConfusion hcs
    | dd _ _ _ => exact Bool.noConfusion hcs
    | sub _ _ _ => exact Bool.noConfusion hcs

end Complgen.Check

namespace Complgen.Check
open Complgen

theorem getSpecializations_of_loop1_err (g : Grammar) (target : Shell) (c : ErrClass) (s : List Span)
    (h : getSpecializations.loop1 target (specDefs g) [] = .err c s) :
    getSpecializations g target = .err c s := by
  unfold getSpecializations
  rw [h]

theorem freshFor_nil (target : Shell) (l : List (String × Span × String × Span × Expr))
    (h : ((l.filter (forTarget target)).map (·.1)).Nodup) : FreshFor target l [] :=
  ⟨fun _ _ _ => rfl, h⟩

/-- the grammar passes the command-name checks and has no duplicate plain definition -/
theorem validate_after_plain (g : Grammar) (sh : Shell) (n : String) (h : commandOf g = .ok n)
    (hd : ((plainDefs g).map (·.1)).Nodup) :
    validate g sh =
      match getSpecializations g sh with
      | .err c s => .err c s
      | .crash s => .crash s
      | .ok (specs, fbs) =>
        finishValidate g sh n ((plainDefs g).map fun x => (x.1, (x.2.1, x.2.2))) specs fbs := by
  rw [validate_after_names g sh n h]
  rw [collectPlain_spec (plainDefs g) [] (fun _ _ => rfl) hd]
  simp

/-- the names of the definitions for the target shell are pairwise distinct -/
def TargetSpecsDistinct (g : Grammar) (sh : Shell) : Prop :=
  (((specDefs g).filter (forTarget sh)).map (·.1)).Nodup

theorem validate_unknown_shell (g : Grammar) (sh : Shell) (n : String) (h : commandOf g = .ok n)
    (hd : ((plainDefs g).map (·.1)).Nodup)
    (hc : ∀ x ∈ specDefs g, isCmdSpec x = true) (hu : ∃ x ∈ specDefs g, knownShell x = false)
    (hs : TargetSpecsDistinct g sh) :
    ∃ spans, validate g sh = .err .unknownShell spans := by
  obtain ⟨spans, he⟩ := loop1_unknown_shell sh (specDefs g) [] hc hu (freshFor_nil sh _ hs)
  refine ⟨spans, ?_⟩
  rw [validate_after_plain g sh n h hd, getSpecializations_of_loop1_err g sh _ _ he]

theorem validate_non_command_spec (g : Grammar) (sh : Shell) (n : String) (h : commandOf g = .ok n)
    (hd : ((plainDefs g).map (·.1)).Nodup)
    (hk : ∀ x ∈ specDefs g, knownShell x = true) (hnc : ∃ x ∈ specDefs g, isCmdSpec x = false)
    (hs : TargetSpecsDistinct g sh) :
    ∃ spans, validate g sh = .err .nonCommandSpecialization spans := by
  obtain ⟨spans, he⟩ := loop1_non_command sh (specDefs g) [] hk hnc (freshFor_nil sh _ hs)
  refine ⟨spans, ?_⟩
  rw [validate_after_plain g sh n h hd, getSpecializations_of_loop1_err g sh _ _ he]

theorem validate_dup_spec (g : Grammar) (sh : Shell) (n : String) (h : commandOf g = .ok n)
    (hd : ((plainDefs g).map (·.1)).Nodup)
    (hc : ∀ x ∈ specDefs g, isCmdSpec x = true) (hk : ∀ x ∈ specDefs g, knownShell x = true)
    (hs : ¬ TargetSpecsDistinct g sh) :
    ∃ spans, validate g sh = .err .duplicateNonterminalDefinition spans := by
  obtain ⟨spans, he⟩ := loop1_duplicate sh (specDefs g) [] hc hk (.inr hs)
  refine ⟨spans, ?_⟩
  rw [validate_after_plain g sh n h hd, getSpecializations_of_loop1_err g sh _ _ he]

/-- every error of `validate` is an error of the whole pipeline (nothing after it can mask it) -/
theorem compile_err_of_validate (σ : Schedule) (g : Grammar) (sh : Shell) (c : ErrClass) (s : List Span)
    (h : validate g sh = .err c s) : ∃ s', Pipeline.compile σ g sh = .err c s' := by
  unfold Pipeline.compile
  rw [h]
  exact ⟨s, rfl⟩

end Complgen.Check
