/-
**The emitted bash script interprets the automaton — the literal part.**

`S` is a script whose main tables are the tables the emitter writes for the automaton `a`
(`MainOf S a`: `S.main = Tables.ofAutoWith lits a cmds subId` for SOME order `lits` of the literal table
that lists the literals of `a`; `Tables.ofDfa d out` is the instance `mainOf_ofDfa`).  Over the model of
the template's run time (`Model/BashRt.lean`):

1. `readWord_literal`, `readWord_literal_only`, `readWord_no_literal` — one complete earlier word;
2. `walk_literals`, `walk_literals_conv`, `walk_unmatched_iff` — the walk over the earlier words;
3. `offer_literals` — the candidates for the typed prefix;
4. `complete_literals_none_iff`, `complete_literals`, `mem_complete_literals` — the whole function.

Everything is proved through the embedding theorems of `Proofs/Tables.lean` (`E1_*`, `E2_*`, `E3_maxLevel`);
the table construction is not unfolded here, and nothing depends on the order of the literal table.
-/
import Complgen.Proofs.Tables
import Complgen.Proofs.Offer
namespace Complgen.TemplateDfa
open Complgen BashRt Complgen.Tables

/-! ### 0. hypotheses -/

/-- the main tables of `S` are the tables of `a`, for some order of the literal table that lists every
`(literal, description)` pair a transition of `a` carries -/
def MainOf (S : Script) (a : Auto) : Prop :=
  ∃ lits cmds subId, S.main = ofAutoWith lits a cmds subId ∧
    ∀ q txt d lvl t, HasEdge a q (.lit txt d lvl) t → (txt, d) ∈ lits

theorem mainOf_ofDfa (d : Dfa) (out : Nat → List String) : MainOf (ofDfa d out) d.main :=
  ⟨sortedLits d.main, commands d, subIdOf (subOrder d.main), rfl,
    fun _ _ _ _ _ he => sortedLits_cover_edge he⟩

/-- every transition out of `q` carries a literal -/
def LitOnlyAt (a : Auto) (q : Nat) : Prop :=
  ∀ x t, HasEdge a q x t → ∃ txt d l, x = .lit txt d l

/-- all literal transitions out of `q` with the same TEXT (whatever the descriptions and levels) have
the same target: a typed word has one reading as a literal (C09) -/
def WordDetAt (a : Auto) (q : Nat) : Prop :=
  ∀ txt d l t1 d' l' t2, HasEdge a q (.lit txt d l) t1 → HasEdge a q (.lit txt d' l') t2 → t1 = t2

theorem litDetAt_of_wordDetAt {a : Auto} {q : Nat} (h : WordDetAt a q) : LitDetAt a q :=
  fun txt d l t1 d' l' t2 h1 h2 _ => h txt d l t1 d' l' t2 h1 h2

/-! ### 0'. the embedding facts, for `S` -/

section facts
variable {S : Script} {a : Auto}

theorem lit_forward (h : MainOf S a) {q : Nat} {txt : String} {d : Option String} {lvl t : Nat}
    (he : HasEdge a q (.lit txt d lvl) t) :
    ∃ k, S.main.literals[k]? = some txt ∧ k ∈ idsAt S.main.litLevels lvl q ∧
      (LitDetAt a q → ∃ row, rowOf S.main.litTrans q = some row ∧ toOf row k = some t) := by
  obtain ⟨lits, cmds, subId, hS, hcov⟩ := h
  rw [hS]
  exact E1_forward (hcov q txt d lvl t he) he

theorem lit_row_backward (h : MainOf S a) {q : Nat} {row : List (Nat × Nat)} {k t : Nat}
    (hr : rowOf S.main.litTrans q = some row) (hm : (k, t) ∈ row) :
    ∃ txt d lvl, HasEdge a q (.lit txt d lvl) t ∧ S.main.literals[k]? = some txt := by
  obtain ⟨lits, cmds, subId, hS, _⟩ := h
  rw [hS] at hr ⊢
  obtain ⟨txt, d, lvl, he, _, hn⟩ := E1_row_backward hr hm
  exact ⟨txt, d, lvl, he, hn⟩

theorem lit_level_backward (h : MainOf S a) {q lvl k : Nat} (hm : k ∈ idsAt S.main.litLevels lvl q) :
    ∃ txt d t, HasEdge a q (.lit txt d lvl) t ∧ S.main.literals[k]? = some txt := by
  obtain ⟨lits, cmds, subId, hS, _⟩ := h
  rw [hS] at hm ⊢
  obtain ⟨txt, d, t, he, _, hn⟩ := E1_level_backward hm
  exact ⟨txt, d, t, he, hn⟩

theorem cmd_row_backward (h : MainOf S a) {q : Nat} {row : List (Nat × Nat)} {k t : Nat}
    (hr : rowOf S.main.cmdTrans q = some row) (hm : (k, t) ∈ row) :
    ∃ c lvl, HasEdge a q (.cmd c lvl) t := by
  obtain ⟨lits, cmds, subId, hS, _⟩ := h
  rw [hS] at hr
  obtain ⟨c, lvl, he, _⟩ := E2_cmd_row_backward hr hm
  exact ⟨c, lvl, he⟩

theorem sub_row_backward (h : MainOf S a) {q : Nat} {row : List (Nat × Nat)} {k t : Nat}
    (hr : rowOf S.main.subTrans q = some row) (hm : (k, t) ∈ row) :
    ∃ j lvl, HasEdge a q (.sub j lvl) t := by
  obtain ⟨lits, cmds, subId, hS, _⟩ := h
  rw [hS] at hr
  obtain ⟨j, lvl, he, _⟩ := E2_sub_row_backward hr hm
  exact ⟨j, lvl, he⟩

theorem cmd_level_backward (h : MainOf S a) {q lvl k : Nat} (hm : k ∈ idsAt S.main.cmdLevels lvl q) :
    ∃ c t, HasEdge a q (.cmd c lvl) t := by
  obtain ⟨lits, cmds, subId, hS, _⟩ := h
  rw [hS] at hm
  obtain ⟨c, t, he, _⟩ := E2_cmd_level_backward hm
  exact ⟨c, t, he⟩

theorem sub_level_backward (h : MainOf S a) {q lvl k : Nat} (hm : k ∈ idsAt S.main.subLevels lvl q) :
    ∃ j t, HasEdge a q (.sub j lvl) t := by
  obtain ⟨lits, cmds, subId, hS, _⟩ := h
  rw [hS] at hm
  obtain ⟨j, t, he, _⟩ := E2_sub_level_backward hm
  exact ⟨j, t, he⟩

theorem star_backward (h : MainOf S a) {q t : Nat} (hm : (q, t) ∈ S.main.star) : HasEdge a q .star t := by
  obtain ⟨lits, cmds, subId, hS, _⟩ := h
  rw [hS] at hm
  exact E2_star.mp hm

theorem level_le_max (h : MainOf S a) {q : Nat} {txt : String} {d : Option String} {lvl t : Nat}
    (he : HasEdge a q (.lit txt d lvl) t) : lvl ≤ S.main.maxLevel := by
  obtain ⟨lits, cmds, subId, hS, _⟩ := h
  rw [hS]
  exact (E3_maxLevel (lits := lits) (cmds := cmds) (subId := subId)).1 q _ t lvl he rfl

end facts

/-! ### 1. one complete word -/

/-- the literal lookup of `readWord`: the FIRST id whose text is the word and that has an entry in the
row of `q` -/
def litLookup (T : BashRt.Tables) (q : Nat) (word : String) : Option Nat :=
  match rowOf T.litTrans q with
  | some row => (List.range T.literals.length).findSome? fun id =>
      if T.literals[id]? == some word then toOf row id else none
  | none => none

/-- the within-word lookup of `readWord` -/
def subLookup (S : Script) (q : Nat) (word : String) : Option Nat :=
  match rowOf S.main.subTrans q with
  | some row => row.findSome? fun (id, to) => if subMatches (S.sub id) S.out word then some to else none
  | none => none

/-- `readWord`, with its lookups named -/
theorem readWord_eq (S : Script) (q : Nat) (word : String) : readWord S q word =
    match litLookup S.main q word with
    | some q' => (some q', false)
    | none =>
      match subLookup S q word with
      | some q' => (some q', false)
      | none =>
        match ((rowOf S.main.cmdTrans q).getD []).findSome?
            (fun (cmd, to) => if (S.out cmd).contains word then some to else none) with
        | some q' => (some q',
            ((rowOf S.main.cmdTrans q).getD []).any fun (cmd, _) => !((S.out cmd).filter (· ≠ "")).isEmpty)
        | none =>
          match S.main.star.find? (·.1 == q) with
          | some (_, q') => (some q',
              ((rowOf S.main.cmdTrans q).getD []).any fun (cmd, _) => !((S.out cmd).filter (· ≠ "")).isEmpty)
          | none => (none,
              ((rowOf S.main.cmdTrans q).getD []).any fun (cmd, _) => !((S.out cmd).filter (· ≠ "")).isEmpty) :=
  rfl

theorem litLookup_some {T : BashRt.Tables} {q : Nat} {w : String} {t : Nat} (h : litLookup T q w = some t) :
    ∃ row id, rowOf T.litTrans q = some row ∧ T.literals[id]? = some w ∧ toOf row id = some t := by
  unfold litLookup at h
  cases hr : rowOf T.litTrans q with
  | none => simp [hr] at h
  | some row =>
    simp only [hr] at h
    obtain ⟨id, _, hid⟩ := List.exists_of_findSome?_eq_some h
    by_cases hw : T.literals[id]? = some w
    · simp only [hw, beq_self_eq_true, if_true] at hid
      exact ⟨row, id, rfl, hw, hid⟩
    · have : (T.literals[id]? == some w) = false := by simpa using hw
      simp [this] at hid

theorem litLookup_isSome {T : BashRt.Tables} {q : Nat} {w : String} {row : List (Nat × Nat)} {k t0 : Nat}
    (hr : rowOf T.litTrans q = some row) (hk : T.literals[k]? = some w) (ht : toOf row k = some t0) :
    ∃ t, litLookup T q w = some t := by
  unfold litLookup
  simp only [hr]
  cases hf : (List.range T.literals.length).findSome? fun id =>
      if T.literals[id]? == some w then toOf row id else none with
  | some t => exact ⟨t, rfl⟩
  | none =>
    rw [List.findSome?_eq_none_iff] at hf
    have hlt : k < T.literals.length := (List.getElem?_eq_some_iff.mp hk).1
    have := hf k (List.mem_range.mpr hlt)
    simp [hk, ht] at this

section readWord
variable {S : Script} {a : Auto}

/-- what the literal lookup finds is a literal transition with that text -/
theorem litLookup_sound (h : MainOf S a) {q : Nat} {w : String} {t : Nat}
    (hl : litLookup S.main q w = some t) : ∃ dsc lvl, HasEdge a q (.lit w dsc lvl) t := by
  obtain ⟨row, id, hr, hid, ht⟩ := litLookup_some hl
  obtain ⟨txt, d, lvl, he, hn⟩ := lit_row_backward h hr (mem_of_toOf ht)
  rw [hid] at hn
  simp only [Option.some.injEq] at hn
  subst hn
  exact ⟨d, lvl, he⟩

/-- **1a.** A typed word equal to a literal expected at `q` moves to that literal's target — whatever
else is expected at `q` (the literal has priority) — when all literal transitions out of `q` with
that text agree on the target. -/
theorem readWord_literal (h : MainOf S a) {q : Nat} {w : String} {dsc : Option String} {lvl t : Nat}
    (he : HasEdge a q (.lit w dsc lvl) t) (hdet : WordDetAt a q) :
    readWord S q w = (some t, false) := by
  obtain ⟨k, hk, _, hrow⟩ := lit_forward h he
  obtain ⟨row, hr, ht⟩ := hrow (litDetAt_of_wordDetAt hdet)
  obtain ⟨t', hl⟩ := litLookup_isSome hr hk ht
  obtain ⟨d', l', he'⟩ := litLookup_sound h hl
  have := hdet w dsc lvl t d' l' t' he he'
  subst this
  rw [readWord_eq, hl]

theorem readWord_literal_fst (h : MainOf S a) {q : Nat} {w : String} {dsc : Option String} {lvl t : Nat}
    (he : HasEdge a q (.lit w dsc lvl) t) (hdet : WordDetAt a q) :
    (readWord S q w).1 = some t := by
  rw [readWord_literal h he hdet]

/-- without the hypothesis on equal texts: the word still moves on, to the target of SOME literal
transition with that text (which one depends on the order of the ids in the literal table) -/
theorem readWord_literal_some (h : MainOf S a) {q : Nat} {w : String} {dsc : Option String} {lvl t : Nat}
    (he : HasEdge a q (.lit w dsc lvl) t) (hdet : LitDetAt a q) :
    ∃ dsc' lvl' t', HasEdge a q (.lit w dsc' lvl') t' ∧ readWord S q w = (some t', false) := by
  obtain ⟨k, hk, _, hrow⟩ := lit_forward h he
  obtain ⟨row, hr, ht⟩ := hrow hdet
  obtain ⟨t', hl⟩ := litLookup_isSome hr hk ht
  obtain ⟨d', l', he'⟩ := litLookup_sound h hl
  exact ⟨d', l', t', he', by rw [readWord_eq, hl]⟩

/-- at a literal-only state the other three lookups find nothing -/
theorem readWord_litOnly (h : MainOf S a) {q : Nat} (honly : LitOnlyAt a q) (w : String) :
    readWord S q w = match litLookup S.main q w with
      | some q' => (some q', false)
      | none => (none, false) := by
  have hsub : subLookup S q w = none := by
    unfold subLookup
    cases hr : rowOf S.main.subTrans q with
    | none => rfl
    | some row =>
      cases row with
      | nil => rfl
      | cons p r =>
        obtain ⟨j, lvl, he⟩ := sub_row_backward h (k := p.1) (t := p.2) hr (by simp)
        obtain ⟨_, _, _, hx⟩ := honly _ _ he
        cases hx
  have hcmd : (rowOf S.main.cmdTrans q).getD [] = [] := by
    cases hr : rowOf S.main.cmdTrans q with
    | none => rfl
    | some row =>
      cases row with
      | nil => rfl
      | cons p r =>
        obtain ⟨c, lvl, he⟩ := cmd_row_backward h (k := p.1) (t := p.2) hr (by simp)
        obtain ⟨_, _, _, hx⟩ := honly _ _ he
        cases hx
  have hstar : S.main.star.find? (·.1 == q) = none := by
    cases hf : S.main.star.find? (·.1 == q) with
    | none => rfl
    | some p =>
      have h1 := List.mem_of_find?_eq_some hf
      have h2 : p.1 = q := by simpa using List.find?_some hf
      have : (q, p.2) ∈ S.main.star := by rw [← h2]; exact h1
      obtain ⟨_, _, _, hx⟩ := honly _ _ (star_backward h this)
      cases hx
  rw [readWord_eq, hsub, hcmd, hstar]
  cases litLookup S.main q w <;> rfl

/-- **1b.** At a literal-only state a word is read only as a literal expected there. -/
theorem readWord_literal_only (h : MainOf S a) {q : Nat} (honly : LitOnlyAt a q) {w : String} {t : Nat}
    (hr : (readWord S q w).1 = some t) : ∃ dsc lvl, HasEdge a q (.lit w dsc lvl) t := by
  rw [readWord_litOnly h honly] at hr
  cases hl : litLookup S.main q w with
  | none => simp [hl] at hr
  | some t' =>
    simp only [hl, Option.some.injEq] at hr
    subst hr
    exact litLookup_sound h hl

/-- **1c.** At a literal-only state a word that is no literal expected there is not read, and the
last-word heuristic does not apply (no command was expected). -/
theorem readWord_no_literal (h : MainOf S a) {q : Nat} (honly : LitOnlyAt a q) {w : String}
    (hno : ∀ dsc lvl t, ¬ HasEdge a q (.lit w dsc lvl) t) : readWord S q w = (none, false) := by
  rw [readWord_litOnly h honly]
  cases hl : litLookup S.main q w with
  | none => rfl
  | some t' =>
    obtain ⟨d, l, he⟩ := litLookup_sound h hl
    exact absurd he (hno d l t')

/-- at a literal-only state the flag of the last-word heuristic is never set -/
theorem readWord_litOnly_flag (h : MainOf S a) {q : Nat} (honly : LitOnlyAt a q) (w : String) :
    (readWord S q w).2 = false := by
  rw [readWord_litOnly h honly]
  cases litLookup S.main q w <;> rfl

end readWord

/-! ### 1'. the hypothesis on equal texts is needed

Two transitions out of state 0 on the same text with two descriptions and two targets (one transition
per (state, input); `LitDetAt` holds: the descriptions differ).  The template reads the word `a` as the
literal with the smaller id, `("a", "y")`, and moves to 2: the transition `0 --a "x"--> 1` of the automaton
is not followed. -/

def cexWord : Auto :=
  { start := 0, acc := [1, 2], inputs := [.lit "a" (some "x") 0, .lit "a" (some "y") 0],
    trans := [(0, 0, 1), (0, 1, 2)] }

def cexDfa : Dfa := { main := cexWord, subs := [] }

theorem bytesLt_irrefl : ∀ l : List UInt8, bytesLt l l = false
  | [] => rfl
  | x :: xs => by
    unfold bytesLt
    simp [bytesLt_irrefl xs]

theorem keyLe_same (t : String) (d d' : Option String) : keyLe (t, d) (t, d') = true := by
  unfold keyLe
  simp [bytesLt_irrefl]

theorem cexWord_sortedLits : sortedLits cexWord = [("a", some "y"), ("a", some "x")] := by
  have h : firstOcc (cexWord.inputs.filterMap litOfInp) = [("a", some "x"), ("a", some "y")] := by decide
  unfold sortedLits
  rw [h]
  simp [List.mergeSort, keyLe_same]

theorem cexWord_edge : HasEdge cexWord 0 (.lit "a" (some "x") 0) 1 := ⟨0, by decide, by decide⟩

theorem cexWord_edge' : HasEdge cexWord 0 (.lit "a" (some "y") 0) 2 := ⟨1, by decide, by decide⟩

theorem cexWord_litDet (q : Nat) : LitDetAt cexWord q := by
  rintro txt d l t1 d' l' t2 ⟨i, hi, hxi⟩ ⟨j, hj, hxj⟩ hdd
  have hi' : (q, i, t1) = (0, 0, 1) ∨ (q, i, t1) = (0, 1, 2) := by simpa [cexWord] using hi
  have hj' : (q, j, t2) = (0, 0, 1) ∨ (q, j, t2) = (0, 1, 2) := by simpa [cexWord] using hj
  have e0 : cexWord.inputs[0]? = some (.lit "a" (some "x") 0) := rfl
  have e1 : cexWord.inputs[1]? = some (.lit "a" (some "y") 0) := rfl
  rcases hi' with hi' | hi' <;> rcases hj' with hj' | hj' <;>
    simp only [Prod.mk.injEq] at hi' hj' <;>
    obtain ⟨_, rfl, rfl⟩ := hi' <;> obtain ⟨_, rfl, rfl⟩ := hj'
  · rfl
  · rw [e0] at hxi
    rw [e1] at hxj
    cases hxi
    cases hxj
    simp at hdd
  · rw [e1] at hxi
    rw [e0] at hxj
    cases hxi
    cases hxj
    simp at hdd
  · rfl

/-- the real order of the literal table: the word goes to 2 -/
theorem cexWord_read : readWord (ofDfa cexDfa) 0 "a" = (some 2, false) := by
  unfold ofDfa ofAuto
  simp only [cexDfa]
  rw [cexWord_sortedLits]
  decide

/-- **`readWord_literal` is false with `LitDetAt` alone** (the statement as first written): -/
theorem readWord_literal_needs_wordDet :
    ¬ ∀ (d : Dfa) (out : Nat → List String) (q : Nat) (w : String) (dsc : Option String) (lvl t : Nat),
      HasEdge d.main q (.lit w dsc lvl) t → LitDetAt d.main q → (readWord (ofDfa d out) q w).1 = some t := by
  intro hall
  have := hall cexDfa (fun _ => []) 0 "a" (some "x") 0 1 cexWord_edge (cexWord_litDet 0)
  rw [show (fun _ => []) = (fun _ : Nat => ([] : List String)) from rfl] at this
  have h2 : readWord (ofDfa cexDfa fun _ => []) 0 "a" = (some 2, false) := cexWord_read
  rw [h2] at this
  cases this

/-- … and whatever the order of the ids: no script can follow both transitions. -/
theorem readWord_literal_needs_wordDet' (S : Script) :
    ¬ ∀ (dsc : Option String) (lvl t : Nat),
      HasEdge cexWord 0 (.lit "a" dsc lvl) t → (readWord S 0 "a").1 = some t := by
  intro hall
  have h1 := hall _ _ _ cexWord_edge
  have h2 := hall _ _ _ cexWord_edge'
  rw [h1] at h2
  cases h2

/-! ### 2. the walk over the earlier words -/

/-- a path of literal transitions `q0 --w1--> q1 --w2--> … --> qn` (any descriptions, any levels) -/
inductive LitPath (a : Auto) : Nat → List String → Nat → Prop
  | nil (q : Nat) : LitPath a q [] q
  | cons {q q' qn : Nat} {w : String} {dsc : Option String} {lvl : Nat} {ws : List String} :
      HasEdge a q (.lit w dsc lvl) q' → LitPath a q' ws qn → LitPath a q (w :: ws) qn

/-- `q` is reachable from `q0` along literal transitions -/
def LitReach (a : Auto) (q0 q : Nat) : Prop := ∃ ws, LitPath a q0 ws q

theorem LitReach.refl {a : Auto} (q : Nat) : LitReach a q q := ⟨[], .nil q⟩

theorem LitReach.step {a : Auto} {q q' r : Nat} {w : String} {dsc : Option String} {lvl : Nat}
    (he : HasEdge a q (.lit w dsc lvl) q') (h : LitReach a q' r) : LitReach a q r := by
  obtain ⟨ws, hp⟩ := h
  exact ⟨w :: ws, .cons he hp⟩

section walk
variable {S : Script} {a : Auto}

/-- **2a.** The walk follows a path of literal transitions (whatever else the states on it expect),
when at every state of the path the literal transitions with one text agree on the target. -/
theorem walk_literals (h : MainOf S a) {q0 qn : Nat} {ws : List String}
    (hdet : ∀ q, LitReach a q0 q → WordDetAt a q) (hp : LitPath a q0 ws qn) :
    walk S q0 ws = .state qn := by
  induction hp with
  | nil q => rfl
  | cons he _ ih =>
    simp only [walk, readWord_literal h he (hdet _ (LitReach.refl _))]
    exact ih fun q hq => hdet q (LitReach.step he hq)

/-- **2b.** Through literal-only states the walk arrives somewhere only along a path of literal
transitions spelling the words. -/
theorem walk_literals_conv (h : MainOf S a) : ∀ (ws : List String) (q0 q : Nat),
    (∀ r, LitReach a q0 r → LitOnlyAt a r) → walk S q0 ws = .state q → LitPath a q0 ws q
  | [], q0, q, _, hw => by
    simp only [walk, Walk.state.injEq] at hw
    subst hw
    exact .nil q0
  | w :: ws, q0, q, honly, hw => by
    have hflag := readWord_litOnly_flag h (honly q0 (LitReach.refl _)) w
    cases hrw : readWord S q0 w with
    | mk o b =>
      rw [hrw] at hflag
      simp only at hflag
      subst hflag
      cases o with
      | none => simp [walk, hrw] at hw
      | some q' =>
        simp only [walk, hrw] at hw
        obtain ⟨d, l, he⟩ :=
          readWord_literal_only h (honly q0 (LitReach.refl _)) (w := w) (t := q') (by rw [hrw])
        exact .cons he (walk_literals_conv h ws q' q (fun r hr => honly r (LitReach.step he hr)) hw)

/-- **2.** literal-only states, one target per text: the walk IS the run of the automaton on the words -/
theorem walk_literals_iff (h : MainOf S a) {q0 : Nat}
    (honly : ∀ r, LitReach a q0 r → LitOnlyAt a r) (hdet : ∀ r, LitReach a q0 r → WordDetAt a r)
    (ws : List String) (q : Nat) : walk S q0 ws = .state q ↔ LitPath a q0 ws q :=
  ⟨walk_literals_conv h ws q0 q honly, walk_literals h hdet⟩

/-- **2c.** … and it fails exactly when the words spell no path. -/
theorem walk_unmatched_iff (h : MainOf S a) {q0 : Nat}
    (honly : ∀ r, LitReach a q0 r → LitOnlyAt a r) (hdet : ∀ r, LitReach a q0 r → WordDetAt a r)
    (ws : List String) : walk S q0 ws = .unmatched ↔ ¬ ∃ q, LitPath a q0 ws q := by
  constructor
  · rintro hw ⟨q, hp⟩
    rw [walk_literals h hdet hp] at hw
    cases hw
  · intro hno
    cases hw : walk S q0 ws with
    | unmatched => rfl
    | state q => exact absurd ⟨q, walk_literals_conv h ws q0 q honly hw⟩ hno

end walk

/-! ### 3. the candidates -/

/-- a literal transition out of `q` with text `txt` at level `l` whose candidate `txt ++ " "` extends the
typed prefix -/
def Ext (a : Auto) (q : Nat) (p txt : String) (l : Nat) : Prop :=
  (∃ d t, HasEdge a q (.lit txt d l) t) ∧ isPrefix p.toList (txt ++ " ").toList = true

/-- the candidates at a literal-only state: text + space of the extending literal transitions of the
least level that has any -/
def Cand (a : Auto) (q : Nat) (p c : String) : Prop :=
  ∃ txt l, Ext a q p txt l ∧ c = txt ++ " " ∧ ∀ txt' l', Ext a q p txt' l' → l ≤ l'

section offer
variable {S : Script} {a : Auto}

/-- what one level adds to `candidates`: the texts (+ space) of the literal transitions of that level -/
theorem mem_levelCands (h : MainOf S a) {q lvl : Nat} {c : String} :
    c ∈ (idsAt S.main.litLevels lvl q).map (fun id => (S.main.literals[id]?.getD "") ++ " ") ↔
      ∃ txt d t, HasEdge a q (.lit txt d lvl) t ∧ c = txt ++ " " := by
  rw [List.mem_map]
  constructor
  · rintro ⟨k, hk, rfl⟩
    obtain ⟨txt, d, t, he, hn⟩ := lit_level_backward h hk
    exact ⟨txt, d, t, he, by rw [hn]; rfl⟩
  · rintro ⟨txt, d, t, he, rfl⟩
    obtain ⟨k, hk, hm, _⟩ := lit_forward h he
    exact ⟨k, hm, by rw [hk]; rfl⟩

theorem offer_levels_literals (h : MainOf S a) {q : Nat} (honly : LitOnlyAt a q) (p c : String) :
    ∀ (fuel lvl : Nat) (cands : List String), fuel + lvl = S.main.maxLevel + 1 →
      (∀ x ∈ cands, isPrefix p.toList x.toList = false) →
      (∀ txt l, Ext a q p txt l → lvl ≤ l) →
      (c ∈ offer.levels S q p S.main p.toList fuel lvl cands ↔ Cand a q p c)
  | 0, lvl, cands, hf, _, hlow => by
    simp only [offer.levels, List.not_mem_nil, false_iff]
    rintro ⟨txt, l, hext, _, _⟩
    obtain ⟨⟨d, t, he⟩, _⟩ := hext
    have h1 := level_le_max h he
    have h2 := hlow txt l ⟨⟨d, t, he⟩, by assumption⟩
    omega
  | fuel + 1, lvl, cands, hf, hc, hlow => by
    have hsub : idsAt S.main.subLevels lvl q = [] := by
      rw [List.eq_nil_iff_forall_not_mem]
      intro k hk
      obtain ⟨j, t, he⟩ := sub_level_backward h hk
      obtain ⟨_, _, _, hx⟩ := honly _ _ he
      cases hx
    have hcmd : idsAt S.main.cmdLevels lvl q = [] := by
      rw [List.eq_nil_iff_forall_not_mem]
      intro k hk
      obtain ⟨j, t, he⟩ := cmd_level_backward h hk
      obtain ⟨_, _, _, hx⟩ := honly _ _ he
      cases hx
    have hm1 : ∀ x, x ∈ (cands ++ (idsAt S.main.litLevels lvl q).map
          (fun id => (S.main.literals[id]?.getD "") ++ " ")).filter
          (fun c => isPrefix p.toList c.toList) ↔ ∃ txt, Ext a q p txt lvl ∧ x = txt ++ " " := by
      intro x
      rw [List.mem_filter, List.mem_append, mem_levelCands h]
      constructor
      · rintro ⟨hx | ⟨txt, d, t, he, rfl⟩, hpx⟩
        · rw [hc x hx] at hpx
          cases hpx
        · exact ⟨txt, ⟨⟨d, t, he⟩, hpx⟩, rfl⟩
      · rintro ⟨txt, ⟨⟨d, t, he⟩, hpx⟩, rfl⟩
        exact ⟨Or.inr ⟨txt, d, t, he, rfl⟩, hpx⟩
    unfold offer.levels
    simp only [hsub, hcmd, List.flatMap_nil, List.append_nil, List.getLast?_nil]
    split
    · -- some literal of this level extends the typed prefix
      rename_i hne
      rw [hm1]
      constructor
      · rintro ⟨txt, hext, rfl⟩
        exact ⟨txt, lvl, hext, rfl, fun txt' l' h' => hlow txt' l' h'⟩
      · rintro ⟨txt, l, hext, rfl, hmin⟩
        have : ∃ y, y ∈ (cands ++ (idsAt S.main.litLevels lvl q).map
            (fun id => (S.main.literals[id]?.getD "") ++ " ")).filter
            (fun c => isPrefix p.toList c.toList) := by
          cases hl : (cands ++ (idsAt S.main.litLevels lvl q).map
            (fun id => (S.main.literals[id]?.getD "") ++ " ")).filter
            (fun c => isPrefix p.toList c.toList) with
          | nil => simp [hl] at hne
          | cons y _ => exact ⟨y, by simp⟩
        obtain ⟨y, hy⟩ := this
        obtain ⟨txt0, hext0, _⟩ := (hm1 y).mp hy
        have h1 := hmin txt0 lvl hext0
        have h2 := hlow txt l hext
        have : l = lvl := by omega
        subst this
        exact ⟨txt, hext, rfl⟩
    · rename_i hne
      have hnone : ∀ txt, ¬ Ext a q p txt lvl := by
        intro txt hext
        have := (hm1 (txt ++ " ")).mpr ⟨txt, hext, rfl⟩
        cases hl : (cands ++ (idsAt S.main.litLevels lvl q).map
            (fun id => (S.main.literals[id]?.getD "") ++ " ")).filter
            (fun c => isPrefix p.toList c.toList) with
        | nil => rw [hl] at this; cases this
        | cons y _ => simp [hl] at hne
      split
      · rename_i hge
        simp only [List.not_mem_nil, false_iff]
        rintro ⟨txt, l, hext, _, _⟩
        have h2 := hlow txt l hext
        obtain ⟨⟨d, t, he⟩, hpx⟩ := hext
        have h1 := level_le_max h he
        have : l = lvl := by omega
        subst this
        exact hnone txt ⟨⟨d, t, he⟩, hpx⟩
      · rename_i hlt
        apply offer_levels_literals h honly p c fuel (lvl + 1) _ (by omega)
        · intro x hx
          cases hpx : isPrefix p.toList x.toList with
          | false => rfl
          | true =>
            rcases List.mem_append.mp hx with hx | hx
            · rw [hc x hx] at hpx
              cases hpx
            · obtain ⟨txt, d, t, he, rfl⟩ := (mem_levelCands h).mp hx
              exact absurd ⟨⟨d, t, he⟩, hpx⟩ (hnone txt)
        · intro txt l hext
          have h2 := hlow txt l hext
          have : l ≠ lvl := by
            rintro rfl
            exact hnone txt hext
          omega

/-- **3.** At a literal-only state the candidates offered for the typed prefix `p` are — as a set — the
texts `txt ++ " "` of the literal transitions out of `q` that extend `p` and whose level is the least
level at which some literal transition out of `q` extends `p`.  (The template accumulates the
candidates over the levels; the literals of the lower levels are filtered out again, since they did
not extend `p`.)  No determinism is needed. -/
theorem offer_literals' (h : MainOf S a) {q : Nat} (honly : LitOnlyAt a q) (p c : String) :
    c ∈ offer S q p ↔ Cand a q p c := by
  unfold offer
  simp only
  exact offer_levels_literals h honly p c _ 0 [] (by omega) (by simp) (by intros; omega)

/-- the same, written out -/
theorem offer_literals (h : MainOf S a) {q : Nat} (honly : LitOnlyAt a q) (p c : String) :
    c ∈ offer S q p ↔
      ∃ txt dsc lvl t, HasEdge a q (.lit txt dsc lvl) t ∧ c = txt ++ " " ∧
        isPrefix p.toList c.toList = true ∧
        ∀ txt' dsc' lvl' t', HasEdge a q (.lit txt' dsc' lvl') t' →
          isPrefix p.toList (txt' ++ " ").toList = true → lvl ≤ lvl' := by
  rw [offer_literals' h honly]
  constructor
  · rintro ⟨txt, l, ⟨⟨d, t, he⟩, hpx⟩, rfl, hmin⟩
    exact ⟨txt, d, l, t, he, rfl, hpx, fun txt' d' l' t' he' hp' => hmin txt' l' ⟨⟨d', t', he'⟩, hp'⟩⟩
  · rintro ⟨txt, d, l, t, he, rfl, hpx, hmin⟩
    exact ⟨txt, l, ⟨⟨d, t, he⟩, hpx⟩, rfl, fun txt' l' ⟨⟨d', t', he'⟩, hp'⟩ => hmin txt' d' l' t' he' hp'⟩

theorem exists_least {P : Nat → Prop} : ∀ n, P n → ∃ l, P l ∧ ∀ l', P l' → l ≤ l' := by
  intro n
  induction n using Nat.strongRecOn with
  | ind n ih =>
    intro hn
    by_cases hlt : ∃ m, m < n ∧ P m
    · obtain ⟨m, hm, hpm⟩ := hlt
      exact ih m hm hpm
    · exact ⟨n, hn, fun l' hl' => Nat.le_of_not_lt fun hl => hlt ⟨l', hl, hl'⟩⟩

/-- nothing is offered exactly when no literal transition out of `q` extends the typed prefix -/
theorem offer_literals_nil_iff (h : MainOf S a) {q : Nat} (honly : LitOnlyAt a q) (p : String) :
    offer S q p = [] ↔ ∀ txt l, ¬ Ext a q p txt l := by
  constructor
  · intro hnil txt l hext
    obtain ⟨l0, ⟨txt0, hext0⟩, hmin⟩ := exists_least (P := fun l => ∃ txt, Ext a q p txt l) l ⟨txt, hext⟩
    have : txt0 ++ " " ∈ offer S q p :=
      (offer_literals' h honly p _).mpr ⟨txt0, l0, hext0, rfl, fun txt' l' h' => hmin l' ⟨txt', h'⟩⟩
    rw [hnil] at this
    cases this
  · intro hno
    rw [List.eq_nil_iff_forall_not_mem]
    intro c hc
    obtain ⟨txt, l, hext, _, _⟩ := (offer_literals' h honly p c).mp hc
    exact hno txt l hext

end offer

/-! ### 4. the whole completion function -/

section complete
variable {S : Script} {a : Auto}

/-- the COMP_WORDBREAKS stripping of one candidate -/
def strip (p wb m : String) : String :=
  String.ofList (stripPrefix (superfluous p.toList wb.toList) m.toList)

/-- **4a.** return code 1 exactly when the earlier words spell no path of literal transitions -/
theorem complete_literals_none_iff (h : MainOf S a) {q0 : Nat}
    (honly : ∀ r, LitReach a q0 r → LitOnlyAt a r) (hdet : ∀ r, LitReach a q0 r → WordDetAt a r)
    (ws : List String) (p wb : String) :
    complete S q0 ws p wb = none ↔ ¬ ∃ q, LitPath a q0 ws q := by
  rw [← walk_unmatched_iff h honly hdet]
  unfold complete
  cases walk S q0 ws <;> simp

/-- **4b.** otherwise COMPREPLY is the stripped candidates of the state the path leads to -/
theorem complete_literals (h : MainOf S a) {q0 q : Nat} {ws : List String}
    (hdet : ∀ r, LitReach a q0 r → WordDetAt a r) (hp : LitPath a q0 ws q) (p wb : String) :
    complete S q0 ws p wb = some ((offer S q p).map (strip p wb)) := by
  unfold complete
  rw [walk_literals h hdet hp]
  rfl

/-- **4.** … which are, as a set, the stripped `txt ++ " "` of the literal transitions out of that state
that extend the typed prefix at the least level that has any -/
theorem mem_complete_literals (h : MainOf S a) {q0 q : Nat} {ws : List String}
    (hdet : ∀ r, LitReach a q0 r → WordDetAt a r) (hp : LitPath a q0 ws q) (honly : LitOnlyAt a q)
    (p wb : String) :
    ∃ cs, complete S q0 ws p wb = some cs ∧
      ∀ c, c ∈ cs ↔ ∃ m, Cand a q p m ∧ c = strip p wb m := by
  refine ⟨_, complete_literals h hdet hp p wb, fun c => ?_⟩
  rw [List.mem_map]
  constructor
  · rintro ⟨m, hm, rfl⟩
    exact ⟨m, (offer_literals' h honly p m).mp hm, rfl⟩
  · rintro ⟨m, hm, rfl⟩
    exact ⟨m, (offer_literals' h honly p m).mpr hm, rfl⟩

end complete

/-! ### 5. the instance: the script the emitter writes for `d` -/

section ofDfa
variable (d : Dfa) (out : Nat → List String)

theorem ofDfa_readWord_literal {q : Nat} {w : String} {dsc : Option String} {lvl t : Nat}
    (he : HasEdge d.main q (.lit w dsc lvl) t) (hdet : WordDetAt d.main q) :
    (readWord (ofDfa d out) q w).1 = some t :=
  readWord_literal_fst (mainOf_ofDfa d out) he hdet

theorem ofDfa_readWord_literal_only {q : Nat} (honly : LitOnlyAt d.main q) {w : String} {t : Nat}
    (hr : (readWord (ofDfa d out) q w).1 = some t) : ∃ dsc lvl, HasEdge d.main q (.lit w dsc lvl) t :=
  readWord_literal_only (mainOf_ofDfa d out) honly hr

theorem ofDfa_walk_literals_iff
    (honly : ∀ r, LitReach d.main d.main.start r → LitOnlyAt d.main r)
    (hdet : ∀ r, LitReach d.main d.main.start r → WordDetAt d.main r) (ws : List String) (q : Nat) :
    walk (ofDfa d out) d.main.start ws = .state q ↔ LitPath d.main d.main.start ws q :=
  walk_literals_iff (mainOf_ofDfa d out) honly hdet ws q

theorem ofDfa_offer_literals {q : Nat} (honly : LitOnlyAt d.main q) (p c : String) :
    c ∈ offer (ofDfa d out) q p ↔
      ∃ txt dsc lvl t, HasEdge d.main q (.lit txt dsc lvl) t ∧ c = txt ++ " " ∧
        isPrefix p.toList c.toList = true ∧
        ∀ txt' dsc' lvl' t', HasEdge d.main q (.lit txt' dsc' lvl') t' →
          isPrefix p.toList (txt' ++ " ").toList = true → lvl ≤ lvl' :=
  offer_literals (mainOf_ofDfa d out) honly p c

/-- **The emitted bash script interprets a literal-only automaton**: return code 1 exactly when the
earlier words spell no path from the start; otherwise COMPREPLY is, as a set, the stripped
`txt ++ " "` of the literal transitions out of the state the path leads to that extend the typed prefix
at the least level that has any. -/
theorem ofDfa_complete_literals
    (honly : ∀ r, LitReach d.main d.main.start r → LitOnlyAt d.main r)
    (hdet : ∀ r, LitReach d.main d.main.start r → WordDetAt d.main r)
    (ws : List String) (p wb : String) :
    (complete (ofDfa d out) d.main.start ws p wb = none ↔ ¬ ∃ q, LitPath d.main d.main.start ws q) ∧
    ∀ q, LitPath d.main d.main.start ws q →
      ∃ cs, complete (ofDfa d out) d.main.start ws p wb = some cs ∧
        ∀ c, c ∈ cs ↔ ∃ m, Cand d.main q p m ∧ c = strip p wb m :=
  ⟨complete_literals_none_iff (mainOf_ofDfa d out) honly hdet ws p wb,
   fun q hp => mem_complete_literals (mainOf_ofDfa d out) hdet hp (honly q ⟨ws, hp⟩) p wb⟩

end ofDfa

end Complgen.TemplateDfa
