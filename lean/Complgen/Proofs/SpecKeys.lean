/-
The keys of the leaves of an expression (as `Spec.toSRx` names them) and the positions `denPos`
numbers them with — the bookkeeping behind `Proofs/SpecAuto.lean`.
-/
import Complgen.Spec.Den
import Complgen.Spec.Lang
import Complgen.Proofs.Passes
namespace Complgen.Spec
open Complgen

/-- the key `toSRx` gives a leaf -/
def keyOf (wk : Expr → String) (e : Expr) : String :=
  match toSRx wk e with
  | .sym k => k
  | _ => ""

mutual
/-- the keys of the leaves, left to right -/
def leafKeys (wk : Expr → String) : Expr → List String
  | .seq cs _ | .alt cs _ | .fb cs _ => leafKeysL wk cs
  | .opt c _ | .many1 c _ => leafKeys wk c
  | .dd .. => []
  | e => [keyOf wk e]
def leafKeysL (wk : Expr → String) : ExprL → List String
  | .nil => []
  | .cons e es => leafKeys wk e ++ leafKeysL wk es
end

mutual
theorem leafKeys_length (wk : Expr → String) : ∀ e : Expr, (leafKeys wk e).length = e.leafCount
  | .term .. => rfl
  | .nonterm .. => rfl
  | .cmd .. => rfl
  | .sub .. => rfl
  | .dd .. => rfl
  | .seq cs _ => by simp [leafKeys, Expr.leafCount, leafKeysL_length wk cs]
  | .alt cs _ => by simp [leafKeys, Expr.leafCount, leafKeysL_length wk cs]
  | .fb cs _ => by simp [leafKeys, Expr.leafCount, leafKeysL_length wk cs]
  | .opt c _ => by simp [leafKeys, Expr.leafCount, leafKeys_length wk c]
  | .many1 c _ => by simp [leafKeys, Expr.leafCount, leafKeys_length wk c]
theorem leafKeysL_length (wk : Expr → String) : ∀ es : ExprL, (leafKeysL wk es).length = es.leafCount
  | .nil => rfl
  | .cons e es => by simp [leafKeysL, ExprL.leafCount, leafKeys_length wk e, leafKeysL_length wk es]
end

mutual
/-- the positions of a word of `e` numbered from `i` lie in `[i, i + leafCount e)` -/
theorem denPos_range : ∀ (e : Expr) (i : Nat) (w : List Nat), e.denPos i w → ∀ p ∈ w, i ≤ p ∧ p < i + e.leafCount
  | .term .., i, w, h, p, hp => by simp [Expr.denPos] at h; subst h; simp at hp; subst hp; simp [Expr.leafCount]
  | .nonterm .., i, w, h, p, hp => by simp [Expr.denPos] at h; subst h; simp at hp; subst hp; simp [Expr.leafCount]
  | .cmd .., i, w, h, p, hp => by simp [Expr.denPos] at h; subst h; simp at hp; subst hp; simp [Expr.leafCount]
  | .sub .., i, w, h, p, hp => by simp [Expr.denPos] at h; subst h; simp at hp; subst hp; simp [Expr.leafCount]
  | .dd .., i, w, h, p, hp => by simp [Expr.denPos] at h; subst h; simp at hp
  | .seq cs _, i, w, h, p, hp => by
    simp only [Expr.denPos] at h; simpa [Expr.leafCount] using denSeq_range cs i w h p hp
  | .alt cs _, i, w, h, p, hp => by
    simp only [Expr.denPos] at h; simpa [Expr.leafCount] using denAlt_range cs i w h p hp
  | .fb cs _, i, w, h, p, hp => by
    simp only [Expr.denPos] at h; simpa [Expr.leafCount] using denAlt_range cs i w h p hp
  | .opt c _, i, w, h, p, hp => by
    simp only [Expr.denPos] at h
    rcases h with rfl | h
    · simp at hp
    · simpa [Expr.leafCount] using denPos_range c i w h p hp
  | .many1 c _, i, w, h, p, hp => by
    simp only [Expr.denPos] at h
    obtain ⟨ws, _, rfl, hall⟩ := h
    obtain ⟨u, hu, hpu⟩ := List.mem_flatten.mp hp
    simpa [Expr.leafCount] using denPos_range c i u (hall u hu) p hpu
theorem denSeq_range : ∀ (es : ExprL) (i : Nat) (w : List Nat), es.denSeq i w → ∀ p ∈ w, i ≤ p ∧ p < i + es.leafCount
  | .nil, i, w, h, p, hp => by simp [ExprL.denSeq] at h; subst h; simp at hp
  | .cons e es, i, w, h, p, hp => by
    simp only [ExprL.denSeq] at h
    obtain ⟨u, v, rfl, hu, hv⟩ := h
    simp only [ExprL.leafCount]
    rcases List.mem_append.mp hp with h1 | h1
    · have := denPos_range e i u hu p h1; omega
    · have := denSeq_range es _ v hv p h1; omega
theorem denAlt_range : ∀ (es : ExprL) (i : Nat) (w : List Nat), es.denAlt i w → ∀ p ∈ w, i ≤ p ∧ p < i + es.leafCount
  | .nil, i, w, h, p, hp => by simp [ExprL.denAlt] at h
  | .cons e es, i, w, h, p, hp => by
    simp only [ExprL.denAlt] at h
    simp only [ExprL.leafCount]
    rcases h with h | h
    · have := denPos_range e i w h p hp; omega
    · have := denAlt_range es _ w h p hp; omega
end

end Complgen.Spec
