/-
The automaton returned by `minimize` is CO-ACCESSIBLE (hence trim, with `minimize_accessible`), and
it has the LEAST NUMBER OF STATES among all automata (of the type `Auto`: partial deterministic
automata) that accept the same words — the Myhill–Nerode bound, for EVERY work-list schedule.
-/
import Complgen.Proofs.HopcroftMin
namespace Complgen.Min
open Complgen

/-! ### 1. Co-accessibility of the result -/

/-- every state of the quotient is the representative of a state of `a` -/
theorem QR_rep_state {a : Auto} {P : List Block} {r : Nat} (h : QR P a r) :
    ∃ q ∈ a.states, r = repOf P q := by
  rcases h with h | h
  · exact ⟨a.start, mem_states.2 (.inl rfl), h⟩
  · obtain ⟨s, hs, h⟩ := mem_qTargets.1 h
    exact ⟨s.2.2, mem_states.2 (.inr ⟨s, hs, .inr rfl⟩), h⟩

/-- **The minimised automaton is co-accessible**, for every schedule: every state can reach an
accepting state.  (`CoAcc a` cannot be dropped, see `exNotReduced_spec`: there the states 2 and 3 of
the result accept nothing.) -/
theorem minimize_coaccessible (σ : Schedule) (a m : Auto) (hwf : WF a) (hco : CoAcc a)
    (h : minimize σ a = some m) :
    ∀ q ∈ m.states, ∃ w : List Nat, accFrom m q w = true := by
  rw [minimize_eq, Option.map_eq_some_iff] at h
  obtain ⟨P, hpart, rfl⟩ := h
  obtain ⟨hP, hS⟩ := partition_stable σ a P hwf hpart
  intro q hq
  obtain ⟨r, hr, rfl⟩ := renum_states hq
  have hQ := quot_states_QR hr
  obtain ⟨q0, hq0, e⟩ := QR_rep_state hQ
  obtain ⟨w, hw⟩ := hco q0 hq0
  refine ⟨w, ?_⟩
  rw [renum_accFrom _ (quot_acc_states hwf hP hS) w hr, quot_accFrom hwf hP hS w r hQ, e,
    accC_rep hP hS (mem_allStates.2 (.inr hq0)) w, ← hwf.accFrom_eq_accC]
  exact hw

/-- **The minimised automaton is trim**: every state lies on a path from the start state to an
accepting state. -/
theorem minimize_trim (σ : Schedule) (a m : Auto) (hwf : WF a) (hco : CoAcc a) (hacc : Access a)
    (h : minimize σ a = some m) :
    ∀ q ∈ m.states, (∃ u : List Nat, m.run m.start u = some q) ∧
      (∃ w : List Nat, accFrom m q w = true) :=
  fun q hq => ⟨minimize_accessible σ a m hwf hacc h q hq, minimize_coaccessible σ a m hwf hco h q hq⟩

/-! ### 2. `Auto.states` lists every state once -/

theorem nodup_foldl_dedup (l : List Nat) : ∀ (init : List Nat), init.Nodup →
    (l.foldl (fun acc x => if acc.contains x then acc else acc ++ [x]) init).Nodup := by
  induction l with
  | nil => intro init h; exact h
  | cons x xs ih =>
    intro init h
    rw [List.foldl_cons]
    apply ih
    split
    · exact h
    · rename_i hx
      have hx : x ∉ init := by simpa using hx
      rw [List.nodup_append]
      refine ⟨h, by simp, ?_⟩
      intro a ha b hb
      simp only [List.mem_singleton] at hb
      subst hb
      rintro rfl
      exact hx ha

theorem nodup_dedup (l : List Nat) : (dedup l).Nodup :=
  nodup_foldl_dedup l [] List.nodup_nil

/-- `a.states` has no duplicates: its length is the number of states of `a` -/
theorem states_nodup (a : Auto) : a.states.Nodup := nodup_dedup _

/-! ### 3. Pigeonhole -/

/-- an injective relation from a duplicate-free list into a list: the first is not longer -/
theorem length_le_of_inj_rel {R : Nat → Nat → Prop} : ∀ (l l' : List Nat), l.Nodup →
    (∀ x ∈ l, ∃ y ∈ l', R x y) →
    (∀ x ∈ l, ∀ x' ∈ l, ∀ y, R x y → R x' y → x = x') → l.length ≤ l'.length
  | [], _, _, _, _ => by simp
  | x :: l, l', hnd, hex, hinj => by
    obtain ⟨y, hy, hxy⟩ := hex x (by simp)
    have hnd' := List.nodup_cons.1 hnd
    have ih := length_le_of_inj_rel l (l'.erase y) hnd'.2
      (by
        intro x' hx'
        obtain ⟨y', hy', hxy'⟩ := hex x' (List.mem_cons_of_mem _ hx')
        refine ⟨y', ?_, hxy'⟩
        have hne : y' ≠ y := by
          rintro rfl
          have := hinj x (by simp) x' (List.mem_cons_of_mem _ hx') y' hxy hxy'
          exact hnd'.1 (this ▸ hx')
        exact (List.mem_erase_of_ne hne).2 hy')
      (fun x1 h1 x2 h2 y' r1 r2 =>
        hinj x1 (List.mem_cons_of_mem _ h1) x2 (List.mem_cons_of_mem _ h2) y' r1 r2)
    rw [List.length_erase_of_mem hy] at ih
    have : 0 < l'.length := List.length_pos_of_mem hy
    simp only [List.length_cons]
    omega

/-! ### 4. Runs of concatenated words -/

theorem run_append (a : Auto) : ∀ (u v : List Nat) (q : Nat),
    a.run q (u ++ v) = (a.run q u).bind fun q' => a.run q' v
  | [], v, q => rfl
  | i :: u, v, q => by
    simp only [List.cons_append, Auto.run]
    cases a.step q i with
    | none => rfl
    | some q' => exact run_append a u v q'

theorem accFrom_append (a : Auto) (u v : List Nat) (q : Nat) :
    accFrom a q (u ++ v) = match a.run q u with
      | some q' => accFrom a q' v
      | none => false := by
  unfold accFrom
  rw [run_append]
  cases a.run q u <;> rfl

/-- the end of a run is a state -/
theorem run_mem_states {a : Auto} {w : List Nat} {q q' : Nat} (hq : q ∈ a.states)
    (h : a.run q w = some q') : q' ∈ a.states := by
  rcases run_mem w q q' h with rfl | ⟨t, ht, rfl⟩
  · exact hq
  · exact mem_states.2 (.inr ⟨t, ht, .inr rfl⟩)

/-! ### 5. The Myhill–Nerode bound -/

/-- **A reduced trim automaton is minimal** (Myhill–Nerode, for partial deterministic automata):
if every state of `m` is reachable from the start state and can reach acceptance, and different
states of `m` are told apart by a word, then no automaton `b` that accepts the same words has
fewer states.  (`Auto.states` has no duplicates: `states_nodup`; a missing transition is the
implicit dead state, which is not counted on either side — this is why co-accessibility of `m` is
required: a state of `m` that accepts nothing could correspond to the dead state of `b`.) -/
theorem reduced_trim_minimal (m b : Auto)
    (hacc : ∀ q ∈ m.states, ∃ w : List Nat, m.run m.start w = some q)
    (hco : ∀ q ∈ m.states, ∃ w : List Nat, accFrom m q w = true)
    (hred : ∀ p ∈ m.states, ∀ q ∈ m.states, p ≠ q →
      ∃ w : List Nat, accFrom m p w ≠ accFrom m q w)
    (hlang : ∀ w : List Nat, b.accepts w = m.accepts w) :
    m.states.length ≤ b.states.length := by
  -- `q` and `s` are reached by the same word
  apply length_le_of_inj_rel
    (R := fun q s => ∃ u, m.run m.start u = some q ∧ b.run b.start u = some s)
    m.states b.states (states_nodup m)
  · intro q hq
    obtain ⟨u, hu⟩ := hacc q hq
    obtain ⟨v, hv⟩ := hco q hq
    have h1 : b.accepts (u ++ v) = true := by
      rw [hlang, accepts_eq, accFrom_append, hu]
      exact hv
    rw [accepts_eq, accFrom_append] at h1
    cases hb : b.run b.start u with
    | none => simp [hb] at h1
    | some s =>
      exact ⟨s, run_mem_states (mem_states.2 (.inl rfl)) hb, u, hu, hb⟩
  · rintro q hq q' hq' s ⟨u, hu, hbu⟩ ⟨u', hu', hbu'⟩
    apply Classical.byContradiction
    intro hne
    obtain ⟨v, hv⟩ := hred q hq q' hq' hne
    apply hv
    have e1 : accFrom m q v = accFrom b s v := by
      have := hlang (u ++ v)
      rw [accepts_eq, accepts_eq, accFrom_append, accFrom_append, hu, hbu] at this
      exact this.symm
    have e2 : accFrom m q' v = accFrom b s v := by
      have := hlang (u' ++ v)
      rw [accepts_eq, accepts_eq, accFrom_append, accFrom_append, hu', hbu'] at this
      exact this.symm
    rw [e1, e2]

/-! ### 6. The result of `minimize` has the least number of states -/

/-- **`minimize` returns an automaton with the least number of states**, for every schedule: no
automaton `b` that accepts the words of `a` has fewer states than `minimize σ a`. -/
theorem minimize_minimal_card (σ : Schedule) (a m : Auto) (hwf : WF a) (hco : CoAcc a)
    (hacc : Access a) (h : minimize σ a = some m) (b : Auto)
    (hb : ∀ w : List Nat, b.accepts w = a.accepts w) :
    m.states.length ≤ b.states.length :=
  reduced_trim_minimal m b (minimize_accessible σ a m hwf hacc h)
    (minimize_coaccessible σ a m hwf hco h) (minimize_reduced σ a m hwf hco h)
    (fun w => by rw [hb, minimize_lang σ a m hwf h])

end Complgen.Min

namespace Complgen

/-- hence: the minimised automaton of what the construction builds is co-accessible, for all
schedules of both -/
theorem minimize_buildAuto_coaccessible (σ σ' : Schedule) (r : Regex) (symOf : Nat → Option Inp)
    (a m : Auto) (hl : r.root.Linear) (hpos : ∀ q ∈ r.root.positions, q < r.endPos)
    (hne : r.root.NoEmptyOr) (hsym : ∀ p, p < r.inputs.length → (symOf p).isSome)
    (hend : symOf r.endPos = none)
    (h : buildAuto σ r symOf = some a) (hm : Min.minimize σ' a = some m) :
    ∀ q ∈ m.states, ∃ w : List Nat, Min.accFrom m q w = true :=
  Min.minimize_coaccessible σ' a m (buildAuto_WF σ r symOf a h)
    (buildAuto_coacc σ r symOf a hl hpos hne hsym hend h) hm

/-- the minimised automaton of what the construction builds has the least number of states, for
all schedules of both -/
theorem minimize_buildAuto_minimal_card (σ σ' : Schedule) (r : Regex) (symOf : Nat → Option Inp)
    (a m : Auto) (hl : r.root.Linear) (hpos : ∀ q ∈ r.root.positions, q < r.endPos)
    (hne : r.root.NoEmptyOr) (hsym : ∀ p, p < r.inputs.length → (symOf p).isSome)
    (hend : symOf r.endPos = none)
    (h : buildAuto σ r symOf = some a) (hm : Min.minimize σ' a = some m) (b : Auto)
    (hb : ∀ w : List Nat, b.accepts w = a.accepts w) :
    m.states.length ≤ b.states.length :=
  Min.minimize_minimal_card σ' a m (buildAuto_WF σ r symOf a h)
    (buildAuto_coacc σ r symOf a hl hpos hne hsym hend h) (buildAuto_access σ r symOf a h) hm b hb

/-- **Least number of states, from the expression**: for an expression without empty alternations
whose leaves all carry a symbol, no automaton that accepts the words of the raw automaton `a`
built from `Regex.ofExpr e` has fewer states than the minimised automaton `m` — for every schedule
of the subset construction and every schedule of the minimiser.  Moreover every state of `m` can
reach acceptance (with `minimize_raw_reduced_accessible`: `m` is reduced and trim). -/
theorem minimize_raw_minimal_card (σ σ' : Schedule) (e : Expr) (pool : RxPool)
    (symOf : Nat → Option Inp) (a m : Auto) (hne : e.NoEmptyAlt)
    (hsym : ∀ p, p < e.leafCount → (symOf p).isSome)
    (hend : symOf e.leafCount = none)
    (h : buildAuto σ (Regex.ofExpr e pool).1 symOf = some a)
    (hm : Min.minimize σ' a = some m) :
    (∀ q ∈ m.states, ∃ w : List Nat, Min.accFrom m q w = true) ∧
    ∀ b : Auto, (∀ w : List Nat, b.accepts w = a.accepts w) →
      m.states.length ≤ b.states.length := by
  obtain ⟨hlin, _, hlen⟩ := Regex.ofExpr_linear e pool
  have hendPos := Regex.ofExpr_endPos e pool
  have hpos : ∀ q ∈ (Regex.ofExpr e pool).1.root.positions, q < (Regex.ofExpr e pool).1.endPos := by
    intro q hq
    rw [Regex.ofExpr_positions, List.mem_range'_1] at hq
    rw [hendPos]
    omega
  have hno : (Regex.ofExpr e pool).1.root.NoEmptyOr := by
    rw [Regex.ofExpr_root]
    exact rxOfExpr_noEmptyOr e _ hne
  exact ⟨minimize_buildAuto_coaccessible σ σ' _ symOf a m hlin hpos hno (by rw [hlen]; exact hsym)
      (by rw [hendPos]; exact hend) h hm,
    fun b hb => minimize_buildAuto_minimal_card σ σ' _ symOf a m hlin hpos hno
      (by rw [hlen]; exact hsym) (by rw [hendPos]; exact hend) h hm b hb⟩

end Complgen
