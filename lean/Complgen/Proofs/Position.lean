/-
C13: the position bookkeeping of the parser model (moved here from Props/C13.lean so that proof files can use it).
-/
import Complgen.Model.Parse
namespace Complgen.Parse.Pos
open Complgen Complgen.Parse

theorem adv_add (s : PState) (m n : Nat) : (s.adv m).adv n = s.adv (m + n) := by
  induction m generalizing s with
  | zero => simp [PState.adv]
  | succ m ih =>
    obtain ⟨rest, l, c⟩ := s
    cases rest with
    | nil =>
      have : ∀ k, PState.adv ⟨[], l, c⟩ k = ⟨[], l, c⟩ := by
        intro k; cases k <;> simp [PState.adv]
      simp [this]
    | cons ch cs =>
      have h : m + 1 + n = (m + n) + 1 := by omega
      rw [h]
      simp only [PState.adv]
      split <;> exact ih _

theorem adv_rest (s : PState) (n : Nat) : (s.adv n).rest = s.rest.drop n := by
  induction n generalizing s with
  | zero => simp [PState.adv]
  | succ n ih =>
    obtain ⟨rest, l, c⟩ := s
    cases rest with
    | nil => simp [PState.adv]
    | cons ch cs =>
      simp only [PState.adv]
      split <;> simp [ih]

theorem adv_line_mono (s : PState) (n : Nat) : s.line ≤ (s.adv n).line := by
  induction n generalizing s with
  | zero => simp [PState.adv]
  | succ n ih =>
    obtain ⟨rest, l, c⟩ := s
    cases rest with
    | nil => simp [PState.adv]
    | cons ch cs =>
      simp only [PState.adv]
      split
      · exact Nat.le_trans (Nat.le_succ l) (ih ⟨cs, l + 1, 1⟩)
      · exact ih ⟨cs, l, c + ch.utf8Size⟩

/-- a span starts at the position of the first character of the construct -/
theorem fromRange_start (before after : PState) :
    (fromRange before after).line = before.line ∧ (fromRange before after).cs = before.col := by
  simp [fromRange]

/-- the location of a parse error is the position where the rest of the input starts -/
theorem fromMachine_start (s : PState) : (fromMachine s).line = s.line ∧ (fromMachine s).cs = s.col := by
  simp [fromMachine]

/-- within one line the column advances by the byte length of what was consumed -/
theorem adv_col_same_line (s : PState) (w : List Char) (rest : List Char) (hs : s.rest = w ++ rest)
    (hw : '\n' ∉ w) : (s.adv w.length).line = s.line ∧ (s.adv w.length).col = s.col + bytesLen w := by
  induction w generalizing s with
  | nil => simp [PState.adv, bytesLen]
  | cons c cs ih =>
    obtain ⟨r, l, col⟩ := s
    simp only at hs
    subst hs
    have hc : c ≠ '\n' := by intro h; apply hw; simp [h]
    have hcs : '\n' ∉ cs := by intro h; apply hw; simp [h]
    simp only [List.length_cons, PState.adv, List.cons_append, hc, if_false]
    have := ih ⟨cs ++ rest, l, col + c.utf8Size⟩ rfl hcs
    refine ⟨this.1, ?_⟩
    rw [this.2]
    simp only [bytesLen, List.foldl_cons, Nat.zero_add]
    have hf : ∀ (l : List Char) (a : Nat), List.foldl (fun n c => n + c.utf8Size) a l = a + List.foldl (fun n c => n + c.utf8Size) 0 l := by
      intro l
      induction l with
      | nil => intro a; simp
      | cons x xs ihx => intro a; simp only [List.foldl_cons, Nat.zero_add]; rw [ihx (a + x.utf8Size), ihx x.utf8Size]; omega
    rw [hf cs c.utf8Size]
    omega

/-- the characters after the last line feed (the whole list when there is none) -/
def lastLine : List Char → List Char
  | [] => []
  | c :: cs => if '\n' ∈ cs then lastLine cs else if c = '\n' then cs else c :: cs

theorem lastLine_of_not_mem : ∀ l : List Char, '\n' ∉ l → lastLine l = l
  | [], _ => rfl
  | c :: cs, h => by
    have hc : c ≠ '\n' := fun e => h (by simp [e])
    have hcs : '\n' ∉ cs := fun e => h (by simp [e])
    simp [lastLine, hcs, hc]

theorem bytesLen_cons (c : Char) (cs : List Char) : bytesLen (c :: cs) = c.utf8Size + bytesLen cs := by
  have hf : ∀ (l : List Char) (a : Nat), List.foldl (fun n c => n + c.utf8Size) a l = a + List.foldl (fun n c => n + c.utf8Size) 0 l := by
    intro l
    induction l with
    | nil => intro a; simp
    | cons x xs ihx => intro a; simp only [List.foldl_cons, Nat.zero_add]; rw [ihx (a + x.utf8Size), ihx x.utf8Size]; omega
  simp only [bytesLen, List.foldl_cons, Nat.zero_add]
  exact hf cs c.utf8Size

/-- **Location arithmetic**: after consuming the text `w`, the line is the old line plus the number of
line feeds in `w`, and the column is the byte length of what follows the last line feed of `w`,
counted from 1 — or from the old column when `w` has no line feed.  (Everything that precedes a token
decides its location, and nothing else does.) -/
theorem adv_position (w : List Char) : ∀ (s : PState) (rest : List Char), s.rest = w ++ rest →
    (s.adv w.length).line = s.line + w.count '\n' ∧
    (s.adv w.length).col = (if '\n' ∈ w then 1 else s.col) + bytesLen (lastLine w) := by
  induction w with
  | nil => intro s rest _; simp [PState.adv, bytesLen, lastLine]
  | cons c cs ih =>
    intro s rest hs
    obtain ⟨r, l, col⟩ := s
    simp only at hs
    subst hs
    by_cases hc : c = '\n'
    · subst hc
      simp only [List.length_cons, PState.adv, List.cons_append, if_true]
      have := ih ⟨cs ++ rest, l + 1, 1⟩ rest rfl
      refine ⟨by rw [this.1]; simp [List.count_cons]; omega, ?_⟩
      rw [this.2]
      by_cases hcs : '\n' ∈ cs
      · simp [hcs, lastLine]
      · simp [hcs, lastLine, lastLine_of_not_mem cs hcs]
    · simp only [List.length_cons, PState.adv, List.cons_append, hc, if_false]
      have := ih ⟨cs ++ rest, l, col + c.utf8Size⟩ rest rfl
      refine ⟨by rw [this.1]; simp [List.count_cons, hc], ?_⟩
      rw [this.2]
      by_cases hcs : '\n' ∈ cs
      · simp [hcs, lastLine, hc]
      · have hne : ¬ ('\n' = c) := fun e => hc e.symm
        simp only [hcs, if_false, lastLine, hc, List.mem_cons, hne, false_or, bytesLen_cons,
          lastLine_of_not_mem cs hcs]
        omega

/-- in particular for a whole file read from its beginning (line 1, column 1) -/
theorem init_position (t w rest : List Char) (ht : t = w ++ rest) :
    ((PState.init t).adv w.length).line = 1 + w.count '\n' ∧
    ((PState.init t).adv w.length).col = 1 + bytesLen (lastLine w) := by
  have := adv_position w (PState.init t) rest (by simp [PState.init, ht])
  refine ⟨this.1, ?_⟩
  rw [this.2]
  by_cases h : '\n' ∈ w <;> simp [h, PState.init]

end Complgen.Parse.Pos
