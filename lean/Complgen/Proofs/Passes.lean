/-
The passes of the model of check.rs that have a counterpart in the specification (`Spec/Den.lean`)
are the same functions: distributing descriptions, keeping the topmost juxtaposition as one word
with a flattened inside, labelling every item with the index of its branch in the innermost `||`.
-/
import Complgen.Model.Check
import Complgen.Spec.Den
namespace Complgen.Check
open Complgen

mutual
theorem distr_eq_spec : ∀ (e : Expr) (p : Option String), distr e p = Spec.distr e p
  | .dd c d s, p => by simp [distr, Spec.distr, distr_eq_spec c (some d)]
  | .term t none l s, some d => by simp [distr, Spec.distr]
  | .term t (some d') l s, some d => by simp [distr, Spec.distr]
  | .term t d l s, none => by cases d <;> simp [distr, Spec.distr]
  | .nonterm n l s, p => by simp [distr, Spec.distr]
  | .cmd c a l s, p => by simp [distr, Spec.distr]
  | .seq cs s, p => by simp [distr, Spec.distr, distrSeq_eq_spec cs p]
  | .fb cs s, p => by simp [distr, Spec.distr, distrSeq_eq_spec cs p]
  | .alt cs s, p => by simp [distr, Spec.distr, distrAlt_eq_spec cs p]
  | .opt c s, p => by simp [distr, Spec.distr, distr_eq_spec c p]
  | .many1 c s, p => by simp [distr, Spec.distr, distr_eq_spec c p]
  | .sub c l s, p => by simp [distr, Spec.distr, distr_eq_spec c p]
theorem distrSeq_eq_spec : ∀ (es : ExprL) (p : Option String), distrSeq es p = Spec.distrSeq es p
  | .nil, p => by simp [distrSeq, Spec.distrSeq]
  | .cons e es, p => by
    simp [distrSeq, Spec.distrSeq, distr_eq_spec e p, distrSeq_eq_spec es (Spec.distr e p).2]
theorem distrAlt_eq_spec : ∀ (es : ExprL) (p : Option String), distrAlt es p = Spec.distrAlt es p
  | .nil, p => by simp [distrAlt, Spec.distrAlt]
  | .cons e es, p => by
    simp [distrAlt, Spec.distrAlt, distr_eq_spec e p, distrAlt_eq_spec es p, Bool.and_comm]
end

/-- **Descriptions are distributed as the documented rule says** (first literal of each alternative,
spent once per sequence): the model's pass is the specification's function. -/
theorem distribute_eq_spec (e : Expr) : distribute e = (Spec.distr e none).1 := by
  unfold distribute; rw [distr_eq_spec]

mutual
/-- no `( … ) "descr"` node occurs (they are distributed away by the first pass) -/
def NoDD : Expr → Bool
  | .dd .. => false
  | .seq cs _ | .alt cs _ | .fb cs _ => NoDDL cs
  | .opt c _ | .many1 c _ | .sub c _ _ => NoDD c
  | _ => true
def NoDDL : ExprL → Bool
  | .nil => true
  | .cons e es => NoDD e && NoDDL es
end

mutual
/-- `flatten_expr` = the specification's `unword` -/
theorem flatten_spec : ∀ e : Expr, NoDD e = true → flatten e = Spec.unword e
  | .term .., _ => by simp [flatten, Spec.unword]
  | .nonterm .., _ => by simp [flatten, Spec.unword]
  | .cmd .., _ => by simp [flatten, Spec.unword]
  | .sub c l s, h => by simp [flatten, Spec.unword, flatten_spec c (by simpa [NoDD] using h)]
  | .seq cs s, h => by simp [flatten, Spec.unword, flattenL_spec cs (by simpa [NoDD] using h)]
  | .alt cs s, h => by simp [flatten, Spec.unword, flattenL_spec cs (by simpa [NoDD] using h)]
  | .fb cs s, h => by simp [flatten, Spec.unword, flattenL_spec cs (by simpa [NoDD] using h)]
  | .opt c s, h => by simp [flatten, Spec.unword, flatten_spec c (by simpa [NoDD] using h)]
  | .many1 c s, h => by simp [flatten, Spec.unword, flatten_spec c (by simpa [NoDD] using h)]
  | .dd c d s, h => by simp [NoDD] at h
theorem flattenL_spec : ∀ es : ExprL, NoDDL es = true → flattenL es = Spec.unwordL es
  | .nil, _ => by simp [flattenL, Spec.unwordL]
  | .cons e es, h => by
    simp only [NoDDL, Bool.and_eq_true] at h
    simp [flattenL, Spec.unwordL, flatten_spec e h.1, flattenL_spec es h.2]
end

mutual
/-- `collapse_subwords` = the specification's rule 5: the topmost juxtaposition stays one word, its
inside is flattened -/
theorem collapse_spec : ∀ e : Expr, NoDD e = true → collapse e = Spec.words e
  | .term .., _ => by simp [collapse, Spec.words]
  | .nonterm .., _ => by simp [collapse, Spec.words]
  | .cmd .., _ => by simp [collapse, Spec.words]
  | .sub c l s, h => by simp [collapse, Spec.words, flatten_spec c (by simpa [NoDD] using h)]
  | .seq cs s, h => by simp [collapse, Spec.words, collapseL_spec cs (by simpa [NoDD] using h)]
  | .alt cs s, h => by simp [collapse, Spec.words, collapseL_spec cs (by simpa [NoDD] using h)]
  | .fb cs s, h => by simp [collapse, Spec.words, collapseL_spec cs (by simpa [NoDD] using h)]
  | .opt c s, h => by simp [collapse, Spec.words, collapse_spec c (by simpa [NoDD] using h)]
  | .many1 c s, h => by simp [collapse, Spec.words, collapse_spec c (by simpa [NoDD] using h)]
  | .dd c d s, h => by simp [NoDD] at h
theorem collapseL_spec : ∀ es : ExprL, NoDDL es = true → collapseL es = Spec.wordsL es
  | .nil, _ => by simp [collapseL, Spec.wordsL]
  | .cons e es, h => by
    simp only [NoDDL, Bool.and_eq_true] at h
    simp [collapseL, Spec.wordsL, collapse_spec e h.1, collapseL_spec es h.2]
end

mutual
/-- `propagate_fallback_levels` = the specification's rule 4: every item carries the index of its
branch in the innermost enclosing `||` (levels restart inside a nested `||`) -/
theorem propagate_spec : ∀ (e : Expr) (lvl : Nat), NoDD e = true → propagate e lvl = Spec.label e lvl
  | .term .., _, _ => by simp [propagate, Spec.label]
  | .nonterm .., _, _ => by simp [propagate, Spec.label]
  | .cmd .., _, _ => by simp [propagate, Spec.label]
  | .sub c l s, lvl, h => by simp [propagate, Spec.label, propagate_spec c lvl (by simpa [NoDD] using h)]
  | .seq cs s, lvl, h => by simp [propagate, Spec.label, propagateL_spec cs lvl (by simpa [NoDD] using h)]
  | .alt cs s, lvl, h => by simp [propagate, Spec.label, propagateL_spec cs lvl (by simpa [NoDD] using h)]
  | .fb cs s, lvl, h => by simp [propagate, Spec.label, propagateFb_spec cs 0 (by simpa [NoDD] using h)]
  | .opt c s, lvl, h => by simp [propagate, Spec.label, propagate_spec c lvl (by simpa [NoDD] using h)]
  | .many1 c s, lvl, h => by simp [propagate, Spec.label, propagate_spec c lvl (by simpa [NoDD] using h)]
  | .dd c d s, _, h => by simp [NoDD] at h
theorem propagateL_spec : ∀ (es : ExprL) (lvl : Nat), NoDDL es = true → propagateL es lvl = Spec.labelL es lvl
  | .nil, _, _ => by simp [propagateL, Spec.labelL]
  | .cons e es, lvl, h => by
    simp only [NoDDL, Bool.and_eq_true] at h
    simp [propagateL, Spec.labelL, propagate_spec e lvl h.1, propagateL_spec es lvl h.2]
theorem propagateFb_spec : ∀ (es : ExprL) (i : Nat), NoDDL es = true → propagateFb es i = Spec.labelFb es i
  | .nil, _, _ => by simp [propagateFb, Spec.labelFb]
  | .cons e es, i, h => by
    simp only [NoDDL, Bool.and_eq_true] at h
    simp [propagateFb, Spec.labelFb, propagate_spec e i h.1, propagateFb_spec es (i + 1) h.2]
end

mutual
/-- after distributing, no `( … ) "descr"` node is left -/
theorem distr_noDD : ∀ (e : Expr) (p : Option String), NoDD (distr e p).1 = true
  | .dd c d s, p => by simp [distr, distr_noDD c (some d)]
  | .term t none l s, some d => by simp [distr, NoDD]
  | .term t (some d') l s, some d => by simp [distr, NoDD]
  | .term t d l s, none => by cases d <;> simp [distr, NoDD]
  | .nonterm n l s, p => by simp [distr, NoDD]
  | .cmd c a l s, p => by simp [distr, NoDD]
  | .seq cs s, p => by simp [distr, NoDD, distrSeq_noDD cs p]
  | .fb cs s, p => by simp [distr, NoDD, distrSeq_noDD cs p]
  | .alt cs s, p => by simp [distr, NoDD, distrAlt_noDD cs p]
  | .opt c s, p => by simp [distr, NoDD, distr_noDD c p]
  | .many1 c s, p => by simp [distr, NoDD, distr_noDD c p]
  | .sub c l s, p => by simp [distr, NoDD, distr_noDD c p]
theorem distrSeq_noDD : ∀ (es : ExprL) (p : Option String), NoDDL (distrSeq es p).1 = true
  | .nil, p => by simp [distrSeq, NoDDL]
  | .cons e es, p => by simp [distrSeq, NoDDL, distr_noDD e p, distrSeq_noDD es (distr e p).2]
theorem distrAlt_noDD : ∀ (es : ExprL) (p : Option String), NoDDL (distrAlt es p).1 = true
  | .nil, p => by simp [distrAlt, NoDDL]
  | .cons e es, p => by simp [distrAlt, NoDDL, distr_noDD e p, distrAlt_noDD es p]
end

theorem distribute_noDD (e : Expr) : NoDD (distribute e) = true := distr_noDD e none

end Complgen.Check
