/-
The depth-first traversal of check.rs (`get_nonterminals_resolution_order`,
`traverse_nonterminal_dependencies_dfs`), as modelled in `Model/Check.lean`: when it succeeds, the
order it returns lists every vertex once and after everything it depends on.
-/
import Complgen.Model.Check
namespace Complgen.Check
open Complgen

def kids (G : Graph) (v : String) : List String := ((G.get? v).getD []).map (·.1)
def verts (G : Graph) : List String := G.map (·.1)

/-- every vertex of the list comes after its children -/
def Closed (G : Graph) (R : List String) : Prop :=
  ∀ pre n post, R = pre ++ n :: post → ∀ c ∈ kids G n, c ∈ pre

structure DfsInv (G : Graph) (path : List String) (st : DfsState) : Prop where
  nodup : st.result.Nodup
  closed : Closed G st.result
  vis : ∀ u ∈ st.visited, u ∈ st.result ∨ u ∈ path
  res : ∀ u ∈ st.result, u ∈ st.visited ∧ u ∉ path

structure DfsPost (G : Graph) (path : List String) (v : String) (st st' : DfsState) : Prop where
  inv : DfsInv G path st'
  mono_v : ∀ u ∈ st.visited, u ∈ st'.visited
  mono_r : ∀ u ∈ st.result, u ∈ st'.result
  self : v ∈ st'.visited
  kids : ∀ c ∈ kids G v, c ∈ st'.result

def DfsSpec (G : Graph) (fuel : Nat) : Prop :=
  ∀ (v : String) (path : List (String × Span)) (st st' : DfsState),
    DfsInv G (path.map (·.1)) st → v ∈ path.map (·.1) → v ∉ st.visited → (path.map (·.1)).Nodup →
    (∀ u ∈ path.map (·.1), u ∈ verts G) → (verts G).length + 1 ≤ path.length + fuel →
    dfs G fuel v path st = .ok st' → DfsPost G (path.map (·.1)) v st st'

theorem closed_snoc (G : Graph) (R : List String) (c : String) (h : Closed G R) (hk : ∀ k ∈ kids G c, k ∈ R) :
    Closed G (R ++ [c]) := by
  intro pre n post e k hkn
  rcases List.eq_nil_or_concat post with rfl | ⟨post', x, rfl⟩
  · -- `n` is the new last element
    have : R ++ [c] = pre ++ [n] := e
    have h2 := List.append_inj' this rfl
    obtain ⟨h3, h4⟩ := h2
    simp only [List.cons.injEq, and_true] at h4
    subst h3 h4
    exact hk k hkn
  · have : R ++ [c] = (pre ++ n :: post') ++ [x] := by simp [e]
    have h2 := List.append_inj' this rfl
    exact h pre n post' h2.1 k hkn

theorem any_fst_iff (path : List (String × Span)) (c : String) :
    (path.any fun x => x.1 == c) = true ↔ c ∈ path.map (·.1) := by
  simp only [List.any_eq_true, List.mem_map, beq_iff_eq]

theorem go_spec (G : Graph) (fuel : Nat) (ih : DfsSpec G fuel) (v : String) (path : List (String × Span))
    (hnd : (path.map (·.1)).Nodup) (hV : ∀ u ∈ path.map (·.1), u ∈ verts G)
    (hfuel : (verts G).length + 1 ≤ path.length + 1 + fuel) :
    ∀ (rest : List (String × Span)) (st st' : DfsState), DfsInv G (path.map (·.1)) st →
      (∀ c ∈ rest.map (·.1), c ∈ verts G) →
      dfs.go G fuel v path rest st = .ok st' →
      DfsInv G (path.map (·.1)) st' ∧ (∀ u ∈ st.visited, u ∈ st'.visited) ∧ (∀ u ∈ st.result, u ∈ st'.result) ∧
        (∀ c ∈ rest.map (·.1), c ∈ st'.result)
  | [], st, st', inv, _, h => by
    rw [dfs.go.eq_1] at h
    cases h
    exact ⟨inv, fun _ h => h, fun _ h => h, fun _ h => by cases h⟩
  | (c, sp) :: rest, st, st', inv, hrest, h => by
    rw [dfs.go.eq_2] at h
    have hrest' : ∀ c' ∈ rest.map (·.1), c' ∈ verts G := fun c' hc' => hrest c' (by simp at hc' ⊢; exact .inr hc')
    by_cases hp : (path.any fun x => x.1 == c) = true
    · simp [hp] at h
    · simp only [hp, if_false] at h
      have hcp : c ∉ path.map (·.1) := fun e => hp ((any_fst_iff path c).mpr e)
      by_cases hv : st.visited.contains c = true
      · simp only [hv, if_true] at h
        have hcv : c ∈ st.visited := List.contains_iff_mem.mp hv
        have hcr : c ∈ st.result := by
          rcases inv.vis c hcv with h1 | h1
          · exact h1
          · exact absurd h1 hcp
        obtain ⟨i1, i2, i3, i4⟩ := go_spec G fuel ih v path hnd hV hfuel rest st st' inv hrest' h
        refine ⟨i1, i2, i3, ?_⟩
        intro c' hc'
        simp only [List.map_cons, List.mem_cons] at hc'
        rcases hc' with rfl | hc'
        · exact i3 _ hcr
        · exact i4 c' hc'
      · simp only [hv, if_false] at h
        have hcv : c ∉ st.visited := fun e => hv (List.contains_iff_mem.mpr e)
        cases hd : dfs G fuel c (path ++ [(c, sp)]) st with
        | error e => rw [hd] at h; cases h
        | ok st1 =>
          rw [hd] at h
          simp only at h
          have hpn : (path ++ [(c, sp)]).map (·.1) = path.map (·.1) ++ [c] := by simp
          have inv1 : DfsInv G ((path ++ [(c, sp)]).map (·.1)) st := by
            rw [hpn]
            refine ⟨inv.nodup, inv.closed, ?_, ?_⟩
            · intro u hu
              rcases inv.vis u hu with h1 | h1
              · exact .inl h1
              · exact .inr (List.mem_append_left _ h1)
            · intro u hu
              have := inv.res u hu
              refine ⟨this.1, ?_⟩
              intro hmem
              rcases List.mem_append.mp hmem with h1 | h1
              · exact this.2 h1
              · simp only [List.mem_singleton] at h1
                subst h1; exact hcv this.1
          have post := ih c (path ++ [(c, sp)]) st st1 inv1 (by rw [hpn]; simp) hcv
            (by rw [hpn]; exact List.nodup_append.mpr ⟨hnd, by simp, by
                  intro a ha b hb
                  simp only [List.mem_singleton] at hb
                  subst hb
                  intro e; subst e; exact hcp ha⟩)
            (by
              rw [hpn]
              intro u hu
              rcases List.mem_append.mp hu with h1 | h1
              · exact hV u h1
              · simp only [List.mem_singleton] at h1
                subst h1
                exact hrest u (by simp))
            (by simp only [List.length_append, List.length_singleton]; omega)
            hd
          rw [hpn] at post
          -- the state after `c` has been appended
          have inv2 : DfsInv G (path.map (·.1)) { visited := st1.visited, result := st1.result ++ [c] } := by
            refine ⟨?_, ?_, ?_, ?_⟩
            · have hc1 : c ∉ st1.result := fun e => (post.inv.res c e).2 (by simp)
              exact List.nodup_append.mpr ⟨post.inv.nodup, by simp, by
                intro a ha b hb
                simp only [List.mem_singleton] at hb
                subst hb
                intro e; subst e; exact hc1 ha⟩
            · exact closed_snoc G st1.result c post.inv.closed post.kids
            · intro u hu
              rcases post.inv.vis u hu with h1 | h1
              · exact .inl (List.mem_append_left _ h1)
              · rcases List.mem_append.mp h1 with h2 | h2
                · exact .inr h2
                · simp only [List.mem_singleton] at h2
                  subst h2
                  exact .inl (by simp)
            · intro u hu
              rcases List.mem_append.mp hu with h1 | h1
              · have := post.inv.res u h1
                exact ⟨this.1, fun e => this.2 (List.mem_append_left _ e)⟩
              · simp only [List.mem_singleton] at h1
                subst h1
                exact ⟨post.self, hcp⟩
          obtain ⟨i1, i2, i3, i4⟩ := go_spec G fuel ih v path hnd hV hfuel rest _ st' inv2 hrest' h
          refine ⟨i1, fun u hu => i2 u (post.mono_v u hu),
            fun u hu => i3 u (List.mem_append_left _ (post.mono_r u hu)), ?_⟩
          intro c' hc'
          simp only [List.map_cons, List.mem_cons] at hc'
          rcases hc' with rfl | hc'
          · exact i3 _ (by simp)
          · exact i4 c' hc'


/-- the children of a vertex are vertices -/
def KidsIn (G : Graph) : Prop := ∀ u c, c ∈ kids G u → c ∈ verts G

theorem dfs_spec (G : Graph) (hk : KidsIn G) : ∀ fuel, DfsSpec G fuel
  | 0 => by
    intro v path st st' _ _ _ hnd hV hf _
    have := List.Nodup.length_le_of_subset hnd (fun u hu => hV u hu)
    simp only [List.length_map] at this
    omega
  | fuel + 1 => by
    intro v path st st' inv hvp hvv hnd hV hf h
    rw [dfs.eq_2] at h
    have inv0 : DfsInv G (path.map (·.1)) { visited := v :: st.visited, result := st.result } := by
      refine ⟨inv.nodup, inv.closed, ?_, ?_⟩
      · intro u hu
        rcases List.mem_cons.mp hu with rfl | hu
        · exact .inr hvp
        · exact inv.vis u hu
      · intro u hu
        have := inv.res u hu
        exact ⟨List.mem_cons_of_mem _ this.1, this.2⟩
    have hkids : ∀ c ∈ ((G.get? v).getD []).map (·.1), c ∈ verts G := fun c hc => hk v c hc
    obtain ⟨i1, i2, i3, i4⟩ := go_spec G fuel (dfs_spec G hk fuel) v path hnd hV (by omega)
      ((G.get? v).getD []) _ st' inv0 hkids h
    exact ⟨i1, fun u hu => i2 u (List.mem_cons_of_mem _ hu), i3, i2 v (by simp), i4⟩

/-- the outer loop of `resolutionOrder` -/
theorem loop_spec (defs : AList (Span × Expr)) (G : Graph) (hk : KidsIn G) :
    ∀ (l : List String) (st st' : DfsState), DfsInv G [] st → (∀ v ∈ l, v ∈ verts G) →
      resolutionOrder.loop defs G ((verts G).length + 1) l st = .ok st' →
      DfsInv G [] st' ∧ (∀ u ∈ st.visited, u ∈ st'.visited) ∧ (∀ v ∈ l, v ∈ st'.visited)
  | [], st, st', inv, _, h => by
    unfold resolutionOrder.loop at h
    cases h
    exact ⟨inv, fun _ h => h, fun _ h => by cases h⟩
  | v :: rest, st, st', inv, hl, h => by
    unfold resolutionOrder.loop at h
    have hl' : ∀ v' ∈ rest, v' ∈ verts G := fun v' hv' => hl v' (List.mem_cons_of_mem _ hv')
    by_cases hv : st.visited.contains v = true
    · simp only [hv, if_true] at h
      obtain ⟨i1, i2, i3⟩ := loop_spec defs G hk rest st st' inv hl' h
      refine ⟨i1, i2, ?_⟩
      intro v' hv'
      rcases List.mem_cons.mp hv' with rfl | hv'
      · exact i2 _ (List.contains_iff_mem.mp hv)
      · exact i3 v' hv'
    · simp only [hv, if_false] at h
      have hvv : v ∉ st.visited := fun e => hv (List.contains_iff_mem.mpr e)
      generalize hsp : (((defs.get? v).map (·.1)).getD default) = sp at h
      cases hd : dfs G ((verts G).length + 1) v [(v, sp)] st with
      | error e => rw [hd] at h; cases h
      | ok st1 =>
        rw [hd] at h
        simp only at h
        have inv1 : DfsInv G ([(v, sp)].map (·.1)) st := by
          refine ⟨inv.nodup, inv.closed, ?_, ?_⟩
          · intro u hu
            rcases inv.vis u hu with h1 | h1
            · exact .inl h1
            · cases h1
          · intro u hu
            have := inv.res u hu
            refine ⟨this.1, ?_⟩
            simp only [List.map_cons, List.map_nil, List.mem_singleton]
            intro e; subst e; exact hvv this.1
        have post := dfs_spec G hk _ v [(v, sp)] st st1 inv1 (by simp) hvv (by simp)
          (by intro u hu; simp at hu; subst hu; exact hl _ (by simp))
          (by simp) hd
        simp only [List.map_cons, List.map_nil] at post
        have inv2 : DfsInv G [] { visited := st1.visited, result := st1.result ++ [v] } := by
          refine ⟨?_, ?_, ?_, ?_⟩
          · have hc1 : v ∉ st1.result := fun e => (post.inv.res v e).2 (by simp)
            exact List.nodup_append.mpr ⟨post.inv.nodup, by simp, by
              intro a ha b hb
              simp only [List.mem_singleton] at hb
              subst hb
              intro e; subst e; exact hc1 ha⟩
          · exact closed_snoc G st1.result v post.inv.closed post.kids
          · intro u hu
            rcases post.inv.vis u hu with h1 | h1
            · exact .inl (List.mem_append_left _ h1)
            · simp only [List.mem_singleton] at h1
              subst h1
              exact .inl (by simp)
          · intro u hu
            rcases List.mem_append.mp hu with h1 | h1
            · exact ⟨(post.inv.res u h1).1, by simp⟩
            · simp only [List.mem_singleton] at h1
              subst h1
              exact ⟨post.self, by simp⟩
        obtain ⟨i1, i2, i3⟩ := loop_spec defs G hk rest _ st' inv2 hl' h
        refine ⟨i1, fun u hu => i2 u (post.mono_v u hu), ?_⟩
        intro v' hv'
        rcases List.mem_cons.mp hv' with rfl | hv'
        · exact i2 _ post.self
        · exact i3 v' hv'


theorem find?_map_key {α β} (f : String × α → String × β) (hf : ∀ p, (f p).1 = p.1) (k : String) :
    ∀ l : List (String × α), (l.map f).find? (fun p => p.1 == k) = (l.find? (fun p => p.1 == k)).map f
  | [] => rfl
  | x :: xs => by
    simp only [List.map_cons, List.find?_cons, hf x]
    cases x.1 == k with
    | true => simp
    | false => simpa using find?_map_key f hf k xs

theorem depGraph_get (D : AList (Span × Expr)) (n : String) :
    (depGraph D).get? n = (D.get? n).map fun v => (refs v.2).filter fun p => D.contains p.1 := by
  unfold depGraph AList.get?
  have := find?_map_key (fun x : String × Span × Expr => (x.1, (refs x.2.2).filter fun p => D.contains p.1))
    (fun _ => rfl) n D
  rw [this]
  simp [Option.map_map, Function.comp_def]

theorem verts_depGraph (D : AList (Span × Expr)) : verts (depGraph D) = D.map (·.1) := by
  unfold verts depGraph
  simp [List.map_map, Function.comp_def]

theorem kidsIn_depGraph (D : AList (Span × Expr)) : KidsIn (depGraph D) := by
  intro u c hc
  unfold kids at hc
  rw [depGraph_get] at hc
  rw [verts_depGraph]
  cases hg : D.get? u with
  | none => simp [hg] at hc
  | some v =>
    simp only [hg, Option.map_some, Option.getD_some, List.mem_map, List.mem_filter] at hc
    obtain ⟨p, ⟨_, hcont⟩, rfl⟩ := hc
    unfold AList.contains at hcont
    obtain ⟨q, hq, hqe⟩ := List.any_eq_true.mp hcont
    have : q.1 = p.1 := by simpa using hqe
    exact List.mem_map.mpr ⟨q, hq, this⟩

/-- **What a successful `resolutionOrder` returns**: the vertices that depend on something, out of a
list `R` that contains every vertex exactly once, each after all its children. -/
theorem resolutionOrder_ok (D : AList (Span × Expr)) (order : List String) (h : resolutionOrder D = .ok order) :
    ∃ R : List String, order = R.filter (fun v => !(((depGraph D).get? v).getD []).isEmpty) ∧ R.Nodup ∧
      Closed (depGraph D) R ∧ ∀ v ∈ verts (depGraph D), v ∈ R := by
  unfold resolutionOrder at h
  by_cases he : D.isEmpty = true
  · simp only [he, if_true] at h
    cases h
    have : D = [] := by simpa using he
    subst this
    exact ⟨[], rfl, List.nodup_nil, (fun pre n post e => by simp at e), (fun v hv => by simp [verts, depGraph] at hv)⟩
  · have he' : D.isEmpty = false := by simpa using he
    simp only [he', Bool.false_eq_true, if_false] at h
    generalize hl : (roots (depGraph D) ++ List.filter (fun v => !(roots (depGraph D)).contains v)
      (List.map (fun x => x.1) (depGraph D))) = l at h
    have hlen : (depGraph D).length = (verts (depGraph D)).length := by simp [verts]
    rw [hlen] at h
    cases hloop : resolutionOrder.loop D (depGraph D) ((verts (depGraph D)).length + 1) l ⟨[], []⟩ with
    | error e => rw [hloop] at h; cases h
    | ok st =>
      rw [hloop] at h
      simp only [Except.ok.injEq] at h
      have inv0 : DfsInv (depGraph D) [] ⟨[], []⟩ :=
        ⟨List.nodup_nil, (fun pre n post e => by simp at e), (fun u hu => by cases hu), (fun u hu => by cases hu)⟩
      have hlV : ∀ v ∈ l, v ∈ verts (depGraph D) := by
        intro v hv
        rw [← hl] at hv
        rcases List.mem_append.mp hv with h1 | h1
        · unfold roots at h1
          exact (List.mem_filter.mp h1).1
        · exact (List.mem_filter.mp h1).1
      obtain ⟨i1, _, i3⟩ := loop_spec D (depGraph D) (kidsIn_depGraph D) l _ st inv0 hlV hloop
      refine ⟨st.result, h.symm, i1.nodup, i1.closed, ?_⟩
      intro v hv
      have hvl : v ∈ l := by
        rw [← hl]
        by_cases hr : (roots (depGraph D)).contains v = true
        · exact List.mem_append_left _ (List.contains_iff_mem.mp hr)
        · exact List.mem_append_right _ (List.mem_filter.mpr ⟨hv, by simpa using hr⟩)
      rcases i1.vis v (i3 v hvl) with h1 | h1
      · exact h1
      · cases h1

end Complgen.Check
