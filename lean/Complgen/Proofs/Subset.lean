/-
Correctness of the model of `dfa_from_regex` (`buildAuto`): for EVERY work-list schedule the
automaton returned accepts exactly the words of the position automaton given by first/follow.

Architecture
  1. `normSet` keeps membership; `targetSet` is the union of the follow sets of the positions
     carrying the symbol.
  2. `Acc`/`SetAcc`: cons-style semantics of a position / a set of positions.
     `SetAcc S (x :: w) ↔ SetAcc (targetSet S x) w`.
  3. `PosAccepts first … w ↔ SetAcc first w` (snoc-style spec paths vs. cons-style semantics).
  4. Invariant of the work-list loop (`Base`, `Closed`, `Ext`): it never mentions the schedule.
  5. `Auto.run` on the result tracks `targetSet`; symbols outside `inputs` are rejected by both.
-/
import Complgen.Spec.Lang
namespace Complgen

deriving instance ReflBEq, LawfulBEq for Inp

namespace Subset

/-! ### 1. `normSet`, `targetSet` -/

theorem mem_insertSorted {a x : Nat} {l : List Nat} :
    a ∈ insertSorted x l ↔ a = x ∨ a ∈ l := by
  induction l with
  | nil => simp [insertSorted]
  | cons y ys ih =>
    simp only [insertSorted]
    split
    · simp
    · split
      · rename_i h
        have hxy : x = y := by simpa using h
        subst hxy
        simp
      · simp only [List.mem_cons, ih]
        grind

theorem mem_foldl_insertSorted {a : Nat} (l init : List Nat) :
    a ∈ l.foldl (fun acc x => insertSorted x acc) init ↔ a ∈ init ∨ a ∈ l := by
  induction l generalizing init with
  | nil => simp
  | cons x xs ih =>
    simp only [List.foldl_cons, ih, mem_insertSorted, List.mem_cons]
    grind

theorem mem_normSet {a : Nat} {l : List Nat} : a ∈ normSet l ↔ a ∈ l := by
  simp [normSet, mem_foldl_insertSorted]

section Sem
variable (follow : Nat → List Nat) (symOf : Nat → Option Inp) (endPos : Nat)

theorem mem_targetSet {S : List Nat} {x : Inp} {q : Nat} :
    q ∈ targetSet follow symOf S x ↔ ∃ p, p ∈ S ∧ symOf p = some x ∧ q ∈ follow p := by
  simp only [targetSet, mem_normSet, List.mem_flatMap]
  constructor
  · rintro ⟨p, hp, hq⟩
    split at hq
    · rename_i h
      exact ⟨p, hp, by simpa using h, hq⟩
    · simp at hq
  · rintro ⟨p, hp, hs, hq⟩
    exact ⟨p, hp, by simp [hs, hq]⟩

/-! ### 2. Semantics of positions and sets of positions -/

/-- From position `q` the word `w` can be read (each position contributes its own symbol, moves
are follow-steps) ending in the end marker. -/
def Acc : Nat → List Inp → Prop
  | q, [] => q = endPos
  | q, x :: w => symOf q = some x ∧ ∃ q', q' ∈ follow q ∧ Acc q' w

def SetAcc (S : List Nat) (w : List Inp) : Prop := ∃ q, q ∈ S ∧ Acc follow symOf endPos q w

theorem setAcc_nil {S : List Nat} : SetAcc follow symOf endPos S [] ↔ endPos ∈ S := by
  constructor
  · rintro ⟨q, hq, h⟩
    simp only [Acc] at h
    exact h ▸ hq
  · intro h
    exact ⟨endPos, h, by simp [Acc]⟩

theorem setAcc_cons {S : List Nat} {x : Inp} {w : List Inp} :
    SetAcc follow symOf endPos S (x :: w) ↔
      SetAcc follow symOf endPos (targetSet follow symOf S x) w := by
  constructor
  · rintro ⟨q, hq, h⟩
    simp only [Acc] at h
    obtain ⟨hs, q', hq', hacc⟩ := h
    exact ⟨q', (mem_targetSet follow symOf).2 ⟨q, hq, hs, hq'⟩, hacc⟩
  · rintro ⟨q', hq', hacc⟩
    obtain ⟨q, hq, hs, hqq⟩ := (mem_targetSet follow symOf).1 hq'
    exact ⟨q, hq, by simp only [Acc]; exact ⟨hs, q', hqq, hacc⟩⟩

theorem setAcc_congr {S S' : List Nat} {w : List Inp} (h : ∀ a, a ∈ S ↔ a ∈ S') :
    SetAcc follow symOf endPos S w ↔ SetAcc follow symOf endPos S' w := by
  constructor
  · rintro ⟨q, hq, hacc⟩
    exact ⟨q, (h q).1 hq, hacc⟩
  · rintro ⟨q, hq, hacc⟩
    exact ⟨q, (h q).2 hq, hacc⟩

theorem not_setAcc_nil {w : List Inp} : ¬ SetAcc follow symOf endPos [] w := by
  rintro ⟨q, hq, _⟩
  simp at hq

/-- Every symbol read from a position within range is the symbol of some position below
`endPos`. -/
theorem acc_syms (hend : symOf endPos = none) (hfollow : ∀ p q, q ∈ follow p → q ≤ endPos)
    {q : Nat} {w : List Inp} (hq : q ≤ endPos) (h : Acc follow symOf endPos q w) :
    ∀ x ∈ w, ∃ p, p < endPos ∧ symOf p = some x := by
  induction w generalizing q with
  | nil => simp
  | cons y w ih =>
    simp only [Acc] at h
    obtain ⟨hs, q', hq', hacc⟩ := h
    intro x hx
    rcases List.mem_cons.1 hx with rfl | hx
    · refine ⟨q, ?_, hs⟩
      rcases Nat.lt_or_eq_of_le hq with hlt | heq
      · exact hlt
      · rw [heq, hend] at hs
        cases hs
    · exact ih (hfollow _ _ hq') hacc x hx

/-! ### 3. The spec's snoc-style paths vs. the cons-style semantics -/

theorem posPath_cons {first : List Nat} {p : Nat} {ps cur : List Nat} (hp : p ∈ first)
    (h : PosPath (follow p) follow ps cur) : PosPath first follow (p :: ps) cur := by
  induction h with
  | nil => exact PosPath.snoc p PosPath.nil hp
  | snoc q _ hq ih => exact PosPath.snoc q ih hq

theorem posPath_cases {first : List Nat} {ps cur : List Nat} (h : PosPath first follow ps cur) :
    (ps = [] ∧ cur = first) ∨
      ∃ p ps', ps = p :: ps' ∧ p ∈ first ∧ PosPath (follow p) follow ps' cur := by
  induction h with
  | nil => exact Or.inl ⟨rfl, rfl⟩
  | snoc q _ hq ih =>
    right
    rcases ih with ⟨rfl, rfl⟩ | ⟨p, ps', rfl, hp, hpath⟩
    · exact ⟨q, [], rfl, hq, PosPath.nil⟩
    · exact ⟨p, ps' ++ [q], rfl, hp, PosPath.snoc q hpath hq⟩

theorem posAccepts_of_acc (hend : symOf endPos = none) {first : List Nat} {q : Nat}
    {w : List Inp} (hq : q ∈ first) (h : Acc follow symOf endPos q w) :
    PosAccepts first follow endPos symOf w := by
  induction w generalizing first q with
  | nil =>
    simp only [Acc] at h
    subst h
    exact ⟨[], first, PosPath.nil, hq, by simp, rfl⟩
  | cons x w ih =>
    simp only [Acc] at h
    obtain ⟨hs, q', hq', hacc⟩ := h
    obtain ⟨ps, cur, hpath, hcur, hne, hmap⟩ := ih hq' hacc
    refine ⟨q :: ps, cur, posPath_cons follow hq hpath, hcur, ?_, ?_⟩
    · intro p hp
      rcases List.mem_cons.1 hp with rfl | hp
      · intro heq
        rw [heq, hend] at hs
        cases hs
      · exact hne p hp
    · simp [hs, hmap]

theorem setAcc_of_posAccepts {first : List Nat} {w : List Inp}
    (h : PosAccepts first follow endPos symOf w) : SetAcc follow symOf endPos first w := by
  induction w generalizing first with
  | nil =>
    obtain ⟨ps, cur, hpath, hcur, _, hmap⟩ := h
    have hps : ps = [] := by simpa using hmap
    subst hps
    rcases posPath_cases follow hpath with ⟨_, rfl⟩ | ⟨p, ps', hps, _⟩
    · exact (setAcc_nil follow symOf endPos).2 hcur
    · cases hps
  | cons x w ih =>
    obtain ⟨ps, cur, hpath, hcur, hne, hmap⟩ := h
    rcases posPath_cases follow hpath with ⟨rfl, _⟩ | ⟨p, ps', rfl, hp, hpath'⟩
    · simp at hmap
    · simp only [List.map_cons, List.cons.injEq] at hmap
      obtain ⟨q', hq', hacc⟩ := ih (first := follow p)
        ⟨ps', cur, hpath', hcur, fun a ha => hne a (by simp [ha]), hmap.2⟩
      exact ⟨p, hp, by simp only [Acc]; exact ⟨hmap.1, q', hq', hacc⟩⟩

theorem posAccepts_iff_setAcc (hend : symOf endPos = none) {first : List Nat} {w : List Inp} :
    PosAccepts first follow endPos symOf w ↔ SetAcc follow symOf endPos first w := by
  constructor
  · exact setAcc_of_posAccepts follow symOf endPos
  · rintro ⟨q, hq, hacc⟩
    exact posAccepts_of_acc follow symOf endPos hend hq hacc

end Sem

/-! ### 4. The invariant of the work-list loop -/

theorem mem_removeNth_imp {α} {l : List α} {k : Nat} {x : α} (h : x ∈ removeNth l k) : x ∈ l := by
  induction l generalizing k with
  | nil => simp [removeNth] at h
  | cons y ys ih =>
    cases k with
    | zero => simp only [removeNth] at h; simp [h]
    | succ k =>
      simp only [removeNth, List.mem_cons] at h
      rcases h with h | h
      · simp [h]
      · simp [ih h]

theorem mem_removeNth_or {α} {l : List α} {k : Nat} {s x : α} (hk : l[k]? = some s) (h : x ∈ l) :
    x = s ∨ x ∈ removeNth l k := by
  induction l generalizing k with
  | nil => simp at h
  | cons y ys ih =>
    cases k with
    | zero =>
      simp only [List.getElem?_cons_zero, Option.some.injEq] at hk
      subst hk
      simpa [removeNth] using h
    | succ k =>
      simp only [List.getElem?_cons_succ] at hk
      simp only [removeNth, List.mem_cons] at h ⊢
      rcases h with h | h
      · exact Or.inr (Or.inl h)
      · rcases ih hk h with h | h
        · exact Or.inl h
        · exact Or.inr (Or.inr h)

section Loop
variable (follow : Nat → List Nat) (symOf : Nat → Option Inp) (inps : List (Nat × Inp))

/-- The part of the invariant that does not mention the work-list: ids name sets injectively
(both ways) and every recorded transition is a correct non-empty target. -/
structure Base (st : BuildState) : Prop where
  lt : ∀ e ∈ st.ids, e.2 < st.next
  inj2 : ∀ e ∈ st.ids, ∀ e' ∈ st.ids, e.2 = e'.2 → e.1 = e'.1
  inj1 : ∀ e ∈ st.ids, ∀ e' ∈ st.ids, e.1 = e'.1 → e.2 = e'.2
  tr : ∀ t ∈ st.trans, ∃ S inp, (S, t.1) ∈ st.ids ∧ (t.2.1, inp) ∈ inps ∧
        targetSet follow symOf S inp ≠ [] ∧ (targetSet follow symOf S inp, t.2.2) ∈ st.ids

/-- Every named set that is no longer pending has all its non-empty targets recorded. -/
def Closed (st : BuildState) : Prop :=
  ∀ S i, (S, i) ∈ st.ids → S ∉ st.work → ∀ k inp, (k, inp) ∈ inps →
    targetSet follow symOf S inp ≠ [] → ∃ j, (i, k, j) ∈ st.trans

/-- `st'` extends `st`: everything is kept, and new names are pending. -/
structure Ext (st st' : BuildState) : Prop where
  ids : ∀ e ∈ st.ids, e ∈ st'.ids
  trans : ∀ t ∈ st.trans, t ∈ st'.trans
  work : ∀ S ∈ st.work, S ∈ st'.work
  fresh : ∀ e ∈ st'.ids, e ∈ st.ids ∨ e.1 ∈ st'.work

theorem Ext.refl (st : BuildState) : Ext st st :=
  ⟨fun _ h => h, fun _ h => h, fun _ h => h, fun _ h => Or.inl h⟩

theorem Ext.trans' {a b c : BuildState} (h1 : Ext a b) (h2 : Ext b c) : Ext a c := by
  refine ⟨fun e h => h2.ids e (h1.ids e h), fun t h => h2.trans t (h1.trans t h),
    fun S h => h2.work S (h1.work S h), ?_⟩
  intro e he
  rcases h2.fresh e he with h | h
  · rcases h1.fresh e h with h | h
    · exact Or.inl h
    · exact Or.inr (h2.work _ h)
  · exact Or.inr h

theorem base_found {st : BuildState} {S : List Nat} {fromId i id : Nat} {inp : Inp}
    (hb : Base follow symOf inps st) (hS : (S, fromId) ∈ st.ids) (hin : (i, inp) ∈ inps)
    (hne : targetSet follow symOf S inp ≠ [])
    (hid : (targetSet follow symOf S inp, id) ∈ st.ids) :
    Base follow symOf inps { st with trans := st.trans ++ [(fromId, i, id)] } := by
  refine ⟨hb.lt, hb.inj2, hb.inj1, ?_⟩
  intro t ht
  simp only [List.mem_append, List.mem_singleton] at ht
  rcases ht with ht | rfl
  · exact hb.tr t ht
  · exact ⟨S, inp, hS, hin, hne, hid⟩

theorem ext_found (st : BuildState) (x : Nat × Nat × Nat) :
    Ext st { st with trans := st.trans ++ [x] } :=
  ⟨fun _ h => h, fun _ h => by simp [h], fun _ h => h, fun _ h => Or.inl h⟩

theorem base_new {st : BuildState} {S : List Nat} {fromId i : Nat} {inp : Inp}
    (hb : Base follow symOf inps st) (hS : (S, fromId) ∈ st.ids) (hin : (i, inp) ∈ inps)
    (hne : targetSet follow symOf S inp ≠ [])
    (hnone : ∀ e ∈ st.ids, e.1 ≠ targetSet follow symOf S inp) :
    Base follow symOf inps
      { ids := st.ids ++ [(targetSet follow symOf S inp, st.next)], next := st.next + 1,
        work := st.work ++ [targetSet follow symOf S inp],
        trans := st.trans ++ [(fromId, i, st.next)] } := by
  refine ⟨?_, ?_, ?_, ?_⟩
  · intro e he
    simp only [List.mem_append, List.mem_singleton] at he
    rcases he with he | rfl
    · exact Nat.lt_succ_of_lt (hb.lt e he)
    · exact Nat.lt_succ_self _
  · intro e he e' he' heq
    simp only [List.mem_append, List.mem_singleton] at he he'
    rcases he with he | rfl <;> rcases he' with he' | rfl
    · exact hb.inj2 e he e' he' heq
    · have := hb.lt e he
      simp only at heq
      omega
    · have := hb.lt e' he'
      simp only at heq
      omega
    · rfl
  · intro e he e' he' heq
    simp only [List.mem_append, List.mem_singleton] at he he'
    rcases he with he | rfl <;> rcases he' with he' | rfl
    · exact hb.inj1 e he e' he' heq
    · exact absurd heq (hnone e he)
    · exact absurd heq.symm (hnone e' he')
    · rfl
  · intro t ht
    simp only [List.mem_append, List.mem_singleton] at ht
    rcases ht with ht | rfl
    · obtain ⟨S', inp', h1, h2, h3, h4⟩ := hb.tr t ht
      exact ⟨S', inp', by simp [h1], h2, h3, by simp [h4]⟩
    · exact ⟨S, inp, by simp [hS], hin, hne, by simp⟩

theorem ext_new (st : BuildState) (T : List Nat) (x : Nat × Nat × Nat) :
    Ext st { ids := st.ids ++ [(T, st.next)], next := st.next + 1, work := st.work ++ [T],
             trans := st.trans ++ [x] } := by
  refine ⟨fun _ h => by simp [h], fun _ h => by simp [h], fun _ h => by simp [h], ?_⟩
  intro e he
  simp only [List.mem_append, List.mem_singleton] at he
  rcases he with he | rfl
  · exact Or.inl he
  · right; simp

/-- Processing the inputs `rest` for the popped state `S` keeps the invariant, only extends the
build state, and records every non-empty target of `S` on the symbols of `rest`. -/
theorem processInputs_spec (S : List Nat) (fromId : Nat) (rest : List (Nat × Inp))
    (st : BuildState) (hb : Base follow symOf inps st) (hS : (S, fromId) ∈ st.ids)
    (hrest : ∀ x ∈ rest, x ∈ inps) :
    Base follow symOf inps (processInputs follow symOf S fromId rest st) ∧
    Ext st (processInputs follow symOf S fromId rest st) ∧
    ∀ k inp, (k, inp) ∈ rest → targetSet follow symOf S inp ≠ [] →
      ∃ j, (fromId, k, j) ∈ (processInputs follow symOf S fromId rest st).trans := by
  induction rest generalizing st with
  | nil =>
    simp only [processInputs]
    exact ⟨hb, Ext.refl _, by simp⟩
  | cons hd rest ih =>
    obtain ⟨i, inp⟩ := hd
    have hin : (i, inp) ∈ inps := hrest _ (by simp)
    have hrest' : ∀ x ∈ rest, x ∈ inps := fun x hx => hrest x (by simp [hx])
    simp only [processInputs]
    split
    · rename_i hemp
      have hemp' : targetSet follow symOf S inp = [] := by simpa using hemp
      obtain ⟨b, e, c⟩ := ih st hb hS hrest'
      refine ⟨b, e, ?_⟩
      intro k inp' hk hne
      rcases List.mem_cons.1 hk with h | h
      · cases h
        exact absurd hemp' hne
      · exact c k inp' h hne
    · rename_i hemp
      have hne0 : targetSet follow symOf S inp ≠ [] := by simpa using hemp
      split
      · rename_i T id hfind
        have hmem := List.mem_of_find?_eq_some hfind
        have hT : T = targetSet follow symOf S inp := by
          have := List.find?_some hfind
          simpa using this
        subst hT
        have hb1 := base_found follow symOf inps hb hS hin hne0 hmem
        have he1 := ext_found st (fromId, i, id)
        obtain ⟨b, e, c⟩ := ih _ hb1 (he1.ids _ hS) hrest'
        refine ⟨b, he1.trans' e, ?_⟩
        intro k inp' hk hne
        rcases List.mem_cons.1 hk with h | h
        · cases h
          exact ⟨id, e.trans _ (by simp)⟩
        · exact c k inp' h hne
      · rename_i hfind
        have hnone : ∀ e ∈ st.ids, e.1 ≠ targetSet follow symOf S inp := by
          intro e he
          have := (List.find?_eq_none.1 hfind) e he
          simpa using this
        have hb1 := base_new follow symOf inps hb hS hin hne0 hnone
        have he1 := ext_new st (targetSet follow symOf S inp) (fromId, i, st.next)
        obtain ⟨b, e, c⟩ := ih _ hb1 (he1.ids _ hS) hrest'
        refine ⟨b, he1.trans' e, ?_⟩
        intro k inp' hk hne
        rcases List.mem_cons.1 hk with h | h
        · cases h
          exact ⟨st.next, e.trans _ (by simp)⟩
        · exact c k inp' h hne

/-- The loop, for any schedule: if it returns, the invariant holds, nothing is pending, and the
names given so far are kept. -/
theorem buildLoop_spec (σ : Schedule) (fuel step : Nat) (st st' : BuildState)
    (hb : Base follow symOf inps st) (hc : Closed follow symOf inps st)
    (h : buildLoop σ follow symOf inps fuel step st = some st') :
    Base follow symOf inps st' ∧ Closed follow symOf inps st' ∧ st'.work = [] ∧
      ∀ e ∈ st.ids, e ∈ st'.ids := by
  induction fuel generalizing step st with
  | zero =>
    simp only [buildLoop] at h
    split at h
    · rename_i hw
      cases h
      exact ⟨hb, hc, by simpa using hw, fun _ h => h⟩
    · cases h
  | succ fuel ih =>
    simp only [buildLoop] at h
    split at h
    · rename_i hw
      cases h
      exact ⟨hb, hc, by simpa using hw, fun _ h => h⟩
    · split at h
      · cases h
      · rename_i state hstate
        split at h
        · cases h
        · rename_i T fromId hfind
          have hmem := List.mem_of_find?_eq_some hfind
          have hT : T = state := by
            have := List.find?_some hfind
            simpa using this
          subst hT
          have hb0 : Base follow symOf inps
              { st with work := removeNth st.work (σ step st.work.length % st.work.length) } :=
            ⟨hb.lt, hb.inj2, hb.inj1, hb.tr⟩
          obtain ⟨b1, e1, c1⟩ := processInputs_spec follow symOf inps T fromId inps _ hb0 hmem
            (fun _ h => h)
          have hc1 : Closed follow symOf inps (processInputs follow symOf T fromId inps
              { st with work := removeNth st.work (σ step st.work.length % st.work.length) }) := by
            intro S i hSi hSw k inp hk hne
            rcases e1.fresh _ hSi with hold | hnew
            · have hold' : (S, i) ∈ st.ids := hold
              by_cases hST : S = T
              · subst hST
                have : i = fromId := hb.inj1 _ hold' _ hmem rfl
                subst this
                exact c1 k inp hk hne
              · have hnw : S ∉ st.work := by
                  intro hw
                  rcases mem_removeNth_or hstate hw with h | h
                  · exact hST h
                  · exact hSw (e1.work _ h)
                obtain ⟨j, hj⟩ := hc S i hold' hnw k inp hk hne
                exact ⟨j, e1.trans _ hj⟩
            · exact absurd hnew hSw
          obtain ⟨b2, c2, w2, i2⟩ := ih _ _ b1 hc1 h
          exact ⟨b2, c2, w2, fun e he => i2 e (e1.ids e he)⟩

end Loop

/-! ### 5. Running the finished automaton -/

/-- pointwise relation between two lists (core has no `List.Forall₂`) -/
inductive Forall2 {α β : Type} (R : α → β → Prop) : List α → List β → Prop
  | nil : Forall2 R [] []
  | cons {a b l₁ l₂} : R a b → Forall2 R l₁ l₂ → Forall2 R (a :: l₁) (b :: l₂)

theorem Forall2.imp {α β : Type} {R R' : α → β → Prop} (himp : ∀ a b, R a b → R' a b)
    {l : List α} {l' : List β} (h : Forall2 R l l') : Forall2 R' l l' := by
  induction h with
  | nil => exact Forall2.nil
  | cons hab _ ih => exact Forall2.cons (himp _ _ hab) ih

/-- acceptance from an arbitrary state -/
def accFrom (a : Auto) (q : Nat) (ks : List Nat) : Bool :=
  match a.run q ks with
  | some q' => a.acc.contains q'
  | none => false

theorem accepts_eq_accFrom (a : Auto) (ks : List Nat) : a.accepts ks = accFrom a a.start ks := rfl

section Run
variable (follow : Nat → List Nat) (symOf : Nat → Option Inp) (endPos : Nat)
  (inps : List (Nat × Inp)) (a : Auto) (st : BuildState)

theorem step_spec (hfun : ∀ k x y, (k, x) ∈ inps → (k, y) ∈ inps → x = y)
    (htr : a.trans = st.trans) (hb : Base follow symOf inps st)
    (hc : Closed follow symOf inps st) (hw : st.work = [])
    {S : List Nat} {i k : Nat} {inp : Inp} (hS : (S, i) ∈ st.ids) (hk : (k, inp) ∈ inps) :
    (a.step i k = none ∧ targetSet follow symOf S inp = []) ∨
      ∃ j, a.step i k = some j ∧ (targetSet follow symOf S inp, j) ∈ st.ids := by
  unfold Auto.step
  rw [htr]
  cases hf : st.trans.find? (fun t => t.1 == i && t.2.1 == k) with
  | none =>
    left
    refine ⟨rfl, ?_⟩
    apply Classical.byContradiction
    intro hne
    obtain ⟨j, hj⟩ := hc S i hS (by simp [hw]) k inp hk hne
    rw [List.find?_eq_none] at hf
    exact hf _ hj (by simp)
  | some t =>
    right
    have ht := List.mem_of_find?_eq_some hf
    have hp := List.find?_some hf
    simp only [Bool.and_eq_true, beq_iff_eq] at hp
    obtain ⟨S', inp', h1, h2, _, h4⟩ := hb.tr t ht
    rw [hp.1] at h1
    rw [hp.2] at h2
    have e1 : S' = S := hb.inj2 _ h1 _ hS rfl
    have e2 : inp' = inp := hfun _ _ _ h2 hk
    subst e1 e2
    exact ⟨t.2.2, rfl, h4⟩

theorem run_spec (hfun : ∀ k x y, (k, x) ∈ inps → (k, y) ∈ inps → x = y)
    (htr : a.trans = st.trans) (hb : Base follow symOf inps st)
    (hc : Closed follow symOf inps st) (hw : st.work = [])
    (hacc : ∀ S q, (S, q) ∈ st.ids → (a.acc.contains q = true ↔ endPos ∈ S))
    (w : List Inp) (ks : List Nat) (hwk : Forall2 (fun x k => (k, x) ∈ inps) w ks)
    (S : List Nat) (i : Nat) (hS : (S, i) ∈ st.ids) :
    accFrom a i ks = true ↔ SetAcc follow symOf endPos S w := by
  induction hwk generalizing S i with
  | nil =>
    simp only [accFrom, Auto.run]
    rw [hacc S i hS, setAcc_nil]
  | cons hk _ ih =>
    rename_i x k w ks
    rw [setAcc_cons]
    rcases step_spec follow symOf inps a st hfun htr hb hc hw hS hk with ⟨h1, h2⟩ | ⟨j, h1, h2⟩
    · simp only [accFrom, Auto.run, h1, h2]
      constructor
      · intro h; cases h
      · intro h; exact absurd h (not_setAcc_nil follow symOf endPos)
    · rw [← ih _ j h2]
      simp only [accFrom, Auto.run, h1]

end Run

/-! ### 6. Symbols, indices, `mapM` -/

theorem mem_indexed {α} {l : List α} {k : Nat} {x : α} : (k, x) ∈ indexed l ↔ l[k]? = some x := by
  simp only [indexed, List.mem_map, List.mem_zipIdx_iff_getElem?]
  constructor
  · rintro ⟨p, hp, heq⟩
    cases heq
    exact hp
  · intro h
    exact ⟨(x, k), h, rfl⟩

theorem mem_internInps {l : List Inp} {x : Inp} : x ∈ internInps l ↔ x ∈ l := by
  have key : ∀ (l acc : List Inp),
      x ∈ l.foldl (fun acc x => if acc.contains x then acc else acc ++ [x]) acc ↔
        x ∈ acc ∨ x ∈ l := by
    intro l
    induction l with
    | nil => simp
    | cons y ys ih =>
      intro acc
      simp only [List.foldl_cons, ih, List.mem_cons]
      split
      · rename_i hc
        have hy : y ∈ acc := by simpa using hc
        constructor
        · rintro (h | h)
          · exact Or.inl h
          · exact Or.inr (Or.inr h)
        · rintro (h | rfl | h)
          · exact Or.inl h
          · exact Or.inl hy
          · exact Or.inr h
      · simp only [List.mem_append, List.mem_singleton]
        constructor
        · rintro ((h | h) | h)
          · exact Or.inl h
          · exact Or.inr (Or.inl h)
          · exact Or.inr (Or.inr h)
        · rintro (h | h | h)
          · exact Or.inl (Or.inl h)
          · exact Or.inl (Or.inr h)
          · exact Or.inr h
  simpa [internInps] using key l []

theorem mapM_option_spec {α β : Type} (f : α → Option β) (w : List α) :
    (∃ ks, w.mapM f = some ks ∧ Forall2 (fun x k => f x = some k) w ks) ∨
      (w.mapM f = none ∧ ∃ x, x ∈ w ∧ f x = none) := by
  induction w with
  | nil => exact Or.inl ⟨[], rfl, Forall2.nil⟩
  | cons x w ih =>
    cases hfx : f x with
    | none => exact Or.inr ⟨by simp [hfx], x, by simp, hfx⟩
    | some k =>
      rcases ih with ⟨ks, h1, h2⟩ | ⟨h1, y, hy, hfy⟩
      · exact Or.inl ⟨k :: ks, by simp [hfx, h1], Forall2.cons hfx h2⟩
      · exact Or.inr ⟨by simp [hfx, h1], y, by simp [hy], hfy⟩

/-! ### 7. The theorem -/

/-- General form for abstract `first`/`follow`/`inputs`: any automaton assembled (as `buildAuto`
does) from a terminated run of the loop accepts exactly the words of the position automaton. -/
theorem buildLoop_correct (σ : Schedule) (first : List Nat) (follow : Nat → List Nat)
    (symOf : Nat → Option Inp) (endPos : Nat) (inputs : List Inp) (fuel : Nat)
    (st : BuildState) (a : Auto)
    (hinputs : ∀ x, x ∈ inputs ↔ ∃ p, p < endPos ∧ symOf p = some x)
    (hend : symOf endPos = none)
    (hfollow : ∀ p q, q ∈ follow p → q ≤ endPos)
    (hfirst : ∀ q ∈ first, q ≤ endPos)
    (h : buildLoop σ follow symOf (indexed inputs) fuel 0
      { ids := [(normSet first, 1)], next := 2, work := [normSet first], trans := [] } = some st)
    (ha : a = { start := 1, trans := st.trans,
                acc := (st.ids.filter (fun p => p.1.contains endPos)).map (·.2),
                inputs := inputs }) :
    ∀ w : List Inp, a.acceptsInp w = true ↔ PosAccepts first follow endPos symOf w := by
  have hb0 : Base follow symOf (indexed inputs)
      { ids := [(normSet first, 1)], next := 2, work := [normSet first], trans := [] } := by
    refine ⟨?_, ?_, ?_, ?_⟩
    · intro e he
      simp only [List.mem_singleton] at he
      subst he
      simp
    · intro e he e' he' _
      simp only [List.mem_singleton] at he he'
      rw [he, he']
    · intro e he e' he' _
      simp only [List.mem_singleton] at he he'
      rw [he, he']
    · intro t ht
      simp at ht
  have hc0 : Closed follow symOf (indexed inputs)
      { ids := [(normSet first, 1)], next := 2, work := [normSet first], trans := [] } := by
    intro S i hSi hSw
    simp only [List.mem_singleton, Prod.mk.injEq] at hSi
    simp only [List.mem_singleton] at hSw
    exact absurd hSi.1 hSw
  obtain ⟨hb, hc, hw, hids⟩ := buildLoop_spec follow symOf (indexed inputs) σ fuel 0 _ st hb0 hc0 h
  have hstart : (normSet first, 1) ∈ st.ids := hids _ (by simp)
  have hfun : ∀ k x y, (k, x) ∈ indexed inputs → (k, y) ∈ indexed inputs → x = y := by
    intro k x y hx hy
    rw [mem_indexed] at hx hy
    rw [hx] at hy
    exact Option.some.inj hy
  have hacc : ∀ S q, (S, q) ∈ st.ids → (a.acc.contains q = true ↔ endPos ∈ S) := by
    intro S q hSq
    subst ha
    simp only [List.contains_iff_mem, List.mem_map, List.mem_filter]
    constructor
    · rintro ⟨e, ⟨he, hcont⟩, heq⟩
      have : e.1 = S := hb.inj2 e he _ hSq heq
      rw [← this]
      exact hcont
    · intro hS
      exact ⟨(S, q), ⟨hSq, hS⟩, rfl⟩
  have htr : a.trans = st.trans := by subst ha; rfl
  have hin : a.inputs = inputs := by subst ha; rfl
  have hst : a.start = 1 := by subst ha; rfl
  intro w
  rw [posAccepts_iff_setAcc follow symOf endPos hend,
    ← setAcc_congr follow symOf endPos (S := normSet first) (fun _ => mem_normSet)]
  unfold Auto.acceptsInp
  rw [hin]
  rcases mapM_option_spec (fun x => inputs.idxOf? x) w with ⟨ks, h1, h2⟩ | ⟨h1, x, hx, hfx⟩
  · rw [h1]
    simp only
    rw [accepts_eq_accFrom, hst]
    refine run_spec follow symOf endPos (indexed inputs) a st hfun htr hb hc hw hacc w ks ?_ _ _
      hstart
    refine h2.imp ?_
    intro x k hxk
    rw [mem_indexed]
    obtain ⟨hlt, heq, _⟩ := List.idxOf?_eq_some_iff.1 hxk
    rw [List.getElem?_eq_getElem hlt, heq]
  · rw [h1]
    simp only
    constructor
    · intro hf; cases hf
    · rintro ⟨q, hq, hacc'⟩
      have hq' : q ≤ endPos := hfirst q (mem_normSet.1 hq)
      have := acc_syms follow symOf endPos hend hfollow hq' hacc' x hx
      rw [← hinputs] at this
      rw [List.idxOf?_eq_none_iff] at hfx
      exact absurd this hfx

end Subset

/-- The subset construction is correct for every work-list order. `symOf` gives the symbol of each
position below `r.inputs.length`; the end marker position `r.endPos = r.inputs.length` has none. -/
theorem buildAuto_correct (σ : Schedule) (r : Regex) (symOf : Nat → Option Inp) (a : Auto)
    (hsym : ∀ p, p < r.inputs.length → (symOf p).isSome)
    (hend : symOf r.endPos = none)
    (hfollow : ∀ p q, q ∈ r.follow p → q ≤ r.endPos)
    (hfirst : ∀ q ∈ r.first, q ≤ r.endPos)
    (h : buildAuto σ r symOf = some a) :
    ∀ w : List Inp, a.acceptsInp w = true ↔ PosAccepts r.first r.follow r.endPos symOf w := by
  -- `hsym` is not needed: a position without a symbol simply labels no path on either side
  have _ := hsym
  simp only [buildAuto] at h
  split at h
  · cases h
  · rename_i st hloop
    refine Subset.buildLoop_correct σ r.first r.follow symOf r.endPos _ _ st a ?_ hend hfollow
      hfirst hloop (Option.some.inj h).symm
    intro x
    rw [Subset.mem_internInps, List.mem_filterMap]
    simp only [List.mem_range, Regex.endPos]

end Complgen
