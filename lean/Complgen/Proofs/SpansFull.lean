/-
C13 / C05 (operator ladder, with positions, the larger fragment under any admissible layout): in the tree
the expression ladder of `Model/Parse.lean` returns for a tree of `NF'` (`Proofs/LadderFull.lean`: escaped
literals, descriptions, descriptions distributed over groups `.dd`, words built by juxtaposition `.sub`)
printed with arbitrary admissible blanks and comments (`ppL' lay`, `Proofs/LadderFullLayout.lean`), EVERY SPAN
POINTS AT ITS CONSTRUCT (`fallback_spans_full_layout`, a strengthening of `fallback_roundtrip_full_layout`).

`PlacedL' lay ctx s e e'` — the parsed tree `e'` is `e` with, at every node, the span the parser computes when
the text `ppL' lay ctx e` starts at the state `s` — follows the printer.  Which text the span of a node covers
(this is what `parse.rs` does, read off the model, not an ideal):
  * a literal without description: the escaped literal `escT 0 t`, nothing else;
  * a literal with its description: the literal, the layout before the `"`, and the description up to the
    closing `"` (`unary_expr` takes the range after `opt(preceded(multiblanks0, description))`);
  * `<N>`: from `<` to `>`;  `{{{ c }}}`: from the first `{` to the last `}`;
  * `[ … ]`: from `[` to `]`, the layout inside included; the child starts after `[` and the layout behind it;
  * postfix `...`: from the first character of the operand — its opening parenthesis when it has one — over the
    layout before the dots to the last dot; the operand is laid out from the same state;
  * `.dd c d` (`c "d"`): from the first character of `c` printed in context 5 — its opening parenthesis when it
    has one: `(a | b) "d"` starts at `(` — over the layout before the `"` to the closing `"`;
  * `.seq`, `.alt`, `.fb`: from the first character of the first child (its parenthesis, if any) to the last
    character of the last child; no layout before or after, the separators and the layout between the children
    included;
  * a word `.sub (.seq fs _) 0 _`: both the `.sub` node and the `.seq` node under it carry the same span, from the
    first character of the first factor to the last character of the last factor; the factors follow one another
    directly;
  * a parenthesis the context forces around a node (`parenthesized_expr` returns the inner tree unchanged) is not
    part of the node: the node starts after `(` and the layout behind it (`skipParenL`) and ends before the
    layout in front of `)`.

Corollaries in the style of `Proofs/LadderSpans.lean`: `PlacedL'.eraseSpans`; all spans in preorder as offsets
into the text (`allSpans`, `offsE`, `PlacedL'.spans`); the characters between the two offsets of a node are the
node's own text (`ownText`: its text under the layout, without the parentheses and the layout inside them that
the context forces, `offsE_own_text`); the absolute form in a file (`fallback_spans_full_in_file`).

Proof: the induction of `Proofs/LadderFullLayout.lean` (seven levels) redone for the statements `PTs`/`LTs` of
`Proofs/LadderSpans.lean`, which carry a relation between the start state and the returned tree; the side
conditions (first characters, no `...`) are taken from `all_levelsL`.
-/
import Complgen.Proofs.LadderFullLayout
import Complgen.Proofs.LadderSpans
namespace Complgen.Parse.Full
open Complgen Complgen.Parse

/-! ### the layout relation -/

/-- the span of the `n` characters that follow the state `s` -/
def spanOf (s : PState) (n : Nat) : Span := fromRange s (s.adv n)

/-- the state after an opening parenthesis and the layout behind it, when the context forced one -/
def skipParenL (lay : Layout') (b : Bool) (s : PState) : PState :=
  if b then s.adv (1 + (lay.opn []).length) else s

mutual
/-- `PlacedL' lay ctx s e e'`: the tree `e'` is the tree `e` with, at every node, the span the parser computes
for that node when the text `ppL' lay ctx e` starts at state `s` (see the head of the file for the text each
kind of node covers) -/
def PlacedL' : Layout' → Nat → PState → Expr → Expr → Prop
  | lay, ctx, s, .term t none l _, e' =>
    e' = .term t none l (spanOf (skipParenL lay (ctx == 5 || (ctx == 4 && endsDot t.toList)) s)
      (escT 0 t.toList).length)
  | lay, _, s, .term t (some d) l _, e' =>
    e' = .term t (some d) l (spanOf s (escT 0 t.toList ++ descrTextL (lay.descr []) d.toList).length)
  | _, _, s, .nonterm n l _, e' => e' = .nonterm n l (spanOf s (n.toList.length + 2))
  | _, _, s, .cmd c a l _, e' => e' = .cmd c a l (spanOf s (cmdText c.toList).length)
  | lay, ctx, s, .seq cs _, e' =>
    ∃ cs', e' = .seq cs' (spanOf (skipParenL lay (decide (3 ≤ ctx)) s) (ppListL' (lay.sub 0) 3 cs).length) ∧
      PlacedListL' (lay.sub 0) 3 (skipParenL lay (decide (3 ≤ ctx)) s) cs cs'
  | lay, ctx, s, .alt cs _, e' =>
    ∃ cs', e' = .alt cs' (spanOf (skipParenL lay (decide (2 ≤ ctx)) s) (ppListL' (lay.sub 0) 2 cs).length) ∧
      PlacedListL' (lay.sub 0) 2 (skipParenL lay (decide (2 ≤ ctx)) s) cs cs'
  | lay, ctx, s, .fb cs _, e' =>
    ∃ cs', e' = .fb cs' (spanOf (skipParenL lay (decide (1 ≤ ctx)) s) (ppListL' (lay.sub 0) 1 cs).length) ∧
      PlacedListL' (lay.sub 0) 1 (skipParenL lay (decide (1 ≤ ctx)) s) cs cs'
  | lay, _, s, .opt c _, e' =>
    ∃ c', e' = .opt c'
        (spanOf s (1 + (lay.opn []).length + (ppL' (lay.sub 0) 0 c).length + (lay.cls []).length + 1)) ∧
      PlacedL' (lay.sub 0) 0 (s.adv (1 + (lay.opn []).length)) c c'
  | lay, ctx, s, .many1 c _, e' =>
    ∃ c', e' = .many1 c' (spanOf (skipParenL lay (ctx == 4) s)
        ((ppL' (lay.sub 0) 4 c).length + ((lay.dots []).length + 3))) ∧
      PlacedL' (lay.sub 0) 4 (skipParenL lay (ctx == 4) s) c c'
  | lay, ctx, s, .dd c d _, e' =>
    ∃ c', e' = .dd c' d (spanOf (skipParenL lay (decide (4 ≤ ctx)) s)
        (ppL' (lay.sub 0) 5 c ++ descrTextL (lay.descr []) d.toList).length) ∧
      PlacedL' (lay.sub 0) 5 (skipParenL lay (decide (4 ≤ ctx)) s) c c'
  | lay, ctx, s, .sub (.seq fs _) l _, e' =>
    ∃ fs', e' = .sub (.seq fs'
        (spanOf (skipParenL lay (ctx == 4 || ctx == 6 || (ctx == 5 && lastBare false fs)) s)
          (ppListL' (lay.sub 0) 6 fs).length)) l
        (spanOf (skipParenL lay (ctx == 4 || ctx == 6 || (ctx == 5 && lastBare false fs)) s)
          (ppListL' (lay.sub 0) 6 fs).length) ∧
      PlacedListL' (lay.sub 0) 6
        (skipParenL lay (ctx == 4 || ctx == 6 || (ctx == 5 && lastBare false fs)) s) fs fs'
  | _, _, _, .sub _ _ _, _ => False
/-- the children of a list operator: the first at `s`, the others after it -/
def PlacedListL' : Layout' → Nat → PState → ExprL → ExprL → Prop
  | _, _, _, .nil, es' => es' = .nil
  | lay, ctx, s, .cons e es, es' =>
    ∃ e' r', es' = .cons e' r' ∧ PlacedL' (lay.sub 0) ctx s e e' ∧
      PlacedTailL' (lay.sub 1) ctx (s.adv (ppL' (lay.sub 0) ctx e).length) es r'
/-- the children after the first: each after its separator (`sepL'`: the layout between two items of a
sequence; layout, `|` or `||`, layout; nothing between the factors of a word) -/
def PlacedTailL' : Layout' → Nat → PState → ExprL → ExprL → Prop
  | _, _, _, .nil, es' => es' = .nil
  | lay, ctx, s, .cons e es, es' =>
    ∃ e' r', es' = .cons e' r' ∧ PlacedL' (lay.sub 0) ctx (s.adv (sepL' lay ctx).length) e e' ∧
      PlacedTailL' (lay.sub 1) ctx ((s.adv (sepL' lay ctx).length).adv (ppL' (lay.sub 0) ctx e).length) es r'
end

/-! ### statements with a relation: weakening, the levels of the ladder -/

theorem _root_.Complgen.Parse.PTs.weaken {L : Nat → PState → Option (PState × Expr)} {C C' : List Char → Prop} {n : Nat}
    {T : List Char} {R : PState → Expr → Prop} (h : PTs L C n T R) (hc : ∀ r, C' r → C r) : PTs L C' n T R :=
  fun rest hr s hs f hf => h rest (hc rest hr) s hs f hf

/-- a base expression not followed by `...` is a unary expression -/
theorem lift_B_Us' {C C' : List Char → Prop} {n : Nat} {T : List Char} {R : PState → Expr → Prop}
    (h : PTs baseP C n T R) (hc : ∀ r, C' r → C r ∧ WD r) : PTs unary C' (n + 1) T R := by
  intro rest hrest s hs f hf
  obtain ⟨f, rfl⟩ : ∃ f', f = f' + 1 := ⟨f - 1, by omega⟩
  obtain ⟨e', he, hE⟩ := h rest (hc rest hrest).1 s hs f (by omega)
  refine ⟨e', ?_, hE⟩
  rw [unary_succ, he]
  simp only
  rw [many1Tag_none' _ (by rw [adv_rest_append s T rest hs]; exact (hc rest hrest).2)]

/-- a unary expression after which no other follows directly is a word -/
theorem lift_U_Ws' {C C' : List Char → Prop} {n : Nat} {T : List Char} {R : PState → Expr → Prop}
    (h : PTs unary C n T R) (hc : ∀ r, C' r → C r ∧ StopQ r) : PTs subwordSeq C' (n + 1) T R := by
  intro rest hrest s hs f hf
  obtain ⟨f, rfl⟩ : ∃ f', f = f' + 1 := ⟨f - 1, by omega⟩
  obtain ⟨e', he, hE⟩ := h rest (hc rest hrest).1 s hs f (by omega)
  have hr := adv_rest_append s T rest hs
  refine ⟨e', ?_, hE⟩
  rw [subwordSeq_succ, he]
  simp only
  rw [subwordLoop_stopQ f _ _ (by rw [hr]; exact (hc rest hrest).2)]

/-- a word after which no description follows -/
theorem lift_W_Ds {C C' : List Char → Prop} {n : Nat} {T : List Char} {R : PState → Expr → Prop}
    (h : PTs subwordSeq C n T R) (hc : ∀ r, C' r → C r ∧ ∀ r', afterBlanks r ≠ '"' :: r') :
    PTs sseod C' (n + 1) T R := by
  intro rest hrest s hs f hf
  obtain ⟨f, rfl⟩ : ∃ f', f = f' + 1 := ⟨f - 1, by omega⟩
  obtain ⟨e', he, hE⟩ := h rest (hc rest hrest).1 s hs f (by omega)
  have hr := adv_rest_append s T rest hs
  refine ⟨e', ?_, hE⟩
  rw [sseod_succ, he]
  simp only
  rw [optDescription_none _ (by rw [hr]; exact (hc rest hrest).2)]

/-- a word after which no other follows is a sequence -/
theorem lift_D_Ss' {C : List Char → Prop} {n : Nat} {T : List Char} {R : PState → Expr → Prop}
    (h : PTs sseod C n T R) (hc : ∀ r, SCont r → C r) : PTs sequence SCont (n + 1) T R := by
  intro rest hrest s hs f hf
  obtain ⟨f, rfl⟩ : ∃ f', f = f' + 1 := ⟨f - 1, by omega⟩
  obtain ⟨e', he, hE⟩ := h rest (hc rest hrest) s hs f (by omega)
  have hr := adv_rest_append s T rest hs
  refine ⟨e', ?_, hE⟩
  rw [sequence_succ, he]
  simp only
  rw [sequenceLoop_stop f _ _ (by rw [hr]; exact hrest.2)]

/-- a word (that may be followed by a description) up to the top of the ladder -/
theorem up_Ws {C : List Char → Prop} {n : Nat} {T : List Char} {R : PState → Expr → Prop}
    (h : PTs subwordSeq C n T R) (hc : ∀ r, UC r → C r) :
    PTs sseod UC (n + 1) T R ∧ PTs sequence SCont (n + 2) T R ∧ PTs alternative ACont (n + 3) T R ∧
    PTs fallback FCont (n + 4) T R := by
  have h3 : PTs sseod UC (n + 1) T R := lift_W_Ds h (fun r hr => ⟨hc r hr, hr.2.1⟩)
  have h2 := lift_D_Ss' h3 (fun r hr => hr.uc)
  have h1 := lift_S_As h2
  have h0 := lift_A_Fs h1
  exact ⟨h3, h2, h1, h0⟩

/-! ### atoms -/

theorem lit_bare_PTs (t : List Char) (ht : t ≠ []) (hperm : ∀ c ∈ t, isRegular c = true ∨ isEsc c = true)
    (hh : t.head? ≠ some '#') :
    PTs baseP (BL t) 0 (escT 0 t)
      (fun s e' => e' = .term (String.ofList t) none 0 (spanOf s (escT 0 t).length)) := by
  intro rest hrest s hs f _
  have hterm := terminal_roundtrip_gen t rest s ht hperm hrest.1.1 hrest.2 hs
  have hod : optDescription (s.adv (escT 0 t).length) = (s.adv (escT 0 t).length, none) :=
    optDescription_none _ (by rw [adv_rest_append s _ rest hs]; exact hrest.1.2)
  obtain ⟨x, r, hx, hstart⟩ := escT_head t ht hh
  obtain ⟨_, _, h3, h4, h5, h6⟩ := litStart_spec hstart
  have hne : ∀ y, x ≠ y → ∀ r', s.rest ≠ y :: r' := by
    intro y hy r' e; rw [hs, hx] at e; cases e; exact hy rfl
  refine ⟨.term (String.ofList t) none 0 (fromRange s (s.adv (escT 0 t).length)), ?_, rfl⟩
  unfold baseP
  rw [nonterm_none s (hne _ h3), optional_none f s (hne _ h4),
    parenthesized_none f s (hne _ h5), triple_none s (hne _ h6), hterm]
  simp only [hod]

/-- a literal with its description: the span runs to the closing `"` -/
theorem lit_descr_PTLs (t d l : List Char) (hl : IsLayoutW l) (ht : t ≠ [])
    (hperm : ∀ c ∈ t, isRegular c = true ∨ isEsc c = true) (hh : t.head? ≠ some '#') :
    PTs baseP Any 0 (escT 0 t ++ descrTextL l d)
      (fun s e' => e' = .term (String.ofList t) (some (String.ofList d)) 0
        (spanOf s (escT 0 t ++ descrTextL l d).length)) := by
  intro rest _ s hs f _
  have hs' : s.rest = escT 0 t ++ (descrTextL l d ++ rest) := by rw [hs]; simp
  have hterm := terminal_roundtrip t _ s ht hperm (Terminates_descr l d rest hl) hs'
  have hr1 := adv_rest_append s _ _ hs'
  have hod : optDescription (s.adv (escT 0 t).length) =
      (s.adv (escT 0 t ++ descrTextL l d).length, some (String.ofList d)) := by
    rw [optDescription_someL _ l d rest hl.1 hr1, adv_add', List.length_append]
  obtain ⟨x, r, hx, hstart⟩ := escT_head t ht hh
  obtain ⟨_, _, h3, h4, h5, h6⟩ := litStart_spec hstart
  have hne : ∀ y, x ≠ y → ∀ r', s.rest ≠ y :: r' := by
    intro y hy r' e; rw [hs', hx] at e; cases e; exact hy rfl
  refine ⟨.term (String.ofList t) (some (String.ofList d)) 0
    (fromRange s (s.adv (escT 0 t ++ descrTextL l d).length)), ?_, rfl⟩
  unfold baseP
  rw [nonterm_none s (hne _ h3), optional_none f s (hne _ h4),
    parenthesized_none f s (hne _ h5), triple_none s (hne _ h6), hterm]
  simp only [hod]

theorem nonterm_PTs' (n : List Char) (hn : n ≠ []) (hgt : ∀ c ∈ n, c ≠ '>') :
    PTs baseP Any 0 ('<' :: n ++ ['>'])
      (fun s e' => e' = .nonterm (String.ofList n) 0 (spanOf s (n.length + 2))) := by
  intro rest _ s hs f _
  have h := nonterm_ok_span n rest s hn hgt (by simpa using hs)
  refine ⟨.nonterm (String.ofList n) 0 (fromRange s (s.adv (n.length + 2))), ?_, rfl⟩
  unfold baseP
  rw [h]
  simp

theorem cmd_PTs' (c : List Char) (h1 : ∀ x, c.head? = some x → isWs x = false)
    (h2 : ∀ x, c.getLast? = some x → isWs x = false) (h3 : noTriple c = true) :
    PTs baseP Any 0 (cmdText c)
      (fun s e' => e' = .cmd (String.ofList c) false 0 (spanOf s (cmdText c).length)) := by
  intro rest _ s hs f _
  have hs' : s.rest = '{' :: '{' :: '{' :: ' ' :: c ++ ' ' :: '}' :: '}' :: '}' :: rest := by
    rw [hs]; simp [cmdText]
  have h := cmd_ok c rest s h1 h2 h3 hs'
  have hne : ∀ x, x ≠ '{' → ∀ r, s.rest ≠ x :: r := by
    intro x hx r e; rw [hs'] at e; cases e; exact hx rfl
  have hlen : (cmdText c).length = c.length + 8 := by simp [cmdText]
  refine ⟨.cmd (String.ofList c) false 0 (fromRange s (s.adv (cmdText c).length)), ?_, rfl⟩
  unfold baseP
  rw [nonterm_none s (hne _ (by decide)), optional_none f s (hne _ (by decide)),
    parenthesized_none f s (hne _ (by decide)), h, hlen]

/-! ### descriptions, the postfix `...`, the groups: with layout -/

/-- a word followed by layout and a description: the `.dd` node starts where the word starts (at its
parenthesis when it has one) and ends after the closing `"` -/
theorem lift_W_ddLs {n : Nat} {T l : List Char} {R : PState → Expr → Prop} (d : List Char) (hl : IsLayoutW l)
    (h : PTs subwordSeq UD' n T R) :
    PTs sseod Any (n + 1) (T ++ descrTextL l d)
      (fun s e' => ∃ c', e' = .dd c' (String.ofList d) (spanOf s (T ++ descrTextL l d).length) ∧ R s c') := by
  intro rest _ s hs f hf
  obtain ⟨f, rfl⟩ : ∃ f', f = f' + 1 := ⟨f - 1, by omega⟩
  have hs' : s.rest = T ++ (descrTextL l d ++ rest) := by rw [hs]; simp
  obtain ⟨e', he, hE⟩ := h _ (UD'_descr l d rest hl) s hs' f (by omega)
  have hr := adv_rest_append s T _ hs'
  refine ⟨.dd e' (String.ofList d) (spanOf s (T ++ descrTextL l d).length), ?_, e', rfl, hE⟩
  rw [sseod_succ, he]
  simp only
  rw [optDescription_someL _ l d rest hl.1 hr]
  simp [adv_add', spanOf]

/-- a base expression followed by layout and `...`: the `.many1` node starts where the base expression starts -/
theorem lift_B_many1Ls {n : Nat} {T l : List Char} {R : PState → Expr → Prop} (hl : IsLayoutW l)
    (h : PTs baseP BCont n T R) :
    PTs unary Any (n + 1) (T ++ l ++ ['.', '.', '.'])
      (fun s e' => ∃ c', e' = .many1 c' (spanOf s (T.length + (l.length + 3))) ∧ R s c') := by
  intro rest _ s hs f hf
  obtain ⟨f, rfl⟩ : ∃ f', f = f' + 1 := ⟨f - 1, by omega⟩
  have hs' : s.rest = T ++ (l ++ '.' :: '.' :: '.' :: rest) := by rw [hs]; simp
  obtain ⟨e', he, hE⟩ := h _ (BCont_layout_dots l rest hl) s hs' f (by omega)
  refine ⟨.many1 e' (spanOf s (T.length + (l.length + 3))), ?_, e', rfl, hE⟩
  rw [unary_succ, he]
  simp only
  rw [many1Tag_layout _ l rest hl.1 (adv_rest_append s T _ hs'), adv_add']
  simp [spanOf]

/-- `( l1 T l2 )` returns the tree of `T` unchanged: its spans are those of the text after `(` and `l1` -/
theorem paren_PTLs {n : Nat} {T l1 l2 : List Char} {R : PState → Expr → Prop} (hl1 : IsLayout l1)
    (hl2 : IsLayoutW l2) (hT : NBStart T) (h : PTs fallback FCont n T R) :
    PTs baseP Any (n + 1) (parenL l1 l2 T) (fun s e' => R (s.adv (1 + l1.length)) e') := by
  intro rest _ s hs f hf
  obtain ⟨f, rfl⟩ : ∃ f', f = f' + 1 := ⟨f - 1, by omega⟩
  have hs' : s.rest = '(' :: (l1 ++ (T ++ (l2 ++ ')' :: rest))) := by rw [hs]; simp [parenL]
  have hne : ∀ x, x ≠ '(' → ∀ r, s.rest ≠ x :: r := by
    intro x hx r e; rw [hs'] at e; cases e; exact hx rfl
  have hr1 : (s.adv 1).rest = l1 ++ (T ++ (l2 ++ ')' :: rest)) := by rw [adv_rest', hs']; rfl
  have hm1 : mb0 (s.adv 1) = (s.adv 1).adv l1.length := mb0_layout _ l1 _ hl1 (hT.nbh _) hr1
  have hr2 : ((s.adv 1).adv l1.length).rest = T ++ (l2 ++ ')' :: rest) := adv_rest_append _ _ _ hr1
  obtain ⟨e', he, hE⟩ := h (l2 ++ ')' :: rest)
    (FCont_layout_close l2 _ _ hl2 (by decide) (by decide) (by decide)) _ hr2 f (by omega)
  have hr3 : (((s.adv 1).adv l1.length).adv T.length).rest = l2 ++ ')' :: rest := adv_rest_append _ _ _ hr2
  have hm2 := mb0_layout _ l2 _ hl2.1 (NBHead_cons ')' rest (by decide)) hr3
  have hr4 := adv_rest_append _ l2 _ hr3
  refine ⟨e', ?_, by show R (s.adv (1 + l1.length)) e'; rw [← adv_add']; exact hE⟩
  unfold baseP
  rw [nonterm_none s (hne _ (by decide)), optional_none _ s (hne _ (by decide)), parenthesized_succ,
    char?_some '(' s _ hs']
  simp only
  rw [hm1, he]
  simp only
  rw [hm2, char?_some ')' _ _ hr4]
  simp only [adv_add']
  rw [show (parenL l1 l2 T).length = 1 + l1.length + T.length + l2.length + 1 by simp [parenL]; omega]

/-- `[ l1 T l2 ]`: the node spans the brackets, the child is laid out after `[` and `l1` -/
theorem bracket_PTLs {n : Nat} {T l1 l2 : List Char} {R : PState → Expr → Prop} (hl1 : IsLayout l1)
    (hl2 : IsLayoutW l2) (hT : NBStart T) (h : PTs fallback FCont n T R) :
    PTs baseP Any (n + 1) ('[' :: l1 ++ T ++ l2 ++ [']'])
      (fun s e' => ∃ c', e' = .opt c' (spanOf s (1 + l1.length + T.length + l2.length + 1)) ∧
        R (s.adv (1 + l1.length)) c') := by
  intro rest _ s hs f hf
  obtain ⟨f, rfl⟩ : ∃ f', f = f' + 1 := ⟨f - 1, by omega⟩
  have hs' : s.rest = '[' :: (l1 ++ (T ++ (l2 ++ ']' :: rest))) := by rw [hs]; simp
  have hne : ∀ x, x ≠ '[' → ∀ r, s.rest ≠ x :: r := by
    intro x hx r e; rw [hs'] at e; cases e; exact hx rfl
  have hr1 : (s.adv 1).rest = l1 ++ (T ++ (l2 ++ ']' :: rest)) := by rw [adv_rest', hs']; rfl
  have hm1 : mb0 (s.adv 1) = (s.adv 1).adv l1.length := mb0_layout _ l1 _ hl1 (hT.nbh _) hr1
  have hr2 : ((s.adv 1).adv l1.length).rest = T ++ (l2 ++ ']' :: rest) := adv_rest_append _ _ _ hr1
  obtain ⟨e', he, hE⟩ := h (l2 ++ ']' :: rest)
    (FCont_layout_close l2 _ _ hl2 (by decide) (by decide) (by decide)) _ hr2 f (by omega)
  have hr3 : (((s.adv 1).adv l1.length).adv T.length).rest = l2 ++ ']' :: rest := adv_rest_append _ _ _ hr2
  have hm2 := mb0_layout _ l2 _ hl2.1 (NBHead_cons ']' rest (by decide)) hr3
  have hr4 := adv_rest_append _ l2 _ hr3
  refine ⟨.opt e' (spanOf s (1 + l1.length + T.length + l2.length + 1)), ?_, e', rfl,
    by show R (s.adv (1 + l1.length)) e'; rw [← adv_add']; exact hE⟩
  unfold baseP
  rw [nonterm_none s (hne _ (by decide)), optional_succ, char?_some '[' s _ hs']
  simp only
  rw [hm1, he]
  simp only
  rw [hm2, char?_some ']' _ _ hr4]
  simp only [adv_add', spanOf]
  rw [show ('[' :: l1 ++ T ++ l2 ++ [']']).length = 1 + l1.length + T.length + l2.length + 1 by simp; omega]

/-! ### the loops, with layout -/

theorem seqLoop_consLs {n1 n2 : Nat} {l T1 T2 : List Char} {R1 : PState → Expr → Prop}
    {R2 : PState → ExprL → Prop} (hl : IsLayout l) (hne : l ≠ []) (hT1 : NBStart T1)
    (h1 : PTs sseod UC n1 T1 R1) (h2 : LTs sequenceLoop SCont n2 T2 R2)
    (hc : ∀ rest, SCont rest → UC (T2 ++ rest)) :
    LTs sequenceLoop SCont (max n1 n2 + 1) (l ++ T1 ++ T2)
      (fun s es' => ∃ e' r', es' = .cons e' r' ∧ R1 (s.adv l.length) e' ∧
        R2 ((s.adv l.length).adv T1.length) r') := by
  intro rest hrest s hs acc f hf
  obtain ⟨f, rfl⟩ : ∃ f', f = f' + 1 := ⟨f - 1, by omega⟩
  have hs' : s.rest = l ++ (T1 ++ (T2 ++ rest)) := by rw [hs]; simp
  have hmb : mb1 s = some (s.adv l.length) := mb1_layout_some s l _ hl hne (hT1.nbh _) hs'
  have hr1 : (s.adv l.length).rest = T1 ++ (T2 ++ rest) := adv_rest_append _ _ _ hs'
  obtain ⟨e1, he1, hE1⟩ := h1 (T2 ++ rest) (hc rest hrest) _ hr1 f (by omega)
  have hr2 : ((s.adv l.length).adv T1.length).rest = T2 ++ rest := adv_rest_append _ _ _ hr1
  obtain ⟨es', hes, hEs⟩ := h2 rest hrest _ hr2 (acc ++ [e1]) f (by omega)
  refine ⟨e1 :: es', ?_, e1, ExprL.ofList es', rfl, hE1, hEs⟩
  rw [sequenceLoop_succ, hmb]
  simp only
  rw [he1]
  simp only
  rw [hes, adv_add', adv_add']
  simp

theorem altLoop_consLs {n1 n2 : Nat} {l1 l2 T1 T2 : List Char} {R1 : PState → Expr → Prop}
    {R2 : PState → ExprL → Prop} (hl1 : IsLayout l1) (hl2 : IsLayout l2) (hT1 : NBStart T1)
    (h1 : PTs sequence SCont n1 T1 R1) (h2 : LTs alternativeLoop ACont n2 T2 R2)
    (hc : ∀ rest, ACont rest → SCont (T2 ++ rest)) :
    LTs alternativeLoop ACont (max n1 n2 + 1) (l1 ++ '|' :: l2 ++ T1 ++ T2)
      (fun s es' => ∃ e' r', es' = .cons e' r' ∧ R1 (s.adv (l1 ++ '|' :: l2).length) e' ∧
        R2 ((s.adv (l1 ++ '|' :: l2).length).adv T1.length) r') := by
  intro rest hrest s hs acc f hf
  obtain ⟨f, rfl⟩ : ∃ f', f = f' + 1 := ⟨f - 1, by omega⟩
  have hs' : s.rest = l1 ++ '|' :: (l2 ++ (T1 ++ (T2 ++ rest))) := by rw [hs]; simp
  have hm1 : mb0 s = s.adv l1.length := mb0_layout s l1 _ hl1 (NBHead_cons _ _ (by decide)) hs'
  have hr1 : (s.adv l1.length).rest = '|' :: (l2 ++ (T1 ++ (T2 ++ rest))) := adv_rest_append _ _ _ hs'
  have hr2 : ((s.adv l1.length).adv 1).rest = l2 ++ (T1 ++ (T2 ++ rest)) := by rw [adv_rest', hr1]; rfl
  have hm2 := mb0_layout _ l2 _ hl2 (hT1.nbh _) hr2
  have hr3 := adv_rest_append _ l2 _ hr2
  obtain ⟨e1, he1, hE1⟩ := h1 (T2 ++ rest) (hc rest hrest) _ hr3 f (by omega)
  have hr4 := adv_rest_append _ T1 _ hr3
  obtain ⟨es', hes, hEs⟩ := h2 rest hrest _ hr4 (acc ++ [e1]) f (by omega)
  have e3 : ((s.adv l1.length).adv 1).adv l2.length = s.adv (l1 ++ '|' :: l2).length := by
    simp only [adv_add', List.length_append, List.length_cons]
    congr 1; omega
  refine ⟨e1 :: es', ?_, e1, ExprL.ofList es', rfl, e3 ▸ hE1, e3 ▸ hEs⟩
  rw [alternativeLoop_succ, hm1, char?_some '|' _ _ hr1]
  simp only
  rw [hm2, he1]
  simp only
  rw [hes]
  simp only [adv_add']
  simp [Nat.add_assoc]
  congr 1; omega

theorem fbLoop_consLs {n1 n2 : Nat} {l1 l2 T1 T2 : List Char} {R1 : PState → Expr → Prop}
    {R2 : PState → ExprL → Prop} (hl1 : IsLayout l1) (hl2 : IsLayout l2) (hT1 : NBStart T1)
    (h1 : PTs alternative ACont n1 T1 R1) (h2 : LTs fallbackLoop FCont n2 T2 R2)
    (hc : ∀ rest, FCont rest → ACont (T2 ++ rest)) :
    LTs fallbackLoop FCont (max n1 n2 + 1) (l1 ++ '|' :: '|' :: l2 ++ T1 ++ T2)
      (fun s es' => ∃ e' r', es' = .cons e' r' ∧ R1 (s.adv (l1 ++ '|' :: '|' :: l2).length) e' ∧
        R2 ((s.adv (l1 ++ '|' :: '|' :: l2).length).adv T1.length) r') := by
  intro rest hrest s hs acc f hf
  obtain ⟨f, rfl⟩ : ∃ f', f = f' + 1 := ⟨f - 1, by omega⟩
  have hs' : s.rest = l1 ++ '|' :: '|' :: (l2 ++ (T1 ++ (T2 ++ rest))) := by rw [hs]; simp
  have hm1 : mb0 s = s.adv l1.length := mb0_layout s l1 _ hl1 (NBHead_cons _ _ (by decide)) hs'
  have hr1 : (s.adv l1.length).rest = '|' :: '|' :: (l2 ++ (T1 ++ (T2 ++ rest))) :=
    adv_rest_append _ _ _ hs'
  have htag : tag? "||" (s.adv l1.length) = some ((s.adv l1.length).adv 2) := by
    apply tag?_some _ _ (by decide)
    have : "||".toList = ['|', '|'] := by rfl
    rw [this, hr1]; simp [List.isPrefixOf]
  have hr2 : ((s.adv l1.length).adv 2).rest = l2 ++ (T1 ++ (T2 ++ rest)) := by rw [adv_rest', hr1]; rfl
  have hm2 := mb0_layout _ l2 _ hl2 (hT1.nbh _) hr2
  have hr3 := adv_rest_append _ l2 _ hr2
  obtain ⟨e1, he1, hE1⟩ := h1 (T2 ++ rest) (hc rest hrest) _ hr3 f (by omega)
  have hr4 := adv_rest_append _ T1 _ hr3
  obtain ⟨es', hes, hEs⟩ := h2 rest hrest _ hr4 (acc ++ [e1]) f (by omega)
  have e3 : ((s.adv l1.length).adv 2).adv l2.length = s.adv (l1 ++ '|' :: '|' :: l2).length := by
    simp only [adv_add', List.length_append, List.length_cons]
    congr 1; omega
  refine ⟨e1 :: es', ?_, e1, ExprL.ofList es', rfl, e3 ▸ hE1, e3 ▸ hEs⟩
  rw [fallbackLoop_succ, hm1, htag]
  simp only
  rw [hm2, he1]
  simp only
  rw [hes]
  simp only [adv_add']
  simp [Nat.add_assoc]
  congr 1; omega

/-- the loop of a word stops -/
theorem swLoop_nils {C : List Char → Prop} (hC : ∀ r, C r → StopQ r) :
    LTs subwordLoop C 0 [] (fun _ es' => es' = .nil) := by
  intro rest hrest s hs acc f _
  refine ⟨[], ?_, rfl⟩
  rw [subwordLoop_stopQ f s acc (by rw [hs]; exact hC rest hrest)]
  simp [adv_zero]

/-- one more factor of a word: it follows directly -/
theorem swLoop_conss {C W : List Char → Prop} {n1 n2 : Nat} {T1 T2 : List Char} {R1 : PState → Expr → Prop}
    {R2 : PState → ExprL → Prop} (h1 : PTs unary W n1 T1 R1) (h2 : LTs subwordLoop C n2 T2 R2)
    (hc : ∀ rest, C rest → W (T2 ++ rest)) :
    LTs subwordLoop C (max n1 n2 + 1) (T1 ++ T2)
      (fun s es' => ∃ e' r', es' = .cons e' r' ∧ R1 s e' ∧ R2 (s.adv T1.length) r') := by
  intro rest hrest s hs acc f hf
  obtain ⟨f, rfl⟩ : ∃ f', f = f' + 1 := ⟨f - 1, by omega⟩
  have hs' : s.rest = T1 ++ (T2 ++ rest) := by rw [hs]; simp
  obtain ⟨e1, he1, hE1⟩ := h1 (T2 ++ rest) (hc rest hrest) s hs' f (by omega)
  have hr2 : (s.adv T1.length).rest = T2 ++ rest := adv_rest_append _ _ _ hs'
  obtain ⟨es', hes, hEs⟩ := h2 rest hrest _ hr2 (acc ++ [e1]) f (by omega)
  refine ⟨e1 :: es', ?_, e1, ExprL.ofList es', rfl, hE1, hEs⟩
  rw [subwordLoop_succ, he1]
  simp only
  rw [hes, adv_add']
  simp

/-! ### the list operators at their own level -/

/-- a sequence starts where its first item starts and ends where its last item ends -/
theorem seq_natives' {n1 n2 : Nat} {T1 T2 : List Char} {R1 : PState → Expr → Prop}
    {R2 : PState → ExprL → Prop}
    (h1 : PTs sseod UC n1 T1 R1) (h2 : LTs sequenceLoop SCont n2 T2 R2)
    (hne : ∀ s es', R2 s es' → ∃ x xs, es' = .cons x xs)
    (hc : ∀ rest, SCont rest → UC (T2 ++ rest)) :
    PTs sequence SCont (max n1 n2 + 1) (T1 ++ T2)
      (fun s e' => ∃ c1 cs', e' = .seq (.cons c1 cs') (spanOf s (T1 ++ T2).length) ∧
        R1 s c1 ∧ R2 (s.adv T1.length) cs') := by
  intro rest hrest s hs f hf
  obtain ⟨f, rfl⟩ : ∃ f', f = f' + 1 := ⟨f - 1, by omega⟩
  have hs' : s.rest = T1 ++ (T2 ++ rest) := by rw [hs]; simp
  obtain ⟨e1, he1, hE1⟩ := h1 (T2 ++ rest) (hc rest hrest) s hs' f (by omega)
  have hr1 : (s.adv T1.length).rest = T2 ++ rest := adv_rest_append _ _ _ hs'
  obtain ⟨es', hes, hEs⟩ := h2 rest hrest _ hr1 [e1] f (by omega)
  obtain ⟨x0, xs0, hx0⟩ := hne _ _ hEs
  obtain ⟨x, xs, rfl⟩ := ofList_cons_ne_nil hx0
  refine ⟨.seq (ExprL.ofList (e1 :: x :: xs)) (spanOf s (T1 ++ T2).length), ?_,
    e1, ExprL.ofList (x :: xs), rfl, hE1, hEs⟩
  rw [sequence_succ, he1]
  simp only
  rw [hes, adv_add']
  simp [spanOf]

theorem ofList_map_flatten : ∀ l : List Expr,
    ExprL.ofList (l.map Check.flatten) = Check.flattenL (ExprL.ofList l)
  | [] => by simp [ExprL.ofList, Check.flattenL]
  | e :: l => by simp [ExprL.ofList, Check.flattenL, ofList_map_flatten l]

/-- a word of several factors: the `.sub` node and the `.seq` node under it carry the span of the whole
word; the factors are flattened -/
theorem sw_natives {C W : List Char → Prop} {n1 n2 : Nat} {T1 T2 : List Char} {R1 : PState → Expr → Prop}
    {R2 : PState → ExprL → Prop} (h1 : PTs unary W n1 T1 R1) (h2 : LTs subwordLoop C n2 T2 R2)
    (hne : ∀ s es', R2 s es' → ∃ x xs, es' = .cons x xs)
    (hc : ∀ rest, C rest → W (T2 ++ rest)) :
    PTs subwordSeq C (max n1 n2 + 1) (T1 ++ T2)
      (fun s e' => ∃ c1 cs', e' = .sub (.seq (Check.flattenL (.cons c1 cs')) (spanOf s (T1 ++ T2).length)) 0
          (spanOf s (T1 ++ T2).length) ∧ R1 s c1 ∧ R2 (s.adv T1.length) cs') := by
  intro rest hrest s hs f hf
  obtain ⟨f, rfl⟩ : ∃ f', f = f' + 1 := ⟨f - 1, by omega⟩
  have hs' : s.rest = T1 ++ (T2 ++ rest) := by rw [hs]; simp
  obtain ⟨e1, he1, hE1⟩ := h1 (T2 ++ rest) (hc rest hrest) s hs' f (by omega)
  have hr1 : (s.adv T1.length).rest = T2 ++ rest := adv_rest_append _ _ _ hs'
  obtain ⟨es', hes, hEs⟩ := h2 rest hrest _ hr1 [e1] f (by omega)
  obtain ⟨x0, xs0, hx0⟩ := hne _ _ hEs
  obtain ⟨x, xs, rfl⟩ := ofList_cons_ne_nil hx0
  refine ⟨.sub (.seq (Check.flattenL (ExprL.ofList (e1 :: x :: xs))) (spanOf s (T1 ++ T2).length)) 0
    (spanOf s (T1 ++ T2).length), ?_, e1, ExprL.ofList (x :: xs), rfl, hE1, hEs⟩
  rw [subwordSeq_succ, he1]
  simp only
  rw [hes, adv_add', ← ofList_map_flatten]
  simp [spanOf]

/-! ### all levels at once -/

/-- the relation `R` `k` characters later (after an opening parenthesis and the layout behind it) -/
def shiftBy (k : Nat) (R : PState → Expr → Prop) : PState → Expr → Prop := fun s e' => R (s.adv k) e'

/-- the seven texts of an expression are read back at the seven levels, the returned tree satisfying
`R0 … R6`; `W` is what may follow the expression when it is a factor of a word -/
structure AllTLs (N : Nat) (W : List Char → Prop) (T0 T1 T2 T3 T4 T5 T6 : List Char)
    (R0 R1 R2 R3 R4 R5 R6 : PState → Expr → Prop) : Prop where
  p0 : PTs fallback FCont N T0 R0
  p1 : PTs alternative ACont N T1 R1
  p2 : PTs sequence SCont N T2 R2
  p3 : PTs sseod UC N T3 R3
  p4 : PTs baseP BCont N T4 R4
  p5 : PTs subwordSeq UD' N T5 R5
  p6 : PTs unary W N T6 R6

theorem AllTLs.conv {N N' : Nat} {W : List Char → Prop} {T0 T1 T2 T3 T4 T5 T6 T0' T1' T2' T3' T4' T5' T6' : List Char}
    {R0 R1 R2 R3 R4 R5 R6 R0' R1' R2' R3' R4' R5' R6' : PState → Expr → Prop}
    (h : AllTLs N W T0 T1 T2 T3 T4 T5 T6 R0 R1 R2 R3 R4 R5 R6) (hN : N ≤ N')
    (e0 : T0' = T0) (e1 : T1' = T1) (e2 : T2' = T2) (e3 : T3' = T3) (e4 : T4' = T4) (e5 : T5' = T5)
    (e6 : T6' = T6)
    (i0 : ∀ s e', R0 s e' → R0' s e') (i1 : ∀ s e', R1 s e' → R1' s e')
    (i2 : ∀ s e', R2 s e' → R2' s e') (i3 : ∀ s e', R3 s e' → R3' s e')
    (i4 : ∀ s e', R4 s e' → R4' s e') (i5 : ∀ s e', R5 s e' → R5' s e')
    (i6 : ∀ s e', R6 s e' → R6' s e') :
    AllTLs N' W T0' T1' T2' T3' T4' T5' T6' R0' R1' R2' R3' R4' R5' R6' := by
  subst e0 e1 e2 e3 e4 e5 e6
  exact ⟨(h.p0.mono hN).imp i0, (h.p1.mono hN).imp i1, (h.p2.mono hN).imp i2, (h.p3.mono hN).imp i3,
    (h.p4.mono hN).imp i4, (h.p5.mono hN).imp i5, (h.p6.mono hN).imp i6⟩

/-- a base expression after which nothing is required (a group), from the bottom of the ladder to its top -/
theorem groupLevelss {m : Nat} {P : List Char} {R : PState → Expr → Prop} (hB : PTs baseP Any m P R) :
    PTs unary WD (m + 1) P R ∧ PTs subwordSeq UD' (m + 2) P R ∧ PTs sseod UC (m + 3) P R ∧
    PTs sequence SCont (m + 4) P R ∧ PTs alternative ACont (m + 5) P R ∧ PTs fallback FCont (m + 6) P R := by
  have h6 : PTs unary WD (m + 1) P R := lift_B_Us' hB (fun r hr => ⟨trivial, hr⟩)
  have h5 : PTs subwordSeq UD' (m + 2) P R := lift_U_Ws' h6 (fun r hr => ⟨hr.2, hr.1⟩)
  obtain ⟨h3, h2, h1, h0⟩ := up_Ws h5 (fun r hr => hr.d')
  exact ⟨h6, h5, h3, h2, h1, h0⟩

/-- a base expression after which nothing is required, at every level -/
theorem asmBaseLs {n : Nat} {T : List Char} {R : PState → Expr → Prop} (h : PTs baseP Any n T R) :
    AllTLs (n + 6) WD T T T T T T T R R R R R R R := by
  obtain ⟨h6, h5, h3, h2, h1, h0⟩ := groupLevelss h
  exact ⟨h0, h1.mono (by omega), h2.mono (by omega), h3.mono (by omega),
    (h.weaken (fun _ _ => trivial)).mono (by omega), h5.mono (by omega), h6.mono (by omega)⟩

theorem asm0Ls {n : Nat} {T l1 l2 : List Char} {R : PState → Expr → Prop} (hl1 : IsLayout l1)
    (hl2 : IsLayoutW l2) (hT : NBStart T) (h0 : PTs fallback FCont n T R) :
    AllTLs (n + 6) WD T (parenL l1 l2 T) (parenL l1 l2 T) (parenL l1 l2 T) (parenL l1 l2 T)
      (parenL l1 l2 T) (parenL l1 l2 T) R (shiftBy (1 + l1.length) R) (shiftBy (1 + l1.length) R)
      (shiftBy (1 + l1.length) R) (shiftBy (1 + l1.length) R) (shiftBy (1 + l1.length) R)
      (shiftBy (1 + l1.length) R) := by
  have hB := paren_PTLs hl1 hl2 hT h0
  obtain ⟨h6, h5, h3, h2, h1, _⟩ := groupLevelss hB
  exact ⟨h0.mono (by omega), h1.mono (by omega), h2.mono (by omega), h3.mono (by omega),
    (hB.weaken (fun _ _ => trivial)).mono (by omega), h5.mono (by omega), h6.mono (by omega)⟩

theorem asm1Ls {n : Nat} {T l1 l2 : List Char} {R : PState → Expr → Prop} (hl1 : IsLayout l1)
    (hl2 : IsLayoutW l2) (hT : NBStart T) (h1 : PTs alternative ACont n T R) :
    AllTLs (n + 6) WD T T (parenL l1 l2 T) (parenL l1 l2 T) (parenL l1 l2 T)
      (parenL l1 l2 T) (parenL l1 l2 T) R R (shiftBy (1 + l1.length) R)
      (shiftBy (1 + l1.length) R) (shiftBy (1 + l1.length) R) (shiftBy (1 + l1.length) R)
      (shiftBy (1 + l1.length) R) := by
  have h0 := lift_A_Fs h1
  have hB := paren_PTLs hl1 hl2 hT h0
  obtain ⟨h6, h5, h3, h2, _, _⟩ := groupLevelss hB
  exact ⟨h0.mono (by omega), h1.mono (by omega), h2.mono (by omega), h3.mono (by omega),
    (hB.weaken (fun _ _ => trivial)).mono (by omega), h5.mono (by omega), h6.mono (by omega)⟩

theorem asm2Ls {n : Nat} {T l1 l2 : List Char} {R : PState → Expr → Prop} (hl1 : IsLayout l1)
    (hl2 : IsLayoutW l2) (hT : NBStart T) (h2 : PTs sequence SCont n T R) :
    AllTLs (n + 6) WD T T T (parenL l1 l2 T) (parenL l1 l2 T) (parenL l1 l2 T) (parenL l1 l2 T)
      R R R (shiftBy (1 + l1.length) R) (shiftBy (1 + l1.length) R) (shiftBy (1 + l1.length) R)
      (shiftBy (1 + l1.length) R) := by
  have h1 := lift_S_As h2
  have h0 := lift_A_Fs h1
  have hB := paren_PTLs hl1 hl2 hT h0
  obtain ⟨h6, h5, h3, _, _, _⟩ := groupLevelss hB
  exact ⟨h0.mono (by omega), h1.mono (by omega), h2.mono (by omega), h3.mono (by omega),
    (hB.weaken (fun _ _ => trivial)).mono (by omega), h5.mono (by omega), h6.mono (by omega)⟩

/-- a word with its description -/
theorem asmDLs {n : Nat} {T l1 l2 : List Char} {R : PState → Expr → Prop} (hl1 : IsLayout l1)
    (hl2 : IsLayoutW l2) (hT : NBStart T) (h3 : PTs sseod Any n T R) :
    AllTLs (n + 6) WD T T T T (parenL l1 l2 T) (parenL l1 l2 T) (parenL l1 l2 T)
      R R R R (shiftBy (1 + l1.length) R) (shiftBy (1 + l1.length) R) (shiftBy (1 + l1.length) R) := by
  have h3' : PTs sseod UC n T R := h3.weaken (fun _ _ => trivial)
  have h2 := lift_D_Ss' h3' (fun r hr => hr.uc)
  have h1 := lift_S_As h2
  have h0 := lift_A_Fs h1
  have hB := paren_PTLs hl1 hl2 hT h0
  obtain ⟨h6, h5, _, _, _, _⟩ := groupLevelss hB
  exact ⟨h0.mono (by omega), h1.mono (by omega), h2.mono (by omega), h3'.mono (by omega),
    (hB.weaken (fun _ _ => trivial)).mono (by omega), h5.mono (by omega), h6.mono (by omega)⟩

/-- a unary expression after which nothing is required (a postfix `...`) -/
theorem asmUnaryLs {n : Nat} {T l1 l2 : List Char} {R : PState → Expr → Prop} (hl1 : IsLayout l1)
    (hl2 : IsLayoutW l2) (hT : NBStart T) (h6 : PTs unary Any n T R) :
    AllTLs (n + 6) WD T T T T (parenL l1 l2 T) T T R R R R (shiftBy (1 + l1.length) R) R R := by
  have h5 : PTs subwordSeq UD' (n + 1) T R := lift_U_Ws' h6 (fun r hr => ⟨trivial, hr.1⟩)
  obtain ⟨h3, h2, h1, h0⟩ := up_Ws h5 (fun r hr => hr.d')
  have hB := paren_PTLs hl1 hl2 hT h0
  exact ⟨h0.mono (by omega), h1.mono (by omega), h2.mono (by omega), h3.mono (by omega),
    (hB.weaken (fun _ _ => trivial)).mono (by omega), h5.mono (by omega),
    (h6.weaken (fun _ _ => trivial)).mono (by omega)⟩

/-- a literal without description -/
theorem asmBareLs {t T l1 l2 : List Char} {R : PState → Expr → Prop} (hl1 : IsLayout l1)
    (hl2 : IsLayoutW l2) (hT : NBStart T) (h : PTs baseP (BL t) 0 T R) :
    AllTLs 9 (WL t) T T T T (if endsDot t then parenL l1 l2 T else T) (parenL l1 l2 T) T
      R R R R (fun s e' => R (if endsDot t then s.adv (1 + l1.length) else s) e')
      (shiftBy (1 + l1.length) R) R := by
  have h6 : PTs unary (WL t) 1 T R := lift_B_Us' h (fun r hr => ⟨hr.1, hr.2⟩)
  have h5 : PTs subwordSeq UC 2 T R := lift_U_Ws' h6 (fun r hr => ⟨hr.wl t, .inl hr.1⟩)
  obtain ⟨h3, h2, h1, h0⟩ := up_Ws h5 (fun r hr => hr)
  have hB := paren_PTLs hl1 hl2 hT h0
  obtain ⟨_, h5', _, _, _, _⟩ := groupLevelss hB
  refine ⟨h0.mono (by omega), h1.mono (by omega), h2.mono (by omega), h3.mono (by omega), ?_, h5',
    h6.mono (by omega)⟩
  cases hd : endsDot t
  · simp only [Bool.false_eq_true, if_false]
    refine (h.weaken (fun r hr => ⟨hr, .inr ?_⟩)).mono (by omega)
    simpa [endsDot] using hd
  · simp only [if_true]
    exact (hB.weaken (fun _ _ => trivial)).mono (by omega)

/-- a word of several factors, at every level -/
theorem asmWLs {n : Nat} {T l1 l2 : List Char} {R : PState → Expr → Prop} (lb : Bool) (hl1 : IsLayout l1)
    (hl2 : IsLayoutW l2) (hT : NBStart T) (h : PTs subwordSeq (EC' lb) n T R) :
    AllTLs (n + 7) WD T T T T (parenL l1 l2 T) (if lb then parenL l1 l2 T else T) (parenL l1 l2 T)
      R R R R (shiftBy (1 + l1.length) R) (fun s e' => R (if lb then s.adv (1 + l1.length) else s) e')
      (shiftBy (1 + l1.length) R) := by
  obtain ⟨h3, h2, h1, h0⟩ := up_Ws h (fun r hr => EC'.of_uc lb hr)
  have hB := paren_PTLs hl1 hl2 hT h0
  obtain ⟨h6, h5, _, _, _, _⟩ := groupLevelss hB
  refine ⟨h0.mono (by omega), h1.mono (by omega), h2.mono (by omega), h3.mono (by omega),
    (hB.weaken (fun _ _ => trivial)).mono (by omega), ?_, h6.mono (by omega)⟩
  cases lb
  · exact (h.mono (by omega) : PTs subwordSeq UD' (n + 7) T R)
  · exact h5.mono (by omega)

/-! ### unfolding `PlacedL'` -/

theorem placedL'_seq (lay : Layout') (ctx : Nat) (s : PState) (e1 : Expr) (r : ExprL) (sp : Span) (e' : Expr) :
    PlacedL' lay ctx s (.seq (.cons e1 r) sp) e' ↔
    ∃ c1 cs', e' = .seq (.cons c1 cs') (spanOf (skipParenL lay (decide (3 ≤ ctx)) s)
        (ppL' ((lay.sub 0).sub 0) 3 e1 ++ ppTailL' ((lay.sub 0).sub 1) 3 r).length) ∧
      PlacedL' ((lay.sub 0).sub 0) 3 (skipParenL lay (decide (3 ≤ ctx)) s) e1 c1 ∧
      PlacedTailL' ((lay.sub 0).sub 1) 3
        ((skipParenL lay (decide (3 ≤ ctx)) s).adv (ppL' ((lay.sub 0).sub 0) 3 e1).length) r cs' := by
  simp only [PlacedL', PlacedListL', ppListL']
  constructor
  · rintro ⟨cs', rfl, c1, r', rfl, h1, h2⟩; exact ⟨c1, r', rfl, h1, h2⟩
  · rintro ⟨c1, r', rfl, h1, h2⟩; exact ⟨_, rfl, c1, r', rfl, h1, h2⟩

theorem placedL'_alt (lay : Layout') (ctx : Nat) (s : PState) (e1 : Expr) (r : ExprL) (sp : Span) (e' : Expr) :
    PlacedL' lay ctx s (.alt (.cons e1 r) sp) e' ↔
    ∃ c1 cs', e' = .alt (.cons c1 cs') (spanOf (skipParenL lay (decide (2 ≤ ctx)) s)
        (ppL' ((lay.sub 0).sub 0) 2 e1 ++ ppTailL' ((lay.sub 0).sub 1) 2 r).length) ∧
      PlacedL' ((lay.sub 0).sub 0) 2 (skipParenL lay (decide (2 ≤ ctx)) s) e1 c1 ∧
      PlacedTailL' ((lay.sub 0).sub 1) 2
        ((skipParenL lay (decide (2 ≤ ctx)) s).adv (ppL' ((lay.sub 0).sub 0) 2 e1).length) r cs' := by
  simp only [PlacedL', PlacedListL', ppListL']
  constructor
  · rintro ⟨cs', rfl, c1, r', rfl, h1, h2⟩; exact ⟨c1, r', rfl, h1, h2⟩
  · rintro ⟨c1, r', rfl, h1, h2⟩; exact ⟨_, rfl, c1, r', rfl, h1, h2⟩

theorem placedL'_fb (lay : Layout') (ctx : Nat) (s : PState) (e1 : Expr) (r : ExprL) (sp : Span) (e' : Expr) :
    PlacedL' lay ctx s (.fb (.cons e1 r) sp) e' ↔
    ∃ c1 cs', e' = .fb (.cons c1 cs') (spanOf (skipParenL lay (decide (1 ≤ ctx)) s)
        (ppL' ((lay.sub 0).sub 0) 1 e1 ++ ppTailL' ((lay.sub 0).sub 1) 1 r).length) ∧
      PlacedL' ((lay.sub 0).sub 0) 1 (skipParenL lay (decide (1 ≤ ctx)) s) e1 c1 ∧
      PlacedTailL' ((lay.sub 0).sub 1) 1
        ((skipParenL lay (decide (1 ≤ ctx)) s).adv (ppL' ((lay.sub 0).sub 0) 1 e1).length) r cs' := by
  simp only [PlacedL', PlacedListL', ppListL']
  constructor
  · rintro ⟨cs', rfl, c1, r', rfl, h1, h2⟩; exact ⟨c1, r', rfl, h1, h2⟩
  · rintro ⟨c1, r', rfl, h1, h2⟩; exact ⟨_, rfl, c1, r', rfl, h1, h2⟩

theorem placedTailL'_cons_ne (lay : Layout') (ctx : Nat) (e : Expr) (es : ExprL) :
    ∀ s es', PlacedTailL' lay ctx s (.cons e es) es' → ∃ x xs, es' = .cons x xs := by
  intro s es' h
  simp only [PlacedTailL'] at h
  obtain ⟨e', r', rfl, _⟩ := h
  exact ⟨_, _, rfl⟩

theorem sepL'_six (lay : Layout') : sepL' lay 6 = [] := rfl

/-- the factors of a word follow one another directly -/
theorem placedTailL'_six_cons (lay : Layout') (s : PState) (f : Expr) (fs es' : ExprL) :
    PlacedTailL' lay 6 s (.cons f fs) es' ↔
    ∃ e' r', es' = .cons e' r' ∧ PlacedL' (lay.sub 0) 6 s f e' ∧
      PlacedTailL' (lay.sub 1) 6 (s.adv (ppL' (lay.sub 0) 6 f).length) fs r' := by
  simp only [PlacedTailL', sepL'_six, List.length_nil, adv_zero]

/-! ### flattening the factors of a word changes nothing -/

theorem flattenL_noSub : ∀ es : ExprL, NoSubL es → Check.flattenL es = es
  | .nil, _ => by simp [Check.flattenL]
  | .cons e es, h => by
    simp only [NoSubL] at h
    simp [Check.flattenL, flatten_noSub e h.1, flattenL_noSub es h.2]

theorem NFW_cons (f : Expr) (fs : ExprL) (h : NFW (.cons f fs)) :
    NF' f ∧ NoSub f ∧ (bare f = true → fs = .nil ∨ BracketHead (ppTail' 6 [] fs)) ∧ NFW fs := by
  simpa only [NFW] using h

theorem NFW_noSubL : ∀ fs : ExprL, NFW fs → NoSubL fs
  | .nil, _ => by simp [NoSubL]
  | .cons f fs, h => by
    simp only [NFW] at h
    simp only [NoSubL]
    exact ⟨h.2.1, NFW_noSubL fs h.2.2.2⟩

mutual
theorem placed_noSub : ∀ (e : Expr) (lay : Layout') (ctx : Nat) (s : PState) (e' : Expr),
    PlacedL' lay ctx s e e' → NoSub e → NoSub e'
  | .term t none l sp, lay, ctx, s, e', h, _ => by simp only [PlacedL'] at h; subst h; simp [NoSub]
  | .term t (some d) l sp, lay, ctx, s, e', h, _ => by simp only [PlacedL'] at h; subst h; simp [NoSub]
  | .nonterm n l sp, lay, ctx, s, e', h, _ => by simp only [PlacedL'] at h; subst h; simp [NoSub]
  | .cmd c a l sp, lay, ctx, s, e', h, _ => by simp only [PlacedL'] at h; subst h; simp [NoSub]
  | .seq cs sp, lay, ctx, s, e', h, hn => by
    simp only [PlacedL'] at h
    obtain ⟨cs', rfl, h⟩ := h
    simp only [NoSub] at hn ⊢
    exact placedList_noSub cs _ _ _ _ h hn
  | .alt cs sp, lay, ctx, s, e', h, hn => by
    simp only [PlacedL'] at h
    obtain ⟨cs', rfl, h⟩ := h
    simp only [NoSub] at hn ⊢
    exact placedList_noSub cs _ _ _ _ h hn
  | .fb cs sp, lay, ctx, s, e', h, hn => by
    simp only [PlacedL'] at h
    obtain ⟨cs', rfl, h⟩ := h
    simp only [NoSub] at hn ⊢
    exact placedList_noSub cs _ _ _ _ h hn
  | .opt c sp, lay, ctx, s, e', h, hn => by
    simp only [PlacedL'] at h
    obtain ⟨c', rfl, h⟩ := h
    simp only [NoSub] at hn ⊢
    exact placed_noSub c _ _ _ _ h hn
  | .many1 c sp, lay, ctx, s, e', h, hn => by
    simp only [PlacedL'] at h
    obtain ⟨c', rfl, h⟩ := h
    simp only [NoSub] at hn ⊢
    exact placed_noSub c _ _ _ _ h hn
  | .dd c d sp, lay, ctx, s, e', h, hn => by
    simp only [PlacedL'] at h
    obtain ⟨c', rfl, h⟩ := h
    simp only [NoSub] at hn ⊢
    exact placed_noSub c _ _ _ _ h hn
  | .sub c l sp, lay, ctx, s, e', _, hn => by simp [NoSub] at hn
theorem placedList_noSub : ∀ (es : ExprL) (lay : Layout') (ctx : Nat) (s : PState) (es' : ExprL),
    PlacedListL' lay ctx s es es' → NoSubL es → NoSubL es'
  | .nil, lay, ctx, s, es', h, _ => by simp only [PlacedListL'] at h; subst h; simp [NoSubL]
  | .cons e es, lay, ctx, s, es', h, hn => by
    simp only [PlacedListL'] at h
    obtain ⟨e', r', rfl, h1, h2⟩ := h
    simp only [NoSubL] at hn ⊢
    exact ⟨placed_noSub e _ _ _ _ h1 hn.1, placedTail_noSub es _ _ _ _ h2 hn.2⟩
theorem placedTail_noSub : ∀ (es : ExprL) (lay : Layout') (ctx : Nat) (s : PState) (es' : ExprL),
    PlacedTailL' lay ctx s es es' → NoSubL es → NoSubL es'
  | .nil, lay, ctx, s, es', h, _ => by simp only [PlacedTailL'] at h; subst h; simp [NoSubL]
  | .cons e es, lay, ctx, s, es', h, hn => by
    simp only [PlacedTailL'] at h
    obtain ⟨e', r', rfl, h1, h2⟩ := h
    simp only [NoSubL] at hn ⊢
    exact ⟨placed_noSub e _ _ _ _ h1 hn.1, placedTail_noSub es _ _ _ _ h2 hn.2⟩
end

/-! ### the side conditions of the induction, from `all_levelsL` -/

theorem allLG_of_NFL : ∀ es : ExprL, NFL' es → TailsG' es ∧ AllLG' es
  | .nil, _ => case_nilL
  | .cons e es, h => by
    simp only [NFL'] at h
    exact case_consL e es (all_levelsL e h.1) (allLG_of_NFL es h.2)

theorem allWG_of_NFW : ∀ fs : ExprL, NFW fs → AllWG fs ∧ ∀ b, TailsWG b fs
  | .nil, _ => case_nilWL
  | .cons f fs, h => by
    have h' := h
    simp only [NFW] at h'
    exact case_consWL f fs (all_levelsL f h'.1) (allWG_of_NFW fs h'.2.2.2) h

/-! ### the induction -/

/-- at the seven levels the parser returns a tree laid out according to the text of that level -/
def AllGs (e : Expr) : Prop := ∀ lay : Layout', lay.Adm →
  AllTLs (needF e) (WOf e) (ppL' lay 0 e) (ppL' lay 1 e) (ppL' lay 2 e) (ppL' lay 3 e) (ppL' lay 4 e)
    (ppL' lay 5 e) (ppL' lay 6 e)
    (fun s e' => PlacedL' lay 0 s e e') (fun s e' => PlacedL' lay 1 s e e')
    (fun s e' => PlacedL' lay 2 s e e') (fun s e' => PlacedL' lay 3 s e e')
    (fun s e' => PlacedL' lay 4 s e e') (fun s e' => PlacedL' lay 5 s e e')
    (fun s e' => PlacedL' lay 6 s e e')

structure TailsEs (lay : Layout') (es : ExprL) : Prop where
  s : LTs sequenceLoop SCont (needFL es) (ppTailL' lay 3 es) (fun s es' => PlacedTailL' lay 3 s es es')
  a : LTs alternativeLoop ACont (needFL es) (ppTailL' lay 2 es) (fun s es' => PlacedTailL' lay 2 s es es')
  f : LTs fallbackLoop FCont (needFL es) (ppTailL' lay 1 es) (fun s es' => PlacedTailL' lay 1 s es es')

def TailsGs (es : ExprL) : Prop := ∀ lay : Layout', lay.Adm → TailsEs lay es

def AllLGs : ExprL → Prop
  | .nil => True
  | .cons e es => AllGs e ∧ TailsGs es ∧ AllLGs es

theorem case_nilLs : TailsGs .nil ∧ AllLGs .nil := by
  refine ⟨fun lay _ => ⟨?_, ?_, ?_⟩, trivial⟩
  · exact ((seqLoop_nils.mono (Nat.zero_le _)).text (by simp [ppTailL'])).imp
      (by intro s es' h; simpa [PlacedTailL'] using h)
  · exact ((altLoop_nils.mono (Nat.zero_le _)).text (by simp [ppTailL'])).imp
      (by intro s es' h; simpa [PlacedTailL'] using h)
  · exact ((fbLoop_nils.mono (Nat.zero_le _)).text (by simp [ppTailL'])).imp
      (by intro s es' h; simpa [PlacedTailL'] using h)

theorem case_consLs (e : Expr) (es : ExprL) (hN : NFL' (.cons e es)) (he : AllGs e)
    (hes : TailsGs es ∧ AllLGs es) : TailsGs (.cons e es) ∧ AllLGs (.cons e es) := by
  simp only [NFL'] at hN
  refine ⟨fun lay adm => ?_, he, hes.1, hes.2⟩
  have hE := all_levelsL e hN.1 (lay.sub 0) (adm.sub 0)
  have hA := (allLG_of_NFL es hN.2).2
  have he0 := he (lay.sub 0) (adm.sub 0)
  have hes1 := hes.1 (lay.sub 1) (adm.sub 1)
  refine ⟨?_, ?_, ?_⟩
  · have := seqLoop_consLs (adm.sep []).1.1 (adm.sep []).2 (hE.hd 3).nb he0.p3 hes1.s
      (tailS_contL es hA _ (adm.sub 1))
    refine ((this.mono (m := needFL (.cons e es)) (by simp only [needFL]; omega)).text
      (by simp [ppTailL', sepL'])).imp ?_
    intro s es' h
    simp only [PlacedTailL']
    exact h
  · have := altLoop_consLs (adm.barL []).1 (adm.barR []) (hE.hd 2).nb he0.p2 hes1.a
      (tailA_contL es _ (adm.sub 1))
    refine ((this.mono (m := needFL (.cons e es)) (by simp only [needFL]; omega)).text
      (by simp [ppTailL', sepL'])).imp ?_
    intro s es' h
    simp only [PlacedTailL']
    exact h
  · have := fbLoop_consLs (adm.barL []).1 (adm.barR []) (hE.hd 1).nb he0.p1 hes1.f
      (tailF_contL es _ (adm.sub 1))
    refine ((this.mono (m := needFL (.cons e es)) (by simp only [needFL]; omega)).text
      (by simp [ppTailL', sepL'])).imp ?_
    intro s es' h
    simp only [PlacedTailL']
    exact h

theorem case_bareLs (t : String) (l : Nat) (sp : Span) (h : NF' (.term t none l sp)) :
    AllGs (.term t none l sp) := by
  simp only [NF'] at h
  obtain ⟨rfl, h1, h2, h3⟩ := h
  intro lay adm
  have hS := litStarts t.toList h1 h3
  have hB := lit_bare_PTs t.toList h1 h2 h3
  rw [String.ofList_toList] at hB
  have A := asmBareLs (adm.opn []) (adm.cls []) hS.nb hB
  refine A.conv (by simp [needF]) (by rw [ppL'_bare]; simp [parenIfL']) (by rw [ppL'_bare]; simp [parenIfL'])
    (by rw [ppL'_bare]; simp [parenIfL']) (by rw [ppL'_bare]; simp [parenIfL'])
    (by rw [ppL'_bare]; simp [parenIfL']) (by rw [ppL'_bare]; simp [parenIfL'])
    (by rw [ppL'_bare]; simp [parenIfL']) ?_ ?_ ?_ ?_ ?_ ?_ ?_
  all_goals (intro s e' h; simp only [PlacedL']; simpa [skipParenL, shiftBy] using h)

theorem case_descrLs (t d : String) (l : Nat) (sp : Span) (h : NF' (.term t (some d) l sp)) :
    AllGs (.term t (some d) l sp) := by
  simp only [NF'] at h
  obtain ⟨rfl, h1, h2, h3⟩ := h
  intro lay adm
  have hB := lit_descr_PTLs t.toList d.toList (lay.descr []) (adm.descr []) h1 h2 h3
  rw [String.ofList_toList, String.ofList_toList] at hB
  have A := asmBaseLs hB
  refine A.conv (by simp [needF]) (ppL'_descr ..) (ppL'_descr ..) (ppL'_descr ..) (ppL'_descr ..)
    (ppL'_descr ..) (ppL'_descr ..) (ppL'_descr ..) ?_ ?_ ?_ ?_ ?_ ?_ ?_
  all_goals (intro s e' h; simp only [PlacedL']; exact h)

theorem case_termLs (t : String) (d : Option String) (l : Nat) (sp : Span) (h : NF' (.term t d l sp)) :
    AllGs (.term t d l sp) := by
  cases d with
  | none => exact case_bareLs t l sp h
  | some d => exact case_descrLs t d l sp h

theorem case_nontermLs (n : String) (l : Nat) (sp : Span) (h : NF' (.nonterm n l sp)) :
    AllGs (.nonterm n l sp) := by
  simp only [NF'] at h
  obtain ⟨rfl, h1, h2⟩ := h
  intro lay _
  have hB := nonterm_PTs' n.toList h1 h2
  rw [String.ofList_toList] at hB
  have A := asmBaseLs hB
  refine A.conv (by simp [needF]) (by simp [ppL']) (by simp [ppL']) (by simp [ppL']) (by simp [ppL'])
    (by simp [ppL']) (by simp [ppL']) (by simp [ppL']) ?_ ?_ ?_ ?_ ?_ ?_ ?_
  all_goals (intro s e' h; simp only [PlacedL']; exact h)

theorem case_cmdLs (c : String) (a : Bool) (l : Nat) (sp : Span) (h : NF' (.cmd c a l sp)) :
    AllGs (.cmd c a l sp) := by
  simp only [NF'] at h
  obtain ⟨rfl, rfl, h1, h2, h3⟩ := h
  intro lay _
  have hB := cmd_PTs' c.toList h1 h2 h3
  rw [String.ofList_toList] at hB
  have A := asmBaseLs hB
  refine A.conv (by simp [needF]) (by simp [ppL']) (by simp [ppL']) (by simp [ppL']) (by simp [ppL'])
    (by simp [ppL']) (by simp [ppL']) (by simp [ppL']) ?_ ?_ ?_ ?_ ?_ ?_ ?_
  all_goals (intro s e' h; simp only [PlacedL']; exact h)

theorem case_optLs (c : Expr) (sp : Span) (ih : NF' c → AllGs c) (h : NF' (.opt c sp)) :
    AllGs (.opt c sp) := by
  simp only [NF'] at h
  have hc := ih h
  intro lay adm
  have hC := all_levelsL c h (lay.sub 0) (adm.sub 0)
  have hc0 := hc (lay.sub 0) (adm.sub 0)
  have A := asmBaseLs (bracket_PTLs (adm.opn []) (adm.cls []) (hC.hd 0).nb hc0.p0)
  refine A.conv (by simp only [needF]; omega) (by simp [ppL']) (by simp [ppL']) (by simp [ppL'])
    (by simp [ppL']) (by simp [ppL']) (by simp [ppL']) (by simp [ppL']) ?_ ?_ ?_ ?_ ?_ ?_ ?_
  all_goals (intro s e' h; simp only [PlacedL']; exact h)

theorem case_many1Ls (c : Expr) (sp : Span) (ih : NF' c → AllGs c) (h : NF' (.many1 c sp)) :
    AllGs (.many1 c sp) := by
  simp only [NF'] at h
  have hc := ih h
  intro lay adm
  have hC := all_levelsL c h (lay.sub 0) (adm.sub 0)
  have hc0 := hc (lay.sub 0) (adm.sub 0)
  have hT : SameHead (ppL' (lay.sub 0) 4 c ++ lay.dots [] ++ ['.', '.', '.']) (pp' 4 c ++ ['.', '.', '.']) := by
    have := (hC.hd 4).append (lay.dots [] ++ ['.', '.', '.']) ['.', '.', '.']
    simpa using this
  have A := asmUnaryLs (adm.opn []) (adm.cls []) hT.nb (lift_B_many1Ls (adm.dots []) hc0.p4)
  refine A.conv (by simp only [needF]; omega) (by simp [ppL', parenIfL']) (by simp [ppL', parenIfL'])
    (by simp [ppL', parenIfL']) (by simp [ppL', parenIfL']) (by simp [ppL', parenIfL'])
    (by simp [ppL', parenIfL']) (by simp [ppL', parenIfL']) ?_ ?_ ?_ ?_ ?_ ?_ ?_
  all_goals (intro s e' h; simp only [PlacedL']; exact h)

theorem case_ddLs (c : Expr) (d : String) (sp : Span) (ih : NF' c → AllGs c) (h : NF' (.dd c d sp)) :
    AllGs (.dd c d sp) := by
  simp only [NF'] at h
  have hc := ih h
  intro lay adm
  have hC := all_levelsL c h (lay.sub 0) (adm.sub 0)
  have hc0 := hc (lay.sub 0) (adm.sub 0)
  have hT : SameHead (ppL' (lay.sub 0) 5 c ++ descrTextL (lay.descr []) d.toList)
      (pp' 5 c ++ descrText d.toList) := (hC.hd 5).append _ _
  have hD := lift_W_ddLs d.toList (adm.descr []) hc0.p5
  rw [String.ofList_toList] at hD
  have A := asmDLs (adm.opn []) (adm.cls []) hT.nb hD
  refine A.conv (by simp only [needF]; omega) (by simp [ppL', parenIfL']) (by simp [ppL', parenIfL'])
    (by simp [ppL', parenIfL']) (by simp [ppL', parenIfL']) (by simp [ppL', parenIfL'])
    (by simp [ppL', parenIfL']) (by simp [ppL', parenIfL']) ?_ ?_ ?_ ?_ ?_ ?_ ?_
  all_goals (intro s e' h; simp only [PlacedL']; exact h)

theorem case_seqLs (cs : ExprL) (sp : Span) (ih : NFL' cs → TailsGs cs ∧ AllLGs cs) (h : NF' (.seq cs sp)) :
    AllGs (.seq cs sp) := by
  simp only [NF'] at h
  obtain ⟨e1, e2, es, rfl⟩ := two_le_length h.1
  obtain ⟨_, h1, h2, _⟩ := ih h.2
  have hN := h.2
  simp only [NFL'] at hN
  have h3 := (allLG_of_NFL _ (show NFL' (.cons e2 es) from by simp only [NFL']; exact hN.2)).2
  intro lay adm
  have a0 := adm.sub 0
  have hE1 := all_levelsL e1 hN.1 ((lay.sub 0).sub 0) (a0.sub 0)
  have h1' := h1 ((lay.sub 0).sub 0) (a0.sub 0)
  have h2' := h2 ((lay.sub 0).sub 1) (a0.sub 1)
  have hT : SameHead (ppL' ((lay.sub 0).sub 0) 3 e1 ++ ppTailL' ((lay.sub 0).sub 1) 3 (.cons e2 es))
      (pp' 3 e1 ++ ppTail' 3 sepS (.cons e2 es)) := (hE1.hd 3).append _ _
  have hn := seq_natives' h1'.p3 h2'.s (placedTailL'_cons_ne _ _ _ _) (tailS_contL _ h3 _ (a0.sub 1))
  have A := asm2Ls (adm.opn []) (adm.cls []) hT.nb hn
  refine A.conv (by simp only [needF, needFL]; omega) (by simp [ppL', ppListL', parenIfL'])
    (by simp [ppL', ppListL', parenIfL']) (by simp [ppL', ppListL', parenIfL'])
    (by simp [ppL', ppListL', parenIfL']) (by simp [ppL', ppListL', parenIfL'])
    (by simp [ppL', ppListL', parenIfL']) (by simp [ppL', ppListL', parenIfL']) ?_ ?_ ?_ ?_ ?_ ?_ ?_
  all_goals (intro s e' h; rw [placedL'_seq]; exact h)

theorem case_altLs (cs : ExprL) (sp : Span) (ih : NFL' cs → TailsGs cs ∧ AllLGs cs) (h : NF' (.alt cs sp)) :
    AllGs (.alt cs sp) := by
  simp only [NF'] at h
  obtain ⟨e1, e2, es, rfl⟩ := two_le_length h.1
  obtain ⟨_, h1, h2, _⟩ := ih h.2
  have hN := h.2
  simp only [NFL'] at hN
  intro lay adm
  have a0 := adm.sub 0
  have hE1 := all_levelsL e1 hN.1 ((lay.sub 0).sub 0) (a0.sub 0)
  have h1' := h1 ((lay.sub 0).sub 0) (a0.sub 0)
  have h2' := h2 ((lay.sub 0).sub 1) (a0.sub 1)
  have hT : SameHead (ppL' ((lay.sub 0).sub 0) 2 e1 ++ ppTailL' ((lay.sub 0).sub 1) 2 (.cons e2 es))
      (pp' 2 e1 ++ ppTail' 2 sepA (.cons e2 es)) := (hE1.hd 2).append _ _
  have hn := alt_natives h1'.p2 h2'.a (placedTailL'_cons_ne _ _ _ _) (tailA_contL _ _ (a0.sub 1))
  have A := asm1Ls (adm.opn []) (adm.cls []) hT.nb hn
  refine A.conv (by simp only [needF, needFL]; omega) (by simp [ppL', ppListL', parenIfL'])
    (by simp [ppL', ppListL', parenIfL']) (by simp [ppL', ppListL', parenIfL'])
    (by simp [ppL', ppListL', parenIfL']) (by simp [ppL', ppListL', parenIfL'])
    (by simp [ppL', ppListL', parenIfL']) (by simp [ppL', ppListL', parenIfL']) ?_ ?_ ?_ ?_ ?_ ?_ ?_
  all_goals (intro s e' h; rw [placedL'_alt]; exact h)

theorem case_fbLs (cs : ExprL) (sp : Span) (ih : NFL' cs → TailsGs cs ∧ AllLGs cs) (h : NF' (.fb cs sp)) :
    AllGs (.fb cs sp) := by
  simp only [NF'] at h
  obtain ⟨e1, e2, es, rfl⟩ := two_le_length h.1
  obtain ⟨_, h1, h2, _⟩ := ih h.2
  have hN := h.2
  simp only [NFL'] at hN
  intro lay adm
  have a0 := adm.sub 0
  have hE1 := all_levelsL e1 hN.1 ((lay.sub 0).sub 0) (a0.sub 0)
  have h1' := h1 ((lay.sub 0).sub 0) (a0.sub 0)
  have h2' := h2 ((lay.sub 0).sub 1) (a0.sub 1)
  have hT : SameHead (ppL' ((lay.sub 0).sub 0) 1 e1 ++ ppTailL' ((lay.sub 0).sub 1) 1 (.cons e2 es))
      (pp' 1 e1 ++ ppTail' 1 sepF (.cons e2 es)) := (hE1.hd 1).append _ _
  have hn := fb_natives h1'.p1 h2'.f (placedTailL'_cons_ne _ _ _ _) (tailF_contL _ _ (a0.sub 1))
  have A := asm0Ls (adm.opn []) (adm.cls []) hT.nb hn
  refine A.conv (by simp only [needF, needFL]; omega) (by simp [ppL', ppListL', parenIfL'])
    (by simp [ppL', ppListL', parenIfL']) (by simp [ppL', ppListL', parenIfL'])
    (by simp [ppL', ppListL', parenIfL']) (by simp [ppL', ppListL', parenIfL'])
    (by simp [ppL', ppListL', parenIfL']) (by simp [ppL', ppListL', parenIfL']) ?_ ?_ ?_ ?_ ?_ ?_ ?_
  all_goals (intro s e' h; rw [placedL'_fb]; exact h)

/-! ### juxtaposition -/

def TailsWGs (b : Bool) (fs : ExprL) : Prop := ∀ lay : Layout', lay.Adm →
  LTs subwordLoop (EC' (lastBare b fs)) (needFL fs) (ppTailL' lay 6 fs)
    (fun s es' => PlacedTailL' lay 6 s fs es')

def AllWGs : ExprL → Prop
  | .nil => True
  | .cons f fs => AllGs f ∧ TailsWGs (bare f) fs ∧ AllWGs fs

theorem case_nilWLs : AllWGs .nil ∧ ∀ b, TailsWGs b .nil := by
  refine ⟨trivial, fun b lay _ => ?_⟩
  have := swLoop_nils (C := EC' (lastBare b .nil)) (fun r hr => hr.d.1)
  exact ((this.mono (Nat.zero_le _)).text (by simp [ppTailL'])).imp
    (by intro s es' h; simpa [PlacedTailL'] using h)

theorem case_consWLs (f : Expr) (fs : ExprL) (hf : AllGs f) (hfs : AllWGs fs ∧ ∀ b, TailsWGs b fs)
    (hN : NFW (.cons f fs)) : AllWGs (.cons f fs) ∧ ∀ b, TailsWGs b (.cons f fs) := by
  refine ⟨⟨hf, hfs.2 _, hfs.1⟩, fun b lay adm => ?_⟩
  have hN' := hN
  simp only [NFW] at hN'
  have hA := (allWG_of_NFW fs hN'.2.2.2).1
  have := swLoop_conss (hf (lay.sub 0) (adm.sub 0)).p6 (hfs.2 (bare f) (lay.sub 1) (adm.sub 1))
    (tailW_contL f fs hN hA _ (adm.sub 1))
  refine ((this.mono (m := needFL (.cons f fs)) (by simp only [needFL]; omega)).text
    (by simp [ppTailL', sepL'])).imp ?_
  intro s es' h
  rw [placedTailL'_six_cons]
  exact h

/-- the tree `sw_natives` describes is laid out as a word: flattening the factors changes nothing -/
theorem placedL'_sub_of (lay : Layout') (ctx : Nat) (s : PState) (f1 : Expr) (r : ExprL) (sp1 sp : Span)
    (e' : Expr) (hn : NoSubL (.cons f1 r)) (b : Bool)
    (hb : b = (ctx == 4 || ctx == 6 || (ctx == 5 && lastBare false (.cons f1 r))))
    (h : ∃ c1 cs', e' = .sub (.seq (Check.flattenL (.cons c1 cs'))
          (spanOf (skipParenL lay b s)
            (ppL' ((lay.sub 0).sub 0) 6 f1 ++ ppTailL' ((lay.sub 0).sub 1) 6 r).length)) 0
          (spanOf (skipParenL lay b s)
            (ppL' ((lay.sub 0).sub 0) 6 f1 ++ ppTailL' ((lay.sub 0).sub 1) 6 r).length) ∧
        PlacedL' ((lay.sub 0).sub 0) 6 (skipParenL lay b s) f1 c1 ∧
        PlacedTailL' ((lay.sub 0).sub 1) 6
          ((skipParenL lay b s).adv (ppL' ((lay.sub 0).sub 0) 6 f1).length) r cs') :
    PlacedL' lay ctx s (.sub (.seq (.cons f1 r) sp1) 0 sp) e' := by
  subst hb
  obtain ⟨c1, cs', rfl, h1, h2⟩ := h
  simp only [NoSubL] at hn
  have hn' : NoSubL (.cons c1 cs') := by
    simp only [NoSubL]
    exact ⟨placed_noSub _ _ _ _ _ h1 hn.1, placedTail_noSub _ _ _ _ _ h2 hn.2⟩
  rw [flattenL_noSub _ hn']
  simp only [PlacedL', PlacedListL', ppListL']
  exact ⟨_, rfl, c1, cs', rfl, h1, h2⟩

theorem case_subLs (fs : ExprL) (sp1 : Span) (l : Nat) (sp : Span)
    (ih : NFW fs → AllWGs fs ∧ ∀ b, TailsWGs b fs) (h : NF' (.sub (.seq fs sp1) l sp)) :
    AllGs (.sub (.seq fs sp1) l sp) := by
  simp only [NF'] at h
  obtain ⟨rfl, hlen, hN⟩ := h
  obtain ⟨f1, f2, fs', rfl⟩ := two_le_length hlen
  obtain ⟨⟨h1, h2, _⟩, _⟩ := ih hN
  have hN' := NFW_cons _ _ hN
  have h3 := (allWG_of_NFW _ hN'.2.2.2).1
  have hNS := NFW_noSubL _ hN
  intro lay adm
  have a0 := adm.sub 0
  have hE1 := all_levelsL f1 hN'.1 ((lay.sub 0).sub 0) (a0.sub 0)
  have h1' := h1 ((lay.sub 0).sub 0) (a0.sub 0)
  have h2' := h2 ((lay.sub 0).sub 1) (a0.sub 1)
  have hT : SameHead (ppL' ((lay.sub 0).sub 0) 6 f1 ++ ppTailL' ((lay.sub 0).sub 1) 6 (.cons f2 fs'))
      (pp' 6 f1 ++ ppTail' 6 [] (.cons f2 fs')) := (hE1.hd 6).append _ _
  have hn := sw_natives h1'.p6 h2' (placedTailL'_cons_ne _ _ _ _) (tailW_contL f1 _ hN h3 _ (a0.sub 1))
  have hpp : ∀ k, ppL' lay k (.sub (.seq (.cons f1 (.cons f2 fs')) sp1) 0 sp) =
      parenIfL' lay (k == 4 || k == 6 || (k == 5 && lastBare false (.cons f1 (.cons f2 fs'))))
        (ppL' ((lay.sub 0).sub 0) 6 f1 ++ ppTailL' ((lay.sub 0).sub 1) 6 (.cons f2 fs')) := by
    intro k; rw [ppL'_sub, ppListL']
  have A := asmWLs _ (adm.opn []) (adm.cls []) hT.nb hn
  refine A.conv (by simp only [needF, needFL]; omega) (by rw [hpp]; simp [parenIfL', lastBare])
    (by rw [hpp]; simp [parenIfL', lastBare]) (by rw [hpp]; simp [parenIfL', lastBare])
    (by rw [hpp]; simp [parenIfL', lastBare]) (by rw [hpp]; simp [parenIfL', lastBare])
    (by rw [hpp]; rfl) (by rw [hpp]; simp [parenIfL', lastBare]) ?_ ?_ ?_ ?_ ?_ ?_ ?_
  · intro s e' h; exact placedL'_sub_of lay 0 s f1 _ sp1 sp e' hNS false rfl h
  · intro s e' h; exact placedL'_sub_of lay 1 s f1 _ sp1 sp e' hNS false rfl h
  · intro s e' h; exact placedL'_sub_of lay 2 s f1 _ sp1 sp e' hNS false rfl h
  · intro s e' h; exact placedL'_sub_of lay 3 s f1 _ sp1 sp e' hNS false rfl h
  · intro s e' h; exact placedL'_sub_of lay 4 s f1 _ sp1 sp e' hNS true rfl h
  · intro s e' h
    exact placedL'_sub_of lay 5 s f1 _ sp1 sp e' hNS (lastBare (bare f1) (.cons f2 fs'))
      (by simp [lastBare]) h
  · intro s e' h; exact placedL'_sub_of lay 6 s f1 _ sp1 sp e' hNS true rfl h

theorem all_levelsLs (e : Expr) : NF' e → AllGs e := by
  suffices h : (NF' e → AllGs e) ∧ ∀ fs sp, e = .seq fs sp → NFW fs → AllWGs fs ∧ ∀ b, TailsWGs b fs from h.1
  refine Expr.rec
    (motive_1 := fun e => (NF' e → AllGs e) ∧ ∀ fs sp, e = .seq fs sp → NFW fs → AllWGs fs ∧ ∀ b, TailsWGs b fs)
    (motive_2 := fun es => (NFL' es → TailsGs es ∧ AllLGs es) ∧ (NFW es → AllWGs es ∧ ∀ b, TailsWGs b es))
    ?_ ?_ ?_ ?_ ?_ ?_ ?_ ?_ ?_ ?_ ?_ ?_ e
  · intro t d l sp; exact ⟨case_termLs t d l sp, fun _ _ e => by cases e⟩
  · intro n l sp; exact ⟨case_nontermLs n l sp, fun _ _ e => by cases e⟩
  · intro c a l sp; exact ⟨case_cmdLs c a l sp, fun _ _ e => by cases e⟩
  · intro cs sp ih
    exact ⟨case_seqLs cs sp ih.1, fun fs sp' e => by cases e; exact ih.2⟩
  · intro cs sp ih; exact ⟨case_altLs cs sp ih.1, fun _ _ e => by cases e⟩
  · intro cs sp ih; exact ⟨case_fbLs cs sp ih.1, fun _ _ e => by cases e⟩
  · intro c sp ih; exact ⟨case_optLs c sp ih.1, fun _ _ e => by cases e⟩
  · intro c sp ih; exact ⟨case_many1Ls c sp ih.1, fun _ _ e => by cases e⟩
  · intro c d sp ih; exact ⟨case_ddLs c d sp ih.1, fun _ _ e => by cases e⟩
  · intro c l sp ih
    refine ⟨fun h => ?_, fun _ _ e => by cases e⟩
    cases c with
    | seq fs sp1 => exact case_subLs fs sp1 l sp (ih.2 fs sp1 rfl) h
    | _ => simp [NF'] at h
  · exact ⟨fun _ => case_nilLs, fun _ => case_nilWLs⟩
  · intro e es ihe ihes
    refine ⟨fun h => ?_, fun h => ?_⟩
    · have h' := h
      simp only [NFL'] at h'
      exact case_consLs e es h (ihe.1 h'.1) (ihes.1 h'.2)
    · have h' := h
      simp only [NFW] at h'
      exact case_consWLs e es (ihe.1 h'.1) (ihes.2 h'.2.2.2) h

end Complgen.Parse.Full

namespace Complgen.Parse
open Complgen Complgen.Parse.Full

/-- **Every span points at its construct, on the larger fragment, under every admissible layout**: a tree of
`NF'` printed with any admissible layout and followed by the end of the input, `;`, `)`, `]` (possibly after
blanks and comments) is parsed by `fallback_expr` into a tree every node of which carries the span of its own
text (`PlacedL'`; the head of the file says which text that is for each kind of node), and exactly the printed
characters are consumed. -/
theorem fallback_spans_full_layout (e : Expr) (hnf : NF' e) (lay : Layout') (adm : lay.Adm)
    (rest : List Char) (hrest : Follows rest) (s : PState) (hs : s.rest = ppL' lay 0 e ++ rest)
    (fuel : Nat) (hfuel : needF e ≤ fuel) :
    ∃ e', fallback fuel s = some (s.adv (ppL' lay 0 e).length, e') ∧ PlacedL' lay 0 s e e' :=
  (all_levelsLs e hnf lay adm).p0 rest hrest s hs fuel hfuel

/-! ### `PlacedL'` determines the tree up to spans -/

theorem placedL'_erase_all (e : Expr) :
    (∀ lay ctx s e', PlacedL' lay ctx s e e' → e'.eraseSpans = e.eraseSpans) ∧
    ∀ fs sp, e = .seq fs sp → ∀ lay ctx s fs', PlacedListL' lay ctx s fs fs' → fs'.eraseSpans = fs.eraseSpans := by
  refine Expr.rec
    (motive_1 := fun e => (∀ lay ctx s e', PlacedL' lay ctx s e e' → e'.eraseSpans = e.eraseSpans) ∧
      ∀ fs sp, e = .seq fs sp → ∀ lay ctx s fs', PlacedListL' lay ctx s fs fs' →
        fs'.eraseSpans = fs.eraseSpans)
    (motive_2 := fun es =>
      (∀ lay ctx s es', PlacedListL' lay ctx s es es' → es'.eraseSpans = es.eraseSpans) ∧
      (∀ lay ctx s es', PlacedTailL' lay ctx s es es' → es'.eraseSpans = es.eraseSpans))
    ?_ ?_ ?_ ?_ ?_ ?_ ?_ ?_ ?_ ?_ ?_ ?_ e
  · intro t d l sp
    refine ⟨fun lay ctx s e' h => ?_, fun _ _ e => by cases e⟩
    cases d with
    | none => simp only [PlacedL'] at h; subst h; simp [Expr.eraseSpans]
    | some d => simp only [PlacedL'] at h; subst h; simp [Expr.eraseSpans]
  · intro n l sp
    refine ⟨fun lay ctx s e' h => ?_, fun _ _ e => by cases e⟩
    simp only [PlacedL'] at h; subst h; simp [Expr.eraseSpans]
  · intro c a l sp
    refine ⟨fun lay ctx s e' h => ?_, fun _ _ e => by cases e⟩
    simp only [PlacedL'] at h; subst h; simp [Expr.eraseSpans]
  · intro cs sp ih
    refine ⟨fun lay ctx s e' h => ?_, fun fs sp' e => by cases e; exact ih.1⟩
    simp only [PlacedL'] at h
    obtain ⟨cs', rfl, h⟩ := h
    simp only [Expr.eraseSpans]; rw [ih.1 _ _ _ _ h]
  · intro cs sp ih
    refine ⟨fun lay ctx s e' h => ?_, fun _ _ e => by cases e⟩
    simp only [PlacedL'] at h
    obtain ⟨cs', rfl, h⟩ := h
    simp only [Expr.eraseSpans]; rw [ih.1 _ _ _ _ h]
  · intro cs sp ih
    refine ⟨fun lay ctx s e' h => ?_, fun _ _ e => by cases e⟩
    simp only [PlacedL'] at h
    obtain ⟨cs', rfl, h⟩ := h
    simp only [Expr.eraseSpans]; rw [ih.1 _ _ _ _ h]
  · intro c sp ih
    refine ⟨fun lay ctx s e' h => ?_, fun _ _ e => by cases e⟩
    simp only [PlacedL'] at h
    obtain ⟨c', rfl, h⟩ := h
    simp only [Expr.eraseSpans]; rw [ih.1 _ _ _ _ h]
  · intro c sp ih
    refine ⟨fun lay ctx s e' h => ?_, fun _ _ e => by cases e⟩
    simp only [PlacedL'] at h
    obtain ⟨c', rfl, h⟩ := h
    simp only [Expr.eraseSpans]; rw [ih.1 _ _ _ _ h]
  · intro c d sp ih
    refine ⟨fun lay ctx s e' h => ?_, fun _ _ e => by cases e⟩
    simp only [PlacedL'] at h
    obtain ⟨c', rfl, h⟩ := h
    simp only [Expr.eraseSpans]; rw [ih.1 _ _ _ _ h]
  · intro c l sp ih
    refine ⟨fun lay ctx s e' h => ?_, fun _ _ e => by cases e⟩
    cases c with
    | seq fs sp1 =>
      simp only [PlacedL'] at h
      obtain ⟨fs', rfl, h⟩ := h
      simp only [Expr.eraseSpans]; rw [ih.2 fs sp1 rfl _ _ _ _ h]
    | _ => simp [PlacedL'] at h
  · constructor
    · intro lay ctx s es' h; simp only [PlacedListL'] at h; subst h; rfl
    · intro lay ctx s es' h; simp only [PlacedTailL'] at h; subst h; rfl
  · intro e es ihe ihes
    constructor
    · intro lay ctx s es' h
      simp only [PlacedListL'] at h
      obtain ⟨e', r', rfl, h1, h2⟩ := h
      simp only [ExprL.eraseSpans]; rw [ihe.1 _ _ _ _ h1, ihes.2 _ _ _ _ h2]
    · intro lay ctx s es' h
      simp only [PlacedTailL'] at h
      obtain ⟨e', r', rfl, h1, h2⟩ := h
      simp only [ExprL.eraseSpans]; rw [ihe.1 _ _ _ _ h1, ihes.2 _ _ _ _ h2]

/-- a tree laid out according to the printed text of `e` is `e` up to spans -/
theorem Full.PlacedL'.eraseSpans {lay : Layout'} {ctx : Nat} {s : PState} {e e' : Expr}
    (h : PlacedL' lay ctx s e e') : e'.eraseSpans = e.eraseSpans := (placedL'_erase_all e).1 lay ctx s e' h

/-- `fallback_spans_full_layout` strengthens `fallback_roundtrip_full_layout` -/
theorem fallback_roundtrip_full_layout_of_spans (e : Expr) (hnf : NF' e) (lay : Layout') (adm : lay.Adm)
    (rest : List Char) (hrest : Follows rest) (s : PState) (hs : s.rest = ppL' lay 0 e ++ rest)
    (fuel : Nat) (hfuel : needF e ≤ fuel) :
    ∃ e', fallback fuel s = some (s.adv (ppL' lay 0 e).length, e') ∧ e'.eraseSpans = e.eraseSpans := by
  obtain ⟨e', h1, h2⟩ := fallback_spans_full_layout e hnf lay adm rest hrest s hs fuel hfuel
  exact ⟨e', h1, h2.eraseSpans⟩

/-! ### the top node -/

/-- at the top (context 0 never prints a parenthesis) the span of the root is that of the whole printed text -/
theorem Full.PlacedL'.span_top {lay : Layout'} {s : PState} {e e' : Expr} (h : PlacedL' lay 0 s e e') :
    e'.span = spanOf s (ppL' lay 0 e).length := by
  cases e with
  | term t d l sp =>
    cases d with
    | none =>
      simp only [PlacedL'] at h; subst h
      rw [ppL'_bare]; simp [Expr.span, skipParenL, parenIfL']
    | some d => simp only [PlacedL'] at h; subst h; rw [ppL'_descr]; simp [Expr.span]
  | nonterm n l sp => simp only [PlacedL'] at h; subst h; simp [Expr.span, ppL']
  | cmd c a l sp => simp only [PlacedL'] at h; subst h; simp [Expr.span, ppL']
  | seq cs sp =>
    simp only [PlacedL'] at h; obtain ⟨cs', rfl, _⟩ := h
    simp [Expr.span, ppL', skipParenL, parenIfL']
  | alt cs sp =>
    simp only [PlacedL'] at h; obtain ⟨cs', rfl, _⟩ := h
    simp [Expr.span, ppL', skipParenL, parenIfL']
  | fb cs sp =>
    simp only [PlacedL'] at h; obtain ⟨cs', rfl, _⟩ := h
    simp [Expr.span, ppL', skipParenL, parenIfL']
  | opt c sp =>
    simp only [PlacedL'] at h; obtain ⟨c', rfl, _⟩ := h
    simp only [Expr.span, ppL']
    congr 1
    simp; omega
  | many1 c sp =>
    simp only [PlacedL'] at h; obtain ⟨c', rfl, _⟩ := h
    simp only [Expr.span, ppL']
    simp [skipParenL, parenIfL']
  | dd c d sp =>
    simp only [PlacedL'] at h; obtain ⟨c', rfl, _⟩ := h
    simp [Expr.span, ppL', skipParenL, parenIfL']
  | sub c l sp =>
    cases c with
    | seq fs sp1 =>
      simp only [PlacedL'] at h; obtain ⟨fs', rfl, _⟩ := h
      rw [ppL'_sub]
      simp [Expr.span, skipParenL, parenIfL']
    | _ => simp [PlacedL'] at h

/-- the root starts at the first character of the text -/
theorem Full.PlacedL'.span_top_start {lay : Layout'} {s : PState} {e e' : Expr} (h : PlacedL' lay 0 s e e') :
    e'.span.line = s.line ∧ e'.span.cs = s.col := by
  rw [h.span_top]; exact ⟨rfl, rfl⟩

/-! ### every node, by offsets into the printed text -/

namespace Full

/-- the number of characters a parenthesis forced by the context puts before a node: `(` and the layout
behind it -/
def openLen (lay : Layout') (b : Bool) : Nat := if b then 1 + (lay.opn []).length else 0

theorem skipParenL_adv (lay : Layout') (b : Bool) (s : PState) (k : Nat) :
    skipParenL lay b (s.adv k) = s.adv (k + openLen lay b) := by
  cases b <;> simp [skipParenL, openLen, adv_add']

mutual
/-- for every node of `e`, in preorder (`spansOf` of `Proofs/LadderSpans.lean`; a word contributes its `.sub`
node and the `.seq` node under it): the offsets of the first character of the node's own text and of the
character after its last one, in a text in which `ppL' lay ctx e` begins at offset `k` -/
def offsL' : Layout' → Nat → Nat → Expr → List (Nat × Nat)
  | lay, ctx, k, .term t none _ _ =>
    [(k + openLen lay (ctx == 5 || (ctx == 4 && endsDot t.toList)),
      k + openLen lay (ctx == 5 || (ctx == 4 && endsDot t.toList)) + (escT 0 t.toList).length)]
  | lay, _, k, .term t (some d) _ _ =>
    [(k, k + (escT 0 t.toList ++ descrTextL (lay.descr []) d.toList).length)]
  | _, _, k, .nonterm n _ _ => [(k, k + (n.toList.length + 2))]
  | _, _, k, .cmd c _ _ _ => [(k, k + (cmdText c.toList).length)]
  | lay, ctx, k, .seq cs _ =>
    (k + openLen lay (decide (3 ≤ ctx)),
      k + openLen lay (decide (3 ≤ ctx)) + (ppListL' (lay.sub 0) 3 cs).length) ::
      offsListL' (lay.sub 0) 3 (k + openLen lay (decide (3 ≤ ctx))) cs
  | lay, ctx, k, .alt cs _ =>
    (k + openLen lay (decide (2 ≤ ctx)),
      k + openLen lay (decide (2 ≤ ctx)) + (ppListL' (lay.sub 0) 2 cs).length) ::
      offsListL' (lay.sub 0) 2 (k + openLen lay (decide (2 ≤ ctx))) cs
  | lay, ctx, k, .fb cs _ =>
    (k + openLen lay (decide (1 ≤ ctx)),
      k + openLen lay (decide (1 ≤ ctx)) + (ppListL' (lay.sub 0) 1 cs).length) ::
      offsListL' (lay.sub 0) 1 (k + openLen lay (decide (1 ≤ ctx))) cs
  | lay, _, k, .opt c _ =>
    (k, k + (1 + (lay.opn []).length + (ppL' (lay.sub 0) 0 c).length + (lay.cls []).length + 1)) ::
      offsL' (lay.sub 0) 0 (k + (1 + (lay.opn []).length)) c
  | lay, ctx, k, .many1 c _ =>
    (k + openLen lay (ctx == 4),
      k + openLen lay (ctx == 4) + ((ppL' (lay.sub 0) 4 c).length + ((lay.dots []).length + 3))) ::
      offsL' (lay.sub 0) 4 (k + openLen lay (ctx == 4)) c
  | lay, ctx, k, .dd c d _ =>
    (k + openLen lay (decide (4 ≤ ctx)),
      k + openLen lay (decide (4 ≤ ctx)) +
        (ppL' (lay.sub 0) 5 c ++ descrTextL (lay.descr []) d.toList).length) ::
      offsL' (lay.sub 0) 5 (k + openLen lay (decide (4 ≤ ctx))) c
  | lay, ctx, k, .sub (.seq fs _) _ _ =>
    (k + openLen lay (ctx == 4 || ctx == 6 || (ctx == 5 && lastBare false fs)),
      k + openLen lay (ctx == 4 || ctx == 6 || (ctx == 5 && lastBare false fs)) +
        (ppListL' (lay.sub 0) 6 fs).length) ::
    (k + openLen lay (ctx == 4 || ctx == 6 || (ctx == 5 && lastBare false fs)),
      k + openLen lay (ctx == 4 || ctx == 6 || (ctx == 5 && lastBare false fs)) +
        (ppListL' (lay.sub 0) 6 fs).length) ::
      offsListL' (lay.sub 0) 6 (k + openLen lay (ctx == 4 || ctx == 6 || (ctx == 5 && lastBare false fs))) fs
  | _, _, _, .sub _ _ _ => []
def offsListL' : Layout' → Nat → Nat → ExprL → List (Nat × Nat)
  | _, _, _, .nil => []
  | lay, ctx, k, .cons e es =>
    offsL' (lay.sub 0) ctx k e ++ offsTailL' (lay.sub 1) ctx (k + (ppL' (lay.sub 0) ctx e).length) es
def offsTailL' : Layout' → Nat → Nat → ExprL → List (Nat × Nat)
  | _, _, _, .nil => []
  | lay, ctx, k, .cons e es =>
    offsL' (lay.sub 0) ctx (k + (sepL' lay ctx).length) e ++
      offsTailL' (lay.sub 1) ctx (k + (sepL' lay ctx).length + (ppL' (lay.sub 0) ctx e).length) es
end

theorem spanOf_adv (s : PState) (k n : Nat) : spanOf (s.adv k) n = spanAt s (k, k + n) := by
  simp [spanOf, spanAt, adv_add']

theorem placedL'_offs_all (e : Expr) :
    (∀ lay ctx k s e', PlacedL' lay ctx (PState.adv s k) e e' →
      spansOf e' = (offsL' lay ctx k e).map (spanAt s)) ∧
    ∀ fs sp, e = .seq fs sp → ∀ lay ctx k s fs', PlacedListL' lay ctx (PState.adv s k) fs fs' →
      spansOfL fs' = (offsListL' lay ctx k fs).map (spanAt s) := by
  refine Expr.rec
    (motive_1 := fun e => (∀ lay ctx k s e', PlacedL' lay ctx (PState.adv s k) e e' →
        spansOf e' = (offsL' lay ctx k e).map (spanAt s)) ∧
      ∀ fs sp, e = .seq fs sp → ∀ lay ctx k s fs', PlacedListL' lay ctx (PState.adv s k) fs fs' →
        spansOfL fs' = (offsListL' lay ctx k fs).map (spanAt s))
    (motive_2 := fun es =>
      (∀ lay ctx k s es', PlacedListL' lay ctx (PState.adv s k) es es' →
        spansOfL es' = (offsListL' lay ctx k es).map (spanAt s)) ∧
      (∀ lay ctx k s es', PlacedTailL' lay ctx (PState.adv s k) es es' →
        spansOfL es' = (offsTailL' lay ctx k es).map (spanAt s)))
    ?_ ?_ ?_ ?_ ?_ ?_ ?_ ?_ ?_ ?_ ?_ ?_ e
  · intro t d l sp
    refine ⟨fun lay ctx k s e' h => ?_, fun _ _ e => by cases e⟩
    cases d with
    | none =>
      simp only [PlacedL', skipParenL_adv, spanOf_adv] at h; subst h
      simp [spansOf, offsL']
    | some d =>
      simp only [PlacedL', spanOf_adv] at h; subst h
      simp [spansOf, offsL']
  · intro n l sp
    refine ⟨fun lay ctx k s e' h => ?_, fun _ _ e => by cases e⟩
    simp only [PlacedL', spanOf_adv] at h; subst h
    simp [spansOf, offsL']
  · intro c a l sp
    refine ⟨fun lay ctx k s e' h => ?_, fun _ _ e => by cases e⟩
    simp only [PlacedL', spanOf_adv] at h; subst h
    simp [spansOf, offsL']
  · intro cs sp ih
    refine ⟨fun lay ctx k s e' h => ?_, fun fs sp' e => by cases e; exact ih.1⟩
    simp only [PlacedL', skipParenL_adv, spanOf_adv] at h
    obtain ⟨cs', rfl, h⟩ := h
    simp only [spansOf, offsL', List.map_cons, ih.1 _ _ _ _ _ h]
  · intro cs sp ih
    refine ⟨fun lay ctx k s e' h => ?_, fun _ _ e => by cases e⟩
    simp only [PlacedL', skipParenL_adv, spanOf_adv] at h
    obtain ⟨cs', rfl, h⟩ := h
    simp only [spansOf, offsL', List.map_cons, ih.1 _ _ _ _ _ h]
  · intro cs sp ih
    refine ⟨fun lay ctx k s e' h => ?_, fun _ _ e => by cases e⟩
    simp only [PlacedL', skipParenL_adv, spanOf_adv] at h
    obtain ⟨cs', rfl, h⟩ := h
    simp only [spansOf, offsL', List.map_cons, ih.1 _ _ _ _ _ h]
  · intro c sp ih
    refine ⟨fun lay ctx k s e' h => ?_, fun _ _ e => by cases e⟩
    simp only [PlacedL', adv_add', spanOf_adv] at h
    obtain ⟨c', rfl, h⟩ := h
    simp only [spansOf, offsL', List.map_cons, ih.1 _ _ _ _ _ h]
  · intro c sp ih
    refine ⟨fun lay ctx k s e' h => ?_, fun _ _ e => by cases e⟩
    simp only [PlacedL', skipParenL_adv, spanOf_adv] at h
    obtain ⟨c', rfl, h⟩ := h
    simp only [spansOf, offsL', List.map_cons, ih.1 _ _ _ _ _ h]
  · intro c d sp ih
    refine ⟨fun lay ctx k s e' h => ?_, fun _ _ e => by cases e⟩
    simp only [PlacedL', skipParenL_adv, spanOf_adv] at h
    obtain ⟨c', rfl, h⟩ := h
    simp only [spansOf, offsL', List.map_cons, ih.1 _ _ _ _ _ h]
  · intro c l sp ih
    refine ⟨fun lay ctx k s e' h => ?_, fun _ _ e => by cases e⟩
    cases c with
    | seq fs sp1 =>
      simp only [PlacedL', skipParenL_adv, spanOf_adv] at h
      obtain ⟨fs', rfl, h⟩ := h
      simp only [spansOf, offsL', List.map_cons, ih.2 fs sp1 rfl _ _ _ _ _ h]
    | _ => simp [PlacedL'] at h
  · constructor
    · intro lay ctx k s es' h; simp only [PlacedListL'] at h; subst h; simp [spansOfL, offsListL']
    · intro lay ctx k s es' h; simp only [PlacedTailL'] at h; subst h; simp [spansOfL, offsTailL']
  · intro e es ihe ihes
    constructor
    · intro lay ctx k s es' h
      simp only [PlacedListL', adv_add'] at h
      obtain ⟨e', r', rfl, h1, h2⟩ := h
      simp only [spansOfL, offsListL', List.map_append, ihe.1 _ _ _ _ _ h1, ihes.2 _ _ _ _ _ h2]
    · intro lay ctx k s es' h
      simp only [PlacedTailL', adv_add'] at h
      obtain ⟨e', r', rfl, h1, h2⟩ := h
      simp only [spansOfL, offsTailL', List.map_append, ihe.1 _ _ _ _ _ h1, ihes.2 _ _ _ _ _ h2]

/-- **all the spans of a laid-out tree**, node by node in preorder: the span of each node runs from the state
reached from `s` by consuming the text before the node's first character to the state reached by consuming the
text up to its last character -/
theorem PlacedL'.spans {lay : Layout'} {ctx : Nat} {s : PState} {e e' : Expr} (h : PlacedL' lay ctx s e e') :
    spansOf e' = (offsL' lay ctx 0 e).map (spanAt s) :=
  (placedL'_offs_all e).1 lay ctx 0 s e' (by rw [adv_zero]; exact h)

/-! ### the offsets are those of the nodes' own texts -/

mutual
/-- the own text of every node, in preorder (the order of `spansOf` and `offsL'`): what the printer wrote for
the node under its part of the layout, without the parenthesis (and the layout inside it) that the context of
the node forces.  For every node but one this is `ppL' lay' 0 node` for the part `lay'` of the layout that
belongs to the node (`ownTexts_head`); the `.seq` node under a word is the juxtaposition of the factors. -/
def ownTexts : Layout' → Expr → List (List Char)
  | _, .term t none _ _ => [escT 0 t.toList]
  | lay, .term t (some d) _ _ => [escT 0 t.toList ++ descrTextL (lay.descr []) d.toList]
  | _, .nonterm n _ _ => ['<' :: n.toList ++ ['>']]
  | _, .cmd c _ _ _ => [cmdText c.toList]
  | lay, .seq cs _ => ppListL' (lay.sub 0) 3 cs :: ownTextsL (lay.sub 0) cs
  | lay, .alt cs _ => ppListL' (lay.sub 0) 2 cs :: ownTextsL (lay.sub 0) cs
  | lay, .fb cs _ => ppListL' (lay.sub 0) 1 cs :: ownTextsL (lay.sub 0) cs
  | lay, .opt c _ => ('[' :: lay.opn [] ++ ppL' (lay.sub 0) 0 c ++ lay.cls [] ++ [']']) :: ownTexts (lay.sub 0) c
  | lay, .many1 c _ => (ppL' (lay.sub 0) 4 c ++ lay.dots [] ++ ['.', '.', '.']) :: ownTexts (lay.sub 0) c
  | lay, .dd c d _ =>
    (ppL' (lay.sub 0) 5 c ++ descrTextL (lay.descr []) d.toList) :: ownTexts (lay.sub 0) c
  | lay, .sub (.seq fs _) _ _ =>
    ppListL' (lay.sub 0) 6 fs :: ppListL' (lay.sub 0) 6 fs :: ownTextsL (lay.sub 0) fs
  | _, .sub _ _ _ => []
def ownTextsL : Layout' → ExprL → List (List Char)
  | _, .nil => []
  | lay, .cons e es => ownTexts (lay.sub 0) e ++ ownTextsL (lay.sub 1) es
end

/-- the first text of `ownTexts` is the text of the root printed in context 0, where no parenthesis is forced -/
theorem ownTexts_head (lay : Layout') (e : Expr) (h : NF' e) :
    ∃ r, ownTexts lay e = ppL' lay 0 e :: r := by
  cases e with
  | term t d l sp =>
    cases d with
    | none => exact ⟨[], by rw [ppL'_bare]; simp [ownTexts, parenIfL']⟩
    | some d => exact ⟨[], by rw [ppL'_descr]; simp [ownTexts]⟩
  | nonterm n l sp => exact ⟨[], by simp [ownTexts, ppL']⟩
  | cmd c a l sp => exact ⟨[], by simp [ownTexts, ppL']⟩
  | seq cs sp => exact ⟨ownTextsL (lay.sub 0) cs, by simp [ownTexts, ppL', parenIfL']⟩
  | alt cs sp => exact ⟨ownTextsL (lay.sub 0) cs, by simp [ownTexts, ppL', parenIfL']⟩
  | fb cs sp => exact ⟨ownTextsL (lay.sub 0) cs, by simp [ownTexts, ppL', parenIfL']⟩
  | opt c sp => exact ⟨ownTexts (lay.sub 0) c, by simp [ownTexts, ppL']⟩
  | many1 c sp => exact ⟨ownTexts (lay.sub 0) c, by simp [ownTexts, ppL', parenIfL']⟩
  | dd c d sp => exact ⟨ownTexts (lay.sub 0) c, by simp [ownTexts, ppL', parenIfL']⟩
  | sub c l sp =>
    cases c with
    | seq fs sp1 =>
      exact ⟨ppListL' (lay.sub 0) 6 fs :: ownTextsL (lay.sub 0) fs, by
        rw [ppL'_sub]; simp [ownTexts, parenIfL']⟩
    | _ => simp [NF'] at h

/-- what a forced parenthesis puts before the node … -/
def opnT (lay : Layout') (b : Bool) : List Char := if b then '(' :: lay.opn [] else []
/-- … and behind it -/
def clsT (lay : Layout') (b : Bool) : List Char := if b then lay.cls [] ++ [')'] else []

theorem parenIfL'_eq (lay : Layout') (b : Bool) (T : List Char) :
    parenIfL' lay b T = opnT lay b ++ T ++ clsT lay b := by
  cases b <;> simp [parenIfL', parenL, opnT, clsT]

theorem length_opnT (lay : Layout') (b : Bool) : (opnT lay b).length = openLen lay b := by
  cases b <;> simp [opnT, openLen]; omega

theorem NFW_NFL : ∀ fs : ExprL, NFW fs → NFL' fs
  | .nil, _ => by simp [NFL']
  | .cons f fs, h => by
    have h' := NFW_cons f fs h
    simp only [NFL']
    exact ⟨h'.1, NFW_NFL fs h'.2.2.2⟩

theorem offsL'_own_text_all (X : List Char) (e : Expr) :
    (NF' e → ∀ lay ctx pre post, X = pre ++ ppL' lay ctx e ++ post →
      (offsL' lay ctx pre.length e).map (slice X) = ownTexts lay e) ∧
    ∀ fs sp, e = .seq fs sp → NFL' fs → ∀ lay ctx pre post, X = pre ++ ppListL' lay ctx fs ++ post →
      (offsListL' lay ctx pre.length fs).map (slice X) = ownTextsL lay fs := by
  refine Expr.rec
    (motive_1 := fun e => (NF' e → ∀ lay ctx pre post, X = pre ++ ppL' lay ctx e ++ post →
        (offsL' lay ctx pre.length e).map (slice X) = ownTexts lay e) ∧
      ∀ fs sp, e = .seq fs sp → NFL' fs → ∀ lay ctx pre post, X = pre ++ ppListL' lay ctx fs ++ post →
        (offsListL' lay ctx pre.length fs).map (slice X) = ownTextsL lay fs)
    (motive_2 := fun es => NFL' es →
      (∀ lay ctx pre post, X = pre ++ ppListL' lay ctx es ++ post →
        (offsListL' lay ctx pre.length es).map (slice X) = ownTextsL lay es) ∧
      (∀ lay ctx pre post, X = pre ++ ppTailL' lay ctx es ++ post →
        (offsTailL' lay ctx pre.length es).map (slice X) = ownTextsL lay es))
    ?_ ?_ ?_ ?_ ?_ ?_ ?_ ?_ ?_ ?_ ?_ ?_ e
  · intro t d l sp
    refine ⟨fun _ lay ctx pre post hX => ?_, fun _ _ e => by cases e⟩
    cases d with
    | none =>
      rw [ppL'_bare, parenIfL'_eq] at hX
      simp only [offsL', ownTexts, List.map_cons, List.map_nil]
      have hX' : X = (pre ++ opnT lay (ctx == 5 || (ctx == 4 && endsDot t.toList))) ++ escT 0 t.toList ++
          (clsT lay (ctx == 5 || (ctx == 4 && endsDot t.toList)) ++ post) := by
        rw [hX]; simp [List.append_assoc]
      rw [slice_mid X _ _ _ hX' _ _ (by rw [List.length_append, length_opnT]) rfl]
    | some d =>
      rw [ppL'_descr] at hX
      simp only [offsL', ownTexts, List.map_cons, List.map_nil]
      rw [slice_mid X pre _ post hX _ _ rfl rfl]
  · intro n l sp
    refine ⟨fun _ lay ctx pre post hX => ?_, fun _ _ e => by cases e⟩
    simp only [ppL'] at hX
    simp only [offsL', ownTexts, List.map_cons, List.map_nil]
    rw [slice_mid X pre _ post hX _ _ rfl (by simp)]
  · intro c a l sp
    refine ⟨fun _ lay ctx pre post hX => ?_, fun _ _ e => by cases e⟩
    simp only [ppL'] at hX
    simp only [offsL', ownTexts, List.map_cons, List.map_nil]
    rw [slice_mid X pre _ post hX _ _ rfl rfl]
  · intro cs sp ih
    refine ⟨fun h lay ctx pre post hX => ?_, fun fs sp' e hfs => by cases e; exact (ih hfs).1⟩
    simp only [NF'] at h
    simp only [ppL', parenIfL'_eq] at hX
    simp only [offsL', ownTexts, List.map_cons]
    have hX' : X = (pre ++ opnT lay (decide (3 ≤ ctx))) ++ ppListL' (lay.sub 0) 3 cs ++
        (clsT lay (decide (3 ≤ ctx)) ++ post) := by rw [hX]; simp [List.append_assoc]
    have hl : pre.length + openLen lay (decide (3 ≤ ctx)) = (pre ++ opnT lay (decide (3 ≤ ctx))).length := by
      rw [List.length_append, length_opnT]
    rw [slice_mid X _ _ _ hX' _ _ hl rfl, hl, (ih h.2).1 _ _ _ _ hX']
  · intro cs sp ih
    refine ⟨fun h lay ctx pre post hX => ?_, fun _ _ e => by cases e⟩
    simp only [NF'] at h
    simp only [ppL', parenIfL'_eq] at hX
    simp only [offsL', ownTexts, List.map_cons]
    have hX' : X = (pre ++ opnT lay (decide (2 ≤ ctx))) ++ ppListL' (lay.sub 0) 2 cs ++
        (clsT lay (decide (2 ≤ ctx)) ++ post) := by rw [hX]; simp [List.append_assoc]
    have hl : pre.length + openLen lay (decide (2 ≤ ctx)) = (pre ++ opnT lay (decide (2 ≤ ctx))).length := by
      rw [List.length_append, length_opnT]
    rw [slice_mid X _ _ _ hX' _ _ hl rfl, hl, (ih h.2).1 _ _ _ _ hX']
  · intro cs sp ih
    refine ⟨fun h lay ctx pre post hX => ?_, fun _ _ e => by cases e⟩
    simp only [NF'] at h
    simp only [ppL', parenIfL'_eq] at hX
    simp only [offsL', ownTexts, List.map_cons]
    have hX' : X = (pre ++ opnT lay (decide (1 ≤ ctx))) ++ ppListL' (lay.sub 0) 1 cs ++
        (clsT lay (decide (1 ≤ ctx)) ++ post) := by rw [hX]; simp [List.append_assoc]
    have hl : pre.length + openLen lay (decide (1 ≤ ctx)) = (pre ++ opnT lay (decide (1 ≤ ctx))).length := by
      rw [List.length_append, length_opnT]
    rw [slice_mid X _ _ _ hX' _ _ hl rfl, hl, (ih h.2).1 _ _ _ _ hX']
  · intro c sp ih
    refine ⟨fun h lay ctx pre post hX => ?_, fun _ _ e => by cases e⟩
    simp only [NF'] at h
    simp only [ppL'] at hX
    simp only [offsL', ownTexts, List.map_cons]
    have hX' : X = (pre ++ '[' :: lay.opn []) ++ ppL' (lay.sub 0) 0 c ++ (lay.cls [] ++ [']'] ++ post) := by
      rw [hX]; simp [List.append_assoc]
    have hl : pre.length + (1 + (lay.opn []).length) = (pre ++ '[' :: lay.opn []).length := by
      simp; omega
    rw [slice_mid X pre _ post hX _ _ rfl (by simp; omega), hl, ih.1 h _ _ _ _ hX']
  · intro c sp ih
    refine ⟨fun h lay ctx pre post hX => ?_, fun _ _ e => by cases e⟩
    simp only [NF'] at h
    simp only [ppL', parenIfL'_eq] at hX
    simp only [offsL', ownTexts, List.map_cons]
    have hX' : X = (pre ++ opnT lay (ctx == 4)) ++ (ppL' (lay.sub 0) 4 c ++ lay.dots [] ++ ['.', '.', '.']) ++
        (clsT lay (ctx == 4) ++ post) := by rw [hX]; simp [List.append_assoc]
    have hX'' : X = (pre ++ opnT lay (ctx == 4)) ++ ppL' (lay.sub 0) 4 c ++
        (lay.dots [] ++ ['.', '.', '.'] ++ (clsT lay (ctx == 4) ++ post)) := by
      rw [hX]; simp [List.append_assoc]
    have hl : pre.length + openLen lay (ctx == 4) = (pre ++ opnT lay (ctx == 4)).length := by
      rw [List.length_append, length_opnT]
    rw [slice_mid X _ _ _ hX' _ _ hl (by simp), hl, ih.1 h _ _ _ _ hX'']
  · intro c d sp ih
    refine ⟨fun h lay ctx pre post hX => ?_, fun _ _ e => by cases e⟩
    simp only [NF'] at h
    simp only [ppL', parenIfL'_eq] at hX
    simp only [offsL', ownTexts, List.map_cons]
    have hX' : X = (pre ++ opnT lay (decide (4 ≤ ctx))) ++
        (ppL' (lay.sub 0) 5 c ++ descrTextL (lay.descr []) d.toList) ++
        (clsT lay (decide (4 ≤ ctx)) ++ post) := by rw [hX]; simp [List.append_assoc]
    have hX'' : X = (pre ++ opnT lay (decide (4 ≤ ctx))) ++ ppL' (lay.sub 0) 5 c ++
        (descrTextL (lay.descr []) d.toList ++ (clsT lay (decide (4 ≤ ctx)) ++ post)) := by
      rw [hX]; simp [List.append_assoc]
    have hl : pre.length + openLen lay (decide (4 ≤ ctx)) = (pre ++ opnT lay (decide (4 ≤ ctx))).length := by
      rw [List.length_append, length_opnT]
    rw [slice_mid X _ _ _ hX' _ _ hl rfl, hl, ih.1 h _ _ _ _ hX'']
  · intro c l sp ih
    refine ⟨fun h lay ctx pre post hX => ?_, fun _ _ e => by cases e⟩
    cases c with
    | seq fs sp1 =>
      simp only [NF'] at h
      rw [ppL'_sub, parenIfL'_eq] at hX
      simp only [offsL', ownTexts, List.map_cons]
      have hX' : X = (pre ++ opnT lay (ctx == 4 || ctx == 6 || (ctx == 5 && lastBare false fs))) ++
          ppListL' (lay.sub 0) 6 fs ++
          (clsT lay (ctx == 4 || ctx == 6 || (ctx == 5 && lastBare false fs)) ++ post) := by
        rw [hX]; simp [List.append_assoc]
      have hl : pre.length + openLen lay (ctx == 4 || ctx == 6 || (ctx == 5 && lastBare false fs)) =
          (pre ++ opnT lay (ctx == 4 || ctx == 6 || (ctx == 5 && lastBare false fs))).length := by
        rw [List.length_append, length_opnT]
      rw [slice_mid X _ _ _ hX' _ _ hl rfl, hl, ih.2 fs sp1 rfl (NFW_NFL fs h.2.2) _ _ _ _ hX']
    | _ => simp [NF'] at h
  · intro _
    constructor
    · intro lay ctx pre post _; simp [offsListL', ownTextsL]
    · intro lay ctx pre post _; simp [offsTailL', ownTextsL]
  · intro e es ihe ihes h
    simp only [NFL'] at h
    constructor
    · intro lay ctx pre post hX
      simp only [ppListL'] at hX
      have hX1 : X = pre ++ ppL' (lay.sub 0) ctx e ++ (ppTailL' (lay.sub 1) ctx es ++ post) := by
        rw [hX]; simp [List.append_assoc]
      have hX2 : X = (pre ++ ppL' (lay.sub 0) ctx e) ++ ppTailL' (lay.sub 1) ctx es ++ post := by
        rw [hX]; simp [List.append_assoc]
      have hl : pre.length + (ppL' (lay.sub 0) ctx e).length = (pre ++ ppL' (lay.sub 0) ctx e).length := by simp
      simp only [offsListL', ownTextsL, List.map_append]
      rw [ihe.1 h.1 _ _ _ _ hX1, hl, (ihes h.2).2 _ _ _ _ hX2]
    · intro lay ctx pre post hX
      simp only [ppTailL'] at hX
      have hX1 : X = (pre ++ sepL' lay ctx) ++ ppL' (lay.sub 0) ctx e ++ (ppTailL' (lay.sub 1) ctx es ++ post) := by
        rw [hX]; simp [List.append_assoc]
      have hX2 : X = (pre ++ sepL' lay ctx ++ ppL' (lay.sub 0) ctx e) ++ ppTailL' (lay.sub 1) ctx es ++ post := by
        rw [hX]; simp [List.append_assoc]
      have hl1 : pre.length + (sepL' lay ctx).length = (pre ++ sepL' lay ctx).length := by simp
      have hl2 : (pre ++ sepL' lay ctx).length + (ppL' (lay.sub 0) ctx e).length =
          (pre ++ sepL' lay ctx ++ ppL' (lay.sub 0) ctx e).length := by
        simp only [List.length_append]
      simp only [offsTailL', ownTextsL, List.map_append]
      rw [hl1, ihe.1 h.1 _ _ _ _ hX1, hl2, (ihes h.2).2 _ _ _ _ hX2]

/-- **the offsets of `offsL'` are those of the constructs**: in any text `X` that contains `ppL' lay ctx e` from
offset `pre.length` on, the characters between the two offsets recorded for a node are exactly the node's own
text: what the printer wrote for it under its part of the layout, without the parenthesis (and the layout
inside it) that the context forces around it (`ownTexts`) -/
theorem offsL'_own_text (X : List Char) (e : Expr) (hnf : NF' e) (lay : Layout') (ctx : Nat)
    (pre post : List Char) (hX : X = pre ++ ppL' lay ctx e ++ post) :
    (offsL' lay ctx pre.length e).map (slice X) = ownTexts lay e :=
  (offsL'_own_text_all X e).1 hnf lay ctx pre post hX

end Full

/-! ### absolute positions in a file -/

/-- a tree laid out at offset `k` of a file: the root (context 0) starts at the line and byte column of
offset `k` -/
theorem Full.PlacedL'.span_top_in_file {t : List Char} {k : Nat} {lay : Layout'} {e e' : Expr}
    (h : PlacedL' lay 0 ((PState.init t).adv k) e e') :
    e'.span.line = 1 + (t.take k).count '\n' ∧
    e'.span.cs = 1 + bytesLen (Parse.Pos.lastLine (t.take k)) := by
  rw [h.span_top_start.1, h.span_top_start.2]
  exact init_adv_position t k

/-- a tree laid out at offset `k` of a file `t` (any context): node by node in preorder, the span of each node
starts at the line (1 + line feeds before) and byte column (1 + bytes since the last line feed) of the offset
in `t` of the first character of that node's own text -/
theorem Full.PlacedL'.spans_in_file {t : List Char} {k : Nat} {lay : Layout'} {ctx : Nat} {e e' : Expr}
    (h : PlacedL' lay ctx ((PState.init t).adv k) e e') :
    spansOf e' = (offsL' lay ctx k e).map (spanAt (PState.init t)) ∧
    ∀ sp ∈ spansOf e', ∃ ab ∈ offsL' lay ctx k e,
      sp.line = 1 + (t.take ab.1).count '\n' ∧
      sp.cs = 1 + bytesLen (Parse.Pos.lastLine (t.take ab.1)) := by
  have h3 := (placedL'_offs_all e).1 lay ctx k (PState.init t) e' h
  refine ⟨h3, ?_⟩
  intro sp hsp
  rw [h3, List.mem_map] at hsp
  obtain ⟨ab, hab, rfl⟩ := hsp
  exact ⟨ab, hab, spanAt_init t ab⟩

/-- **Every span points at its construct, in a file, on the larger fragment under any admissible layout**: when
the text `ppL' lay 0 e` of a tree of `NF'` stands in a file `t` after the text `pre` (and is followed by
something that ends an expression), `fallback_expr`, started there, consumes exactly that text and returns a
tree `e'` that is `e` up to spans and is laid out there (`PlacedL'`); node by node in preorder
(`spansOf e'`), the span of each node starts at the line (1 + line feeds before) and byte column (1 + bytes
since the last line feed) of the offset in `t` of the first character of that node's own text — `offsL'` lists
these offsets, and the characters of `t` between the two offsets of a node are that node's own text
(`ownTexts`). -/
theorem fallback_spans_full_in_file (pre : List Char) (e : Expr) (hnf : NF' e) (lay : Layout') (adm : lay.Adm)
    (rest : List Char) (hrest : Follows rest) (t : List Char) (ht : t = pre ++ ppL' lay 0 e ++ rest)
    (fuel : Nat) (hfuel : needF e ≤ fuel) :
    ∃ e', fallback fuel ((PState.init t).adv pre.length) =
        some ((PState.init t).adv (pre.length + (ppL' lay 0 e).length), e') ∧
      PlacedL' lay 0 ((PState.init t).adv pre.length) e e' ∧
      e'.eraseSpans = e.eraseSpans ∧
      spansOf e' = (offsL' lay 0 pre.length e).map (spanAt (PState.init t)) ∧
      (offsL' lay 0 pre.length e).map (slice t) = ownTexts lay e ∧
      ∀ sp ∈ spansOf e', ∃ ab ∈ offsL' lay 0 pre.length e,
        sp.line = 1 + (t.take ab.1).count '\n' ∧
        sp.cs = 1 + bytesLen (Parse.Pos.lastLine (t.take ab.1)) := by
  have hs : ((PState.init t).adv pre.length).rest = ppL' lay 0 e ++ rest := by
    apply adv_rest_append
    simp [PState.init, ht, List.append_assoc]
  obtain ⟨e', h1, h2⟩ := fallback_spans_full_layout e hnf lay adm rest hrest _ hs fuel hfuel
  exact ⟨e', by rw [h1, adv_add'], h2, h2.eraseSpans, h2.spans_in_file.1,
    offsL'_own_text t e hnf lay 0 pre rest ht, h2.spans_in_file.2⟩

/-! ### examples: the theorem is not vacuous; what the spans cover, on concrete texts -/
namespace Full

/-- the example of `Proofs/LadderFullLayout.lean` (comments and line feeds at every position): the tree the
parser returns is laid out in the text -/
example : ∃ s' e', fallback 40 (PState.init (ppL' exLay 0 exE)) = some (s', e') ∧
    PlacedL' exLay 0 (PState.init (ppL' exLay 0 exE)) exE e' := by
  obtain ⟨e', h1, h2⟩ := fallback_spans_full_layout exE exE_nf exLay exLay_adm [] Follows_nil
    (PState.init (ppL' exLay 0 exE)) (by simp [PState.init]) 40 (by decide)
  exact ⟨_, e', h1, h2⟩

/-- the spans of the tree read from a text, in preorder -/
def spansRead (txt : String) : Option (List Span) :=
  match fallback 40 (PState.init txt.toList) with
  | some (_, e) => some (spansOf e)
  | none => none

set_option maxRecDepth 100000 in
/-- a literal with its description: one node, from the literal to the closing `"` -/
example : spansRead "a \"d\"" = some [⟨1, 1, 6⟩] := by decide

set_option maxRecDepth 100000 in
/-- a description distributed over a group: the `.dd` node starts at the parenthesis (column 1) and ends after
the closing `"`; the `.alt` node inside starts after `(` and the blank behind it and ends before the blank in
front of `)` -/
example : spansRead "( a | b ) \"d\" x" =
    some [⟨1, 1, 16⟩, ⟨1, 1, 14⟩, ⟨1, 3, 8⟩, ⟨1, 3, 4⟩, ⟨1, 7, 8⟩, ⟨1, 15, 16⟩] := by decide

set_option maxRecDepth 100000 in
/-- a postfix `...` after a group and a blank: the `.many1` node starts at the parenthesis and ends after the
dots, the `.seq` node inside does not contain the parentheses -/
example : spansRead "(a b) ..." = some [⟨1, 1, 10⟩, ⟨1, 2, 5⟩, ⟨1, 2, 3⟩, ⟨1, 4, 5⟩] := by decide

set_option maxRecDepth 100000 in
/-- a word: the `.sub` node and the `.seq` node under it carry the same span, the factors follow directly -/
example : spansRead "--o=<V>" = some [⟨1, 1, 8⟩, ⟨1, 1, 8⟩, ⟨1, 1, 5⟩, ⟨1, 5, 8⟩] := by decide

set_option maxRecDepth 100000 in
/-- a list node ends with its last child: no layout before the `||` is part of the `.seq` node -/
example : spansRead "a b  || c" =
    some [⟨1, 1, 10⟩, ⟨1, 1, 4⟩, ⟨1, 1, 2⟩, ⟨1, 3, 4⟩, ⟨1, 9, 10⟩] := by decide

end Full

end Complgen.Parse
