/-
C11: the model's specialisation pass (`Check.specialize`, check.rs `specialize_nonterminals` with
parse.rs `get_specializations`) puts, for every nonterminal reference, exactly what `Spec.pick`
prescribes: the command of the definition for the target shell, else nothing yet when there is a
plain definition (it is expanded later), else the built-in command, else it stays "any word".
-/
import Complgen.Proofs.Validate
import Complgen.Spec.Den
namespace Complgen.Check
open Complgen

/-- the entry the first loop of `get_specializations` records for a command definition -/
def toSpec (x : String × Span × String × Span × Expr) : String × UserSpec :=
  (x.1, ⟨match x.2.2.2.2 with | .cmd c _ _ _ => c | _ => "", x.2.1, false⟩)

theorem loop1_ok_inv (target : Shell) :
    ∀ (l : List (String × Span × String × Span × Expr)) (acc r : AList UserSpec),
    getSpecializations.loop1 target l acc = .ok r →
    r = acc ++ (l.filter (forTarget target)).map toSpec ∧ (∀ x ∈ l, isCmdSpec x = true)
  | [], acc, r, h => by
    unfold getSpecializations.loop1 at h
    simp only [Outcome.ok.injEq] at h
    simp [h]
  | (n, s, sh, ss, rhs) :: rest, acc, r, h => by
    by_cases hc : isCmdSpec (n, s, sh, ss, rhs) = true
    · cases rhs with
      | cmd c a l sp =>
        cases ho : Shell.ofName? sh with
        | none => rw [loop1_cons_unknown target n s sh ss c a l sp rest acc ho] at h; cases h
        | some shell =>
          rw [loop1_cons_cmd target n s sh ss c a l sp rest acc shell ho] at h
          by_cases hsh : shell = target
          · have hft : forTarget target (n, s, sh, ss, .cmd c a l sp) = true :=
              (forTarget_iff _ _).mpr (by simp [ho, hsh])
            simp only [hsh, if_true] at h
            cases hg : acc.get? n with
            | some prev => simp [hg] at h
            | none =>
              simp only [hg] at h
              obtain ⟨h1, h2⟩ := loop1_ok_inv target rest _ r h
              refine ⟨?_, ?_⟩
              · rw [h1]; simp [List.filter_cons, hft, toSpec]
              · intro x hx
                rcases List.mem_cons.mp hx with rfl | hx'
                · exact hc
                · exact h2 x hx'
          · have hft : forTarget target (n, s, sh, ss, .cmd c a l sp) = false := by
              cases hb : forTarget target (n, s, sh, ss, .cmd c a l sp) with
              | false => rfl
              | true => have := (forTarget_iff _ _).mp hb; simp [ho] at this; exact absurd this hsh
            simp only [hsh, if_false] at h
            obtain ⟨h1, h2⟩ := loop1_ok_inv target rest acc r h
            refine ⟨?_, ?_⟩
            · rw [h1]; simp [List.filter_cons, hft]
            · intro x hx
              rcases List.mem_cons.mp hx with rfl | hx'
              · exact hc
              · exact h2 x hx'
      | term _ _ _ _ => exact Bool.noConfusion hc
      | nonterm _ _ _ => exact Bool.noConfusion hc
      | seq _ _ => exact Bool.noConfusion hc
      | alt _ _ => exact Bool.noConfusion hc
      | fb _ _ => exact Bool.noConfusion hc
      | opt _ _ => exact Bool.noConfusion hc
      | many1 _ _ => exact Bool.noConfusion hc
      | dd _ _ _ => exact Bool.noConfusion hc
      | sub _ _ _ => exact Bool.noConfusion hc
    · obtain ⟨spans, he⟩ := loop1_cons_noncmd target (n, s, sh, ss, rhs) rest acc (by simpa using hc)
      rw [he] at h; cases h

/-! ### shell names -/

theorem ofName_iff (s : String) (sh : Shell) : Shell.ofName? s = some sh ↔ s = sh.name := by
  constructor
  · intro h
    unfold Shell.ofName? at h
    split at h <;> first | (cases h; rfl) | (cases h)
  · intro h
    subst h
    cases sh <;> rfl

/-! ### the specialisation table against `Spec.pick` -/

def specFor (sh : Shell) (name : String) : Stmt → Option String
  | .defn n _ (some (s, _)) (.cmd c _ _ _) => if n == name && s == sh.name then some c else none
  | _ => none

def plainFor (name : String) : Stmt → Option Expr
  | .defn n _ none e => if n == name then some e else none
  | _ => none

theorem pick_unfold (sh : Shell) (g : Grammar) (name : String) :
    Spec.pick sh g name =
      match g.findSome? (specFor sh name) with
      | some c => .command c (sh == .zsh)
      | none =>
        match g.findSome? (plainFor name) with
        | some e => .expr e
        | none =>
          match (Gen.builtinTable.find? (fun r => r.1 == name && r.2.1 == sh)).map (·.2.2) with
          | some c => .command c (sh == .zsh)
          | none => .anyWord := by
  rfl

/-- the table of definitions for the target shell, as the first loop builds it -/
def specList (g : Grammar) (sh : Shell) : AList UserSpec := ((specDefs g).filter (forTarget sh)).map toSpec

theorem specList_get (sh : Shell) (name : String) :
    ∀ (g : Grammar), (∀ x ∈ specDefs g, isCmdSpec x = true) →
    ((specList g sh).get? name).map (·.cmd) = g.findSome? (specFor sh name)
  | [], _ => by simp [specList, specDefs, AList.get?]
  | st :: rest, hc => by
    have hrest : ∀ x ∈ specDefs rest, isCmdSpec x = true := by
      intro x hx
      apply hc
      unfold specDefs at *
      simp only [List.filterMap_cons]
      split
      · exact hx
      · exact List.mem_cons_of_mem _ hx
    have ih := specList_get sh name rest hrest
    cases st with
    | call n s e =>
      have : specList (Stmt.call n s e :: rest) sh = specList rest sh := by simp [specList, specDefs]
      rw [this, ih]
      simp [List.findSome?, specFor]
    | defn n s shell rhs =>
      cases shell with
      | none =>
        have : specList (Stmt.defn n s none rhs :: rest) sh = specList rest sh := by simp [specList, specDefs]
        rw [this, ih]
        simp [List.findSome?, specFor]
      | some p =>
        obtain ⟨shn, ss⟩ := p
        have hmem : (n, s, shn, ss, rhs) ∈ specDefs (Stmt.defn n s (some (shn, ss)) rhs :: rest) := by
          simp [specDefs]
        have hcx := hc _ hmem
        cases rhs with
        | cmd c a l sp =>
          by_cases hft : forTarget sh (n, s, shn, ss, .cmd c a l sp) = true
          · have hs : shn = sh.name := (ofName_iff _ _).mp ((forTarget_iff _ _).mp hft)
            have hl : specList (Stmt.defn n s (some (shn, ss)) (.cmd c a l sp) :: rest) sh =
                (n, ⟨c, s, false⟩) :: specList rest sh := by
              simp [specList, specDefs, List.filter_cons, hft, toSpec]
            rw [hl]
            by_cases hn : n = name
            · subst hn
              simp [AList.get?, List.find?, List.findSome?, specFor, hs]
            · have hb : (n == name) = false := by simpa using hn
              have : AList.get? ((n, (⟨c, s, false⟩ : UserSpec)) :: specList rest sh) name = (specList rest sh).get? name := by
                simp [AList.get?, List.find?, hb]
              rw [this, ih]
              simp [List.findSome?, specFor, hb]
          · have hft' : forTarget sh (n, s, shn, ss, .cmd c a l sp) = false := by simpa using hft
            have hs : shn ≠ sh.name := by
              intro e
              apply hft
              exact (forTarget_iff _ _).mpr ((ofName_iff _ _).mpr e)
            have hl : specList (Stmt.defn n s (some (shn, ss)) (.cmd c a l sp) :: rest) sh = specList rest sh := by
              simp [specList, specDefs, List.filter_cons, hft']
            rw [hl, ih]
            have hb : (shn == sh.name) = false := by simpa using hs
            simp [List.findSome?, specFor, hb]
        | term _ _ _ _ => exact Bool.noConfusion hcx
        | nonterm _ _ _ => exact Bool.noConfusion hcx
        | seq _ _ => exact Bool.noConfusion hcx
        | alt _ _ => exact Bool.noConfusion hcx
        | fb _ _ => exact Bool.noConfusion hcx
        | opt _ _ => exact Bool.noConfusion hcx
        | many1 _ _ => exact Bool.noConfusion hcx
        | dd _ _ _ => exact Bool.noConfusion hcx
        | sub _ _ _ => exact Bool.noConfusion hcx

theorem plain_contains (name : String) :
    ∀ (g : Grammar), ((plainDefs g).map (·.1)).contains name = (g.findSome? (plainFor name)).isSome
  | [] => by simp [plainDefs]
  | st :: rest => by
    have ih := plain_contains name rest
    cases st with
    | call n s e =>
      have : plainDefs (Stmt.call n s e :: rest) = plainDefs rest := by simp [plainDefs]
      rw [this, ih]; simp [List.findSome?, plainFor]
    | defn n s shell rhs =>
      cases shell with
      | some p =>
        have : plainDefs (Stmt.defn n s (some p) rhs :: rest) = plainDefs rest := by simp [plainDefs]
        rw [this, ih]; simp [List.findSome?, plainFor]
      | none =>
        have : plainDefs (Stmt.defn n s none rhs :: rest) = (n, s, rhs) :: plainDefs rest := by simp [plainDefs]
        rw [this]
        by_cases hn : n = name
        · subst hn; simp [List.findSome?, plainFor]
        · have hb : (n == name) = false := by simpa using hn
          simp only [List.map_cons, List.contains_cons, List.findSome?, plainFor, hb]
          have hb' : (name == n) = false := by simpa using (Ne.symm hn)
          rw [hb', Bool.false_or, ih]
          simp

end Complgen.Check

namespace Complgen.Check
open Complgen

/-- the second loop of `get_specializations` only records names that have a plain definition -/
theorem loop2_keys (specs : AList UserSpec) :
    ∀ (l : List (String × Span × Expr)) (acc r : AList (String × Span)),
    getSpecializations.loop2 specs l acc = .ok r →
    ∀ k, (r.get? k).isSome → (acc.get? k).isSome ∨ k ∈ l.map (·.1)
  | [], acc, r, h, k, hk => by
    unfold getSpecializations.loop2 at h
    simp only [Outcome.ok.injEq] at h
    subst h; exact .inl hk
  | (n, s, rhs) :: rest, acc, r, h, k, hk => by
    unfold getSpecializations.loop2 at h
    split at h
    · rcases loop2_keys specs rest acc r h k hk with h' | h'
      · exact .inl h'
      · exact .inr (List.mem_cons_of_mem _ h')
    · split at h
      · split at h
        · cases h
        · rcases loop2_keys specs rest _ r h k hk with h' | h'
          · by_cases e : k = n
            · right; simp [e]
            · left; rw [get?_append_ne _ _ _ _ e] at h'; exact h'
          · exact .inr (List.mem_cons_of_mem _ h')
      · cases h

theorem getSpecializations_ok_inv (g : Grammar) (sh : Shell) (specs : AList UserSpec) (fbs : AList String)
    (h : getSpecializations g sh = .ok (specs, fbs)) :
    specs = specList g sh ∧ (∀ x ∈ specDefs g, isCmdSpec x = true) ∧
    (∀ k, (fbs.get? k).isSome → k ∈ (plainDefs g).map (·.1)) := by
  unfold getSpecializations at h
  cases h1 : getSpecializations.loop1 sh (specDefs g) [] with
  | err c s => rw [h1] at h; cases h
  | crash s => rw [h1] at h; cases h
  | ok sp =>
    rw [h1] at h
    simp only at h
    obtain ⟨hs, hc⟩ := loop1_ok_inv sh (specDefs g) [] sp h1
    cases h2 : getSpecializations.loop2 sp (plainDefs g) [] with
    | err c s => rw [h2] at h; cases h
    | crash s => rw [h2] at h; cases h
    | ok f =>
      rw [h2] at h
      simp only [Outcome.ok.injEq, Prod.mk.injEq] at h
      obtain ⟨rfl, rfl⟩ := h
      refine ⟨by simpa [specList] using hs, hc, ?_⟩
      intro k hk
      have hk' : (f.get? k).isSome := by
        unfold AList.get? at *
        rw [List.find?_map] at hk
        cases hf : List.find? ((fun x => x.1 == k) ∘ fun p => (p.1, p.2.1)) f with
        | none => simp [hf] at hk
        | some v =>
          have : List.find? (fun x => x.1 == k) f = some v := by
            simpa [Function.comp_def] using hf
          simp [this]
      rcases loop2_keys sp (plainDefs g) [] f h2 k hk' with h' | h'
      · simp [AList.get?] at h'
      · exact h'

/-- **what `specialize` puts in place of `<name>` is what `Spec.pick` prescribes**, whatever `used` flags
and unused-bookkeeping the pass has accumulated so far -/
theorem specialize_nonterm_pick (g : Grammar) (sh : Shell) (specs : AList UserSpec) (fbs : AList String)
    (h : getSpecializations g sh = .ok (specs, fbs)) (b : Book)
    (hb : ∀ k, (b.specs.get? k).map (·.cmd) = (specs.get? k).map (·.cmd))
    (name : String) (l : Nat) (s : Span) :
    (specialize sh fbs ((plainDefs g).map (·.1)) (.nonterm name l s) b).1 =
      match Spec.pick sh g name with
      | .command c a => .cmd c a l s
      | .expr _ => .nonterm name l s
      | .anyWord => .nonterm name l s := by
  obtain ⟨hs, hc, hf⟩ := getSpecializations_ok_inv g sh specs fbs h
  have hget := specList_get sh name g hc
  rw [← hs, ← hb name] at hget
  rw [pick_unfold]
  unfold specialize
  simp only
  -- erasing from `unused` does not touch `specs`
  cases hsp : b.specs.get? name with
  | some sp =>
    have : g.findSome? (specFor sh name) = some sp.cmd := by rw [← hget, hsp]; rfl
    simp only [hsp, this]
    simp
  | none =>
    have : g.findSome? (specFor sh name) = none := by rw [← hget, hsp]; rfl
    simp only [hsp, this]
    have hpc := plain_contains name g
    cases hp : g.findSome? (plainFor name) with
    | some e =>
      have : ((plainDefs g).map (·.1)).contains name = true := by rw [hpc, hp]; rfl
      rw [if_pos this]
    | none =>
      have hnd : ((plainDefs g).map (·.1)).contains name = false := by rw [hpc, hp]; rfl
      rw [if_neg (by rw [hnd]; simp)]
      unfold builtinCmd
      cases hbi : (Gen.builtinTable.find? (fun r => r.1 == name && r.2.1 == sh)).map (·.2.2) with
      | some c => simp
      | none =>
        have hfn : fbs.get? name = none := by
          cases hfg : fbs.get? name with
          | none => rfl
          | some v =>
            have := hf name (by simp [hfg])
            have hc' : ((plainDefs g).map (·.1)).contains name = true := by simpa using this
            rw [hnd] at hc'; cases hc'
        simp [hfn]

end Complgen.Check

namespace Complgen.Check
open Complgen

mutual
/-- the expression with every nonterminal reference replaced by what `Spec.pick` prescribes for it
(a plain definition and "any word" leave the reference in place) -/
def applyPick (sh : Shell) (g : Grammar) : Expr → Expr
  | .nonterm n l s =>
    match Spec.pick sh g n with
    | .command c a => .cmd c a l s
    | _ => .nonterm n l s
  | .term t d l s => .term t d l s
  | .cmd c a l s => .cmd c a l s
  | .sub c l s => .sub (applyPick sh g c) l s
  | .seq cs s => .seq (applyPickL sh g cs) s
  | .alt cs s => .alt (applyPickL sh g cs) s
  | .fb cs s => .fb (applyPickL sh g cs) s
  | .opt c s => .opt (applyPick sh g c) s
  | .many1 c s => .many1 (applyPick sh g c) s
  | .dd c d s => .dd c d s
def applyPickL (sh : Shell) (g : Grammar) : ExprL → ExprL
  | .nil => .nil
  | .cons e es => .cons (applyPick sh g e) (applyPickL sh g es)
end

/-- the commands of the specialisation table never change while the pass runs (only `used` flags do) -/
def SameCmds (specs : AList UserSpec) (b : Book) : Prop :=
  ∀ k, (b.specs.get? k).map (·.cmd) = (specs.get? k).map (·.cmd)

theorem find?_map_preserve (f : String × UserSpec → String × UserSpec) (hf : ∀ p, (f p).1 = p.1 ∧ (f p).2.cmd = p.2.cmd)
    (k : String) : ∀ m : AList UserSpec,
    ((List.find? (fun x => x.1 == k) (m.map f)).map (·.2.cmd)) = ((List.find? (fun x => x.1 == k) m).map (·.2.cmd))
  | [] => rfl
  | x :: xs => by
    simp only [List.map_cons, List.find?_cons, (hf x).1]
    cases hk : x.1 == k with
    | true => simp [(hf x).2]
    | false => simpa using find?_map_preserve f hf k xs

theorem get?_map_used (m : AList UserSpec) (name k : String) :
    ((AList.get? (m.map fun p => if p.1 == name then (p.1, { p.2 with used := true }) else p) k).map (·.cmd)) =
      (m.get? k).map (·.cmd) := by
  have := find?_map_preserve (fun p => if p.1 == name then (p.1, { p.2 with used := true }) else p)
    (by intro p; by_cases h : p.1 == name <;> simp [h]) k m
  unfold AList.get?
  simpa [Option.map_map, Function.comp_def] using this

theorem specialize_nonterm_book (sh : Shell) (fbs : AList String) (defined : List String) (specs : AList UserSpec)
    (name : String) (l : Nat) (s : Span) (b : Book) (hb : SameCmds specs b) :
    SameCmds specs (specialize sh fbs defined (.nonterm name l s) b).2 := by
  intro k
  unfold specialize
  simp only
  cases hsp : b.specs.get? name with
  | some sp =>
    simp only [hsp]
    rw [get?_map_used]
    exact hb k
  | none =>
    simp only [hsp]
    split
    · exact hb k
    · rename_i c compadd b' hp
      have hspecs : b'.specs = b.specs := by
        split at hp
        · cases hp
        · split at hp
          · cases hp; rfl
          · split at hp
            · cases hp; rfl
            · cases hp
      show (b'.specs.get? k).map _ = _
      rw [hspecs]; exact hb k

mutual
theorem specialize_eq_applyPick (g : Grammar) (sh : Shell) (specs : AList UserSpec) (fbs : AList String)
    (h : getSpecializations g sh = .ok (specs, fbs)) :
    ∀ (e : Expr) (b : Book), SameCmds specs b →
      (specialize sh fbs ((plainDefs g).map (·.1)) e b).1 = applyPick sh g e ∧
      SameCmds specs (specialize sh fbs ((plainDefs g).map (·.1)) e b).2
  | .nonterm n l s, b, hb => by
    refine ⟨?_, specialize_nonterm_book sh fbs _ specs n l s b hb⟩
    rw [specialize_nonterm_pick g sh specs fbs h b hb n l s]
    unfold applyPick
    cases Spec.pick sh g n <;> rfl
  | .term t d l s, b, hb => by simp [specialize, applyPick, hb]
  | .cmd c a l s, b, hb => by simp [specialize, applyPick, hb]
  | .dd c d s, b, hb => by simp [specialize, applyPick, hb]
  | .sub c l s, b, hb => by
    have := specialize_eq_applyPick g sh specs fbs h c b hb
    simp only [specialize, applyPick]
    exact ⟨by rw [this.1], this.2⟩
  | .opt c s, b, hb => by
    have := specialize_eq_applyPick g sh specs fbs h c b hb
    simp only [specialize, applyPick]
    exact ⟨by rw [this.1], this.2⟩
  | .many1 c s, b, hb => by
    have := specialize_eq_applyPick g sh specs fbs h c b hb
    simp only [specialize, applyPick]
    exact ⟨by rw [this.1], this.2⟩
  | .seq cs s, b, hb => by
    have := specializeL_eq_applyPickL g sh specs fbs h cs b hb
    simp only [specialize, applyPick]
    exact ⟨by rw [this.1], this.2⟩
  | .alt cs s, b, hb => by
    have := specializeL_eq_applyPickL g sh specs fbs h cs b hb
    simp only [specialize, applyPick]
    exact ⟨by rw [this.1], this.2⟩
  | .fb cs s, b, hb => by
    have := specializeL_eq_applyPickL g sh specs fbs h cs b hb
    simp only [specialize, applyPick]
    exact ⟨by rw [this.1], this.2⟩
theorem specializeL_eq_applyPickL (g : Grammar) (sh : Shell) (specs : AList UserSpec) (fbs : AList String)
    (h : getSpecializations g sh = .ok (specs, fbs)) :
    ∀ (es : ExprL) (b : Book), SameCmds specs b →
      (specializeL sh fbs ((plainDefs g).map (·.1)) es b).1 = applyPickL sh g es ∧
      SameCmds specs (specializeL sh fbs ((plainDefs g).map (·.1)) es b).2
  | .nil, b, hb => by simp [specializeL, applyPickL, hb]
  | .cons e es, b, hb => by
    have h1 := specialize_eq_applyPick g sh specs fbs h e b hb
    have h2 := specializeL_eq_applyPickL g sh specs fbs h es _ h1.2
    simp only [specializeL, applyPickL]
    exact ⟨by rw [h1.1, h2.1], h2.2⟩
end

end Complgen.Check
