/-
C05 (whole grammars), the larger fragment: the round trip of `Proofs/LadderFullLayout.lean` lifted from
expressions to statements and to whole `.usage` files, as `Proofs/Statements.lean` does for the smaller
fragment.

A grammar whose statements are in `StmtNF'` (names as in `StmtNF`, expressions in `NF'` of
`Proofs/LadderFull.lean`: escaped literals, literals with descriptions, descriptions distributed over groups,
words built by juxtaposition) printed with any admissible layout (`GLayout'`, `StmtLayout'`: as `GLayout`,
`StmtLayout` of `Proofs/Statements.lean`, the expressions laid out by a `Layout'`, which has the position
before a description) is read back by `Parse.parse` as the same grammar up to spans
(`grammar_roundtrip_full_layout`, no fuel hypothesis); two layouts of one grammar parse to grammars that
differ in spans only (`grammar_layout_irrelevant_full`); the plain printer `ppGrammar'` is one of the layouts
(`ppGrammar'_eq`, `grammar_roundtrip_full`); `StmtNF_sub`: the statements of `Proofs/Statements.lean` are
statements of this fragment.

Fuel: `needF_le_length`, `needF e + 1 ≤ 10 * (ppL' lay ctx e).length` for every tree of `NF'`, every
admissible layout and every context, so `fuelFor n = 10 * n + 20` covers every expression of a file of `n`
characters.  The lemmas of `Proofs/Statements.lean` that do not mention the expression (`endText`, `sign_ok`,
`defHead_ok`, `statements_end`, …) are used as they are; those that read the expression are restated for
`NF'`/`ppL'`/`needF` (`exprEnd_ok'`, `callVariant_ok'`, `nontermDef_ok'`, `variant_ok'`, …).
-/
import Complgen.Proofs.LadderFullLayout
import Complgen.Proofs.Statements
namespace Complgen.Parse.Full
open Complgen Complgen.Parse

/-! ### the measure against the printed length -/

theorem length_parenIfL'_ge (lay : Layout') (b : Bool) (T : List Char) :
    T.length ≤ (parenIfL' lay b T).length := by
  cases b <;> simp [parenIfL', parenL] <;> omega

theorem length_sepL'_pos (lay : Layout') (adm : lay.Adm) (ctx : Nat) (h1 : 1 ≤ ctx) (h3 : ctx ≤ 3) :
    1 ≤ (sepL' lay ctx).length := by
  have : ctx = 1 ∨ ctx = 2 ∨ ctx = 3 := by omega
  rcases this with rfl | rfl | rfl
  · simp [sepL']; omega
  · simp [sepL']; omega
  · have := (adm.sep []).2
    simp only [sepL']
    cases h : lay.sep [] with
    | nil => exact absurd h this
    | cons _ _ => simp

theorem length_escT_pos (t : List Char) (ht : t ≠ []) (hh : t.head? ≠ some '#') : 1 ≤ (escT 0 t).length := by
  obtain ⟨c, r, h, _⟩ := escT_head t ht hh
  rw [h]; simp

def LenE' (e : Expr) : Prop := ∀ lay : Layout', lay.Adm → ∀ ctx, needF e + 1 ≤ 10 * (ppL' lay ctx e).length
def LenT' (es : ExprL) : Prop := ∀ lay : Layout', lay.Adm → ∀ ctx, 1 ≤ ctx → ctx ≤ 3 →
  needFL es + 10 ≤ 10 * (ppTailL' lay ctx es).length ∨ es = .nil
def LenW' (fs : ExprL) : Prop := ∀ lay : Layout', lay.Adm → needFL fs ≤ 10 * (ppTailL' lay 6 fs).length
def LenParts' (es : ExprL) : Prop := ∀ e1 es1, es = .cons e1 es1 → LenE' e1 ∧ LenT' es1 ∧ LenW' es1

theorem lenT'_cons (e : Expr) (es : ExprL) (he : LenE' e) (hes : LenT' es) : LenT' (.cons e es) := by
  intro lay adm ctx h1 h3
  left
  have h1' := he (lay.sub 0) (adm.sub 0) ctx
  have h3' := length_sepL'_pos lay adm ctx h1 h3
  simp only [ppTailL', needFL, List.length_append]
  rcases hes (lay.sub 1) (adm.sub 1) ctx h1 h3 with h2 | rfl
  · omega
  · simp only [needFL]; omega

theorem lenW'_cons (e : Expr) (es : ExprL) (he : LenE' e) (hes : LenW' es) : LenW' (.cons e es) := by
  intro lay adm
  have h1 := he (lay.sub 0) (adm.sub 0) 6
  have h2 := hes (lay.sub 1) (adm.sub 1)
  simp only [ppTailL', needFL, List.length_append]
  omega

theorem lenE'_list (lay : Layout') (adm : lay.Adm) (ctx : Nat) (h1 : 1 ≤ ctx) (h3 : ctx ≤ 3) (e1 e2 : Expr)
    (es : ExprL) (h : LenParts' (.cons e1 (.cons e2 es))) :
    needFL (.cons e1 (.cons e2 es)) + 10 ≤ 10 * (ppListL' lay ctx (.cons e1 (.cons e2 es))).length := by
  obtain ⟨he1, hes, _⟩ := h _ _ rfl
  have h1' := he1 (lay.sub 0) (adm.sub 0) ctx
  rcases hes (lay.sub 1) (adm.sub 1) ctx h1 h3 with hT | hT
  · simp only [ppListL', List.length_append]
    rw [needFL]
    omega
  · cases hT

theorem lenE'_word (lay : Layout') (adm : lay.Adm) (e1 e2 : Expr) (es : ExprL)
    (h : LenParts' (.cons e1 (.cons e2 es))) :
    needFL (.cons e1 (.cons e2 es)) + 8 ≤ 10 * (ppListL' lay 6 (.cons e1 (.cons e2 es))).length := by
  obtain ⟨he1, _, hes⟩ := h _ _ rfl
  have h1' := he1 (lay.sub 0) (adm.sub 0) 6
  have h2' := hes (lay.sub 1) (adm.sub 1)
  have hpos : 1 ≤ needFL (.cons e2 es) := by simp only [needFL]; omega
  simp only [ppListL', List.length_append]
  rw [needFL]
  omega

theorem NFW_NFL' : ∀ fs : ExprL, NFW fs → NFL' fs
  | .nil, _ => trivial
  | .cons f fs, h => by
    simp only [NFW] at h
    simp only [NFL']
    exact ⟨h.1, NFW_NFL' fs h.2.2.2⟩

/-- **the fuel of `Grammar::parse` suffices on the larger fragment**: ten units of fuel for every printed
character cover the descent into any tree of `NF'`, whatever the layout -/
theorem needF_le_length (e : Expr) : NF' e → LenE' e := by
  suffices h : NF' e → LenE' e ∧ ∀ fs sp, e = .seq fs sp → LenParts' fs from fun hnf => (h hnf).1
  refine Expr.rec
    (motive_1 := fun e => NF' e → LenE' e ∧ ∀ fs sp, e = .seq fs sp → LenParts' fs)
    (motive_2 := fun es => NFL' es → LenT' es ∧ LenW' es ∧ LenParts' es)
    ?_ ?_ ?_ ?_ ?_ ?_ ?_ ?_ ?_ ?_ ?_ ?_ e
  · intro t d l sp h
    refine ⟨fun lay _ ctx => ?_, fun _ _ e => by cases e⟩
    simp only [NF'] at h
    have hpos := length_escT_pos t.toList h.2.1 h.2.2.2
    cases d with
    | none =>
      have := length_parenIfL'_ge lay (ctx == 5 || (ctx == 4 && endsDot t.toList)) (escT 0 t.toList)
      rw [ppL'_bare]; simp only [needF]; omega
    | some d =>
      rw [ppL'_descr]; simp only [needF, List.length_append]; omega
  · intro n l sp _
    refine ⟨fun lay _ ctx => ?_, fun _ _ e => by cases e⟩
    simp only [ppL', needF, List.length_cons, List.length_append, List.length_nil]; omega
  · intro c a l sp _
    refine ⟨fun lay _ ctx => ?_, fun _ _ e => by cases e⟩
    simp only [ppL', needF, cmdText, List.length_cons, List.length_append, List.length_nil]; omega
  · intro cs sp ih h
    simp only [NF'] at h
    refine ⟨fun lay adm ctx => ?_, fun fs sp' e => by cases e; exact (ih h.2).2.2⟩
    obtain ⟨e1, e2, es, rfl⟩ := two_le_length h.1
    have h1 := lenE'_list (lay.sub 0) (adm.sub 0) 3 (by omega) (by omega) e1 e2 es (ih h.2).2.2
    have h2 := length_parenIfL'_ge lay (decide (3 ≤ ctx)) (ppListL' (lay.sub 0) 3 (.cons e1 (.cons e2 es)))
    simp only [ppL', needF]
    omega
  · intro cs sp ih h
    simp only [NF'] at h
    refine ⟨fun lay adm ctx => ?_, fun _ _ e => by cases e⟩
    obtain ⟨e1, e2, es, rfl⟩ := two_le_length h.1
    have h1 := lenE'_list (lay.sub 0) (adm.sub 0) 2 (by omega) (by omega) e1 e2 es (ih h.2).2.2
    have h2 := length_parenIfL'_ge lay (decide (2 ≤ ctx)) (ppListL' (lay.sub 0) 2 (.cons e1 (.cons e2 es)))
    simp only [ppL', needF]
    omega
  · intro cs sp ih h
    simp only [NF'] at h
    refine ⟨fun lay adm ctx => ?_, fun _ _ e => by cases e⟩
    obtain ⟨e1, e2, es, rfl⟩ := two_le_length h.1
    have h1 := lenE'_list (lay.sub 0) (adm.sub 0) 1 (by omega) (by omega) e1 e2 es (ih h.2).2.2
    have h2 := length_parenIfL'_ge lay (decide (1 ≤ ctx)) (ppListL' (lay.sub 0) 1 (.cons e1 (.cons e2 es)))
    simp only [ppL', needF]
    omega
  · intro c sp ih h
    simp only [NF'] at h
    refine ⟨fun lay adm ctx => ?_, fun _ _ e => by cases e⟩
    have := (ih h).1 (lay.sub 0) (adm.sub 0) 0
    simp only [ppL', needF, List.length_cons, List.length_append, List.length_nil]; omega
  · intro c sp ih h
    simp only [NF'] at h
    refine ⟨fun lay adm ctx => ?_, fun _ _ e => by cases e⟩
    have := (ih h).1 (lay.sub 0) (adm.sub 0) 4
    have h2 := length_parenIfL'_ge lay (ctx == 4) (ppL' (lay.sub 0) 4 c ++ lay.dots [] ++ ['.', '.', '.'])
    simp only [List.length_cons, List.length_append, List.length_nil] at h2
    simp only [ppL', needF]; omega
  · intro c d sp ih h
    simp only [NF'] at h
    refine ⟨fun lay adm ctx => ?_, fun _ _ e => by cases e⟩
    have := (ih h).1 (lay.sub 0) (adm.sub 0) 5
    have h2 := length_parenIfL'_ge lay (decide (4 ≤ ctx))
      (ppL' (lay.sub 0) 5 c ++ descrTextL (lay.descr []) d.toList)
    have h3 : (ppL' (lay.sub 0) 5 c).length + 2 ≤
        (ppL' (lay.sub 0) 5 c ++ descrTextL (lay.descr []) d.toList).length := by
      simp only [descrTextL, List.length_cons, List.length_append, List.length_nil]; omega
    simp only [ppL', needF]; omega
  · intro c l sp ih h
    refine ⟨fun lay adm ctx => ?_, fun _ _ e => by cases e⟩
    cases c with
    | seq fs sp1 =>
      simp only [NF'] at h
      obtain ⟨_, hlen, hN⟩ := h
      have hparts := (ih ⟨hlen, NFW_NFL' fs hN⟩).2 fs sp1 rfl
      obtain ⟨f1, f2, fs', rfl⟩ := two_le_length hlen
      have h1 := lenE'_word (lay.sub 0) (adm.sub 0) f1 f2 fs' hparts
      have h2 := length_parenIfL'_ge lay
        (ctx == 4 || ctx == 6 || (ctx == 5 && lastBare false (.cons f1 (.cons f2 fs'))))
        (ppListL' (lay.sub 0) 6 (.cons f1 (.cons f2 fs')))
      rw [ppL'_sub]
      simp only [needF]
      omega
    | _ => simp [NF'] at h
  · intro _
    exact ⟨fun _ _ _ _ _ => .inr rfl, fun _ _ => by simp [needFL, ppTailL'], fun _ _ h => by cases h⟩
  · intro e es ihe ihes h
    simp only [NFL'] at h
    have he := (ihe h.1).1
    obtain ⟨hT, hW, _⟩ := ihes h.2
    exact ⟨lenT'_cons e es he hT, lenW'_cons e es he hW, fun _ _ e => by cases e; exact ⟨he, hT, hW⟩⟩

/-- a printed tree begins with a character at which blanks and comments stop -/
theorem nbstart_ppL' (e : Expr) (hnf : NF' e) (lay : Layout') (adm : lay.Adm) (k : Nat) :
    NBStart (ppL' lay k e) := ((all_levelsL e hnf lay adm).hd k).nb

/-! ### statements: the fragment, the layout, the printer -/

/-- the statements of the larger fragment: names as in `StmtNF` of `Proofs/Statements.lean`, the expression
in `NF'` -/
def StmtNF' : Stmt → Prop
  | .call n _ e => n.toList ≠ [] ∧ (∀ c ∈ n.toList, isRegular c = true) ∧ n.toList.head? ≠ some '#' ∧ NF' e
  | .defn n _ none e => n.toList ≠ [] ∧ (∀ c ∈ n.toList, c ≠ '>' ∧ c ≠ '@') ∧ NF' e
  | .defn n _ (some (sh, _)) e => n.toList ≠ [] ∧ (∀ c ∈ n.toList, c ≠ '>' ∧ c ≠ '@') ∧
      sh.toList ≠ [] ∧ (∀ c ∈ sh.toList, c ≠ '>') ∧ NF' e

theorem StmtNF'.expr {st : Stmt} (h : StmtNF' st) : NF' st.expr := by
  cases st with
  | call n sp e => simp only [StmtNF'] at h; exact h.2.2.2
  | defn n sp shell e =>
    cases shell with
    | none => simp only [StmtNF'] at h; exact h.2.2
    | some p => obtain ⟨sh, y⟩ := p; simp only [StmtNF'] at h; exact h.2.2.2.2

/-- the layout of a printed statement (as `StmtLayout`, the expression with a `Layout'`) -/
structure StmtLayout' where
  eq : Bool
  name : List Char
  sign : List Char
  expr : Layout'
  semi : List Char
  next : List Char

/-- an admissible layout of the statement `st` -/
structure StmtLayout'.Adm (L : StmtLayout') (st : Stmt) : Prop where
  name : IsLayout L.name
  nameCall : st.isCall = true → L.name ≠ [] ∧ ∀ r, L.name ≠ '#' :: r
  sign : IsLayout L.sign
  expr : L.expr.Adm
  semi : IsLayoutW L.semi
  next : IsLayout L.next

/-- a statement without its end -/
def ppBodyL' (L : StmtLayout') : Stmt → List Char
  | .call n _ e => n.toList ++ L.name ++ ppL' L.expr 0 e
  | .defn n _ none e => '<' :: n.toList ++ '>' :: L.name ++ signText L.eq ++ L.sign ++ ppL' L.expr 0 e
  | .defn n _ (some (sh, _)) e =>
    '<' :: n.toList ++ '@' :: sh.toList ++ '>' :: L.name ++ signText L.eq ++ L.sign ++ ppL' L.expr 0 e

/-- a statement with the layout `L`; `semi = false`: the last statement of a file, without `;` -/
def ppStmtL' (L : StmtLayout') (semi : Bool) (st : Stmt) : List Char :=
  ppBodyL' L st ++ L.semi ++ endText semi L.next

/-! ### the parts of a statement -/

/-- the expression of a statement and its end -/
theorem exprEnd_ok' (e : Expr) (hnf : NF' e) (lay : Layout') (adm : lay.Adm) (l : List Char)
    (hl : IsLayoutW l) (semi : Bool) (r : List Char) (s : PState)
    (hs : s.rest = ppL' lay 0 e ++ (l ++ endText semi r)) (fuel : Nat) (hf : needF e ≤ fuel) :
    ∃ e', fallback fuel s = some (s.adv (ppL' lay 0 e).length, e') ∧ e'.eraseSpans = e.eraseSpans ∧
      endOfStatement (mb0 (s.adv (ppL' lay 0 e).length)) =
        some (s.adv ((ppL' lay 0 e).length + l.length + semi.toNat)) := by
  obtain ⟨e', he', hE⟩ :=
    fallback_roundtrip_full_layout e hnf lay adm _ (Follows_endText l hl semi r) s hs fuel hf
  have hr3 := adv_rest_append s _ _ hs
  have hmb0 := mb0_layout _ l _ hl.1 (NBHead_endText semi r) hr3
  have hr4 := adv_rest_append _ l _ hr3
  refine ⟨e', he', hE, ?_⟩
  rw [hmb0, endOfStatement_endText _ semi r hr4, adv_add', adv_add', Nat.add_assoc]

theorem callVariant_ok' (n : List Char) (hn : n ≠ []) (hreg : ∀ c ∈ n, isRegular c = true)
    (l1 : List Char) (hl1 : IsLayoutW l1) (hne : l1 ≠ []) (e : Expr) (hnf : NF' e) (lay : Layout')
    (adm : lay.Adm) (l2 : List Char) (hl2 : IsLayoutW l2) (semi : Bool) (r : List Char) (s : PState)
    (hs : s.rest = n ++ (l1 ++ (ppL' lay 0 e ++ (l2 ++ endText semi r)))) (fuel : Nat) (hf : needF e ≤ fuel) :
    ∃ sp e', callVariant fuel s =
        some (s.adv (n.length + l1.length + (ppL' lay 0 e).length + l2.length + semi.toNat),
          .call (String.ofList n) sp e') ∧ e'.eraseSpans = e.eraseSpans := by
  have hstop : StopHead (l1 ++ (ppL' lay 0 e ++ (l2 ++ endText semi r))) := by
    cases l1 with
    | nil => exact absurd rfl hne
    | cons c cs => exact .inr ⟨c, _, rfl, blank_stop hl1.head⟩
  have hterm := terminal_name n _ s hn hreg hstop hs
  have hr1 := adv_rest_append s n _ hs
  have hmb1 := mb1_layout_some _ l1 _ hl1.1 hne ((nbstart_ppL' e hnf lay adm 0).nbh _) hr1
  have hr2 := adv_rest_append _ l1 _ hr1
  obtain ⟨e', he', hE, hend⟩ := exprEnd_ok' e hnf lay adm l2 hl2 semi r _ hr2 fuel hf
  refine ⟨fromRange s (s.adv n.length), e', ?_, hE⟩
  unfold callVariant
  simp only [hterm, hmb1, he', hend, Option.bind_eq_bind, Option.bind_some]
  simp only [adv_add']
  congr 3
  omega

theorem nontermDef_ok' (n : String) (shell : Option (String × Span)) (hn : n.toList ≠ [])
    (hgt : ∀ c ∈ n.toList, c ≠ '>' ∧ c ≠ '@')
    (hsh : ∀ sh x, shell = some (sh, x) → sh.toList ≠ [] ∧ ∀ c ∈ sh.toList, c ≠ '>')
    (l0 : List Char) (hl0 : IsLayout l0) (b : Bool) (l1 : List Char) (hl1 : IsLayout l1)
    (e : Expr) (hnf : NF' e) (lay : Layout') (adm : lay.Adm) (l2 : List Char) (hl2 : IsLayoutW l2)
    (semi : Bool) (r : List Char) (s : PState)
    (hs : s.rest = headText n shell ++ (l0 ++ (signText b ++ (l1 ++ (ppL' lay 0 e ++ (l2 ++ endText semi r))))))
    (fuel : Nat) (hf : needF e ≤ fuel) :
    ∃ sp shell' e', nontermDefStatement fuel s =
        some (s.adv ((headText n shell).length + l0.length + (signText b).length + l1.length +
            (ppL' lay 0 e).length + l2.length + semi.toNat), .defn n sp shell' e') ∧
      shell'.map (fun p => (p.1, (default : Span))) = shell.map (fun p => (p.1, (default : Span))) ∧
      e'.eraseSpans = e.eraseSpans := by
  obtain ⟨sp, shell', hhead, hshell⟩ := defHead_ok n shell _ s hn hgt hsh hs
  have hr1 := adv_rest_append s _ _ hs
  have hm1 := mb0_layout _ l0 _ hl0 (NBHead_signText b _) hr1
  have hr2 := adv_rest_append _ l0 _ hr1
  have hsign := sign_ok b _ _ hr2
  have hr3 := adv_rest_append _ (signText b) _ hr2
  have hm2 := mb0_layout _ l1 _ hl1 ((nbstart_ppL' e hnf lay adm 0).nbh _) hr3
  have hr4 := adv_rest_append _ l1 _ hr3
  obtain ⟨e', he', hE, hend⟩ := exprEnd_ok' e hnf lay adm l2 hl2 semi r _ hr4 fuel hf
  refine ⟨sp, shell', e', ?_, hshell, hE⟩
  rw [nontermDefStatement_eq, hhead]
  simp only [Option.bind_some, hm1, hsign, hm2, he', hend]
  simp only [adv_add']
  congr 3
  omega

/-! ### `statement` -/

/-- `alt((call_variant, nonterm_def_statement))` on a printed statement -/
theorem variant_ok' (st : Stmt) (hst : StmtNF' st) (L : StmtLayout') (adm : L.Adm st) (semi : Bool)
    (r : List Char) (s : PState) (hs : s.rest = ppBodyL' L st ++ (L.semi ++ endText semi r))
    (fuel : Nat) (hf : needF st.expr ≤ fuel) :
    ∃ st', ((callVariant fuel s).orElse fun _ => nontermDefStatement fuel s) =
        some (s.adv ((ppBodyL' L st).length + L.semi.length + semi.toNat), st') ∧
      st'.eraseSpans = st.eraseSpans := by
  cases st with
  | call n sp e =>
    simp only [StmtNF'] at hst
    obtain ⟨h1, h2, _, hnf⟩ := hst
    have hcall := adm.nameCall rfl
    have hs' : s.rest = n.toList ++ (L.name ++ (ppL' L.expr 0 e ++ (L.semi ++ endText semi r))) := by
      rw [hs]; simp [ppBodyL']
    obtain ⟨sp', e', h, hE⟩ := callVariant_ok' n.toList h1 h2 L.name ⟨adm.name, hcall.2⟩ hcall.1 e hnf L.expr
      adm.expr L.semi adm.semi semi r s hs' fuel hf
    refine ⟨.call (String.ofList n.toList) sp' e', ?_, ?_⟩
    · rw [h]
      simp only [Option.orElse, ppBodyL', List.length_append]
    · rw [String.ofList_toList]
      simp only [Stmt.eraseSpans, hE]
  | defn n sp shell e =>
    have hparts : n.toList ≠ [] ∧ (∀ c ∈ n.toList, c ≠ '>' ∧ c ≠ '@') ∧
        (∀ sh x, shell = some (sh, x) → sh.toList ≠ [] ∧ ∀ c ∈ sh.toList, c ≠ '>') ∧ NF' e := by
      cases shell with
      | none =>
        simp only [StmtNF'] at hst
        exact ⟨hst.1, hst.2.1, fun _ _ h => (by cases h), hst.2.2⟩
      | some p =>
        obtain ⟨sh, x⟩ := p
        simp only [StmtNF'] at hst
        exact ⟨hst.1, hst.2.1, fun _ _ h => (by cases h; exact ⟨hst.2.2.1, hst.2.2.2.1⟩), hst.2.2.2.2⟩
    obtain ⟨h1, h2, h3, hnf⟩ := hparts
    have hbody : ppBodyL' L (.defn n sp shell e) =
        headText n shell ++ (L.name ++ (signText L.eq ++ (L.sign ++ ppL' L.expr 0 e))) := by
      cases shell with
      | none => simp [ppBodyL', headText]
      | some p => obtain ⟨sh, x⟩ := p; simp [ppBodyL', headText]
    have hs' : s.rest = headText n shell ++ (L.name ++ (signText L.eq ++ (L.sign ++
        (ppL' L.expr 0 e ++ (L.semi ++ endText semi r))))) := by
      rw [hs, hbody]; simp
    have hlt : ∃ r', s.rest = '<' :: r' := by
      rw [hs']; cases shell with
      | none => exact ⟨_, rfl⟩
      | some p => exact ⟨_, rfl⟩
    obtain ⟨r', hr'⟩ := hlt
    obtain ⟨sp', shell', e', h, hsh, hE⟩ := nontermDef_ok' n shell h1 h2 h3 L.name adm.name L.eq L.sign adm.sign
      e hnf L.expr adm.expr L.semi adm.semi semi r s hs' fuel hf
    refine ⟨.defn n sp' shell' e', ?_, ?_⟩
    · rw [callVariant_none fuel s r' hr', h, hbody]
      simp only [Option.orElse, List.length_append]
      congr 3
      omega
    · cases shell with
      | none =>
        cases shell' with
        | none => simp only [Stmt.eraseSpans, hE]
        | some q => simp at hsh
      | some p =>
        obtain ⟨sh, x⟩ := p
        cases shell' with
        | none => simp at hsh
        | some q =>
          obtain ⟨sh', x'⟩ := q
          simp only [Option.map_some, Option.some.injEq, Prod.mk.injEq, and_true] at hsh
          subst hsh
          simp only [Stmt.eraseSpans, hE]

/-- **`statement` reads back a printed statement of the larger fragment**, whatever the layout -/
theorem statement_roundtrip_full_layout (st : Stmt) (hst : StmtNF' st) (L : StmtLayout') (adm : L.Adm st)
    (semi : Bool) (rest : List Char) (hrest : NBHead rest) (hsemi : semi = false → rest = [])
    (s : PState) (hs : s.rest = ppStmtL' L semi st ++ rest) (fuel : Nat) (hf : needF st.expr ≤ fuel) :
    ∃ st', statement fuel s = some (s.adv (ppStmtL' L semi st).length, st') ∧
      st'.eraseSpans = st.eraseSpans := by
  have hs' : s.rest = ppBodyL' L st ++ (L.semi ++ endText semi (L.next ++ rest)) := by
    rw [hs, ← endText_append semi L.next rest hsemi]; simp [ppStmtL']
  obtain ⟨st', hv, hE⟩ := variant_ok' st hst L adm semi (L.next ++ rest) s hs' fuel hf
  have hs2 : s.rest = (ppBodyL' L st ++ L.semi) ++ endText semi (L.next ++ rest) := by rw [hs']; simp
  have hr1 := adv_rest_append s _ _ hs2
  have hr2 := endText_rest _ semi _ hr1
  rw [adv_add', List.length_append] at hr2
  refine ⟨st', ?_, hE⟩
  unfold statement
  rw [hv]
  simp only
  cases semi
  · simp only [Bool.false_eq_true, if_false] at hr2
    rw [mb0_nil _ hr2]
    simp [ppStmtL', endText]
  · simp only [if_true] at hr2
    rw [mb0_layout _ L.next rest adm.next hrest hr2, adv_add']
    simp only [ppStmtL', endText, if_true, List.length_append, List.length_cons, Bool.toNat_true]
    congr 3
    omega

/-! ### whole files -/

/-- the layout of a printed file -/
structure GLayout' where
  lead : List Char
  stmt : Nat → StmtLayout'
  semi : Bool

/-- an admissible layout of the grammar `g` -/
structure GLayout'.Adm (G : GLayout') (g : Grammar) : Prop where
  lead : IsLayout G.lead
  stmt : ∀ i st, g[i]? = some st → (G.stmt i).Adm st

/-- the statements one after the other; every statement but the last has its `;`, the last one if `fin` -/
def ppStmtsL' (fin : Bool) : (Nat → StmtLayout') → List Stmt → List Char
  | _, [] => []
  | L, st :: sts => ppStmtL' (L 0) (fin || !sts.isEmpty) st ++ ppStmtsL' fin (fun i => L (i + 1)) sts

/-- the printer of grammars of the larger fragment with layout -/
def ppGrammarL' (G : GLayout') (g : Grammar) : List Char := G.lead ++ ppStmtsL' G.semi G.stmt g

theorem ppBodyL'_head (L : StmtLayout') (st : Stmt) (hst : StmtNF' st) :
    ∃ c r, ppBodyL' L st = c :: r ∧ notBlank c = true := by
  cases st with
  | call n sp e =>
    simp only [StmtNF'] at hst
    obtain ⟨h1, h2, h3, _⟩ := hst
    cases hn : n.toList with
    | nil => exact absurd hn h1
    | cons x t =>
      rw [hn] at h2 h3
      refine ⟨x, t ++ L.name ++ ppL' L.expr 0 e, by simp [ppBodyL', hn], ?_⟩
      exact (starter_spec (regular_starter (h2 x (by simp)) (by simpa using h3))).1
  | defn n sp shell e =>
    cases shell with
    | none => exact ⟨'<', _, rfl, by decide⟩
    | some p => obtain ⟨sh, x⟩ := p; exact ⟨'<', _, rfl, by decide⟩

theorem NBHead_ppStmtL' (L : StmtLayout') (semi : Bool) (st : Stmt) (hst : StmtNF' st) (X : List Char) :
    NBHead (ppStmtL' L semi st ++ X) := by
  obtain ⟨c, r, h, hc⟩ := ppBodyL'_head L st hst
  unfold ppStmtL'
  rw [h]
  exact NBHead_cons c _ hc

theorem NBHead_ppStmtsL' (fin : Bool) (L : Nat → StmtLayout') (g : List Stmt) (hg : ∀ st ∈ g, StmtNF' st) :
    NBHead (ppStmtsL' fin L g) := by
  cases g with
  | nil => exact NBHead_nil
  | cons st sts => exact NBHead_ppStmtL' _ _ st (hg st (by simp)) _

theorem length_ppStmtL'_pos (L : StmtLayout') (semi : Bool) (st : Stmt) (hst : StmtNF' st) :
    1 ≤ (ppStmtL' L semi st).length := by
  obtain ⟨c, r, h, _⟩ := ppBodyL'_head L st hst
  simp only [ppStmtL', h, List.length_append, List.length_cons]; omega

theorem length_expr_le' (L : StmtLayout') (semi : Bool) (st : Stmt) :
    (ppL' L.expr 0 st.expr).length ≤ (ppStmtL' L semi st).length := by
  have : (ppL' L.expr 0 st.expr).length ≤ (ppBodyL' L st).length := by
    cases st with
    | call n sp e => simp only [ppBodyL', Stmt.expr, List.length_append]; omega
    | defn n sp shell e =>
      cases shell with
      | none => simp only [ppBodyL', Stmt.expr, List.length_append, List.length_cons]; omega
      | some p => obtain ⟨sh, x⟩ := p; simp only [ppBodyL', Stmt.expr, List.length_append, List.length_cons]; omega
  simp only [ppStmtL', List.length_append]; omega

theorem adm_tail' {L : Nat → StmtLayout'} {st : Stmt} {sts : List Stmt}
    (h : ∀ i x, (st :: sts)[i]? = some x → (L i).Adm x) :
    ∀ i x, sts[i]? = some x → (L (i + 1)).Adm x :=
  fun i x hx => h (i + 1) x (by simpa using hx)

/-- ten units of fuel for every character of the file cover every expression of the file -/
theorem needF_le_stmts (fin : Bool) : ∀ (g : List Stmt) (L : Nat → StmtLayout'), (∀ st ∈ g, StmtNF' st) →
    (∀ i st, g[i]? = some st → (L i).Adm st) →
    ∀ st ∈ g, needF st.expr + 1 ≤ 10 * (ppStmtsL' fin L g).length
  | [], _, _, _, st, h => by cases h
  | x :: xs, L, hg, hadm, st, h => by
    simp only [ppStmtsL', List.length_append]
    rcases List.mem_cons.mp h with rfl | h'
    · have hnf : NF' st.expr := (hg st (by simp)).expr
      have h1 := needF_le_length st.expr hnf (L 0).expr (hadm 0 st (by simp)).expr 0
      have h2 := length_expr_le' (L 0) (fin || !xs.isEmpty) st
      omega
    · have := needF_le_stmts fin xs (fun i => L (i + 1)) (fun y hy => hg y (by simp [hy])) (adm_tail' hadm) st h'
      omega

theorem length_le_ppStmtsL' (fin : Bool) : ∀ (g : List Stmt) (L : Nat → StmtLayout'), (∀ st ∈ g, StmtNF' st) →
    g.length ≤ (ppStmtsL' fin L g).length
  | [], _, _ => by simp
  | x :: xs, L, hg => by
    have h1 := length_ppStmtL'_pos (L 0) (fin || !xs.isEmpty) x (hg x (by simp))
    have h2 := length_le_ppStmtsL' fin xs (fun i => L (i + 1)) (fun y hy => hg y (by simp [hy]))
    simp only [ppStmtsL', List.length_append, List.length_cons]; omega

/-- `many0(statement)` reads back the printed statements -/
theorem statements_roundtrip' (fin : Bool) : ∀ (g : List Stmt) (L : Nat → StmtLayout'), (∀ st ∈ g, StmtNF' st) →
    (∀ i st, g[i]? = some st → (L i).Adm st) → ∀ (n : Nat), g.length ≤ n →
    ∀ (fuel : Nat), (∀ st ∈ g, needF st.expr ≤ fuel) → ∀ (s : PState), s.rest = ppStmtsL' fin L g →
    ∀ acc : List Stmt, ∃ g', statements n fuel s acc = (s.adv (ppStmtsL' fin L g).length, acc ++ g') ∧
      g'.map Stmt.eraseSpans = g.map Stmt.eraseSpans
  | [], L, _, _, n, _, fuel, _, s, hs, acc => by
    refine ⟨[], ?_, rfl⟩
    rw [statements_end n fuel s acc hs]
    simp [ppStmtsL', adv_zero]
  | x :: xs, L, hg, hadm, n, hn, fuel, hfuel, s, hs, acc => by
    obtain ⟨n, rfl⟩ : ∃ n', n = n' + 1 := ⟨n - 1, by simp at hn; omega⟩
    have hg' : ∀ st ∈ xs, StmtNF' st := fun y hy => hg y (by simp [hy])
    have hs' : s.rest = ppStmtL' (L 0) (fin || !xs.isEmpty) x ++ ppStmtsL' fin (fun i => L (i + 1)) xs := by
      rw [hs]; rfl
    have hsemi : (fin || !xs.isEmpty) = false → ppStmtsL' fin (fun i => L (i + 1)) xs = [] := by
      intro h
      cases xs with
      | nil => rfl
      | cons _ _ => simp at h
    obtain ⟨st', hst', hE⟩ := statement_roundtrip_full_layout x (hg x (by simp)) (L 0) (hadm 0 x (by simp))
      (fin || !xs.isEmpty) _ (NBHead_ppStmtsL' fin _ xs hg') hsemi s hs' fuel (hfuel x (by simp))
    have hr := adv_rest_append s _ _ hs'
    obtain ⟨g', hg'', hE'⟩ := statements_roundtrip' fin xs (fun i => L (i + 1)) hg' (adm_tail' hadm) n
      (by simp at hn; omega) fuel (fun y hy => hfuel y (by simp [hy])) _ hr (acc ++ [st'])
    have hpos := length_ppStmtL'_pos (L 0) (fin || !xs.isEmpty) x (hg x (by simp))
    have hlt : (s.adv (ppStmtL' (L 0) (fin || !xs.isEmpty) x).length).rest.length < s.rest.length := by
      rw [hr, hs', List.length_append]; omega
    refine ⟨st' :: g', ?_, by simp [hE, hE']⟩
    rw [statements_succ, hst']
    simp only [hlt, if_true]
    rw [hg'', adv_add']
    simp [ppStmtsL']

end Complgen.Parse.Full

namespace Complgen.Parse
open Complgen Complgen.Parse.Full

/-- **`Grammar::parse` reads back a printed grammar of the larger fragment, whatever the layout**: a grammar
whose statements are in `StmtNF'` (expressions in `NF'`: escaped literals, descriptions, descriptions
distributed over groups, words built by juxtaposition) printed with any admissible layout is parsed as the
same grammar up to spans.  No fuel hypothesis: the fuel `Grammar::parse` provides suffices
(`needF_le_length`). -/
theorem grammar_roundtrip_full_layout (g : Grammar) (hg : ∀ st ∈ g, StmtNF' st) (G : GLayout') (adm : G.Adm g) :
    ∃ g', parse (ppGrammarL' G g) = .ok g' ∧ g'.map Stmt.eraseSpans = g.map Stmt.eraseSpans := by
  have hnb := NBHead_ppStmtsL' G.semi G.stmt g hg
  have hs0 : (PState.init (ppGrammarL' G g)).rest = G.lead ++ ppStmtsL' G.semi G.stmt g := rfl
  have hm0 := mb0_layout _ G.lead _ adm.lead hnb hs0
  have hr0 := adv_rest_append _ G.lead _ hs0
  have hlen : (ppGrammarL' G g).length = G.lead.length + (ppStmtsL' G.semi G.stmt g).length := by
    simp [ppGrammarL']
  have hfuel : ∀ st ∈ g, needF st.expr ≤ fuelFor (ppGrammarL' G g).length := by
    intro st hst
    have := needF_le_stmts G.semi g G.stmt hg adm.stmt st hst
    unfold fuelFor; omega
  have hn : g.length ≤ (ppGrammarL' G g).length + 1 := by
    have := length_le_ppStmtsL' G.semi g G.stmt hg
    omega
  obtain ⟨g', h, hE⟩ := statements_roundtrip' G.semi g G.stmt hg adm.stmt _ hn _ hfuel _ hr0 []
  have hr1 := adv_rest_append _ (ppStmtsL' G.semi G.stmt g) [] (by rw [hr0]; simp)
  refine ⟨g', ?_, hE⟩
  unfold parse
  simp only [hm0, h, List.nil_append]
  rw [mb0_nil _ hr1, hr1]
  rfl

/-- **The layout of a file does not matter, on the larger fragment**: two printed forms of one grammar,
under two admissible layouts, are parsed as grammars that differ in their spans only. -/
theorem grammar_layout_irrelevant_full (g : Grammar) (hg : ∀ st ∈ g, StmtNF' st) (G₁ G₂ : GLayout')
    (adm₁ : G₁.Adm g) (adm₂ : G₂.Adm g) :
    ∃ g₁ g₂, parse (ppGrammarL' G₁ g) = .ok g₁ ∧ parse (ppGrammarL' G₂ g) = .ok g₂ ∧
      g₁.map Stmt.eraseSpans = g₂.map Stmt.eraseSpans := by
  obtain ⟨g₁, h₁, e₁⟩ := grammar_roundtrip_full_layout g hg G₁ adm₁
  obtain ⟨g₂, h₂, e₂⟩ := grammar_roundtrip_full_layout g hg G₂ adm₂
  exact ⟨g₁, g₂, h₁, h₂, e₁.trans e₂.symm⟩

/-! ### the plain printer -/
namespace Full

/-- a statement as the plain printer writes it: one blank after the name and around `::=`, the expression
printed by `pp'`, `;` -/
def ppStmt' : Stmt → List Char
  | .call n _ e => n.toList ++ ' ' :: pp' 0 e ++ [';']
  | .defn n _ none e => '<' :: n.toList ++ '>' :: ' ' :: ':' :: ':' :: '=' :: ' ' :: pp' 0 e ++ [';']
  | .defn n _ (some (sh, _)) e =>
    '<' :: n.toList ++ '@' :: sh.toList ++ '>' :: ' ' :: ':' :: ':' :: '=' :: ' ' :: pp' 0 e ++ [';']

/-- the plain printer of grammars: the statements, separated by line feeds -/
def ppGrammar' : Grammar → List Char
  | [] => []
  | st :: sts => ppStmt' st ++ (if sts.isEmpty then [] else ['\n']) ++ ppGrammar' sts

/-- the layout of `ppStmt'`; `nl`: a line feed after `;` -/
def plainStmt' (nl : Bool) : StmtLayout' :=
  ⟨false, [' '], [' '], plainLayout', [], if nl then ['\n'] else []⟩

/-- the layout of `ppGrammar'` for a grammar of `k` statements -/
def plainG' (k : Nat) : GLayout' := ⟨[], fun i => plainStmt' (decide (i + 1 < k)), true⟩

theorem plainStmt'_adm (nl : Bool) (st : Stmt) : (plainStmt' nl).Adm st where
  name := by show IsLayout [' ']; decide
  nameCall := fun _ => ⟨by simp [plainStmt'], fun r e => by cases e⟩
  sign := by show IsLayout [' ']; decide
  expr := plainLayout'_adm
  semi := IsLayoutW.nil
  next := by cases nl <;> (simp only [plainStmt']; decide)

theorem plainG'_adm (g : Grammar) : (plainG' g.length).Adm g :=
  ⟨rfl, fun _ st _ => plainStmt'_adm _ st⟩

theorem ppStmtL'_plain (nl : Bool) (st : Stmt) :
    ppStmtL' (plainStmt' nl) true st = ppStmt' st ++ (if nl then ['\n'] else []) := by
  cases st with
  | call n sp e => simp [ppStmtL', ppBodyL', ppStmt', plainStmt', endText, ppL'_plain]
  | defn n sp shell e =>
    cases shell with
    | none => simp [ppStmtL', ppBodyL', ppStmt', plainStmt', endText, signText, ppL'_plain]
    | some p =>
      obtain ⟨sh, x⟩ := p; simp [ppStmtL', ppBodyL', ppStmt', plainStmt', endText, signText, ppL'_plain]

theorem ppStmtsL'_plain : ∀ (g : List Stmt) (L : Nat → StmtLayout'),
    (∀ i, L i = plainStmt' (decide (i + 1 < g.length))) → ppStmtsL' true L g = ppGrammar' g
  | [], _, _ => rfl
  | st :: sts, L, h => by
    have ih := ppStmtsL'_plain sts (fun i => L (i + 1)) (fun i => by rw [h (i + 1)]; simp)
    simp only [ppStmtsL', ppGrammar', ih, h 0, Bool.true_or, ppStmtL'_plain]
    cases sts <;> simp

/-- **the plain printer is one of the layouts** -/
theorem ppGrammar'_eq (g : Grammar) : ppGrammar' g = ppGrammarL' (plainG' g.length) g := by
  simp only [ppGrammarL', plainG', List.nil_append]
  exact (ppStmtsL'_plain g _ (fun _ => rfl)).symm

/-- the statements of `Proofs/Statements.lean` are statements of the larger fragment -/
theorem StmtNF_sub (st : Stmt) (h : StmtNF st) : StmtNF' st := by
  cases st with
  | call n sp e =>
    simp only [StmtNF] at h; simp only [StmtNF']
    exact ⟨h.1, h.2.1, h.2.2.1, NF_sub e h.2.2.2⟩
  | defn n sp shell e =>
    cases shell with
    | none =>
      simp only [StmtNF] at h; simp only [StmtNF']
      exact ⟨h.1, h.2.1, NF_sub e h.2.2⟩
    | some p =>
      obtain ⟨sh, x⟩ := p
      simp only [StmtNF] at h; simp only [StmtNF']
      exact ⟨h.1, h.2.1, h.2.2.1, h.2.2.2.1, NF_sub e h.2.2.2.2⟩

end Full

/-- **`Grammar::parse` reads back what the plain printer writes, on the larger fragment**, up to spans -/
theorem grammar_roundtrip_full (g : Grammar) (hg : ∀ st ∈ g, StmtNF' st) :
    ∃ g', parse (ppGrammar' g) = .ok g' ∧ g'.map Stmt.eraseSpans = g.map Stmt.eraseSpans := by
  rw [ppGrammar'_eq]
  exact grammar_roundtrip_full_layout g hg (plainG' g.length) (plainG'_adm g)

/-- any admissible layout of a grammar is read as its plain text is -/
theorem grammar_layout_vs_plain_full (g : Grammar) (hg : ∀ st ∈ g, StmtNF' st) (G : GLayout') (adm : G.Adm g) :
    ∃ g₁ g₂, parse (ppGrammarL' G g) = .ok g₁ ∧ parse (ppGrammar' g) = .ok g₂ ∧
      g₁.map Stmt.eraseSpans = g₂.map Stmt.eraseSpans := by
  rw [ppGrammar'_eq]
  exact grammar_layout_irrelevant_full g hg G (plainG' g.length) adm (plainG'_adm g)

/-! ### an example (the theorems are not vacuous) -/
namespace Full

/-- `cmd a "d" (b | c.) "x" [--o=<V>]...;` and `<V> ::= {{{ ls }}} "files" | x\|y;` -/
def exGrammar' : Grammar :=
  [.call "cmd" default exE,
   .defn "V" default none
     (.alt (.cons (.dd (.cmd "ls" false 0 default) "files" default)
       (.cons (.term "x|y" none 0 default) .nil)) default)]

theorem exGrammar'_nf : ∀ st ∈ exGrammar', StmtNF' st := by
  have e1 : "cmd".toList = ['c', 'm', 'd'] := by rfl
  have e2 : "V".toList = ['V'] := by rfl
  have e3 : "ls".toList = ['l', 's'] := by rfl
  have e4 : "x|y".toList = ['x', '|', 'y'] := by rfl
  intro st hst
  simp only [exGrammar', List.mem_cons, List.not_mem_nil, or_false] at hst
  rcases hst with rfl | rfl
  · simp only [StmtNF', e1]
    exact ⟨by decide, by decide, by decide, exE_nf⟩
  · simp only [StmtNF', NF', NFL', ExprL.length, e2, e3, e4]
    decide

set_option maxRecDepth 100000 in
example : ppGrammar' exGrammar' =
    "cmd a \"d\" (b | c.) \"x\" [--o=<V>]...;\n<V> ::= {{{ ls }}} \"files\" | x\\|y;".toList := by decide

/-- the plain text of the example is parsed as the example, up to spans -/
example : ∃ g', parse
      "cmd a \"d\" (b | c.) \"x\" [--o=<V>]...;\n<V> ::= {{{ ls }}} \"files\" | x\\|y;".toList = .ok g' ∧
    g'.map Stmt.eraseSpans = exGrammar'.map Stmt.eraseSpans := by
  have h := grammar_roundtrip_full exGrammar' exGrammar'_nf
  rwa [show ppGrammar' exGrammar' =
    "cmd a \"d\" (b | c.) \"x\" [--o=<V>]...;\n<V> ::= {{{ ls }}} \"files\" | x\\|y;".toList by decide] at h

/-- a layout of a statement: a tab after the name, `=` for `::=`, comments inside the expression, a blank
before `;`, a comment after it -/
def exStmtLayout' : StmtLayout' := ⟨true, ['\t'], [], exLay, [' '], "\n\n# next\n".toList⟩

theorem exStmtLayout'_adm (st : Stmt) : exStmtLayout'.Adm st where
  name := by show IsLayout ['\t']; decide
  nameCall := fun _ => by
    show (['\t'] : List Char) ≠ [] ∧ ∀ r, (['\t'] : List Char) ≠ '#' :: r
    exact ⟨by simp, fun r e => by cases e⟩
  sign := IsLayout.nil
  expr := exLay_adm
  semi := by
    show IsLayoutW [' ']
    exact ⟨by decide, fun r e => by cases e⟩
  next := by show IsLayout "\n\n# next\n".toList; decide

/-- a layout of the example: a comment at the beginning of the file, `exStmtLayout'` for both statements,
no `;` at the end of the file -/
def exGLayout' : GLayout' := ⟨"# example\n".toList, fun _ => exStmtLayout', false⟩

theorem exGLayout'_adm : exGLayout'.Adm exGrammar' where
  lead := by show IsLayout "# example\n".toList; decide
  stmt := fun _ st _ => exStmtLayout'_adm st

/-- the example with comments everywhere is parsed as its plain text is, up to spans -/
example : ∃ g₁ g₂, parse (ppGrammarL' exGLayout' exGrammar') = .ok g₁ ∧
    parse "cmd a \"d\" (b | c.) \"x\" [--o=<V>]...;\n<V> ::= {{{ ls }}} \"files\" | x\\|y;".toList = .ok g₂ ∧
    g₁.map Stmt.eraseSpans = g₂.map Stmt.eraseSpans := by
  have h := grammar_layout_vs_plain_full exGrammar' exGrammar'_nf exGLayout' exGLayout'_adm
  rwa [show ppGrammar' exGrammar' =
    "cmd a \"d\" (b | c.) \"x\" [--o=<V>]...;\n<V> ::= {{{ ls }}} \"files\" | x\\|y;".toList by decide] at h

end Full

end Complgen.Parse
