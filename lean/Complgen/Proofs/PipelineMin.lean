/-
The minimiser inside the pipeline (`Pipeline.symbolsOf`, `Pipeline.compile`): it never runs out of
fuel (main automaton and within-word automata), the minimised automata accept the language of the
raw automata, and they are accessible and (without empty alternations) reduced.
-/
import Complgen.Model.Pipeline
import Complgen.Proofs.HopcroftMin
import Complgen.Proofs.HopcroftTerm
import Complgen.Proofs.NoCrash
namespace Complgen
open Complgen.Check

namespace Pipeline

/-- the symbol of a position inside a word (the `symOf` local to `symbolsOf.go`): no nested
within-word automata -/
def subSymOf (sr : Regex) : Nat → Option Inp := fun p =>
  match (sr.inputs[p]? : Option RxInput) with
  | some (RxInput.lit t d l _) => some (Inp.lit t d l)
  | some (RxInput.nonterm ..) => some Inp.star
  | some (RxInput.cmd c a l _) => some (if a then Inp.compadd c l else Inp.cmd c l)
  | _ => none

theorem ambToOutcome_ne_crash {α} (e : AmbErr) (s : String) :
    (ambToOutcome e : Outcome α) ≠ .crash s := by
  cases e <;> simp [ambToOutcome]

theorem ambToOutcome_ne_ok {α} (e : AmbErr) (x : α) :
    (ambToOutcome e : Outcome α) ≠ .ok x := by
  cases e <;> simp [ambToOutcome]

/-- one step of `symbolsOf.go` on a within-word input -/
theorem go_sub_cases (σ : Schedule) (pool : RxPool) (rid l : Nat) (sp : Span)
    (rest : List RxInput) (acc : List Inp) (subs : List Auto) (cache : List (Nat × Nat))
    (R : Outcome (List Inp × List Auto))
    (h : symbolsOf.go σ pool (.sub rid l sp :: rest) acc subs cache = R) :
    (∃ k, symbolsOf.go σ pool rest (acc ++ [.sub k l]) subs cache = R) ∨
    R = .crash "RegexInternPool::lookup" ∨
    R = .crash "dfa_from_regex: out of fuel" ∨
    (∃ e, R = ambToOutcome e) ∨
    (∃ sr raw m k subs' cache', pool[rid]? = some sr ∧
      buildAuto σ sr (subSymOf sr) = some raw ∧ Min.minimize σ raw = some m ∧
      (subs' = subs ∨ subs' = subs ++ [m]) ∧
      symbolsOf.go σ pool rest (acc ++ [.sub k l]) subs' cache' = R) := by
  rw [symbolsOf.go.eq_5] at h
  split at h
  · rename_i k _
    exact .inl ⟨k, h⟩
  · split at h
    · exact .inr (.inl h.symm)
    · rename_i sr hsr
      dsimp only at h
      split at h
      · exact .inr (.inr (.inl h.symm))
      · rename_i raw hraw
        split at h
        · rename_i e _
          exact .inr (.inr (.inr (.inl ⟨e, h.symm⟩)))
        · split at h
          · rename_i hmin
            have := Min.minimize_isSome σ raw (buildAuto_WF σ sr _ raw hraw)
            rw [hmin] at this
            cases this
          · rename_i m hmin
            split at h
            · rename_i e _
              exact .inr (.inr (.inr (.inl ⟨e, h.symm⟩)))
            · refine .inr (.inr (.inr (.inr ?_)))
              split at h
              · exact ⟨sr, raw, m, _, _, _, hsr, hraw, hmin, .inl rfl, h⟩
              · exact ⟨sr, raw, m, _, _, _, hsr, hraw, hmin, .inr rfl, h⟩

/-- a within-word automaton of the pool `subs`: the minimised automaton of the automaton built
from a within-word regex of the regex pool -/
def SubOK (σ : Schedule) (pool : RxPool) (m : Auto) : Prop :=
  ∃ sr ∈ pool, ∃ raw, buildAuto σ sr (subSymOf sr) = some raw ∧ Min.minimize σ raw = some m

/-- the invariant of `symbolsOf.go` -/
theorem go_inv (σ : Schedule) (pool : RxPool) :
    ∀ (ins : List RxInput) (acc : List Inp) (subs : List Auto) (cache : List (Nat × Nat))
      (R : Outcome (List Inp × List Auto)), symbolsOf.go σ pool ins acc subs cache = R →
      R ≠ .crash "do_minimize: out of fuel" ∧
      ∀ syms subs', R = .ok (syms, subs') →
        syms.length = acc.length + ins.length ∧
        ((∀ m ∈ subs, SubOK σ pool m) → ∀ m ∈ subs', SubOK σ pool m) := by
  intro ins
  induction ins with
  | nil =>
    intro acc subs cache R h
    rw [symbolsOf.go.eq_1] at h
    subst h
    refine ⟨by simp, ?_⟩
    intro syms subs' h
    cases h
    exact ⟨by simp, fun h => h⟩
  | cons x rest ih =>
    intro acc subs cache R h
    have len : ∀ (i : Inp), (acc ++ [i]).length + rest.length = acc.length + (x :: rest).length := by
      intro i; simp; omega
    cases x with
    | lit t d l sp =>
      rw [symbolsOf.go.eq_2] at h
      obtain ⟨h1, h2⟩ := ih _ _ _ _ h
      refine ⟨h1, fun syms subs' hR => ?_⟩
      obtain ⟨h3, h4⟩ := h2 syms subs' hR
      exact ⟨by rw [h3, len], h4⟩
    | nonterm n l sp =>
      rw [symbolsOf.go.eq_3] at h
      obtain ⟨h1, h2⟩ := ih _ _ _ _ h
      refine ⟨h1, fun syms subs' hR => ?_⟩
      obtain ⟨h3, h4⟩ := h2 syms subs' hR
      exact ⟨by rw [h3, len], h4⟩
    | cmd c a l sp =>
      rw [symbolsOf.go.eq_4] at h
      obtain ⟨h1, h2⟩ := ih _ _ _ _ h
      refine ⟨h1, fun syms subs' hR => ?_⟩
      obtain ⟨h3, h4⟩ := h2 syms subs' hR
      exact ⟨by rw [h3, len], h4⟩
    | sub rid l sp =>
      rcases go_sub_cases σ pool rid l sp rest acc subs cache R h with
        ⟨k, h⟩ | h | h | ⟨e, h⟩ | ⟨sr, raw, m, k, subs1, cache1, hsr, hraw, hmin, hsubs, h⟩
      · obtain ⟨h1, h2⟩ := ih _ _ _ _ h
        refine ⟨h1, fun syms subs' hR => ?_⟩
        obtain ⟨h3, h4⟩ := h2 syms subs' hR
        exact ⟨by rw [h3, len], h4⟩
      · subst h
        exact ⟨by simp, fun _ _ h => by cases h⟩
      · subst h
        exact ⟨by simp, fun _ _ h => by cases h⟩
      · subst h
        exact ⟨ambToOutcome_ne_crash e _, fun _ _ h => absurd h (ambToOutcome_ne_ok e _)⟩
      · obtain ⟨h1, h2⟩ := ih _ _ _ _ h
        refine ⟨h1, fun syms subs' hR => ?_⟩
        obtain ⟨h3, h4⟩ := h2 syms subs' hR
        refine ⟨by rw [h3, len], fun hall => h4 ?_⟩
        have hm : SubOK σ pool m := ⟨sr, List.mem_of_getElem? hsr, raw, hraw, hmin⟩
        rcases hsubs with rfl | rfl
        · exact hall
        · intro m' hm'
          rcases List.mem_append.1 hm' with hm' | hm'
          · exact hall m' hm'
          · rw [List.mem_singleton.1 hm']; exact hm

/-- **`symbolsOf` yields one symbol per position.** -/
theorem symbolsOf_length (σ : Schedule) (pool : RxPool) (ins : List RxInput) (syms : List Inp)
    (subs : List Auto) (h : symbolsOf σ pool ins = .ok (syms, subs)) :
    syms.length = ins.length := by
  have := ((go_inv σ pool ins [] [] [] _ h).2 syms subs rfl).1
  simpa using this

theorem symbolsOf_symOf (σ : Schedule) (pool : RxPool) (ins : List RxInput) (syms : List Inp)
    (subs : List Auto) (h : symbolsOf σ pool ins = .ok (syms, subs)) :
    (∀ p, p < ins.length → (syms[p]?).isSome) ∧ syms[ins.length]? = none := by
  have hl := symbolsOf_length σ pool ins syms subs h
  refine ⟨fun p hp => ?_, ?_⟩
  · rw [List.getElem?_eq_getElem (by omega)]; rfl
  · rw [List.getElem?_eq_none_iff]; omega

/-- the within-word call of the minimiser never runs out of fuel -/
theorem symbolsOf_never_minimize_fuel (σ : Schedule) (pool : RxPool) (ins : List RxInput) :
    symbolsOf σ pool ins ≠ .crash "do_minimize: out of fuel" :=
  (go_inv σ pool ins [] [] [] _ rfl).1

/-- every interned within-word automaton is the minimised automaton of the automaton built from a
within-word regex of the pool -/
theorem symbolsOf_subs_SubOK (σ : Schedule) (pool : RxPool) (ins : List RxInput) (syms : List Inp)
    (subs : List Auto) (h : symbolsOf σ pool ins = .ok (syms, subs)) :
    ∀ m ∈ subs, SubOK σ pool m :=
  ((go_inv σ pool ins [] [] [] _ h).2 syms subs rfl).2 (fun _ hm => by cases hm)

/-! ### the pipeline -/

/-- **The minimiser never runs out of fuel in `compile`**, neither for the main automaton nor for
a within-word automaton (both sites crash with the same string). -/
theorem compile_never_minimize_fuel (σ : Schedule) (g : Grammar) (sh : Shell) :
    compile σ g sh ≠ .crash "do_minimize: out of fuel" := by
  intro h
  unfold compile at h
  split at h
  · cases h
  · rename_i s hv
    have := validate_crash_only_stack g sh s hv
    subst this
    simp at h
  · rename_i v hv
    split at h
    rename_i regex pool hre
    split at h
    · cases h
    · split at h
      · cases h
      · rename_i s hs
        cases h
        exact symbolsOf_never_minimize_fuel σ pool regex.inputs hs
      · rename_i syms subs hs
        split at h
        · simp at h
        · rename_i raw hraw
          split at h
          · rename_i hmin
            have := Min.minimize_isSome σ raw (buildAuto_WF σ regex _ raw hraw)
            rw [hmin] at this
            cases this
          · split at h
            · exact ambToOutcome_ne_crash _ _ h
            · cases h

/-- decomposition of a successful compilation -/
theorem compile_ok_inv (σ : Schedule) (g : Grammar) (sh : Shell) (c : Compiled)
    (h : compile σ g sh = .ok c) :
    validate g sh = .ok c.valid ∧
    (c.regex, c.pool) = Regex.ofExpr c.valid.expr [] ∧
    c.min.subs = c.raw.subs ∧
    ∃ syms, symbolsOf σ c.pool c.regex.inputs = .ok (syms, c.raw.subs) ∧
      buildAuto σ c.regex (fun p => syms[p]?) = some c.raw.main ∧
      Min.minimize σ c.raw.main = some c.min.main := by
  unfold compile at h
  split at h
  · cases h
  · cases h
  · rename_i v hv
    split at h
    rename_i regex pool hre
    split at h
    · cases h
    · split at h
      · cases h
      · cases h
      · rename_i syms subs hs
        split at h
        · cases h
        · rename_i raw hraw
          split at h
          · cases h
          · rename_i m hmin
            split at h
            · exact absurd h (ambToOutcome_ne_ok _ _)
            · cases h
              exact ⟨hv, hre.symm, rfl, syms, hs, hraw, hmin⟩

/-- **The minimised main automaton accepts the language of the raw main automaton.** -/
theorem compile_min_language (σ : Schedule) (g : Grammar) (sh : Shell) (c : Compiled)
    (h : compile σ g sh = .ok c) :
    ∀ w : List Nat, c.min.main.accepts w = c.raw.main.accepts w := by
  obtain ⟨_, _, _, syms, _, hraw, hmin⟩ := compile_ok_inv σ g sh c h
  exact minimize_buildAuto_lang σ σ c.regex _ c.raw.main c.min.main hraw hmin

/-- **The minimised main automaton is reduced and accessible** when the validated expression has
no alternation without alternatives. -/
theorem compile_min_minimal (σ : Schedule) (g : Grammar) (sh : Shell) (c : Compiled)
    (h : compile σ g sh = .ok c) (hne : c.valid.expr.NoEmptyAlt) :
    (∀ p ∈ c.min.main.states, ∀ q ∈ c.min.main.states, p ≠ q →
      ∃ w : List Nat, Min.accFrom c.min.main p w ≠ Min.accFrom c.min.main q w) ∧
    (∀ q ∈ c.min.main.states, ∃ w : List Nat, c.min.main.run c.min.main.start w = some q) := by
  obtain ⟨_, hre, _, syms, hs, hraw, hmin⟩ := compile_ok_inv σ g sh c h
  have hreg : c.regex = (Regex.ofExpr c.valid.expr []).1 := by rw [← hre]
  have hlen : c.regex.inputs.length = c.valid.expr.leafCount := by
    rw [hreg]; exact (Regex.ofExpr_linear _ _).2.2
  obtain ⟨hsym, hend⟩ := symbolsOf_symOf σ c.pool c.regex.inputs syms c.raw.subs hs
  rw [hlen] at hsym hend
  rw [hreg] at hraw
  exact minimize_raw_reduced_accessible σ σ c.valid.expr [] _ c.raw.main c.min.main hne hsym hend
    hraw hmin

/-! ### the within-word automata -/

theorem subSymOf_end (sr : Regex) : subSymOf sr sr.endPos = none := by
  simp [subSymOf, Regex.endPos]

/-- a within-word regex without nested within-word inputs: every position carries a symbol -/
theorem subSymOf_isSome (sr : Regex)
    (hflat : ∀ i ∈ sr.inputs, ∀ rid l sp, i ≠ RxInput.sub rid l sp) :
    ∀ p, p < sr.inputs.length → (subSymOf sr p).isSome := by
  intro p hp
  have hmem := List.getElem_mem hp
  simp only [subSymOf, List.getElem?_eq_getElem hp]
  cases hi : sr.inputs[p] with
  | lit => rfl
  | nonterm => rfl
  | cmd => rfl
  | sub rid l sp => exact absurd hi (hflat _ hmem rid l sp)

/-- **Every within-word automaton returned by `symbolsOf` is the minimised automaton of the
automaton built from a within-word regex of the pool**; it accepts the language of that raw
automaton, is accessible, and is reduced when the within-word regex is linear, numbered below its
end marker, has no empty alternation and no nested within-word input. -/
theorem symbolsOf_subs_minimised (σ : Schedule) (pool : RxPool) (ins : List RxInput)
    (syms : List Inp) (subs : List Auto) (h : symbolsOf σ pool ins = .ok (syms, subs)) :
    ∀ m ∈ subs, ∃ sr ∈ pool, ∃ raw,
      buildAuto σ sr (subSymOf sr) = some raw ∧ Min.minimize σ raw = some m ∧
      (∀ w : List Nat, m.accepts w = raw.accepts w) ∧
      (∀ q ∈ m.states, ∃ w : List Nat, m.run m.start w = some q) ∧
      (sr.root.Linear → (∀ q ∈ sr.root.positions, q < sr.endPos) → sr.root.NoEmptyOr →
        (∀ i ∈ sr.inputs, ∀ rid l sp, i ≠ RxInput.sub rid l sp) →
        ∀ p ∈ m.states, ∀ q ∈ m.states, p ≠ q →
          ∃ w : List Nat, Min.accFrom m p w ≠ Min.accFrom m q w) := by
  intro m hm
  obtain ⟨sr, hsr, raw, hraw, hmin⟩ := symbolsOf_subs_SubOK σ pool ins syms subs h m hm
  refine ⟨sr, hsr, raw, hraw, hmin, minimize_buildAuto_lang σ σ sr _ raw m hraw hmin,
    minimize_buildAuto_accessible σ σ sr _ raw m hraw hmin, ?_⟩
  intro hl hpos hne hflat
  exact minimize_buildAuto_reduced σ σ sr _ raw m hl hpos hne (subSymOf_isSome sr hflat)
    (subSymOf_end sr) hraw hmin

/-! ### the pool of within-word regexes of `Regex.ofExpr` -/

/-- every regex of the pool is linear and numbered below its end marker -/
def PoolWF (pool : RxPool) : Prop :=
  ∀ sr ∈ pool, sr.root.Linear ∧ ∀ q ∈ sr.root.positions, q < sr.endPos

theorem PoolWF.intern {pool : RxPool} (h : PoolWF pool) (r : Regex)
    (hr : r.root.Linear ∧ ∀ q ∈ r.root.positions, q < r.endPos) : PoolWF (pool.intern r).1 := by
  unfold RxPool.intern
  split
  · exact h
  · intro sr hsr
    rcases List.mem_append.1 hsr with hsr | hsr
    · exact h sr hsr
    · rw [List.mem_singleton.1 hsr]; exact hr

theorem rxOfExpr_sub_pool (c : Expr) (l : Nat) (s : Span) (ins : List RxInput) (pool : RxPool) :
    (rxOfExpr (.sub c l s) (ins, pool)).2.2 =
      ((rxOfExpr c ([], pool)).2.2.intern
        ⟨(rxOfExpr c ([], pool)).1, (rxOfExpr c ([], pool)).2.1⟩).1 := by
  simp only [rxOfExpr]

mutual
theorem rxOfExpr_poolWF : (e : Expr) → (ins : List RxInput) → (pool : RxPool) → PoolWF pool →
    PoolWF (rxOfExpr e (ins, pool)).2.2
  | .term .., ins, pool, h => by simpa only [rxOfExpr] using h
  | .nonterm .., ins, pool, h => by simpa only [rxOfExpr] using h
  | .cmd .., ins, pool, h => by simpa only [rxOfExpr] using h
  | .sub c l s, ins, pool, h => by
    rw [rxOfExpr_sub_pool]
    refine PoolWF.intern (rxOfExpr_poolWF c [] pool h) _ ?_
    obtain ⟨h1, h2⟩ := rxOfExpr_positions c [] pool
    simp only [Regex.endPos, Rx.Linear, h1, h2]
    refine ⟨List.nodup_range', fun q hq => ?_⟩
    rw [List.mem_range'_1] at hq
    simpa using hq.2
  | .seq cs s, ins, pool, h => by rw [rxOfExpr_seq]; exact rxOfExprL_poolWF cs ins pool h
  | .alt cs s, ins, pool, h => by rw [rxOfExpr_alt]; exact rxOfExprL_poolWF cs ins pool h
  | .fb cs s, ins, pool, h => by rw [rxOfExpr_fb]; exact rxOfExprL_poolWF cs ins pool h
  | .opt c s, ins, pool, h => by rw [rxOfExpr_opt]; exact rxOfExpr_poolWF c ins pool h
  | .many1 c s, ins, pool, h => by rw [rxOfExpr_many1]; exact rxOfExpr_poolWF c ins pool h
  | .dd c d s, ins, pool, h => by rw [rxOfExpr_dd]; exact h
theorem rxOfExprL_poolWF : (es : ExprL) → (ins : List RxInput) → (pool : RxPool) → PoolWF pool →
    PoolWF (rxOfExprL es (ins, pool)).2.2
  | .nil, ins, pool, h => by rw [rxOfExprL_nil]; exact h
  | .cons e es, ins, pool, h => by
    rw [rxOfExprL_cons]
    exact rxOfExprL_poolWF es (rxOfExpr e (ins, pool)).2.1 (rxOfExpr e (ins, pool)).2.2
      (rxOfExpr_poolWF e ins pool h)
end

theorem Regex.ofExpr_poolWF (e : Expr) : PoolWF (Regex.ofExpr e []).2 := by
  have := rxOfExpr_poolWF e [] [] (fun _ h => by cases h)
  simpa only [Regex.ofExpr] using this

/-- **The within-word automata of a compiled grammar**: each is the minimised automaton of the
automaton built from a within-word regex of the pool, accepts the language of that raw automaton,
is accessible, and is reduced when that regex has no empty alternation and no nested within-word
input (linearity and the numbering come from `Regex.ofExpr`). -/
theorem compile_subs_minimised (σ : Schedule) (g : Grammar) (sh : Shell) (c : Compiled)
    (h : compile σ g sh = .ok c) :
    c.raw.subs = c.min.subs ∧
    ∀ m ∈ c.min.subs, ∃ sr ∈ c.pool, ∃ raw,
      buildAuto σ sr (subSymOf sr) = some raw ∧ Min.minimize σ raw = some m ∧
      (∀ w : List Nat, m.accepts w = raw.accepts w) ∧
      (∀ q ∈ m.states, ∃ w : List Nat, m.run m.start w = some q) ∧
      (sr.root.NoEmptyOr → (∀ i ∈ sr.inputs, ∀ rid l sp, i ≠ RxInput.sub rid l sp) →
        ∀ p ∈ m.states, ∀ q ∈ m.states, p ≠ q →
          ∃ w : List Nat, Min.accFrom m p w ≠ Min.accFrom m q w) := by
  obtain ⟨_, hre, hsubs, syms, hs, _, _⟩ := compile_ok_inv σ g sh c h
  refine ⟨hsubs.symm, fun m hm => ?_⟩
  rw [hsubs] at hm
  obtain ⟨sr, hsr, raw, hraw, hmin, hlang, hacc, hred⟩ :=
    symbolsOf_subs_minimised σ c.pool c.regex.inputs syms c.raw.subs hs m hm
  have hpool : c.pool = (Regex.ofExpr c.valid.expr []).2 := by rw [← hre]
  have hwf := Regex.ofExpr_poolWF c.valid.expr sr (hpool ▸ hsr)
  exact ⟨sr, hsr, raw, hraw, hmin, hlang, hacc, fun hne hflat => hred hwf.1 hwf.2 hne hflat⟩

end Pipeline
end Complgen
