/-
C12: the one-pass within-word matcher of the bash template (`BashRt.litPass`, `BashRt.subLoop`) on
literal sets with arbitrary prefix chains.  The fact it relies on: the literal table lists literals
by decreasing length (dfa.rs `get_all_literals`), so a literal that could swallow the beginning of
the typed text is met only after every longer one that could match it exactly.
-/
import Complgen.Model.BashRt
namespace Complgen.BashRt

theorem toList_ne {a b : String} (h : a ≠ b) : a.toList ≠ b.toList := by
  intro e; exact h (String.toList_inj.mp e)

theorem prefix_of_length_ge {a b : List Char} (hp : a.isPrefixOf b = true) (hl : a.length ≥ b.length) : a = b := by
  have hp' : a <+: b := List.isPrefixOf_iff_prefix.mp hp
  exact hp'.eq_of_length_le hl

/-- **Reading a complete value.**  In `matches` mode the pass over the literals (in table order)
consumes exactly the value `v` when every literal listed before it is at least as long and different
from it — whatever shorter literals (prefixes of `v`) come later. -/
theorem litPass_matches_exact (lits0 : List String) (row : List (Nat × Nat)) (v : String) (q' : Nat) :
    ∀ (rest : List String) (id j : Nat), rest[j]? = some v →
      (∀ i, i < j → ∀ l, rest[i]? = some l → l.length ≥ v.length ∧ l ≠ v) →
      toOf row (id + j) = some q' →
      litPass .matchesMode lits0 row v.toList id rest = .consumed q' v.length
  | [], _, j, h, _, _ => by simp at h
  | l :: rest, id, 0, h, _, ht => by
    simp only [List.getElem?_cons_zero, Option.some.injEq] at h
    subst h
    simp only [Nat.add_zero] at ht
    unfold litPass
    simp [ht, String.length_toList]
  | l :: rest, id, j + 1, h, hb, ht => by
    have h0 := hb 0 (Nat.succ_pos j) l (by simp)
    have hne : (v.toList == l.toList) = false := by
      have := toList_ne (Ne.symm h0.2)
      simpa using this
    have hnp : (isPrefix l.toList v.toList && (toOf row id).isSome) = false := by
      cases hp : isPrefix l.toList v.toList with
      | false => simp
      | true =>
        have := prefix_of_length_ge hp (by simpa [String.length_toList] using h0.1)
        exact absurd (String.toList_inj.mp this) h0.2
    unfold litPass
    simp only [hne, Bool.false_and, Bool.false_eq_true, if_false, hnp]
    have hmode : ((Mode.matchesMode != Mode.matchesMode) && (toOf row id).isSome && isPrefix v.toList l.toList) = false := by
      simp
    simp only [hmode, Bool.false_eq_true, if_false]
    apply litPass_matches_exact lits0 row v q' rest (id + 1) j
    · simpa using h
    · intro i hi l' hl'
      exact hb (i + 1) (Nat.succ_lt_succ hi) l' (by simpa using hl')
    · have : id + 1 + j = id + (j + 1) := by omega
      rw [this]; exact ht

/-- **Stopping for completion.**  In `complete` mode, when the typed text `p` is a proper prefix of a
literal expected here and the literals are listed by decreasing length, the pass stops (so that the
candidates of this point are offered) at the first such literal: no literal before it can consume
part of `p`. -/
theorem litPass_complete_stop (lits0 : List String) (row : List (Nat × Nat)) (p : List Char) :
    ∀ (rest : List String) (id j : Nat) (lj : String), rest[j]? = some lj →
      (toOf row (id + j)).isSome = true → isPrefix p lj.toList = true → p ≠ lj.toList →
      (∀ i, i < j → ∀ l, rest[i]? = some l → l.length ≥ lj.length ∧
          ¬ ((toOf row (id + i)).isSome = true ∧ isPrefix p l.toList = true)) →
      litPass .complete lits0 row p id rest = .stop
  | [], _, j, _, h, _, _, _, _ => by simp at h
  | l :: rest, id, 0, lj, h, ht, hp, hne, _ => by
    simp only [List.getElem?_cons_zero, Option.some.injEq] at h
    subst h
    simp only [Nat.add_zero] at ht
    unfold litPass
    have h1 : (p == l.toList) = false := by simpa using hne
    simp [h1, ht, hp]
  | l :: rest, id, j + 1, lj, h, ht, hp, hne, hb => by
    have h0 := hb 0 (Nat.succ_pos j) l (by simp)
    simp only [Nat.add_zero] at h0
    unfold litPass
    -- test 1: `p` equal to `l` with a transition would make `p` a prefix of `l`
    have t1 : (p == l.toList && (toOf row id).isSome) = false := by
      cases he : (p == l.toList) with
      | false => simp
      | true =>
        have hpe : p = l.toList := by simpa using he
        cases hs : (toOf row id).isSome with
        | false => simp
        | true => exact absurd ⟨hs, by simp [hpe, isPrefix]⟩ h0.2
    -- test 2 (stop) does not fire before `lj`
    have t2 : ((Mode.complete != Mode.matchesMode) && (toOf row id).isSome && isPrefix p l.toList) = false := by
      cases hs : (toOf row id).isSome with
      | false => simp
      | true =>
        cases hpp : isPrefix p l.toList with
        | false => simp
        | true => exact absurd ⟨hs, hpp⟩ h0.2
    -- test 3: a literal at least as long as `lj` cannot be a prefix of the shorter `p`
    have t3 : (isPrefix l.toList p && (toOf row id).isSome) = false := by
      cases hpp : isPrefix l.toList p with
      | false => simp
      | true =>
        have h1 : l.toList <+: p := List.isPrefixOf_iff_prefix.mp hpp
        have h2 : p <+: lj.toList := List.isPrefixOf_iff_prefix.mp hp
        have hlen : p.length < lj.toList.length := by
          rcases Nat.lt_or_ge p.length lj.toList.length with hlt | hge
          · exact hlt
          · exact absurd (h2.eq_of_length_le hge) hne
        have := h1.length_le
        have hl := h0.1
        simp only [← String.length_toList] at hl
        omega
    simp only [t1, Bool.false_eq_true, if_false, t2, t3]
    apply litPass_complete_stop lits0 row p rest (id + 1) j lj
    · simpa using h
    · have : id + 1 + j = id + (j + 1) := by omega
      rw [this]; exact ht
    · exact hp
    · exact hne
    · intro i hi l' hl'
      have := hb (i + 1) (Nat.succ_lt_succ hi) l' (by simpa using hl')
      have e : id + 1 + i = id + (i + 1) := by omega
      rw [e]; exact this

end Complgen.BashRt

namespace Complgen.BashRt

theorem toOf_single (ih q id : Nat) : toOf [(ih, q)] id = if ih = id then some q else none := by
  unfold toOf
  by_cases h : ih = id
  · subst h; simp
  · have : (ih == id) = false := by simpa using h
    simp [List.find?, this, h]

/-- at a point of the word where a single literal `lh` is expected (the head), the pass consumes it
when the typed text goes on after it -/
theorem litPass_single (lits0 : List String) (ih q : Nat) (sub : List Char) (lh : String) :
    ∀ (rest : List String) (id j : Nat), rest[j]? = some lh → id + j = ih →
      isPrefix lh.toList sub = true → sub ≠ lh.toList → isPrefix sub lh.toList = false →
      ∀ mode, litPass mode lits0 [(ih, q)] sub id rest = .consumed q lh.length
  | [], _, j, h, _, _, _, _, _ => by simp at h
  | l :: rest, id, 0, h, hid, hp, hne, hnp, mode => by
    simp only [List.getElem?_cons_zero, Option.some.injEq] at h
    subst h
    simp only [Nat.add_zero] at hid
    subst hid
    unfold litPass
    have h1 : (sub == l.toList) = false := by simpa using hne
    simp [toOf_single, h1, hnp, hp, String.length_toList]
  | l :: rest, id, j + 1, h, hid, hp, hne, hnp, mode => by
    have hidne : ih ≠ id := by omega
    unfold litPass
    simp only [toOf_single, hidne, if_false, Option.isSome_none, Bool.and_false, Bool.false_eq_true, Bool.false_and]
    apply litPass_single lits0 ih q sub lh rest (id + 1) j (by simpa using h) (by omega) hp hne hnp

/-- **A fully typed value is recognised as that value** (`h(v₁|…|vₖ)`, any prefix chains among the
values): the within-word matcher of the template, in `matches` mode, reads `h ++ v` — the head at
the first point, the value `v` at the second — whenever the literal table lists every literal before
`v` at least as long as `v` (the decreasing-length order of dfa.rs). -/
theorem overlap_match (T : Tables) (out : Nat → List String) (h v : String) (ih iv q2 : Nat)
    (row1 : List (Nat × Nat)) (hh : h.toList ≠ []) (hv : v.toList ≠ [])
    (hrow0 : rowOf T.litTrans 0 = some [(ih, 1)]) (hrow1 : rowOf T.litTrans 1 = some row1)
    (hlh : T.literals[ih]? = some h) (hlv : T.literals[iv]? = some v) (htv : toOf row1 iv = some q2)
    (hhv : isPrefix (h ++ v).toList h.toList = false)
    (hsorted : ∀ i, i < iv → ∀ l, T.literals[i]? = some l → l.length ≥ v.length ∧ l ≠ v) :
    subLoop T out .matchesMode (h ++ v).toList ((h ++ v).toList.length + 1) 0 0 =
      (q2, (h ++ v).toList.length, true) := by
  have hlen : (h ++ v).toList.length = h.toList.length + v.toList.length := by simp [String.toList_append]
  have hhl : h.toList.length ≥ 1 := by cases hl : h.toList with | nil => exact absurd hl hh | cons _ _ => simp
  have hvl : v.toList.length ≥ 1 := by cases hl : v.toList with | nil => exact absurd hl hv | cons _ _ => simp
  -- first round: the head
  have hfuel : (h ++ v).toList.length + 1 = (h.toList.length + v.toList.length - 2) + 1 + 1 + 1 := by omega
  rw [hfuel]
  unfold subLoop
  have hi0 : ¬ (0 ≥ (h ++ v).toList.length) := by omega
  simp only [hi0, if_false, List.drop_zero, hrow0]
  have hpre : isPrefix h.toList (h ++ v).toList = true := by simp [isPrefix, String.toList_append]
  have hne : (h ++ v).toList ≠ h.toList := by
    intro e
    have := congrArg List.length e
    simp only [String.toList_append, List.length_append] at this
    omega
  rw [litPass_single T.literals ih 1 (h ++ v).toList h T.literals 0 ih hlh (by omega) hpre hne hhv]
  have hn0 : ¬ (h.length = 0) := by rw [← String.length_toList]; omega
  simp only [hn0, if_false, Nat.zero_add]
  -- second round: the value
  unfold subLoop
  have hi1 : ¬ (h.length ≥ (h ++ v).toList.length) := by rw [hlen, ← String.length_toList]; omega
  simp only [hi1, if_false, hrow1]
  have hdrop : (h ++ v).toList.drop h.length = v.toList := by
    rw [String.toList_append, ← String.length_toList, List.drop_left]
  rw [hdrop]
  rw [litPass_matches_exact T.literals row1 v q2 T.literals 0 iv hlv hsorted (by simpa using htv)]
  have hv0 : ¬ (v.length = 0) := by rw [← String.length_toList]; omega
  simp only [hv0, if_false]
  -- third round: the word is used up
  unfold subLoop
  have hi2 : h.length + v.length ≥ (h ++ v).toList.length := by
    rw [hlen, ← String.length_toList, ← String.length_toList]; exact Nat.le_refl _
  simp only [hi2, if_true]
  rw [hlen, ← String.length_toList, ← String.length_toList]

end Complgen.BashRt
