/-
C06: the only crash site of the model of check.rs's validation is the native stack of
`check_subword_spaces` (modelled by `stackFuel`); every other path ends in a value or a diagnosed
error.
-/
import Complgen.Proofs.Cycle
namespace Complgen.Check
open Complgen

theorem commandOf_no_crash (g : Grammar) (s : String) : commandOf g ≠ .crash s := by
  unfold commandOf
  intro h
  split at h
  · cases h
  · simp only at h
    split at h
    · cases h
    · split at h
      · cases h
      · split at h <;> cases h

theorem collectPlain_no_crash : ∀ (l : List (String × Span × Expr)) (acc : AList (Span × Expr)) (s : String),
    collectPlain l acc ≠ .crash s
  | [], acc, s => by unfold collectPlain; intro h; cases h
  | (n, sp, e) :: rest, acc, s => by
    unfold collectPlain
    intro h
    split at h
    · cases h
    · exact collectPlain_no_crash rest _ s h

theorem loop1_no_crash (target : Shell) : ∀ (l : List (String × Span × String × Span × Expr)) (acc : AList UserSpec)
    (s : String), getSpecializations.loop1 target l acc ≠ .crash s
  | [], acc, s => by unfold getSpecializations.loop1; intro h; cases h
  | (n, sp, shn, ss, rhs) :: rest, acc, s => by
    unfold getSpecializations.loop1
    intro h
    split at h
    · split at h
      · cases h
      · split at h
        · exact loop1_no_crash target rest acc s h
        · split at h
          · cases h
          · exact loop1_no_crash target rest _ s h
    · cases h

theorem loop2_no_crash (specs : AList UserSpec) : ∀ (l : List (String × Span × Expr)) (acc : AList (String × Span))
    (s : String), getSpecializations.loop2 specs l acc ≠ .crash s
  | [], acc, s => by unfold getSpecializations.loop2; intro h; cases h
  | (n, sp, rhs) :: rest, acc, s => by
    unfold getSpecializations.loop2
    intro h
    split at h
    · exact loop2_no_crash specs rest acc s h
    · split at h
      · split at h
        · cases h
        · exact loop2_no_crash specs rest _ s h
      · cases h

theorem getSpecializations_no_crash (g : Grammar) (sh : Shell) (s : String) : getSpecializations g sh ≠ .crash s := by
  unfold getSpecializations
  intro h
  cases h1 : getSpecializations.loop1 sh (specDefs g) [] with
  | err c s' => rw [h1] at h; cases h
  | crash s' => exact loop1_no_crash sh _ _ s' h1
  | ok sp =>
    rw [h1] at h
    simp only at h
    cases h2 : getSpecializations.loop2 sp (plainDefs g) [] with
    | err c s' => rw [h2] at h; cases h
    | crash s' => exact loop2_no_crash sp _ _ s' h2
    | ok fbs => rw [h2] at h; cases h

/-- **The model of validation crashes only where the native stack is modelled**: a `.crash` outcome is
the exhaustion of `stackFuel` in `check_subword_spaces`, nothing else. -/
theorem validate_crash_only_stack (g : Grammar) (sh : Shell) (s : String) (h : validate g sh = .crash s) :
    s = "check_subword_spaces: unbounded recursion through cyclic definitions" := by
  unfold validate at h
  cases hcmd : commandOf g with
  | err c s' => rw [hcmd] at h; cases h
  | crash s' => exact absurd hcmd (commandOf_no_crash g s')
  | ok command =>
    rw [hcmd] at h
    simp only at h
    cases hcp : collectPlain (plainDefs g) [] with
    | err c s' => rw [hcp] at h; cases h
    | crash s' => exact absurd hcp (collectPlain_no_crash _ _ s')
    | ok defs0 =>
      rw [hcp] at h
      simp only at h
      cases hgs : getSpecializations g sh with
      | err c s' => rw [hgs] at h; cases h
      | crash s' => exact absurd hgs (getSpecializations_no_crash g sh s')
      | ok r =>
        rw [hgs] at h
        simp only at h
        unfold finishValidate at h
        simp only at h
        split at h
        · cases h
        · split at h
          · simp only [Outcome.crash.injEq] at h; exact h.symm
          · cases h
          · cases h

end Complgen.Check
