/-
The fuel of `partition` always suffices: Hopcroft's refinement loop terminates and returns a
partition for EVERY work-list schedule, hence `minimize` always returns an automaton.

Counting argument.  Let `N = (allStates a).length`.  The blocks of the partition are non-empty,
pairwise disjoint, pairwise distinct subsets of `allStates a`, so `parts.length ≤ N`.  A split adds
one block to the partition and at most one entry to the work-list; an iteration of the loop first
removes one entry from the work-list.  So `work.length + (N - parts.length)` decreases with every
iteration, and it is at most `N` at the start.
-/
import Complgen.Proofs.Hopcroft
namespace Complgen.Min
open Complgen

/-! ### 1. The counting invariant of the partition -/

/-- the blocks are non-empty, pairwise disjoint, pairwise distinct sets of states -/
structure TInv (a : Auto) (P : List Block) : Prop where
  disj : ∀ B ∈ P, ∀ C ∈ P, ∀ x, x ∈ B → x ∈ C → B = C
  ne : ∀ B ∈ P, B ≠ []
  sub : ∀ B ∈ P, ∀ x ∈ B, x ∈ allStates a
  nodup : P.Nodup

/-- pigeonhole: the heads of the blocks are distinct states -/
theorem TInv.heads_nodup {a : Auto} : ∀ {P : List Block}, TInv a P → (P.map (·.headD 0)).Nodup
  | [], _ => by simp
  | B :: P, h => by
    rw [List.map_cons, List.nodup_cons]
    have hn := List.nodup_cons.1 h.nodup
    constructor
    · intro hm
      obtain ⟨C, hC, hCB⟩ := List.mem_map.1 hm
      have hBne := h.ne B (List.mem_cons_self ..)
      have hCne := h.ne C (List.mem_cons_of_mem _ hC)
      have hB : B.headD 0 ∈ B := by
        cases B with
        | nil => exact absurd rfl hBne
        | cons b bs => simp
      have hC' : C.headD 0 ∈ C := by
        cases C with
        | nil => exact absurd rfl hCne
        | cons c cs => simp
      rw [hCB] at hC'
      have := h.disj B (List.mem_cons_self ..) C (List.mem_cons_of_mem _ hC) _ hB hC'
      exact hn.1 (this ▸ hC)
    · apply TInv.heads_nodup (P := P)
      exact ⟨fun X hX Y hY => h.disj X (List.mem_cons_of_mem _ hX) Y (List.mem_cons_of_mem _ hY),
        fun X hX => h.ne X (List.mem_cons_of_mem _ hX),
        fun X hX => h.sub X (List.mem_cons_of_mem _ hX), hn.2⟩

theorem TInv.length_le {a : Auto} {P : List Block} (h : TInv a P) :
    P.length ≤ (allStates a).length := by
  have := List.Nodup.length_le_of_subset h.heads_nodup (l₂ := allStates a) (by
    intro x hx
    obtain ⟨B, hB, rfl⟩ := List.mem_map.1 hx
    have hBne := h.ne B hB
    apply h.sub B hB
    cases B with
    | nil => exact absurd rfl hBne
    | cons b bs => simp)
  simpa using this

/-! ### 2. One split: one more block, at most one more work-list entry -/

theorem length_filter_ne_lt {y : Block} : ∀ {l : List Block}, y ∈ l →
    (l.filter (· != y)).length + 1 ≤ l.length
  | [], h => by simp at h
  | z :: l, h => by
    by_cases hz : z = y
    · subst hz
      have := List.length_filter_le (· != z) l
      simp only [List.filter_cons, bne_self_eq_false, Bool.false_eq_true, if_false,
        List.length_cons]
      omega
    · have hm : y ∈ l := by
        rcases List.mem_cons.1 h with rfl | h
        · exact absurd rfl hz
        · exact h
      have := length_filter_ne_lt hm
      have hz' : (z != y) = true := by simpa using hz
      simp only [List.filter_cons, hz', if_true, List.length_cons]
      omega

theorem length_filter_ne_eq {y : Block} : ∀ {l : List Block}, l.Nodup → y ∈ l →
    (l.filter (· != y)).length + 1 = l.length
  | [], _, h => by simp at h
  | z :: l, hn, h => by
    have hn' := List.nodup_cons.1 hn
    by_cases hz : z = y
    · subst hz
      have : l.filter (· != z) = l := by
        rw [List.filter_eq_self]
        intro b hb
        have : b ≠ z := fun e => hn'.1 (e ▸ hb)
        simpa using this
      simp only [List.filter_cons, bne_self_eq_false, Bool.false_eq_true, if_false,
        List.length_cons, this]
    · have hm : y ∈ l := by
        rcases List.mem_cons.1 h with rfl | h
        · exact absurd rfl hz
        · exact h
      have := length_filter_ne_eq hn'.2 hm
      have hz' : (z != y) = true := by simpa using hz
      simp only [List.filter_cons, hz', if_true, List.length_cons]
      omega

theorem splitWork_length (W : List Block) (y y1 y2 : Block) :
    (splitWork W y y1 y2).length ≤ W.length + 1 := by
  unfold splitWork
  split
  · rename_i hc
    have hy : y ∈ W := by simpa using hc
    have := length_filter_ne_lt hy
    simp only [List.length_append, List.length_cons, List.length_nil]
    omega
  · split <;> simp

theorem splitParts_length {P : List Block} {y : Block} (y1 y2 : Block) (hn : P.Nodup)
    (hy : y ∈ P) : (splitParts P y y1 y2).length = P.length + 1 := by
  unfold splitParts
  have := length_filter_ne_eq hn hy
  simp only [List.length_append, List.length_cons, List.length_nil]
  omega

theorem split_TInv {a : Auto} {P : List Block} {y x : Block} (h : TInv a P) (hy : y ∈ P)
    (h1 : inter y x ≠ []) (h2 : diff y (inter y x) ≠ []) :
    TInv a (splitParts P y (inter y x) (diff y (inter y x))) := by
  have hsub1 : ∀ u ∈ inter y x, u ∈ y := fun u hu => (mem_inter.1 hu).1
  have hsub2 : ∀ u ∈ diff y (inter y x), u ∈ y := fun u hu => (mem_diff.1 hu).1
  have hdj : ∀ u, u ∈ inter y x → u ∈ diff y (inter y x) → False :=
    fun u h1 h2 => (mem_diff.1 h2).2 h1
  -- a block of the old partition that contains a state of `y` is `y`
  have hold : ∀ B ∈ P, ∀ u, u ∈ B → u ∈ y → B = y := fun B hB u hu hu' => h.disj B hB y hy u hu hu'
  obtain ⟨u1, hu1⟩ := List.exists_mem_of_ne_nil _ h1
  obtain ⟨u2, hu2⟩ := List.exists_mem_of_ne_nil _ h2
  refine ⟨?_, ?_, ?_, ?_⟩
  · intro B hB C hC x hxB hxC
    rcases mem_splitParts.1 hB with ⟨hBP, hBy⟩ | rfl | rfl <;>
      rcases mem_splitParts.1 hC with ⟨hCP, hCy⟩ | rfl | rfl
    · exact h.disj B hBP C hCP x hxB hxC
    · exact absurd (hold B hBP x hxB (hsub1 x hxC)) hBy
    · exact absurd (hold B hBP x hxB (hsub2 x hxC)) hBy
    · exact absurd (hold C hCP x hxC (hsub1 x hxB)) hCy
    · rfl
    · exact (hdj x hxB hxC).elim
    · exact absurd (hold C hCP x hxC (hsub2 x hxB)) hCy
    · exact (hdj x hxC hxB).elim
    · rfl
  · intro B hB
    rcases mem_splitParts.1 hB with ⟨hBP, _⟩ | rfl | rfl
    · exact h.ne B hBP
    · exact h1
    · exact h2
  · intro B hB u hu
    rcases mem_splitParts.1 hB with ⟨hBP, _⟩ | rfl | rfl
    · exact h.sub B hBP u hu
    · exact h.sub y hy u (hsub1 u hu)
    · exact h.sub y hy u (hsub2 u hu)
  · unfold splitParts
    rw [List.nodup_append]
    refine ⟨h.nodup.filter _, ?_, ?_⟩
    · rw [List.nodup_cons]
      refine ⟨?_, by simp⟩
      intro hm
      have : inter y x = diff y (inter y x) := by simpa using hm
      exact hdj u1 hu1 (this ▸ hu1)
    · intro B hB C hC hBC
      subst hBC
      have hB' := List.mem_filter.1 hB
      have hBy : B ≠ y := by simpa using hB'.2
      rcases List.mem_cons.1 hC with rfl | hC
      · exact hBy (hold _ hB'.1 u1 hu1 (hsub1 u1 hu1))
      · have : B = diff y (inter y x) := by simpa using hC
        subst this
        exact hBy (hold _ hB'.1 u2 hu2 (hsub2 u2 hu2))

/-! ### 3. `splitAll` and the fold over the inputs: the work-list grows no more than the partition -/

/-- `st'` comes from `st` by splits: the counting invariant holds, and the work-list has grown by
no more than the partition -/
def Grows (a : Auto) (st st' : HState) : Prop :=
  TInv a st'.parts ∧ st'.work.length + st.parts.length ≤ st.work.length + st'.parts.length

theorem Grows.refl {a : Auto} {st : HState} (h : TInv a st.parts) : Grows a st st :=
  ⟨h, Nat.le_refl _⟩

theorem Grows.trans {a : Auto} {s1 s2 s3 : HState} (h12 : Grows a s1 s2) (h23 : Grows a s2 s3) :
    Grows a s1 s3 := by
  refine ⟨h23.1, ?_⟩
  have := h12.2
  have := h23.2
  omega

theorem splitAll_grows {a : Auto} (x : Block) :
    ∀ (ys : List Block) (st : HState), TInv a st.parts → Grows a st (splitAll x ys st) := by
  intro ys
  induction ys with
  | nil => intro st h; simpa [splitAll] using Grows.refl h
  | cons y rest ih =>
    intro st h
    rw [splitAll_cons]
    split
    · exact ih st h
    · rename_i hy
      have hy : y ∈ st.parts := by simpa using hy
      split
      · exact ih st h
      · rename_i he
        have he : inter y x ≠ [] ∧ diff y (inter y x) ≠ [] := by simpa using he
        have hT := split_TInv h hy he.1 he.2
        refine Grows.trans ⟨hT, ?_⟩ (ih _ hT)
        have h1 := splitParts_length (inter y x) (diff y (inter y x)) h.nodup hy
        have h2 := splitWork_length st.work y (inter y x) (diff y (inter y x))
        simp only
        omega

theorem foldBody_grows {a : Auto} (froms g : Block) (st : HState) (i : Nat)
    (h : TInv a st.parts) : Grows a st (foldBody a froms g st i) := by
  unfold foldBody
  simp only
  split
  · exact Grows.refl h
  · exact splitAll_grows _ _ _ h

theorem fold_grows {a : Auto} (froms g : Block) :
    ∀ (is : List Nat) (st : HState), TInv a st.parts →
      Grows a st (is.foldl (foldBody a froms g) st) := by
  intro is
  induction is with
  | nil => intro st h; exact Grows.refl h
  | cons i rest ih =>
    intro st h
    rw [List.foldl_cons]
    have h1 := foldBody_grows froms g st i h
    exact h1.trans (ih _ h1.1)

/-! ### 4. The loop returns when the fuel is at least `work.length + (N - parts.length)` -/

theorem length_removeNth {α} : ∀ {l : List α} {k : Nat}, k < l.length →
    (removeNth l k).length + 1 = l.length
  | [], _, h => by simp at h
  | _ :: _, 0, _ => by simp [removeNth]
  | _ :: xs, k + 1, h => by
    have := length_removeNth (l := xs) (k := k) (by simpa using h)
    simp only [removeNth, List.length_cons]
    omega

theorem refineLoop_isSome {σ : Schedule} {a : Auto} {froms : Block} {n : Nat} :
    ∀ (fuel step : Nat) (st : HState), TInv a st.parts →
      st.work.length + (allStates a).length ≤ fuel + st.parts.length →
      (refineLoop σ a froms n fuel step st).isSome = true := by
  intro fuel
  induction fuel with
  | zero =>
    intro step st h hf
    have := h.length_le
    have hw : st.work = [] := List.eq_nil_of_length_eq_zero (by omega)
    simp [refineLoop, hw]
  | succ fuel ih =>
    intro step st h hf
    rw [refineLoop]
    split
    · rfl
    · rename_i he
      have hpos : 0 < st.work.length := by
        cases hw : st.work with
        | nil => simp [hw] at he
        | cons _ _ => simp
      have hk : σ step st.work.length % st.work.length < st.work.length := Nat.mod_lt _ hpos
      simp only
      split
      · rename_i hnone
        rw [List.getElem?_eq_none_iff] at hnone
        omega
      · rename_i g hg
        have hg' := fold_grows (a := a) froms g (List.range n)
          { st with work := removeNth st.work (σ step st.work.length % st.work.length) } h
        apply ih _ _ hg'.1
        have h1 := hg'.2
        have h2 := length_removeNth hk
        have h3 := hg'.1.length_le
        simp only at h1
        omega

/-! ### 5. The initial partition; `partition` and `minimize` always return -/

theorem initParts_TInv {a : Auto} (hwf : WF a) : TInv a (initParts a) := by
  have h0 : 0 ∉ a.acc := hwf.zero_not_acc
  have hP := initParts_PInv h0
  have mA : ∀ x, x ∈ normSet a.acc ↔ x ∈ a.acc := fun x => mem_normSet
  have mN : ∀ x, x ∈ diff (diff (allStates a) (normSet a.acc)) [0] ↔
      x ∈ allStates a ∧ x ∉ a.acc ∧ x ≠ 0 := by
    intro x; simp only [mem_diff, mA, List.mem_singleton, and_assoc]
  refine ⟨hP.disj, fun B hB => (mem_initParts.1 hB).1, ?_, ?_⟩
  · intro B hB x hx
    rcases (mem_initParts.1 hB).2 with rfl | rfl | rfl
    · have : x = 0 := by simpa using hx
      exact mem_allStates.2 (.inl this)
    · exact mem_allStates.2 (.inr (hwf.acc_states x ((mA x).1 hx)))
    · exact ((mN x).1 hx).1
  · have hpw : List.Pairwise (fun B C : Block => B ≠ [] → C ≠ [] → B ≠ C)
        [[0], normSet a.acc, diff (diff (allStates a) (normSet a.acc)) [0]] := by
      refine List.Pairwise.cons ?_ (List.Pairwise.cons ?_ (List.Pairwise.cons ?_ List.Pairwise.nil))
      · intro C hC _ hCne e
        subst e
        rcases List.mem_cons.1 hC with e | hC
        · exact h0 ((mA 0).1 (e ▸ List.mem_singleton_self 0))
        · have e : [0] = diff (diff (allStates a) (normSet a.acc)) [0] := by simpa using hC
          exact ((mN 0).1 (e ▸ List.mem_singleton_self 0)).2.2 rfl
      · intro C hC hne _ e
        subst e
        have e : normSet a.acc = diff (diff (allStates a) (normSet a.acc)) [0] := by simpa using hC
        obtain ⟨u, hu⟩ := List.exists_mem_of_ne_nil _ hne
        exact ((mN u).1 (e ▸ hu)).2.1 ((mA u).1 hu)
      · intro C hC; simp at hC
    unfold initParts
    refine (hpw.filter _).imp_of_mem ?_
    intro B C hB hC hBC
    have hB := (List.mem_filter.1 hB).2
    have hC := (List.mem_filter.1 hC).2
    exact hBC (by simpa using hB) (by simpa using hC)

/-- the fuel `2 * n * n + 2` of `partition` always suffices: for every work-list schedule the
refinement loop ends with an empty work-list -/
theorem partition_isSome (σ : Schedule) (a : Auto) (hwf : WF a) :
    (partition σ a).isSome = true := by
  unfold partition
  simp only [Option.isSome_map]
  have hT : TInv a (initParts a) := initParts_TInv hwf
  apply refineLoop_isSome (st := { parts := initParts a, work := initParts a }) _ _ hT
  have : (allStates a).length ≤ (allStates a).length * (allStates a).length := by
    cases (allStates a).length with
    | zero => exact Nat.le_refl _
    | succ m => exact Nat.le_mul_of_pos_left _ (Nat.succ_pos m)
  have h2 : 2 * (allStates a).length * (allStates a).length
      = 2 * ((allStates a).length * (allStates a).length) := Nat.mul_assoc ..
  simp only
  omega

/-- `minimize` returns an automaton for every well-formed automaton and every schedule -/
theorem minimize_isSome (σ : Schedule) (a : Auto) (hwf : WF a) :
    (minimize σ a).isSome = true := by
  rw [minimize_eq, Option.isSome_map]
  exact partition_isSome σ a hwf

end Complgen.Min
